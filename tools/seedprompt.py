#!/usr/bin/env python3
"""Generates the task text for the independent seeding sub-agents of one wave.

  tools/seedprompt.py <wave-number> <label1> <label2> <flavour-file> [ID ...]

Writes /tmp/seed-out<wave>/<ID>.prompt.txt. A seeder gets the property text
only (statement, quantifier, anchored files, entry points), the list of what
earlier waves already changed for that property (so it looks elsewhere), and a
scratch worktree /tmp/seed<wave>/<ID>; nothing from /verif.
"""
import glob, json, os, sys

TEMPLATE = """You are helping to evaluate a verification framework by seeding a realistic defect into a Go library. You work ONLY inside the directory {wt} (a scratch git worktree of the library gobwas/ws, a WebSocket library: packages ws (root), wsutil, wsflate) and you write your results to {out}/. Do NOT read or list /verif, /repo, /root/.vp, or any other directory under /tmp/seed*, or /tmp/seed-out* — your work must be independent of anything that exists elsewhere.

Environment for every shell command (no network is available): `export GOFLAGS=-mod=mod GOPROXY=off GOSUMDB=off GOTOOLCHAIN=local`. Run the library's test suite with `cd {wt} && go test -vet=off -count=1 ./...` (takes a few seconds).

The property that the unchanged library satisfies:

Property {pid} — {title}

Statement: {statement}

Quantified over: {quant}

Files the property is anchored in: {files}

The property is observed through these exported entry points: {observe}

Earlier rounds already seeded the following changes for this property; do NOT reuse these mechanisms or sites. This round, look for: {flavour}
{used}

Your task: produce TWO independent source changes (call them "{a}" and "{b}", touching different mechanisms/sites) to the library's non-test .go files, each of which
 1. breaks the property above (observable through the library's exported API),
 2. still compiles, and keeps the ENTIRE existing test suite green (verify by running it),
 3. needs something specific to manifest — a particular multi-step sequence of operations, an unusual but legal input, a fault or cut at a particular point, a particular chunking/interleaving, a boundary size, or two cooperating sites that each look fine alone — NOT something that any ordinary first use would expose at once,
 4. is small (typically 1–10 changed lines) and plausible as an honest slip in a refactor/optimisation (no sabotage comments, no special-casing of magic test values, no dead code that screams "bug").

For each change also write a demonstration: a Go test file named zz_seed_demo_test.go placed in the package directory it tests, using only the standard library and the library's exported API (an external test package such as `package wsutil_test` is preferred; use an internal package only if unavoidable), that FAILS with your change applied and PASSES on the unchanged tree. Verify both directions yourself (save your change with `git diff > <some file outside the worktree>`-style patch files, `git checkout -- .`, `git apply <patch>`). NEVER use `git stash`: the stash is shared by all worktrees of this repository and other people work in sibling worktrees at the same time.

Deliver, for each change x in {{{a}, {b}}}, the directory {out}/x/ containing:
 - patch.diff — output of `git diff` for the non-test source change only (it must apply with `git apply` on the unchanged tree),
 - zz_seed_demo_test.go — the demonstration test, plus a one-line file demo_path.txt with the path (relative to the repo root) where it must be placed,
 - meta.json — {{"property": "{pid}", "summary": "<what was changed>", "needs_to_manifest": "<the specific condition under which it shows>", "files_changed": [...], "verified": "<the commands you ran and what you saw: suite green with the change; demo fails with the change; demo passes without it>"}}.

When you are done leave the worktree clean (`git checkout -- . && git clean -fd` inside {wt}). Your final message: a 5–10 line summary of the two changes. If you cannot find a second change that satisfies all four conditions, deliver one and say so.
"""

def main():
    wave, a, b, flavour_file = sys.argv[1:5]
    flavour = open(flavour_file).read().strip()
    props = [json.loads(l) for l in open("/verif/properties.jsonl")]
    ids = sys.argv[5:] or [p["id"] for p in props]
    outroot = "/tmp/seed-out%s" % wave
    os.makedirs(outroot, exist_ok=True)
    for p in props:
        pid = p["id"]
        if pid not in ids:
            continue
        used = []
        for d in sorted(glob.glob("/verif/seeded/%s-*" % pid)):
            try:
                m = json.load(open(os.path.join(d, "meta.json")))
            except Exception:
                continue
            used.append(" - " + " ".join(str(m.get("summary", "")).split())[:230])
        txt = TEMPLATE.format(wt="/tmp/seed%s/%s" % (wave, pid), out="%s/%s" % (outroot, pid), pid=pid, title=p["title"],
                              statement=p["statement"], quant=p["quantifier"]["text"], files=", ".join(p["anchors"]["files"]),
                              observe="; ".join(p["anchors"]["observe_at"]), flavour=flavour, used="\n".join(used), a=a, b=b)
        open(os.path.join(outroot, pid + ".prompt.txt"), "w").write(txt)
        os.makedirs(os.path.join(outroot, pid), exist_ok=True)
    print("prompts for %d properties in %s" % (len(ids), outroot))

main()
