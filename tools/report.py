#!/usr/bin/env python3
"""Writes /verif/SENSITIVITY.md from sensitivity.jsonl (textual mutants) and seeded/*/meta.json (independent seeded changes)."""
import glob, json, os
rows = []
seen = {}
for l in open('/verif/sensitivity.jsonl'):
    try:
        r = json.loads(l)
    except Exception:
        continue
    if 'results' not in r:
        continue
    key = (r['ids'], r['file'], r['old'], r['new'])
    seen[key] = r          # last run of the same mutant wins
out = ["# Sensitivity of the checks", "",
       "Two kinds of deliberately broken trees were used (never committed to /repo): *textual mutants* written by the",
       "authors of the checks (tools/mutate.py; one replacement in a scratch copy) and *seeded changes* written by independent",
       "sub-agents that saw only the property text (tools/seedcheck.py; kept under /verif/seeded/). `suite` tells whether",
       "the repository's own 531 tests stay green on the broken tree.", "",
       "## Seeded changes (independent sub-agents)", "",
       "| seed | property | what was changed | needs to manifest | suite | caught by (tier) |", "|---|---|---|---|---|---|"]
for d in sorted(glob.glob('/verif/seeded/*/meta.json')):
    m = json.load(open(d))
    name = os.path.basename(os.path.dirname(d))
    res = "; ".join("%s %s: %s" % (p, v.get('tier', ''), {0: "MISSED", 1: "caught", 2: "inconclusive"}.get(v['exit'], v['exit'])) for p, v in sorted(m.get('checks', {}).items()))
    out.append("| %s | %s | %s | %s | green | %s |" % (name, m.get('property', ''), str(m.get('summary', '')).replace('|', '/').replace('\n', ' ')[:300], str(m.get('needs_to_manifest', '')).replace('|', '/').replace('\n', ' ')[:300], res))
out += ["", "## Textual mutants", "", "| property | mutant | file | suite | result |", "|---|---|---|---|---|"]
for key, r in sorted(seen.items(), key=lambda kv: (kv[0][0], kv[1].get('name', ''))):
    res = "; ".join("%s %s: %s (%.0fs)" % (p, r['tier'], {0: "MISSED", 1: "caught", 2: "inconclusive"}.get(v['exit'], v['exit']), v['secs']) for p, v in r['results'].items())
    suite = {True: "green", False: "RED", None: "?"}[r.get('suite_green')]
    out.append("| %s | %s | %s | %s | %s |" % (r['ids'], (r.get('name') or (r['old'][:40] + ' -> ' + r['new'][:40])).replace('|', '/').replace('\n', ' '), r['file'], suite, res))
open('/verif/SENSITIVITY.md', 'w').write("\n".join(out) + "\n")
print("SENSITIVITY.md: %d seeded, %d mutants" % (len(glob.glob('/verif/seeded/*/meta.json')), len(seen)))
