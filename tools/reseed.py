#!/usr/bin/env python3
"""Re-bases the stored seeded changes onto /repo's HEAD and re-runs the check of each.

  tools/reseed.py [--jobs N] [--only C07,C08] [--rebase-only]

For every /verif/seeded/<name>/patch.diff: if it no longer applies with `git apply`, it is
retried with patch(1) and fuzz; a patch that applies that way is rewritten as a clean diff
against HEAD (the old one is kept as patch.orig.diff). Patches that cannot be applied are
listed (the repair of a defect rewrote their site) and skipped. Then tools/seedcheck.py is
run for every applicable seed against the check(s) recorded as having caught it (or its own
property), N at a time, and the outcome is printed: a seed that was CAUGHT before and is
MISSED now is a regression of the check.
"""
import glob, json, os, shutil, subprocess, sys, tempfile
from concurrent.futures import ThreadPoolExecutor

def sh(cmd, cwd=None, inp=None):
    p = subprocess.run(cmd, cwd=cwd, input=inp, stdout=subprocess.PIPE, stderr=subprocess.STDOUT, text=True, errors="replace")
    return p.returncode, p.stdout

def rebase(d):
    patch = os.path.join(d, "patch.diff")
    rc, _ = sh(["git", "-C", "/repo", "apply", "--check", patch])
    if rc == 0:
        return "applies"
    tmp = tempfile.mkdtemp(prefix="ws-rb-")
    try:
        subprocess.check_call(["rsync", "-a", "--exclude", ".git", "/repo/", tmp + "/"])
        sh(["git", "init", "-q"], tmp); sh(["git", "add", "-A"], tmp)
        sh(["git", "-c", "user.email=a@b", "-c", "user.name=x", "commit", "-qm", "base"], tmp)
        rc, out = sh(["patch", "-p1", "--fuzz=3", "--no-backup-if-mismatch", "-i", patch], tmp)
        if rc != 0:
            return "conflict"
        env = dict(os.environ, GOFLAGS="-mod=mod", GOPROXY="off", GOSUMDB="off", GOTOOLCHAIN="local")
        if subprocess.run(["go", "build", "./..."], cwd=tmp, env=env, stdout=subprocess.DEVNULL, stderr=subprocess.DEVNULL).returncode != 0:
            return "conflict"
        for f in glob.glob(tmp + "/**/*.orig", recursive=True) + glob.glob(tmp + "/**/*.rej", recursive=True):
            os.remove(f)
        rc, diff = sh(["git", "diff"], tmp)
        if not diff.strip():
            return "conflict"
        shutil.copy(patch, os.path.join(d, "patch.orig.diff"))
        open(patch, "w").write(diff)
        return "rebased"
    finally:
        shutil.rmtree(tmp, ignore_errors=True)

def main():
    jobs, only, rebase_only = 4, None, False
    a = sys.argv[1:]
    while a:
        x = a.pop(0)
        if x == "--jobs": jobs = int(a.pop(0))
        elif x == "--only": only = a.pop(0).split(",")
        elif x == "--rebase-only": rebase_only = True
    seeds = sorted(glob.glob("/verif/seeded/*/"))
    todo, stats = [], {"applies": 0, "rebased": 0, "conflict": 0}
    for d in seeds:
        name = os.path.basename(d.rstrip("/"))
        pid = name.split("-")[0]
        if only and pid not in only:
            continue
        if not os.path.exists(os.path.join(d, "patch.diff")) or not os.path.exists(os.path.join(d, "demo_path.txt")):
            continue
        r = rebase(d.rstrip("/"))
        stats[r] += 1
        if r == "conflict":
            print("reseed: %s does not apply to HEAD any more (skipped)" % name)
            continue
        meta = json.load(open(os.path.join(d, "meta.json")))
        caught = [k for k, v in meta.get("checks", {}).items() if v.get("exit") == 1 and v.get("tier") == "quick"]
        ids = caught or [pid]
        todo.append((d.rstrip("/"), name, ",".join(sorted(set(ids))), bool(caught)))
    print("reseed: %s" % stats)
    if rebase_only:
        return
    def run(t):
        d, name, ids, was = t
        rc, out = sh(["/verif/tools/seedcheck.py", d, name, ids, "quick"])
        lines = [l for l in out.splitlines() if l.startswith("seedcheck:")]
        return name, was, lines
    regress = []
    with ThreadPoolExecutor(jobs) as ex:
        for name, was, lines in ex.map(run, todo):
            ok = any("CAUGHT" in l for l in lines)
            rej = any("rejected" in l or "does not" in l for l in lines)
            print("reseed: %-8s %s" % (name, "; ".join(l.split("->")[-1].strip() if "->" in l else l for l in lines)[:160]))
            if was and not ok and not rej:
                regress.append(name)
    print("reseed: REGRESSIONS (caught before, missed now): %s" % (regress or "none"))

main()
