#!/usr/bin/env python3
"""Sensitivity testing: run a check against a deliberately broken scratch copy of gobwas/ws.

  tools/mutate.py <ID[,ID..]> <tier> <file> <old> <new> [--nth k] [--name label] [--skip-suite]

Copies /repo (without .git) to /tmp/ws-mut-<pid>, replaces the k-th (default: the only)
occurrence of <old> by <new> in <file>, verifies that the copy still builds and that the
repository's own test suite stays green, runs ./check <ID> <tier> with VERIF_REPO pointing at
the copy, appends the outcome to /verif/sensitivity.jsonl and removes the copy and its build output.
"""
import hashlib, json, os, shutil, subprocess, sys, time

def main():
    a = sys.argv[1:]
    nth, name, skip = None, None, False
    if "--nth" in a:
        i = a.index("--nth"); nth = int(a[i+1]); del a[i:i+2]
    if "--name" in a:
        i = a.index("--name"); name = a[i+1]; del a[i:i+2]
    if "--skip-suite" in a:
        a.remove("--skip-suite"); skip = True
    ids, tier, rel, old, new = a
    dst = "/tmp/ws-mut-%d" % os.getpid()
    shutil.rmtree(dst, ignore_errors=True)
    subprocess.check_call(["rsync", "-a", "--exclude", ".git", "/repo/", dst + "/"])
    env = dict(os.environ, GOFLAGS="-mod=mod", GOPROXY="off", GOSUMDB="off", GOTOOLCHAIN="local")
    rec = {"ids": ids, "tier": tier, "file": rel, "old": old, "new": new, "name": name or "", "at": time.strftime("%Y-%m-%dT%H:%M:%S")}
    try:
        p = os.path.join(dst, rel)
        src = open(p).read()
        cnt = src.count(old)
        if cnt == 0 or (cnt > 1 and nth is None):
            print("mutate: %d occurrences of %r in %s" % (cnt, old, rel)); return 2
        k = nth or 1
        pos = -1
        for _ in range(k):
            pos = src.index(old, pos + 1)
        open(p, "w").write(src[:pos] + new + src[pos+len(old):])
        b = subprocess.run(["go", "build", "./..."], cwd=dst, env=env, stdout=subprocess.PIPE, stderr=subprocess.STDOUT, text=True, errors="replace")
        if b.returncode != 0:
            print("mutate: mutant does not build\n" + b.stdout[-2000:]); return 2
        if not skip:
            t = subprocess.run(["go", "test", "-vet=off", "-count=1", "./..."], cwd=dst, env=env, stdout=subprocess.PIPE, stderr=subprocess.STDOUT, text=True, errors="replace")
            rec["suite_green"] = t.returncode == 0
            if t.returncode != 0:
                print("mutate: NOTE: the repository's own suite fails on this mutant:\n" + "\n".join(l for l in t.stdout.splitlines() if "FAIL" in l)[:1500])
        env2 = dict(os.environ, VERIF_REPO=dst)
        rec["results"] = {}
        for pid in ids.split(","):
            t0 = time.time()
            r = subprocess.run(["/verif/check", pid, tier], cwd="/verif", env=env2, stdout=subprocess.PIPE, stderr=subprocess.STDOUT, text=True, errors="replace")
            lines = [l for l in r.stdout.splitlines() if l.startswith(("VIOLATION", "KNOWN-FINDING", "check:"))]
            print("\n".join(lines[:12]))
            print("mutate: %s %s -> exit %d (%.1fs) %s" % (pid, tier, r.returncode, time.time()-t0, "CAUGHT" if r.returncode == 1 else "MISSED" if r.returncode == 0 else "INCONCLUSIVE"))
            rec["results"][pid] = {"exit": r.returncode, "secs": round(time.time()-t0, 1)}
            if r.returncode == 2:
                print(r.stdout[-3000:])
        open("/verif/sensitivity.jsonl", "a").write(json.dumps(rec) + "\n")
        return 0
    finally:
        shutil.rmtree(dst, ignore_errors=True)
        tag = hashlib.sha1(dst.encode()).hexdigest()[:10]
        shutil.rmtree("/verif/.build/w/" + tag, ignore_errors=True)

sys.exit(main())
