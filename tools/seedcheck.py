#!/usr/bin/env python3
"""Confirms a seeded change and runs checks against it.

  tools/seedcheck.py <src-dir> <seed-name> <ID[,ID...]> [tier]

<src-dir> holds patch.diff, zz_seed_demo_test.go, demo_path.txt, meta.json (as
delivered by a seeding sub-agent). Steps, all in a scratch copy of /repo under
/tmp (removed afterwards):
  1. demo on the unchanged tree          -> must pass
  2. apply patch; build; repository suite without the demo -> must stay green
  3. demo with the patch                 -> must fail
  4. ./check <ID> <tier> with VERIF_REPO -> exit 1 = caught
The confirmed seed is stored as /verif/seeded/<seed-name>/ (patch.diff, demo,
meta.json with what was run and which checks caught it).
"""
import hashlib, json, os, shutil, subprocess, sys, time

def sh(cmd, cwd, env=None, timeout=3600):
    p = subprocess.run(cmd, cwd=cwd, env=env, stdout=subprocess.PIPE, stderr=subprocess.STDOUT, text=True, errors="replace", timeout=timeout)
    return p.returncode, p.stdout

def main():
    src, name, ids = sys.argv[1:4]
    tier = sys.argv[4] if len(sys.argv) > 4 else "quick"
    env = dict(os.environ, GOFLAGS="-mod=mod", GOPROXY="off", GOSUMDB="off", GOTOOLCHAIN="local")
    dst = "/tmp/ws-seed-%d" % os.getpid()
    shutil.rmtree(dst, ignore_errors=True)
    subprocess.check_call(["rsync", "-a", "--exclude", ".git", "/repo/", dst + "/"])
    subprocess.check_call(["git", "init", "-q"], cwd=dst)
    meta = json.load(open(os.path.join(src, "meta.json")))
    demo_rel = open(os.path.join(src, "demo_path.txt")).read().strip()
    demo_dst = os.path.join(dst, demo_rel)
    pkg = "./" + os.path.dirname(demo_rel) if os.path.dirname(demo_rel) else "."
    ran = []
    ok = True
    try:
        shutil.copy(os.path.join(src, "zz_seed_demo_test.go"), demo_dst)
        rc, out = sh(["go", "test", "-vet=off", "-count=1", pkg], dst, env)
        ran.append("demo on unchanged tree: exit %d" % rc)
        if rc != 0:
            print("seedcheck: demo FAILS on the unchanged tree — rejected\n" + out[-1500:]); ok = False
        os.remove(demo_dst)
        rc, out = sh(["git", "apply", "--whitespace=nowarn", os.path.join(os.path.abspath(src), "patch.diff")], dst)
        if rc != 0:
            print("seedcheck: patch does not apply\n" + out); return 2
        rc, out = sh(["go", "build", "./..."], dst, env)
        if rc != 0:
            print("seedcheck: patched tree does not build\n" + out[-1500:]); return 2
        rc, out = sh(["go", "test", "-vet=off", "-count=1", "./..."], dst, env)
        ran.append("repository suite with the patch (without the demo): exit %d" % rc)
        if rc != 0:
            print("seedcheck: repository suite is NOT green with the patch — rejected\n" + "\n".join(l for l in out.splitlines() if "FAIL" in l)[:1500]); ok = False
        shutil.copy(os.path.join(src, "zz_seed_demo_test.go"), demo_dst)
        rc, out = sh(["go", "test", "-vet=off", "-count=1", pkg], dst, env)
        ran.append("demo with the patch: exit %d" % rc)
        if rc == 0:
            print("seedcheck: demo PASSES with the patch — rejected"); ok = False
        os.remove(demo_dst)
        results = {}
        if ok:
            env2 = dict(os.environ, VERIF_REPO=dst)
            for pid in ids.split(","):
                t0 = time.time()
                rc, out = sh(["/verif/check", pid, tier], "/verif", env2, timeout=7200)
                viol = [l for l in out.splitlines() if l.startswith("VIOLATION")]
                results[pid] = {"tier": tier, "exit": rc, "secs": round(time.time() - t0, 1), "violations": [v.split("replay=")[-1].split("/")[-1] for v in viol][:6]}
                print("seedcheck: %s %s %s -> exit %d %s (%.0fs)" % (name, pid, tier, rc, "CAUGHT" if rc == 1 else "MISSED" if rc == 0 else "INCONCLUSIVE", time.time() - t0))
                if rc == 2:
                    print(out[-2000:])
            outdir = os.path.join("/verif/seeded", name)
            os.makedirs(outdir, exist_ok=True)
            for f in ("patch.diff", "zz_seed_demo_test.go", "demo_path.txt"):
                if os.path.abspath(src) != os.path.abspath(outdir):
                    shutil.copy(os.path.join(src, f), os.path.join(outdir, f))
            prev = {}
            mp = os.path.join(outdir, "meta.json")
            if os.path.exists(mp):
                prev = json.load(open(mp)).get("checks", {})
            prev.update(results)
            meta.update({"confirmed": ran, "checks": prev, "repo_head": subprocess.check_output(["git", "-C", "/repo", "rev-parse", "--short", "HEAD"], text=True).strip()})
            json.dump(meta, open(mp, "w"), indent=1)
        return 0 if ok else 3
    finally:
        shutil.rmtree(dst, ignore_errors=True)
        shutil.rmtree("/verif/.build/w/" + hashlib.sha1(dst.encode()).hexdigest()[:10], ignore_errors=True)

sys.exit(main())
