#!/usr/bin/env python3
"""Systematic mutation sweep over gobwas/ws (sensitivity of the checks, measured - not hand-picked).

  tools/automutate.py [--max N] [--jobs K] [--files f1,f2] [--resume]

Generates first-order mutants of the non-test sources of ws, wsutil and wsflate with a small
operator set (relational / logical / arithmetic operator replacement, boundary constants +-1,
`return ..., err` -> nil, statement deletion, condition negation), one per (line, operator).
For every mutant, in a scratch copy under /tmp: build; run the repository's own suite; if the
suite stays green (the class the brief cares about) run the quick tier of every check whose
anchored files contain the mutated file, and if none of them objects, of all remaining checks.
Results go to /verif/automutants.jsonl (one line per mutant); tools/automutate.py --report
writes /verif/AUTOMUTANTS.md. Nothing is written to /repo.
"""
import glob, hashlib, json, os, re, shutil, subprocess, sys, threading, time

OUT = "/verif/automutants.jsonl"
ENV = dict(os.environ, GOFLAGS="-mod=mod", GOPROXY="off", GOSUMDB="off", GOTOOLCHAIN="local")
ROR = {" < ": " <= ", " <= ": " < ", " > ": " >= ", " >= ": " > ", " == ": " != ", " != ": " == "}
LCR = {" && ": " || ", " || ": " && "}
AOR = {" + ": " - ", " - ": " + "}
CONSTS = {"0", "1", "2", "3", "4", "8", "10", "12", "14", "16", "125", "126", "127", "65535", "65536"}


def sources():
    fs = []
    for pat in ("/repo/*.go", "/repo/wsutil/*.go", "/repo/wsflate/*.go"):
        for f in sorted(glob.glob(pat)):
            b = os.path.basename(f)
            if b.endswith("_test.go") or b in ("doc.go", "util_purego.go", "dialer_tls_go17.go", "hijack_go119.go"):
                continue  # tests, documentation, files excluded by build constraints on this toolchain
            fs.append(os.path.relpath(f, "/repo"))
    return fs


def code_part(line):
    """The line without a trailing // comment (naive, good enough: strings with // are skipped)."""
    if '"' in line and "//" in line:
        return None
    i = line.find("//")
    return line if i < 0 else line[:i]


def mutants_of(rel):
    lines = open(os.path.join("/repo", rel)).read().split("\n")
    out = []
    in_block_comment = False
    depth_const = False
    for i, line in enumerate(lines):
        s = line.strip()
        if in_block_comment:
            if "*/" in s:
                in_block_comment = False
            continue
        if s.startswith("/*"):
            in_block_comment = "*/" not in s
            continue
        if not s or s.startswith("//") or s.startswith("import") or s.startswith("package"):
            continue
        code = code_part(line)
        if code is None:
            continue
        has_str = '"' in code or "`" in code or "'" in code

        def add(op, new):
            if new != line:
                out.append({"file": rel, "line": i + 1, "op": op, "old": line, "new": new})
        for table, name in ((ROR, "ROR"), (LCR, "LCR")):
            for a, b in table.items():
                j = code.find(a)
                if j >= 0 and not has_str:
                    add(name + a.strip() + "->" + b.strip(), line[:j] + b + line[j + len(a):])
        if not has_str:
            for a, b in AOR.items():
                j = code.find(a)
                if j >= 0 and "err" not in code[:j].split("=")[-1:][0][:0]:
                    add("AOR" + a.strip() + "->" + b.strip(), line[:j] + b + line[j + len(a):])
            for m in re.finditer(r"(?<![\w.\"])(\d+)(?![\w.\"])", code):
                if m.group(1) in CONSTS and not s.startswith(("case ", "const ")) and "<<" not in code and "iota" not in code:
                    n = int(m.group(1))
                    add("CONST%d->%d" % (n, n + 1), line[:m.start(1)] + str(n + 1) + line[m.end(1):])
                    if n > 0:
                        add("CONST%d->%d" % (n, n - 1), line[:m.start(1)] + str(n - 1) + line[m.end(1):])
                    break
        m = re.match(r"^(\s*)return (.*\b)err$", code.rstrip())
        if m:
            add("RET err->nil", m.group(1) + "return " + m.group(2) + "nil")
        m = re.match(r"^(\s*)if ([^;{]+) \{\s*$", code)
        if m and not has_str and "&&" not in m.group(2) and "||" not in m.group(2) and " == " not in m.group(2) and " != " not in m.group(2):
            add("NEG", "%sif !(%s) {" % (m.group(1), m.group(2)))
        # statement deletion: simple assignments, increments and bare calls
        if re.match(r"^\s*[\w.\[\]]+(\s*,\s*[\w.\[\]]+)*\s*(=|\+=|-=|\|=|&=)\s*[^=].*$", code) and not s.endswith(("{", "(", ",")) and ":=" not in code:
            add("SDL", re.match(r"^(\s*)", line).group(1) + "// deleted")
        elif re.match(r"^\s*[\w.\[\]]+(\+\+|--)\s*$", code):
            add("SDL", re.match(r"^(\s*)", line).group(1) + "// deleted")
        elif re.match(r"^\s*[\w.]+\([^)]*\)\s*$", code) and not s.startswith(("return", "go ", "defer", "panic")):
            add("SDL", re.match(r"^(\s*)", line).group(1) + "// deleted")
    return out


def mid(m):
    return hashlib.sha1(("%s:%d:%s:%s" % (m["file"], m["line"], m["op"], m["new"])).encode()).hexdigest()[:12]


def anchored():
    props = [json.loads(l) for l in open("/verif/properties.jsonl")]
    claimed = open("/verif/harness/claimed.txt").read().split()
    by = {}
    for p in props:
        if p["id"] in claimed:
            for f in p["anchors"]["files"]:
                by.setdefault(f, []).append(p["id"])
    return by, claimed


def run_check(pid, repo):
    t0 = time.time()
    r = subprocess.run(["/verif/check", pid, "quick"], cwd="/verif", env=dict(os.environ, VERIF_REPO=repo), stdout=subprocess.PIPE, stderr=subprocess.STDOUT, text=True, errors="replace")
    return r.returncode, round(time.time() - t0, 1)


def worker(k, queue, lock, by, claimed):
    dst = "/tmp/ws-am-%d" % k
    shutil.rmtree(dst, ignore_errors=True)
    subprocess.check_call(["rsync", "-a", "--exclude", ".git", "/repo/", dst + "/"])
    try:
        while True:
            with lock:
                if not queue:
                    return
                m = queue.pop(0)
            path = os.path.join(dst, m["file"])
            orig = open(path).read()
            lines = orig.split("\n")
            assert lines[m["line"] - 1] == m["old"], (m["file"], m["line"])
            lines[m["line"] - 1] = m["new"]
            open(path, "w").write("\n".join(lines))
            rec = dict(m, id=mid(m), at=time.strftime("%Y-%m-%dT%H:%M:%S"))
            try:
                b = subprocess.run(["go", "build", "./..."], cwd=dst, env=ENV, stdout=subprocess.PIPE, stderr=subprocess.STDOUT, text=True, errors="replace")
                if b.returncode != 0:
                    rec["status"] = "no-build"
                else:
                    try:
                        t = subprocess.run(["go", "test", "-vet=off", "-count=1", "-timeout", "120s", "./..."], cwd=dst, env=ENV, stdout=subprocess.PIPE, stderr=subprocess.STDOUT, text=True, errors="replace", timeout=300)
                        green = t.returncode == 0
                    except subprocess.TimeoutExpired:
                        green = False
                    if not green:
                        rec["status"] = "suite-red"
                    else:
                        rec["status"] = "suite-green"
                        rec["checks"] = {}
                        first = by.get(m["file"], [])
                        caught = False
                        for pid in first:
                            rc, secs = run_check(pid, dst)
                            rec["checks"][pid] = rc
                            if rc == 1:
                                caught = True
                                break
                        if not caught:
                            for pid in claimed:
                                if pid in rec["checks"]:
                                    continue
                                rc, secs = run_check(pid, dst)
                                rec["checks"][pid] = rc
                                if rc == 1:
                                    caught = True
                                    break
                        rec["caught_by"] = [p for p, rc in rec["checks"].items() if rc == 1]
                        rec["inconclusive"] = [p for p, rc in rec["checks"].items() if rc == 2]
                        rec["verdict"] = "caught" if caught else ("inconclusive" if rec["inconclusive"] else "survived")
            finally:
                open(path, "w").write(orig)
            with lock:
                open(OUT, "a").write(json.dumps(rec) + "\n")
                print("%s %s:%d %s -> %s %s" % (rec["id"], m["file"], m["line"], m["op"], rec["status"], rec.get("verdict", "")), flush=True)
    finally:
        shutil.rmtree(dst, ignore_errors=True)
        shutil.rmtree("/verif/.build/w/" + hashlib.sha1(dst.encode()).hexdigest()[:10], ignore_errors=True)


def report():
    recs = [json.loads(l) for l in open(OUT)]
    by = {}
    for r in recs:
        by[r["id"]] = r
    recs = list(by.values())
    n = len(recs)
    nb = sum(r["status"] == "no-build" for r in recs)
    red = sum(r["status"] == "suite-red" for r in recs)
    green = [r for r in recs if r["status"] == "suite-green"]
    caught = [r for r in green if r["verdict"] == "caught"]
    surv = [r for r in green if r["verdict"] == "survived"]
    inc = [r for r in green if r["verdict"] == "inconclusive"]
    triage = {}
    tp = "/verif/automutants_triage.json"
    if os.path.exists(tp):
        triage = json.load(open(tp))
    L = ["# Systematic mutation sweep (tools/automutate.py)", "",
         "First-order mutants of the non-test sources of ws, wsutil and wsflate (relational, logical and arithmetic operator",
         "replacement, boundary constants +-1, `return ..., err` -> nil, statement deletion, condition negation; one per line and",
         "operator, sampled deterministically). Each mutant is built and run against the repository's own suite in a scratch copy;",
         "the suite-green ones - the changes the existing tests cannot see - are run against the quick tier of the checks.", "",
         "| mutants | do not build | killed by the repository's suite | suite-green | of these: caught by a check | inconclusive | survived |",
         "|---|---|---|---|---|---|---|",
         "| %d | %d | %d | %d | %d | %d | %d |" % (n, nb, red, len(green), len(caught), len(inc), len(surv)), ""]
    if green:
        tc = {}
        for r in surv + inc:
            c = triage.get(r["id"], {}).get("class", "untriaged")
            tc[c] = tc.get(c, 0) + 1
        L.append("Check-level kill rate on suite-green mutants: %.1f%% (%d of %d). Triage of the %d mutants no check objects to (classes: equivalent = no observable difference through the exported API for any input; outside = observable, but no listed property speaks about it; harness = the mutant makes a harness package fail to build or loop until its time limit; untriaged): %s. Counting only non-equivalent, in-scope mutants the kill rate is %d of %d." % (
            100.0 * len(caught) / len(green), len(caught), len(green), len(surv) + len(inc),
            ", ".join("%s %d" % kv for kv in sorted(tc.items())), len(caught), len(caught) + tc.get("untriaged", 0) + tc.get("gap-closed", 0)))
        L.append("")
        L.append("The first pass of the sweep (before the checks were extended for what it found) left 83 such mutants; the ones that were real gaps - an exported constant, the all-zero masking key, a swallowed send-extension error, CompressFrame of an already compressed frame, a UTF-8 table entry, ReadFrom never giving up - are listed in `automutants_triage.json` as *gap-closed* and were re-run afterwards (they appear above as caught).")
        L.append("")
    cb = {}
    for r in caught:
        for p in r["caught_by"]:
            cb[p] = cb.get(p, 0) + 1
    L.append("Caught by (first check that objected): " + ", ".join("%s %d" % (p, c) for p, c in sorted(cb.items())))
    L += ["", "## Survivors", "", "| id | site | operator | mutated line | triage |", "|---|---|---|---|---|"]
    for r in sorted(surv, key=lambda r: (r["file"], r["line"])):
        t = triage.get(r["id"], {})
        L.append("| %s | %s:%d | %s | `%s` | %s |" % (r["id"], r["file"], r["line"], r["op"], r["new"].strip().replace("|", "\\|")[:90], (t.get("class", "") + ": " + t.get("why", "")) if t else ""))
    if inc:
        L += ["", "## Inconclusive", ""]
        for r in inc:
            L.append("* %s %s:%d %s - %s" % (r["id"], r["file"], r["line"], r["op"], ",".join(r["inconclusive"])))
    open("/verif/AUTOMUTANTS.md", "w").write("\n".join(L) + "\n")
    print("\n".join(L[7:12]))


def main():
    a = sys.argv[1:]
    if "--report" in a:
        return report()
    mx = int(a[a.index("--max") + 1]) if "--max" in a else 600
    jobs = int(a[a.index("--jobs") + 1]) if "--jobs" in a else 4
    files = a[a.index("--files") + 1].split(",") if "--files" in a else sources()
    ms = []
    for f in files:
        ms += mutants_of(f)
    # deterministic sample: order by hash of the mutant id
    ms.sort(key=lambda m: mid(m))
    done = set()
    if os.path.exists(OUT):
        for l in open(OUT):
            try:
                done.add(json.loads(l)["id"])
            except Exception:
                pass
    ms = [m for m in ms[:mx] if mid(m) not in done]
    print("automutate: %d mutants to run (%d generated, %d done before)" % (len(ms), mx, len(done)), flush=True)
    by, claimed = anchored()
    lock = threading.Lock()
    ts = [threading.Thread(target=worker, args=(k, ms, lock, by, claimed)) for k in range(jobs)]
    for t in ts:
        t.start()
    for t in ts:
        t.join()
    report()


main()
