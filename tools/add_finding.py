#!/usr/bin/env python3
"""Adds (or updates) an entry of /verif/known_findings.json under a file lock.
   add_finding.py known|fixed <property> <sig> <what> [commit]"""
import fcntl, json, sys
status, prop, sig, what = sys.argv[1:5]
commit = sys.argv[5] if len(sys.argv) > 5 else ""
path = "/verif/known_findings.json"
with open(path, "r+") as f:
    fcntl.flock(f, fcntl.LOCK_EX)
    doc = json.load(f)
    doc["findings"] = [x for x in doc["findings"] if x["sig"] != sig]
    e = {"status": status, "property": prop, "sig": sig, "what": what}
    if commit:
        e["commit"] = commit
    e["line"] = ("fixed: property=%s %s %s" % (prop, commit, what)) if status == "fixed" else ("known: property=%s %s" % (prop, what))
    doc["findings"].append(e)
    f.seek(0); f.truncate(); json.dump(doc, f, indent=1)
print("ok", sig)
