package c04

import (
	"testing"

	"github.com/gobwas/ws"

	"verif/harness/ref"
)

// FuzzValidStream lets the coverage-guided fuzzer write the wire bytes; the
// bytes are parsed into frames with the reference codec and REPAIRED into a
// valid conversation (opcode forced by the fragmentation state, control frames
// made final and cut to 125 bytes, reserved bits cleared, mask bit per side,
// text made ASCII, an open message closed by an empty final continuation), so
// every input is in the domain of the property; the scenario then runs through
// the same entry points and oracles as the rapid tests. What it adds is
// frame-sequence shapes picked by coverage feedback instead of the generator's
// message/fragment/control grammar.
func FuzzValidStream(f *testing.F) {
	f.Add([]byte{0, 0, 0, 0x81, 0x02, 'h', 'i'})
	f.Add([]byte{1, 1, 1, 0x01, 0x01, 'a', 0x89, 0x01, 'p', 0x80, 0x01, 'b'})
	f.Add([]byte{2, 2, 2, 0x02, 0x00, 0x00, 0x00, 0x8a, 0x00, 0x80, 0x03, 1, 2, 3, 0x82, 0x7e, 0x00, 0x7e})
	f.Add([]byte{3, 7, 3, 0x01, 0x03, 'a', 'b', 'c', 0x00, 0x02, 'd', 'e', 0x89, 0x02, 1, 2, 0x80, 0x00, 0x82, 0x01, 9})
	f.Add([]byte{4, 0x13, 0, 0x82, 0x05, 1, 2, 3, 4, 5, 0x81, 0x00})
	f.Add([]byte{5, 0x2b, 1, 0x01, 0x04, 'w', 'x', 'y', 'z', 0x8a, 0x03, 7, 7, 7, 0x80, 0x02, 'o', 'k'})
	entries := []string{"Reader", "NextReader", "ReadMessage", "ReadClientMessage", "ReadServerMessage", "ReadData"}
	for _, e := range dataEntries {
		entries = append(entries, e.name)
	}
	f.Fuzz(func(t *testing.T, data []byte) {
		if len(data) < 3 || len(data) > 4096 {
			return
		}
		var s scenario
		s.Entry = entries[int(data[0])%len(entries)]
		masked := data[1]&1 != 0
		s.State = ws.StateClientSide
		if masked {
			s.State = ws.StateServerSide
		}
		s.Want = ws.OpText | ws.OpBinary
		switch s.Entry {
		case "Reader", "NextReader", "ReadMessage":
			if data[1]&2 != 0 {
				s.State = 0 // no side: the reader takes either masking
			}
		case "ReadClientMessage":
			s.State, masked = ws.StateServerSide, true
		case "ReadServerMessage":
			s.State, masked = ws.StateClientSide, false
		}
		for _, e := range dataEntries {
			if e.name == s.Entry {
				s.State, masked, s.Want = e.state, e.masked, e.want
			}
		}
		s.UTF8 = data[1]&4 != 0
		s.Partial = data[1]&8 != 0
		s.EOFData = data[1]&0x10 != 0
		s.Reuse = data[1]&0x20 != 0
		s.Ctor = int(data[1]>>6) % 3
		switch data[2] & 7 {
		case 1:
			s.Chunks = []int{1}
		case 2:
			s.Chunks = []int{2, 1, 5}
		case 3:
			s.Chunks = []int{7}
		case 4:
			s.Chunks = []int{1, 13}
		}
		s.BufSize = []int{0, 1, 3, 64}[(data[2]>>3)&3]
		if data[2]&0x20 != 0 {
			s.ContRead = []int{1, 2, 3, 1000}[int(data[2]>>6)]
		}
		raw, _, _ := ref.ParseFrames(data[3:])
		var fs []ref.Frame
		frag := false
		textMsg := false
		for _, fr := range raw {
			h := ref.Header{Fin: fr.H.Fin, Masked: masked, Mask: fr.H.Mask}
			if masked && !fr.H.Masked {
				h.Mask = [4]byte{0x11, byte(len(fs)), 0x5a, 0xc3}
			}
			p := fr.Payload
			op := fr.H.Op & 0xf
			if op >= 8 {
				h.Op, h.Fin = ref.OpPing, true
				if op == ref.OpPong {
					h.Op = ref.OpPong
				}
				if len(p) > 125 {
					p = p[:125]
				}
			} else {
				switch {
				case frag:
					h.Op = ref.OpCont
				case op == ref.OpText:
					h.Op, textMsg = ref.OpText, true
				default:
					h.Op, textMsg = ref.OpBinary, false
				}
				if textMsg {
					q := make([]byte, len(p))
					for i := range p {
						q[i] = p[i] & 0x7f
					}
					p = q
				}
				frag = !h.Fin
			}
			fs = append(fs, ref.Frame{H: h, Payload: p})
		}
		if frag {
			fs = append(fs, ref.Frame{H: ref.Header{Fin: true, Op: ref.OpCont, Masked: masked, Mask: [4]byte{1, 2, 3, 4}}})
		}
		if len(fs) == 0 {
			return
		}
		if idx, broken, open := ref.Validate(fs, sideOf(s.State), false); idx >= 0 || open {
			t.Fatalf("harness: repaired stream is not a valid conversation: frame %d breaks %v, open=%v", idx, broken, open)
		}
		s.Frames = fs
		for _, e := range ref.Events(fs) {
			if e.Kind == "msg" {
				s.Discards = append(s.Discards, -1)
			}
		}
		if err := run(s); err != nil {
			t.Fatalf("%v\nscenario: %+v", err, s.describe())
		}
	})
}

func sideOf(st ws.State) ref.Side {
	switch {
	case st.ServerSide():
		return ref.SideServer
	case st.ClientSide():
		return ref.SideClient
	}
	return ref.SideNone
}
