// C04 — the message reader reassembles every valid frame stream exactly,
// under any transport chunking and caller buffer size.
package c04

import (
	"bytes"
	"errors"
	"fmt"
	"io"
	"testing"

	"github.com/gobwas/ws"
	"github.com/gobwas/ws/wsutil"
	"pgregory.net/rapid"

	"verif/harness/gen"
	"verif/harness/hx"
	"verif/harness/ref"
	"verif/harness/tx"
)

func TestMain(m *testing.M) { hx.Main(m, "C04") }

// ---------------------------------------------------------------------------
// scenario

type scenario struct {
	Frames   []ref.Frame
	State    ws.State
	Chunks   []int
	EOFData  bool
	BufSize  int // caller buffer size for Read loops; 0 = large
	Entry    string
	UTF8     bool
	Partial  bool  // intermediate callback reads only part of the control payload
	Discards []int // per data message: -1 read fully, otherwise bytes to read before Discard()
	Want     ws.OpCode
	Reuse    bool
	// Stalls: frame-start offsets at which the transport returns one (0, transient error) before
	// serving the frame (a read deadline firing between frames); the caller retries. Reader entry only.
	Stalls []int
	// Limit: Reader.MaxFrameSize; generated as exactly the largest frame payload of the stream (or more), so
	// that a valid stream stays acceptable: a frame AT the limit is not over it.
	Limit int64
	// Idles: stream offsets (anywhere) at which the transport returns one (0, nil) read. All entries.
	Idles []int
	// ZeroBuf: the Read loops of the harness issue a zero-length Read before every real one (it must be a no-op).
	ZeroBuf bool
	// SkipCheck: Reader.SkipHeaderCheck - a valid stream reads the same with the check off.
	SkipCheck bool
	// SkipEmpty: the caller does not call Read at all for an unfragmented frame whose header announces no
	// payload (it has the whole message already) and goes straight to the next NextFrame. Reader entry only.
	SkipEmpty bool
	Ctor      int // 0 struct literal, 1 NewReader, 2 NewClientSideReader/NewServerSideReader
	// ContRead: the OnContinuation callback reads this many bytes (at most) of every
	// continuation body; they are consumed by the callback, the rest is delivered by Read.
	ContRead int
}

func (s scenario) describe() interface{} {
	return map[string]interface{}{
		"entry": s.Entry, "state": int(s.State), "chunks": s.Chunks, "eof_with_data": s.EOFData,
		"bufsize": s.BufSize, "frames": ref.Describe(s.Frames), "discards": s.Discards, "want": int(s.Want), "oncontinuation_reads": s.ContRead, "ctor": s.Ctor, "stall_at_frame_starts": s.Stalls, "max_frame_size": s.Limit,
		"idle_reads_at": s.Idles, "zero_length_reads": s.ZeroBuf, "skip_header_check": s.SkipCheck, "no_read_for_empty_frames": s.SkipEmpty,
	}
}

func (s scenario) src() *tx.Src {
	src := tx.NewSrc(ref.EncodeAll(s.Frames), s.Chunks)
	src.EOFWithData = s.EOFData
	if len(s.Stalls) > 0 {
		src.StallAt = map[int]bool{}
		for _, off := range s.Stalls {
			src.StallAt[off] = true
		}
	}
	if len(s.Idles) > 0 {
		src.IdleAt = map[int]bool{}
		for _, off := range s.Idles {
			src.IdleAt[off] = true
		}
	}
	return src
}

func (s scenario) note() {
	multi, spicy := false, false
	evs := ref.Events(s.Frames)
	for _, e := range evs {
		if e.Kind == "msg" && e.Fragments >= 2 {
			multi = true
			for i := e.First; i <= e.At; i++ {
				f := s.Frames[i]
				if ref.IsControl(f.H.Op) || len(f.Payload) == 0 {
					spicy = true
				}
			}
		}
	}
	hx.Class(fmt.Sprintf("%s/frag=%v/ctl-or-empty=%v/smallchunk=%v", s.Entry, multi, spicy, gen.SmallChunk(s.Chunks)))
	if multi && spicy && gen.SmallChunk(s.Chunks) {
		hx.NonTrivial(hx.Hash(ref.Shape(s.Frames), gen.ChunkClass(s.Chunks), s.Entry, int(s.State), s.BufSize), s.describe)
	}
}

// readAll reads r to io.EOF with a caller buffer of the given size,
// tolerating a bounded number of (0, nil) reads.
func readAll(r io.Reader, bufSize, maxIdle int, zero ...bool) ([]byte, error) {
	if bufSize <= 0 {
		bufSize = 4096
	}
	buf := make([]byte, bufSize)
	var out []byte
	idle := 0
	for {
		if len(zero) > 0 && zero[0] {
			// a zero-length Read is a no-op wherever it falls (it may report the end once everything was delivered)
			n0, err0 := r.Read(buf[:0])
			if n0 != 0 {
				return out, fmt.Errorf("a zero-length Read returned n=%d", n0)
			}
			if err0 == io.EOF {
				return out, nil
			}
			if err0 != nil && err0 != tx.ErrTransient {
				return out, fmt.Errorf("a zero-length Read after %d delivered bytes returned %v", len(out), err0)
			}
		}
		n, err := r.Read(buf)
		out = append(out, buf[:n]...)
		if err == tx.ErrTransient && n == 0 {
			continue // nothing was consumed: the caller retries (only generated at frame starts)
		}
		if err == io.EOF {
			return out, nil
		}
		if err != nil {
			return out, err
		}
		if n == 0 {
			idle++
			if idle > maxIdle {
				return out, fmt.Errorf("harness: %d consecutive (0, nil) reads", idle)
			}
		} else {
			idle = 0
		}
	}
}

func wantHeader(h ref.Header) ws.Header {
	return ws.Header{Fin: h.Fin, Rsv: h.Rsv, OpCode: ws.OpCode(h.Op), Masked: h.Masked, Mask: h.Mask, Length: h.Length}
}

func sameHeader(a, b ws.Header) bool {
	if !a.Masked {
		a.Mask, b.Mask = [4]byte{}, [4]byte{}
	}
	return a == b
}

// ---------------------------------------------------------------------------
// entry point 1: one wsutil.Reader for the whole conversation

type seen struct {
	kind    string
	op      byte
	payload []byte
}

func (s seen) String() string {
	return ref.Event{Kind: s.kind, Op: s.op, Payload: s.payload}.String()
}

// newReader builds the Reader through one of the documented ways: the struct
// literal, NewReader, or the side-specific constructor when the state is
// exactly that side. They must be interchangeable.
func newReader(src io.Reader, s scenario) *wsutil.Reader {
	var rd *wsutil.Reader
	switch {
	case s.Ctor == 1:
		rd = wsutil.NewReader(src, s.State)
	case s.Ctor == 2 && s.State == ws.StateClientSide:
		rd = wsutil.NewClientSideReader(src)
	case s.Ctor == 2 && s.State == ws.StateServerSide:
		rd = wsutil.NewServerSideReader(src)
	default:
		return &wsutil.Reader{Source: src, State: s.State, CheckUTF8: s.UTF8, MaxFrameSize: s.Limit, SkipHeaderCheck: s.SkipCheck}
	}
	rd.CheckUTF8 = s.UTF8
	rd.MaxFrameSize = s.Limit
	rd.SkipHeaderCheck = s.SkipCheck
	return rd
}

func runReader(s scenario) error {
	src := s.src()
	evs := ref.Events(s.Frames)
	idle := 2*len(s.Frames) + 4
	var got []seen
	var cbErr error
	rd := newReader(src, s)
	nextFrame := func() (ws.Header, error) {
		for tries := 0; ; tries++ {
			h, err := rd.NextFrame()
			if err == tx.ErrTransient && tries < 64 {
				continue
			}
			return h, err
		}
	}
	rd.OnIntermediate = func(h ws.Header, r io.Reader) error {
		var p []byte
		var err error
		if s.Partial && h.Length > 1 {
			p = make([]byte, h.Length/2)
			_, err = io.ReadFull(r, p)
		} else {
			p, err = readAll(r, s.BufSize, idle, s.ZeroBuf)
		}
		if err != nil {
			cbErr = fmt.Errorf("reading intermediate control payload: %v", err)
			return cbErr
		}
		if int64(len(p)) > h.Length {
			cbErr = fmt.Errorf("intermediate control frame announced %d bytes, handler read %d", h.Length, len(p))
		}
		got = append(got, seen{"ictl", byte(h.OpCode), p})
		return nil
	}
	var contTaken [][]byte
	rd.OnContinuation = func(h ws.Header, r io.Reader) error {
		k := int64(s.ContRead)
		if k > h.Length {
			k = h.Length
		}
		p := make([]byte, k)
		if _, err := io.ReadFull(r, p); err != nil {
			cbErr = fmt.Errorf("OnContinuation: reading %d of %d body bytes: %v", k, h.Length, err)
			return cbErr
		}
		contTaken = append(contTaken, p)
		return nil
	}
	_ = contTaken

	msgIdx := 0
	// expected sequence, filtered/adjusted below
	var want []seen
	for _, e := range evs {
		switch {
		case e.Kind == "ctl" && e.Intermediate:
			p := e.Payload
			if s.Partial && len(p) > 1 {
				p = p[:len(p)/2]
			}
			want = append(want, seen{"ictl", e.Op, p})
		case e.Kind == "ctl":
			want = append(want, seen{"ctl", e.Op, e.Payload})
		default:
			d := -1
			if msgIdx < len(s.Discards) {
				d = s.Discards[msgIdx]
			}
			msgIdx++
			if d < 0 {
				want = append(want, seen{"msg", e.Op, e.Payload})
			} else {
				if d > len(e.Payload) {
					d = len(e.Payload)
				}
				want = append(want, seen{"part", e.Op, e.Payload[:d]})
			}
		}
	}

	if s.ContRead > 0 {
		// what Read delivers = the message minus the first ContRead bytes of every continuation frame
		wi := 0
		for _, e := range evs {
			if e.Kind == "ctl" {
				wi++
				continue
			}
			var p []byte
			for i := e.First; i <= e.At; i++ {
				f := s.Frames[i]
				if ref.IsControl(f.H.Op) {
					continue
				}
				b := f.Payload
				if f.H.Op == ref.OpCont {
					k := s.ContRead
					if k > len(b) {
						k = len(b)
					}
					b = b[k:]
				}
				p = append(p, b...)
			}
			want[wi].payload = p
			wi++
		}
	}
	msgIdx = 0
	for _, e := range evs {
		if e.Kind == "ctl" && e.Intermediate {
			continue
		}
		h, err := nextFrame()
		if err != nil {
			return fmt.Errorf("NextFrame before %v: %v", e, err)
		}
		if e.Kind == "ctl" {
			f := s.Frames[e.At]
			fh := f.H
			fh.Length = int64(len(f.Payload))
			if !sameHeader(h, wantHeader(fh)) {
				return fmt.Errorf("NextFrame returned %+v, stream has %v", h, fh)
			}
			if s.SkipEmpty && h.Length == 0 {
				got = append(got, seen{"ctl", byte(h.OpCode), nil})
				continue
			}
			p, err := readAll(rd, s.BufSize, idle, s.ZeroBuf)
			if err != nil {
				return fmt.Errorf("reading top-level control frame %v: %v", e, err)
			}
			got = append(got, seen{"ctl", byte(h.OpCode), p})
			continue
		}
		if !sameHeader(h, wantHeader(e.FirstH)) {
			return fmt.Errorf("NextFrame returned %+v, first frame of the message is %v", h, e.FirstH)
		}
		d := -1
		if msgIdx < len(s.Discards) {
			d = s.Discards[msgIdx]
		}
		msgIdx++
		if d < 0 && s.SkipEmpty && h.Length == 0 && h.Fin {
			got = append(got, seen{"msg", byte(h.OpCode), nil})
			continue
		}
		if d < 0 {
			p, err := readAll(rd, s.BufSize, idle, s.ZeroBuf)
			if err != nil {
				return fmt.Errorf("reading message %v: %v (got %d bytes)", e, err, len(p))
			}
			got = append(got, seen{"msg", byte(h.OpCode), p})
			continue
		}
		if d > len(e.Payload) {
			d = len(e.Payload)
		}
		part := make([]byte, 0, d)
		one := make([]byte, 1)
		zero := 0
		ended := false
		for len(part) < d {
			n, err := rd.Read(one)
			part = append(part, one[:n]...)
			if err == io.EOF && len(part) == d {
				ended = true // the last byte came with the end of the message
				break
			}
			if err != nil {
				return fmt.Errorf("partial read of %v failed after %d bytes: %v", e, len(part), err)
			}
			if n == 0 {
				if zero++; zero > idle {
					return fmt.Errorf("harness: reader makes no progress in partial read")
				}
			}
		}
		if !ended {
			if err := rd.Discard(); err != nil {
				return fmt.Errorf("Discard of %v: %v", e, err)
			}
		}
		// Recorded after Discard: the control frames interleaved in the rest of
		// the message are handed to OnIntermediate while it is being discarded.
		got = append(got, seen{"part", byte(h.OpCode), part})
	}
	if cbErr != nil {
		return cbErr
	}
	if _, err := nextFrame(); err != io.EOF {
		return fmt.Errorf("NextFrame at the end of the stream returned %v, want io.EOF", err)
	}
	// Intermediate control frames of a message are observed before the message completes;
	// "got" appends the message after its read loop, so the relative order matches "want".
	return compare(got, want)
}

func compare(got, want []seen) error {
	for i := 0; i < len(got) && i < len(want); i++ {
		if got[i].kind != want[i].kind || got[i].op != want[i].op || !bytes.Equal(got[i].payload, want[i].payload) {
			return fmt.Errorf("event %d: got %v(%s), want %v(%s)", i, got[i], got[i].kind, want[i], want[i].kind)
		}
	}
	if len(got) != len(want) {
		return fmt.Errorf("observed %d events, stream has %d (got %v, want %v)", len(got), len(want), got, want)
	}
	return nil
}

// ---------------------------------------------------------------------------
// entry point 2: NextReader per message (interleaved controls dropped, as documented)

func runNextReader(s scenario) error {
	src := s.src()
	idle := 2*len(s.Frames) + 4
	for _, e := range ref.Events(s.Frames) {
		if e.Kind == "ctl" && e.Intermediate {
			continue
		}
		h, r, err := wsutil.NextReader(src, s.State)
		if err != nil {
			return fmt.Errorf("NextReader before %v: %v", e, err)
		}
		if h.OpCode != ws.OpCode(e.Op) {
			return fmt.Errorf("NextReader opcode %v, want %#x", h.OpCode, e.Op)
		}
		p, err := readAll(r, s.BufSize, idle, s.ZeroBuf)
		if err != nil {
			return fmt.Errorf("NextReader: reading %v: %v", e, err)
		}
		if !bytes.Equal(p, e.Payload) {
			return fmt.Errorf("NextReader: %v delivered as %d bytes %x", e, len(p), head(p))
		}
	}
	if _, _, err := wsutil.NextReader(src, s.State); err != io.EOF {
		return fmt.Errorf("NextReader at the end of the stream returned %v, want io.EOF", err)
	}
	return nil
}

func head(p []byte) []byte {
	if len(p) > 24 {
		return p[:24]
	}
	return p
}

// ---------------------------------------------------------------------------
// entry point 3: ReadMessage and its Client/Server shortcuts

func runReadMessage(s scenario) error {
	src := s.src()
	read := func(m []wsutil.Message) ([]wsutil.Message, error) {
		switch {
		case s.Entry == "ReadClientMessage":
			return wsutil.ReadClientMessage(src, m)
		case s.Entry == "ReadServerMessage":
			return wsutil.ReadServerMessage(src, m)
		}
		return wsutil.ReadMessage(src, s.State, m)
	}
	var want []wsutil.Message
	var all []wsutil.Message
	flush := func(pending []wsutil.Message) error {
		before := len(all)
		var in []wsutil.Message
		if s.Reuse {
			in = all
		}
		out, err := read(in)
		if err != nil {
			return fmt.Errorf("ReadMessage: %v (expected %d messages)", err, len(pending))
		}
		if s.Reuse {
			all = out
			out = out[before:]
		}
		if len(out) != len(pending) {
			return fmt.Errorf("ReadMessage returned %d messages, want %d (%v)", len(out), len(pending), out)
		}
		for i := range out {
			if out[i].OpCode != pending[i].OpCode || !bytes.Equal(out[i].Payload, pending[i].Payload) {
				return fmt.Errorf("ReadMessage message %d: got op=%v %x, want op=%v %x", i, out[i].OpCode, head(out[i].Payload), pending[i].OpCode, head(pending[i].Payload))
			}
		}
		return nil
	}
	for _, e := range ref.Events(s.Frames) {
		want = append(want, wsutil.Message{OpCode: ws.OpCode(e.Op), Payload: e.Payload})
		if e.Kind == "ctl" && e.Intermediate {
			continue
		}
		if err := flush(want); err != nil {
			return err
		}
		want = nil
	}
	if out, err := read(nil); err != io.EOF || len(out) != 0 {
		return fmt.Errorf("ReadMessage at the end of the stream returned %d messages, err=%v; want none, io.EOF", len(out), err)
	}
	return nil
}

// ---------------------------------------------------------------------------
// entry point 4: ReadData and the six Client/Server Data/Text/Binary variants

func runReadData(s scenario) error {
	src := s.src()
	rec := tx.NewRec()
	rw := tx.RW{Reader: src, Writer: rec}
	read := func() ([]byte, ws.OpCode, error) {
		switch s.Entry {
		case "ReadClientData":
			return wsutil.ReadClientData(rw)
		case "ReadServerData":
			return wsutil.ReadServerData(rw)
		case "ReadClientText":
			p, err := wsutil.ReadClientText(rw)
			return p, ws.OpText, err
		case "ReadClientBinary":
			p, err := wsutil.ReadClientBinary(rw)
			return p, ws.OpBinary, err
		case "ReadServerText":
			p, err := wsutil.ReadServerText(rw)
			return p, ws.OpText, err
		case "ReadServerBinary":
			p, err := wsutil.ReadServerBinary(rw)
			return p, ws.OpBinary, err
		}
		return wsutil.ReadData(rw, s.State)
	}
	closed := false
	for _, e := range ref.Events(s.Frames) {
		if e.Kind == "ctl" {
			if e.Op == ref.OpClose {
				closed = true
			}
			continue
		}
		if ws.OpCode(e.Op)&s.Want == 0 {
			continue
		}
		p, op, err := read()
		if err != nil {
			return fmt.Errorf("%s: %v while expecting %v", s.Entry, err, e)
		}
		if op != ws.OpCode(e.Op) || !bytes.Equal(p, e.Payload) {
			return fmt.Errorf("%s returned op=%v %d bytes %x, want %v", s.Entry, op, len(p), head(p), e)
		}
	}
	p, _, err := read()
	if len(p) != 0 {
		return fmt.Errorf("%s returned %d bytes after the last wanted message", s.Entry, len(p))
	}
	if closed {
		var ce wsutil.ClosedError
		if !errors.As(err, &ce) {
			return fmt.Errorf("%s after a close frame returned %v, want ClosedError", s.Entry, err)
		}
	} else if err != io.EOF {
		return fmt.Errorf("%s at the end of the stream returned %v, want io.EOF", s.Entry, err)
	}
	return nil
}

func run(s scenario) error {
	switch s.Entry {
	case "Reader":
		return runReader(s)
	case "NextReader":
		return runNextReader(s)
	case "ReadMessage", "ReadClientMessage", "ReadServerMessage":
		return runReadMessage(s)
	default:
		return runReadData(s)
	}
}

// ---------------------------------------------------------------------------
// random conversations

var bufSizes = []int{0, 1, 2, 5, 64, 4096}

func drawSide(t *rapid.T) (ws.State, bool) {
	switch rapid.IntRange(0, 3).Draw(t, "side") {
	case 0:
		return ws.StateServerSide, true
	case 1:
		return ws.StateClientSide, false
	default:
		return 0, rapid.Bool().Draw(t, "masked")
	}
}

func drawTransport(t *rapid.T, s *scenario) {
	s.Chunks = gen.Chunks(t, "chunks")
	s.EOFData = rapid.Bool().Draw(t, "eofdata")
	s.BufSize = rapid.SampledFrom(bufSizes).Draw(t, "bufsize")
	if rapid.IntRange(0, 3).Draw(t, "idles?") == 0 {
		total := len(ref.EncodeAll(s.Frames))
		for i := rapid.IntRange(1, 4).Draw(t, "nidles"); i > 0 && total > 0; i-- {
			s.Idles = append(s.Idles, rapid.IntRange(0, total-1).Draw(t, "idleAt"))
		}
		hx.Class("transport/(0,nil)-reads")
	}
	if s.ZeroBuf = rapid.IntRange(0, 4).Draw(t, "zerobuf") == 0; s.ZeroBuf {
		hx.Class("consumer/zero-length-reads")
	}
}

func TestReader(t *testing.T) {
	hx.Check(t, 4, func(t *rapid.T) {
		var s scenario
		var masked bool
		s.Entry = "Reader"
		s.State, masked = drawSide(t)
		s.Frames = gen.Conversation(t, "conv", gen.ConvOpts{Masked: masked, Big: true, MaxMsgs: 5})
		drawTransport(t, &s)
		s.UTF8 = rapid.Bool().Draw(t, "utf8")
		s.Ctor = rapid.IntRange(0, 2).Draw(t, "ctor")
		if s.SkipCheck = rapid.IntRange(0, 3).Draw(t, "skipHeaderCheck") == 0; s.SkipCheck {
			hx.Class("Reader/SkipHeaderCheck")
		}
		if s.SkipEmpty = rapid.IntRange(0, 2).Draw(t, "skipEmpty") == 0; s.SkipEmpty {
			hx.Class("Reader/no-Read-for-empty-unfragmented-frames")
		}
		if rapid.IntRange(0, 2).Draw(t, "limit?") == 0 {
			for _, f := range s.Frames {
				if n := int64(len(f.Payload)); n > s.Limit {
					s.Limit = n
				}
			}
			s.Limit += int64(rapid.SampledFrom([]int{0, 0, 1, 1000}).Draw(t, "slack"))
			hx.Class("Reader/max-frame-size-at-or-above-the-largest-frame")
		}
		s.Partial = rapid.IntRange(0, 3).Draw(t, "partial") == 0
		if rapid.IntRange(0, 3).Draw(t, "contread?") == 0 {
			s.ContRead = rapid.SampledFrom([]int{1, 2, 3, 1000}).Draw(t, "contread")
		}
		for _, e := range ref.Events(s.Frames) {
			if e.Kind != "msg" {
				continue
			}
			d := -1
			if s.ContRead == 0 && rapid.IntRange(0, 3).Draw(t, "discard?") == 0 {
				d = rapid.IntRange(0, len(e.Payload)).Draw(t, "discardAfter")
			}
			s.Discards = append(s.Discards, d)
		}
		allRead := true
		for _, d := range s.Discards {
			allRead = allRead && d < 0
		}
		if allRead && rapid.IntRange(0, 3).Draw(t, "stalls?") == 0 {
			pos := 0
			for _, f := range s.Frames {
				if rapid.IntRange(0, 2).Draw(t, "stall") == 0 {
					s.Stalls = append(s.Stalls, pos)
				}
				pos += len(f.Encode())
			}
			hx.Class(fmt.Sprintf("Reader/stalls=%d", min(len(s.Stalls), 3)))
		}
		hx.Eval()
		s.note()
		if err := run(s); err != nil {
			t.Fatalf("%v\nscenario: %s", err, hx.JSON(s.describe()))
		}
	})
}

func TestNextReader(t *testing.T) {
	hx.Check(t, 2, func(t *rapid.T) {
		var s scenario
		var masked bool
		s.Entry = "NextReader"
		s.State, masked = drawSide(t)
		s.Frames = gen.Conversation(t, "conv", gen.ConvOpts{Masked: masked, Big: true})
		drawTransport(t, &s)
		hx.Eval()
		s.note()
		if err := run(s); err != nil {
			t.Fatalf("%v\nscenario: %s", err, hx.JSON(s.describe()))
		}
	})
}

func TestReadMessage(t *testing.T) {
	hx.Check(t, 3, func(t *rapid.T) {
		var s scenario
		var masked bool
		switch rapid.IntRange(0, 2).Draw(t, "variant") {
		case 0:
			s.Entry = "ReadMessage"
			s.State, masked = drawSide(t)
		case 1:
			s.Entry, s.State, masked = "ReadClientMessage", ws.StateServerSide, true
		default:
			s.Entry, s.State, masked = "ReadServerMessage", ws.StateClientSide, false
		}
		s.Frames = gen.Conversation(t, "conv", gen.ConvOpts{Masked: masked, Big: true})
		drawTransport(t, &s)
		s.Reuse = rapid.Bool().Draw(t, "reuse")
		hx.Eval()
		s.note()
		if err := run(s); err != nil {
			t.Fatalf("%v\nscenario: %s", err, hx.JSON(s.describe()))
		}
	})
}

var dataEntries = []struct {
	name   string
	state  ws.State
	masked bool
	want   ws.OpCode
}{
	{"ReadClientData", ws.StateServerSide, true, ws.OpText | ws.OpBinary},
	{"ReadClientText", ws.StateServerSide, true, ws.OpText},
	{"ReadClientBinary", ws.StateServerSide, true, ws.OpBinary},
	{"ReadServerData", ws.StateClientSide, false, ws.OpText | ws.OpBinary},
	{"ReadServerText", ws.StateClientSide, false, ws.OpText},
	{"ReadServerBinary", ws.StateClientSide, false, ws.OpBinary},
}

func TestReadData(t *testing.T) {
	hx.Check(t, 4, func(t *rapid.T) {
		var s scenario
		var masked bool
		k := rapid.IntRange(0, len(dataEntries)).Draw(t, "variant")
		if k == len(dataEntries) {
			s.Entry, s.Want = "ReadData", ws.OpText|ws.OpBinary
			// ReadData answers control frames, so it needs a real side to mask its replies correctly.
			if rapid.Bool().Draw(t, "server") {
				s.State, masked = ws.StateServerSide, true
			} else {
				s.State, masked = ws.StateClientSide, false
			}
		} else {
			e := dataEntries[k]
			s.Entry, s.State, masked, s.Want = e.name, e.state, e.masked, e.want
		}
		s.Frames = gen.Conversation(t, "conv", gen.ConvOpts{Masked: masked, Big: true, Close: true, MaxMsgs: 5})
		drawTransport(t, &s)
		hx.Eval()
		s.note()
		if err := run(s); err != nil {
			t.Fatalf("%v\nscenario: %s", err, hx.JSON(s.describe()))
		}
	})
}

// ---------------------------------------------------------------------------
// exhaustive small scope: every valid sequence up to a bounded length over the
// small alphabet, chunk size 1 and unchunked, both sides, main entry points.

func TestSmallScopeExhaustive(t *testing.T) {
	depth := hx.Pick(3, 5)
	var n int64
	idx := 0
	failed := false
	ref.EnumerateValid(depth, func(seq []ref.Letter) {
		idx++
		if failed || !hx.Mine(idx) {
			return
		}
		for _, side := range []struct {
			st     ws.State
			masked bool
			data   string
			msg    string
		}{{ws.StateServerSide, true, "ReadClientData", "ReadClientMessage"}, {ws.StateClientSide, false, "ReadServerText", "ReadServerMessage"}} {
			frames := ref.Build(seq, side.masked)
			for _, chunks := range [][]int{nil, {1}} {
				for _, entry := range []string{"Reader", "NextReader", side.msg, side.data} {
					s := scenario{Frames: frames, State: side.st, Chunks: chunks, Entry: entry, UTF8: true, BufSize: 3}
					if entry == "ReadServerText" {
						s.Want = ws.OpText
					} else {
						s.Want = ws.OpText | ws.OpBinary
					}
					n++
					s.note()
					if err := run(s); err != nil {
						hx.Failf(t, s.describe(), "%v", err)
						failed = true
						return
					}
				}
			}
		}
	})
	hx.EvalN(int(n))
	hx.Part(fmt.Sprintf("all valid complete frame sequences of length<=%d over {T,B,C}x fin x len{0,1,5} + {ping,pong}x len{0,1,5}, x 2 sides x chunk{1,all} x 4 entry points", depth), n, true)
}

// TestLargeScale: deterministic cases the random generator does not reach by
// size: single frames around and beyond 1 MiB (the helpers read those in
// growing steps), a message of several hundred fragments with interleaved
// control frames, and several hundred messages through one reader.
func TestLargeScale(t *testing.T) {
	const MiB = 1 << 20
	mk := func(op byte, fin, masked bool, k int, p []byte) ref.Frame {
		h := ref.Header{Fin: fin, Op: op, Masked: masked}
		if masked {
			h.Mask = [4]byte{byte(k), 0x37, byte(k >> 8), 0xc1}
		}
		return ref.Frame{H: h, Payload: p}
	}
	pattern := func(n, salt int) []byte {
		p := make([]byte, n)
		for i := range p {
			p[i] = byte(i*7 + i>>9 + salt)
		}
		return p
	}
	type shape struct {
		name   string
		frames func(masked bool) []ref.Frame
	}
	sizes := []int{125, 126, 127, 65535, 65536, 65537, MiB - 1, MiB, MiB + 1, 2*MiB + 3}
	if hx.Thorough() {
		sizes = append(sizes, 3*MiB, 4*MiB+5)
	}
	var shapes []shape
	for _, n := range sizes {
		n := n
		shapes = append(shapes, shape{fmt.Sprintf("one frame of %d bytes + a small message", n), func(masked bool) []ref.Frame {
			return []ref.Frame{mk(ref.OpBinary, true, masked, 1, pattern(n, 1)), mk(ref.OpBinary, true, masked, 2, []byte("tail"))}
		}})
		shapes = append(shapes, shape{fmt.Sprintf("two fragments of %d and 70000 bytes", n), func(masked bool) []ref.Frame {
			return []ref.Frame{mk(ref.OpBinary, false, masked, 1, pattern(n, 3)), mk(ref.OpPing, true, masked, 9, []byte("p")), mk(ref.OpCont, true, masked, 2, pattern(70000, 4))}
		}})
	}
	shapes = append(shapes, shape{"300 fragments with a ping after every 7th", func(masked bool) []ref.Frame {
		var fs []ref.Frame
		for i := 0; i < 300; i++ {
			op := byte(ref.OpCont)
			if i == 0 {
				op = ref.OpBinary
			}
			fs = append(fs, mk(op, i == 299, masked, i, pattern(i%130, i)))
			if i%7 == 6 && i < 299 {
				fs = append(fs, mk(ref.OpPing, true, masked, i, pattern(i%126, i+1)))
			}
		}
		return fs
	}})
	shapes = append(shapes, shape{"two fragments with 150 consecutive control frames between them", func(masked bool) []ref.Frame {
		fs := []ref.Frame{mk(ref.OpText, false, masked, 1, []byte("he"))}
		for i := 0; i < 150; i++ {
			op := byte(ref.OpPing)
			if i%3 == 2 {
				op = ref.OpPong
			}
			fs = append(fs, mk(op, true, masked, i, pattern(i%5, i)))
		}
		return append(fs, mk(ref.OpCont, true, masked, 2, []byte("llo")), mk(ref.OpBinary, true, masked, 3, []byte{1, 2, 3}))
	}})
	shapes = append(shapes, shape{"500 messages, every third fragmented", func(masked bool) []ref.Frame {
		var fs []ref.Frame
		for i := 0; i < 500; i++ {
			op := byte(ref.OpBinary)
			if i%3 == 0 {
				fs = append(fs, mk(op, false, masked, i, pattern(i%200, i)), mk(ref.OpCont, true, masked, i+1, pattern(i%90, i+5)))
			} else {
				fs = append(fs, mk(op, true, masked, i, pattern(i%300, i)))
			}
			if i%11 == 0 {
				fs = append(fs, mk(ref.OpPong, true, masked, i, pattern(i%20, i)))
			}
		}
		return fs
	}})
	n := 0
	for si, sh := range shapes {
		if !hx.Mine(si) {
			continue
		}
		for _, side := range []struct {
			st     ws.State
			masked bool
			data   string
			msg    string
		}{{ws.StateServerSide, true, "ReadClientData", "ReadClientMessage"}, {ws.StateClientSide, false, "ReadServerBinary", "ReadServerMessage"}} {
			frames := sh.frames(side.masked)
			for _, chunks := range [][]int{nil, {4093}} {
				for _, entry := range []string{"Reader", "NextReader", "ReadMessage", side.msg, side.data} {
					s := scenario{Frames: frames, State: side.st, Chunks: chunks, Entry: entry, Want: ws.OpText | ws.OpBinary, Reuse: entry != "Reader" && si%2 == 0}
					if entry == "ReadServerBinary" {
						s.Want = ws.OpBinary
					}
					for _, e := range ref.Events(frames) {
						if e.Kind == "msg" {
							s.Discards = append(s.Discards, -1)
						}
					}
					n++
					hx.NonTrivial(hx.Hash("scale", sh.name, entry, side.masked, len(chunks)), func() interface{} {
						return map[string]interface{}{"shape": sh.name, "entry": entry, "masked": side.masked, "chunks": chunks}
					})
					if err := run(s); err != nil {
						hx.Failf(t, map[string]interface{}{"shape": sh.name, "entry": entry, "masked": side.masked, "chunks": chunks}, "%s: %v", sh.name, err)
						return
					}
				}
			}
		}
	}
	hx.EvalN(n)
	hx.Part("large scale: frames of exactly 125/126/127/65535/65536/65537 bytes and 1 MiB-1 .. 2 MiB+3 (thorough: .. 4 MiB+5), 300-fragment message, 500 messages on one reader x 2 sides x chunk{all,4093} x 5 entry points", int64(n), true)
}
