// Package respgen is the server-response side of the client-handshake checks:
// a structured model of an HTTP/1.x upgrade response (Response), its renderer
// (the Sec-WebSocket-Accept value depends on the key the dialer sent, so
// rendering takes the key), an acceptance model derived from the statement of
// property C10 (Classify: MustSucceed / MustFail / Open), rapid generators
// parameterised by the dialer configuration (Gen, GenConfig), and a scripted
// in-memory peer (Peer, Conn) that renders its answer lazily from the request
// bytes it has seen.
//
// The package shares no logic with gobwas/ws: the accept key is computed with
// crypto/sha1, header values are judged by hand-written ASCII rules and
// extension lists by a strict parser of its own (ParseOptionList). The only
// thing taken from the httphead dependency is the Option type, so that a
// Config can be turned into Dialer.Extensions.
//
// Typical use (see c10_test.go):
//
//	cfg := respgen.GenConfig(t, "cfg")
//	r := respgen.Gen(t, "resp", cfg)
//	peer := respgen.NewPeer(func(req []byte) []byte {
//		key, _ := respgen.KeyFromRequest(req)
//		return r.Render(key)
//	}, sizes)
//	d := ws.Dialer{Protocols: cfg.Protocols, Extensions: cfg.Options()}
//	br, hs, err := d.Upgrade(peer, u)
//	cl := respgen.Classify(r, cfg)   // what the outcome has to be
package respgen

import (
	"bytes"
	"crypto/sha1"
	"encoding/base64"
	"strings"

	"github.com/gobwas/httphead"
)

// GUID is the RFC 6455 §1.3 constant.
const GUID = "258EAFA5-E914-47DA-95CA-C5AB0DC85B11"

// Accept returns the Sec-WebSocket-Accept value for a Sec-WebSocket-Key value.
func Accept(key string) string {
	sum := sha1.Sum([]byte(key + GUID))
	return base64.StdEncoding.EncodeToString(sum[:])
}

// Param is one extension parameter; an empty Value means "no value".
type Param struct {
	Key   string `json:"k"`
	Value string `json:"v,omitempty"`
}

// Ext is one extension (offer or answer): a name and ordered parameters.
type Ext struct {
	Name   string  `json:"name"`
	Params []Param `json:"params,omitempty"`
}

// Config is the part of a dialer configuration that the response grammar and
// the acceptance model depend on: what the client requested.
type Config struct {
	Protocols  []string `json:"protocols,omitempty"`
	Extensions []Ext    `json:"extensions,omitempty"`
}

// Options converts the offered extensions to the form Dialer.Extensions wants.
// Every call returns fresh slices.
func (c Config) Options() []httphead.Option {
	if len(c.Extensions) == 0 {
		return nil
	}
	out := make([]httphead.Option, 0, len(c.Extensions))
	for _, e := range c.Extensions {
		o := httphead.Option{Name: []byte(e.Name)}
		for _, p := range e.Params {
			var v []byte
			if p.Value != "" {
				v = []byte(p.Value)
			}
			o.Parameters.Set([]byte(p.Key), v)
		}
		out = append(out, o)
	}
	return out
}

// FromOptions converts httphead options (for example Handshake.Extensions)
// into comparable Ext values, parameters in stored order.
func FromOptions(opts []httphead.Option) []Ext {
	out := make([]Ext, 0, len(opts))
	for _, o := range opts {
		e := Ext{Name: string(o.Name)}
		o.Parameters.ForEach(func(k, v []byte) bool {
			e.Params = append(e.Params, Param{string(k), string(v)})
			return true
		})
		out = append(out, e)
	}
	return out
}

// Offered reports whether name is byte-for-byte one of the offered extension names.
func (c Config) Offered(name string) bool {
	for _, e := range c.Extensions {
		if e.Name == name {
			return true
		}
	}
	return false
}

// Requested reports whether p is byte-for-byte one of the requested subprotocols.
func (c Config) Requested(p string) bool {
	for _, q := range c.Protocols {
		if q == p {
			return true
		}
	}
	return false
}

// AcceptKind says how the value of a header line is derived from the key the
// dialer sent. Only meaningful on Sec-WebSocket-Accept lines, but the renderer
// honours it on any line.
type AcceptKind int

const (
	AcceptLiteral  AcceptKind = iota // use Line.Value as it is
	AcceptRight                      // base64(sha1(key+GUID))
	AcceptOtherKey                   // the right value for a different, well-formed key
	AcceptShort                      // right value without its last character (27 bytes)
	AcceptLong                       // right value plus one more character (29 bytes)
	AcceptCaseFlip                   // right value with the case of its first letter flipped (28 bytes, different)
	AcceptLastByte                   // right value with its 27th character replaced (28 bytes, different)
)

var acceptKindNames = [...]string{"literal", "right", "other-key", "short", "long", "case-flip", "last-byte"}

func (k AcceptKind) String() string {
	if int(k) < len(acceptKindNames) {
		return acceptKindNames[k]
	}
	return "?"
}

// AcceptValue renders the accept value of the given kind for key.
func AcceptValue(kind AcceptKind, key, literal string) string {
	right := Accept(key)
	switch kind {
	case AcceptRight:
		return right
	case AcceptOtherKey:
		// A well-formed key that differs from the one sent: rotate the key's characters.
		other := key
		if len(key) > 2 {
			other = key[1:len(key)-2] + key[:1] + key[len(key)-2:]
		}
		if other == key {
			other = "AAAAAAAAAAAAAAAAAAAAAA=="
			if other == key {
				other = "AQIDBAUGBwgJCgsMDQ4PEA=="
			}
		}
		return Accept(other)
	case AcceptShort:
		return right[:len(right)-1]
	case AcceptLong:
		return right + "="
	case AcceptCaseFlip:
		b := []byte(right)
		for i, c := range b {
			switch {
			case 'a' <= c && c <= 'z':
				b[i] = c - 32
				return string(b)
			case 'A' <= c && c <= 'Z':
				b[i] = c + 32
				return string(b)
			}
		}
		b[0] ^= 1 // no letter at all (practically impossible): still differ
		return string(b)
	case AcceptLastByte:
		b := []byte(right)
		i := len(b) - 2 // the character before the '=' padding
		if b[i] == 'A' {
			b[i] = 'B'
		} else {
			b[i] = 'A'
		}
		return string(b)
	}
	return literal
}

// Line is one header line of the response head.
//
// Rendering: Raw + EOL if Raw is non-empty; otherwise
// Name ":" Pre <value> Post EOL, where <value> is Value or, when Accept is not
// AcceptLiteral, the accept value of that kind for the key.
type Line struct {
	Name   string     `json:"name,omitempty"`
	Pre    string     `json:"pre,omitempty"` // blanks between the colon and the value (canonically one SP)
	Value  string     `json:"value,omitempty"`
	Post   string     `json:"post,omitempty"` // blanks after the value
	Accept AcceptKind `json:"accept,omitempty"`
	Raw    string     `json:"raw,omitempty"` // rendered verbatim instead of Name/Value (deliberately unusual lines)
	LF     bool       `json:"lf,omitempty"`  // bare LF instead of CRLF
}

// Response is a structured upgrade response.
type Response struct {
	// Prefix is sent before the status line (stray line ends or blanks such
	// as "\r\n", "\n", " ", "\t", "\r\n\r\n"); normally empty.
	Prefix string `json:"prefix,omitempty"`
	// RawStatusLine, if non-empty, is sent verbatim as the first line instead of
	// Version SP Status [SP Reason] (for lines with fewer than two separators).
	RawStatusLine string `json:"raw_status_line,omitempty"`
	Version       string `json:"version"`                // token before the first SP, e.g. "HTTP/1.1"
	Status        string `json:"status"`                 // token between the first and the second SP
	NoReasonSP    bool   `json:"no_reason_sp,omitempty"` // status line ends right after the status token (no second SP, no reason)
	Reason        string `json:"reason"`                 // everything after the second SP
	StatusLF      bool   `json:"status_lf,omitempty"`    // status line ends in bare LF
	Lines         []Line `json:"lines"`
	EndLF         bool   `json:"end_lf,omitempty"` // the empty line ending the head is a bare LF
	// Trailing is what the server sends right after the head (WebSocket frames, usually).
	Trailing []byte `json:"trailing,omitempty"`
	// Cut > 0: the server sends only the first Cut bytes of the head and then
	// ends the stream; Trailing is not sent. Cut must be smaller than the head.
	Cut int `json:"cut,omitempty"`
}

func eol(lf bool) string {
	if lf {
		return "\n"
	}
	return "\r\n"
}

// Head renders the complete response head (status line, header lines, empty
// line) for the key the dialer sent, ignoring Cut.
func (r *Response) Head(key string) []byte {
	var b bytes.Buffer
	b.WriteString(r.Prefix)
	if r.RawStatusLine != "" {
		b.WriteString(r.RawStatusLine)
	} else {
		b.WriteString(r.Version)
		b.WriteByte(' ')
		b.WriteString(r.Status)
		if !r.NoReasonSP {
			b.WriteByte(' ')
			b.WriteString(r.Reason)
		}
	}
	b.WriteString(eol(r.StatusLF))
	for i := range r.Lines {
		l := &r.Lines[i]
		if l.Raw != "" {
			b.WriteString(l.Raw)
		} else {
			b.WriteString(l.Name)
			b.WriteByte(':')
			b.WriteString(l.Pre)
			b.WriteString(AcceptValue(l.Accept, key, l.Value))
			b.WriteString(l.Post)
		}
		b.WriteString(eol(l.LF))
	}
	b.WriteString(eol(r.EndLF))
	return b.Bytes()
}

// Render renders every byte the server sends: the head (or its first Cut
// bytes) followed by Trailing.
func (r *Response) Render(key string) []byte {
	h := r.Head(key)
	if r.Cut > 0 && r.Cut < len(h) {
		return h[:r.Cut]
	}
	return append(h, r.Trailing...)
}

// Sent returns the trailing bytes that are actually sent (none if the head is cut).
func (r *Response) Sent(key string) []byte {
	if r.Cut > 0 && r.Cut < len(r.Head(key)) {
		return nil
	}
	return r.Trailing
}

// Clone returns a deep copy.
func (r *Response) Clone() *Response {
	c := *r
	c.Lines = append([]Line(nil), r.Lines...)
	c.Trailing = append([]byte(nil), r.Trailing...)
	return &c
}

// Valid returns the canonical valid response: HTTP/1.1 101, the three
// required headers, CRLF line ends, nothing else.
func Valid() *Response {
	return &Response{
		Version: "HTTP/1.1",
		Status:  "101",
		Reason:  "Switching Protocols",
		Lines: []Line{
			{Name: "Upgrade", Pre: " ", Value: "websocket"},
			{Name: "Connection", Pre: " ", Value: "Upgrade"},
			{Name: "Sec-WebSocket-Accept", Pre: " ", Accept: AcceptRight},
		},
	}
}

// Header names the dialer gives a meaning to.
const (
	HUpgrade    = "upgrade"
	HConnection = "connection"
	HAccept     = "sec-websocket-accept"
	HProtocol   = "sec-websocket-protocol"
	HExtensions = "sec-websocket-extensions"
)

// asciiLower lowers A-Z only; every other byte (including non-ASCII) is kept.
func asciiLower(s string) string {
	b := []byte(s)
	for i, c := range b {
		if 'A' <= c && c <= 'Z' {
			b[i] = c + 32
		}
	}
	return string(b)
}

// trimBlank removes SP and HT from both ends.
func trimBlank(s string) string {
	return strings.Trim(s, " \t")
}

// IsTokenChar reports whether c is an RFC 7230 tchar.
func IsTokenChar(c byte) bool {
	switch {
	case 'a' <= c && c <= 'z', 'A' <= c && c <= 'Z', '0' <= c && c <= '9':
		return true
	}
	return strings.IndexByte("!#$%&'*+-.^_`|~", c) >= 0
}

// IsToken reports whether s is a non-empty RFC 7230 token.
func IsToken(s string) bool {
	if s == "" {
		return false
	}
	for i := 0; i < len(s); i++ {
		if !IsTokenChar(s[i]) {
			return false
		}
	}
	return true
}

// SplitLines cuts a byte stream into lines the way HTTP/1.x recipients do: at
// every LF, with one optional CR before it removed. It returns the complete
// lines up to and including the first empty one (the end of a head), the
// offset just after it, and whether such an empty line was found.
func SplitLines(b []byte) (lines []string, end int, complete bool) {
	pos := 0
	for {
		i := bytes.IndexByte(b[pos:], '\n')
		if i < 0 {
			return lines, pos, false
		}
		l := b[pos : pos+i]
		pos += i + 1
		if n := len(l); n > 0 && l[n-1] == '\r' {
			l = l[:n-1]
		}
		lines = append(lines, string(l))
		if len(l) == 0 {
			return lines, pos, true
		}
	}
}

// KeyFromRequest extracts the Sec-WebSocket-Key value from the bytes a dialer
// wrote. It needs the complete request head; ok is false if the head is
// incomplete or has no such header.
func KeyFromRequest(req []byte) (key string, ok bool) {
	lines, _, complete := SplitLines(req)
	if !complete || len(lines) < 2 {
		return "", false
	}
	for _, l := range lines[1:] {
		c := strings.IndexByte(l, ':')
		if c < 0 {
			continue
		}
		if asciiLower(trimBlank(l[:c])) == "sec-websocket-key" {
			return trimBlank(l[c+1:]), true
		}
	}
	return "", false
}
