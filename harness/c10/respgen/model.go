package respgen

import (
	"sort"
	"strings"
)

// Verdict is what the statement of C10 says about the outcome of a handshake.
type Verdict int

const (
	// MustSucceed: the dialer has to report success, return the subprotocol and
	// extensions the server sent, and keep the trailing bytes readable.
	MustSucceed Verdict = iota
	// MustFail: the dialer has to return an error (and no reader).
	MustFail
	// Open: the statement does not determine the outcome; only the
	// unconditional invariants apply.
	Open
)

func (v Verdict) String() string {
	switch v {
	case MustSucceed:
		return "must-succeed"
	case MustFail:
		return "must-fail"
	}
	return "open"
}

// Class is the result of Classify.
//
// Fail lists the deviations each of which forces a failure; Open lists the
// features whose treatment the statement leaves undetermined; Notes lists the
// valid-but-non-canonical features. Verdict is MustFail if Fail is non-empty
// (success needs every condition, so an undetermined one next to a broken one
// cannot rescue the response — except unusual header lines, which can stand in
// for any header and therefore make everything but status-line and truncation
// failures open), else Open if Open is non-empty, else MustSucceed. Protocol and Extensions are what Handshake has to contain on a
// MustSucceed response.
type Class struct {
	Verdict    Verdict
	Fail       []string
	Open       []string
	Notes      []string
	Protocol   string
	Extensions []Ext
}

// Vector is the canonical deviation vector (sorted labels), used as the shape
// of a case.
func (c Class) Vector() string {
	var v []string
	for _, s := range c.Fail {
		v = append(v, "F:"+s)
	}
	for _, s := range c.Open {
		v = append(v, "O:"+s)
	}
	for _, s := range c.Notes {
		v = append(v, "N:"+s)
	}
	sort.Strings(v)
	return strings.Join(v, ",")
}

// Deviations is the number of fail and open labels.
func (c Class) Deviations() int { return len(c.Fail) + len(c.Open) }

func allDigits(s string) bool {
	if s == "" {
		return false
	}
	for i := 0; i < len(s); i++ {
		if s[i] < '0' || s[i] > '9' {
			return false
		}
	}
	return true
}

// stripZeros removes leading zeros, keeping one digit.
func stripZeros(s string) string {
	for len(s) > 1 && s[0] == '0' {
		s = s[1:]
	}
	return s
}

// ClassifyStatus judges a status token: "" = right (literally "101"), else a
// label prefixed with "fail:" or "open:".
//
// Statement: "a status code that is literally 101" (RFC 7230: status-code =
// 3DIGIT). A token containing a non-digit, or whose mathematical value is not
// 101, must fail; so must an all-digit token with value 101 that is not
// literally "101" ("0101", "00101", ...).
func ClassifyStatus(tok string) string {
	switch {
	case tok == "101":
		return ""
	case !allDigits(tok):
		return "fail:status:nondigit"
	case stripZeros(tok) == "101":
		return "fail:status:not-literal"
	}
	return "fail:status:value"
}

// ClassifyVersion judges the version token of a status line.
//
// Statement: "HTTP/1.x (x >= 1)". "HTTP/" is case-sensitive (RFC 7230 §2.6),
// major and minor are plain ASCII digit strings separated by one dot. Leading
// zeros and minors too long for a machine word are left open.
func ClassifyVersion(v string) string {
	if !strings.HasPrefix(v, "HTTP/") {
		return "fail:version:form"
	}
	rest := v[5:]
	dot := strings.IndexByte(rest, '.')
	if dot < 0 {
		return "fail:version:form"
	}
	major, minor := rest[:dot], rest[dot+1:]
	if !allDigits(major) || !allDigits(minor) {
		return "fail:version:form"
	}
	if stripZeros(major) != "1" {
		return "fail:version:major"
	}
	if stripZeros(minor) == "0" {
		return "fail:version:minor<1"
	}
	if major != "1" || minor[0] == '0' {
		return "open:version:leading-zero"
	}
	if len(minor) > 9 {
		return "open:version:huge-minor"
	}
	return ""
}

type tally struct{ right, wrong, open int }

func (t tally) n() int { return t.right + t.wrong + t.open }

// required turns the per-line verdicts of one mandatory header into labels.
func (c *Class) required(name string, t tally) {
	switch {
	case t.n() == 0:
		c.Fail = append(c.Fail, name+":absent")
	case t.right == 0 && t.open == 0:
		if t.wrong > 1 {
			c.Fail = append(c.Fail, name+":dup-wrong")
		} else {
			c.Fail = append(c.Fail, name+":wrong")
		}
	case t.wrong == 0 && t.open == 0:
		if t.right > 1 {
			c.Notes = append(c.Notes, name+":dup-good")
		}
	case t.n() == 1:
		c.Open = append(c.Open, name+":list")
	default:
		c.Open = append(c.Open, name+":dup-mixed")
	}
}

// listHas reports whether the comma-separated list v has an element that is an
// ASCII case-insensitive match for tok.
func listHas(v, tok string) bool {
	for _, e := range strings.Split(v, ",") {
		if asciiLower(trimBlank(e)) == tok {
			return true
		}
	}
	return false
}

func hasCRLF(s string) bool { return strings.ContainsAny(s, "\r\n") }

func onlyBlanks(s string) bool { return strings.Trim(s, " \t") == "" }

// Classify applies the acceptance model of C10 to r for a dialer that
// requested cfg. It does not depend on the key.
func Classify(r *Response, cfg Config) Class {
	var c Class
	add := func(label string) {
		switch {
		case label == "":
		case strings.HasPrefix(label, "fail:"):
			c.Fail = append(c.Fail, label[5:])
		case strings.HasPrefix(label, "open:"):
			c.Open = append(c.Open, label[5:])
		}
	}

	// Status line.
	// ambiguous: the structure does not describe the bytes unambiguously (a
	// field smuggles in a separator or a line end), so nothing is asserted.
	ambiguous := false
	rawish := 0
	if strings.ContainsAny(r.Version, " \r\n") || strings.ContainsAny(r.Status, " \r\n") || hasCRLF(r.Reason) {
		ambiguous = true
	}
	if r.Prefix != "" {
		// The response starts with something that is not a status line: an
		// empty line, or blanks glued to the version token.
		if strings.Trim(r.Prefix, "\r\n \t") != "" {
			ambiguous = true
		}
		c.Fail = append(c.Fail, "status-line:prefix")
	}
	// status-line = HTTP-version SP status-code SP reason-phrase (RFC 7230
	// §3.1.2): both separators are mandatory, the reason may be empty.
	version, status, twoSP := r.Version, r.Status, !r.NoReasonSP
	if r.RawStatusLine != "" {
		if hasCRLF(r.RawStatusLine) {
			ambiguous = true
		}
		parts := strings.SplitN(r.RawStatusLine, " ", 3)
		version, status, twoSP = parts[0], "", len(parts) == 3
		if len(parts) > 1 {
			status = parts[1]
		}
	}
	if !twoSP {
		c.Fail = append(c.Fail, "status-line:no-second-sp")
	} else {
		add(ClassifyVersion(version))
		if version != "HTTP/1.1" && ClassifyVersion(version) == "" {
			c.Notes = append(c.Notes, "version:1.x")
		}
		add(ClassifyStatus(status))
		if r.RawStatusLine != "" || r.Reason != "Switching Protocols" {
			c.Notes = append(c.Notes, "reason")
		}
	}
	if r.Cut > 0 {
		c.Fail = append(c.Fail, "truncated-head")
	}

	// Header lines.
	var up, conn, acc tally
	var protoVals []string
	lf := r.StatusLF || r.EndLF
	extras, padded, nameCase := 0, false, false
	extState := "" // "", "ok", or labels added directly
	for i := range r.Lines {
		l := &r.Lines[i]
		lf = lf || l.LF
		if l.Raw != "" {
			if hasCRLF(l.Raw) {
				ambiguous = true
			}
			c.Open = append(c.Open, "line:raw")
			rawish++
			continue
		}
		// Pre and Post normally hold blanks (SP / HT), which a recipient
		// ignores. Any other byte in them (VT, FF, CR, NUL, NBSP, NEL, ...) is
		// part of the field value: "surrounding blanks" are SP and HT only.
		// A CR is an ordinary byte unless it stands directly before a bare LF
		// (then it is half of a CRLF); an LF always ends the line.
		text := l.Pre + l.Value + l.Post
		if l.Accept != AcceptLiteral {
			text = l.Pre + "x" + l.Post
		}
		if strings.ContainsRune(text, '\n') || hasCRLF(l.Name) || (l.LF && strings.HasSuffix(text, "\r")) {
			ambiguous = true
			continue
		}
		junk := !onlyBlanks(l.Pre) || !onlyBlanks(l.Post)
		if !IsToken(l.Name) {
			c.Open = append(c.Open, "line:name-not-token")
			rawish++
			continue
		}
		name := asciiLower(l.Name)
		v := trimBlank(l.Pre + l.Value + l.Post)
		if junk {
			c.Notes = append(c.Notes, "junk-padding")
		}
		special := true
		switch name {
		case HUpgrade:
			switch {
			case l.Accept != AcceptLiteral:
				up.wrong++
			case asciiLower(v) == "websocket":
				up.right++
				if v != "websocket" {
					c.Notes = append(c.Notes, "upgrade:case")
				}
			case listHas(v, "websocket"):
				up.open++
			default:
				up.wrong++
			}
		case HConnection:
			switch {
			case l.Accept != AcceptLiteral:
				conn.wrong++
			case asciiLower(v) == "upgrade":
				conn.right++
				if v != "Upgrade" {
					c.Notes = append(c.Notes, "connection:case")
				}
			case listHas(v, "upgrade"):
				conn.open++
			default:
				conn.wrong++
			}
		case HAccept:
			if l.Accept == AcceptRight && !junk {
				acc.right++
			} else {
				acc.wrong++
			}
		case HProtocol:
			if l.Accept != AcceptLiteral {
				v = "\x00accept-value" // never a requested token
			}
			protoVals = append(protoVals, v)
		case HExtensions:
			if l.Accept != AcceptLiteral {
				c.Open = append(c.Open, "ext:ambiguous")
				break
			}
			exts, st := ParseOptionList(v)
			switch st {
			case ListEmpty:
				c.Open = append(c.Open, "ext:empty")
			case ListBadName:
				c.Fail = append(c.Fail, "ext:malformed-name")
			case ListBadTail:
				c.Open = append(c.Open, "ext:malformed")
			case ListOK:
				for _, e := range exts {
					switch {
					case cfg.Offered(e.Name):
						// An offered name given twice still "names one it
						// offered"; the server sent it twice, so it is returned twice.
						for _, prev := range c.Extensions {
							if prev.Name == e.Name {
								c.Notes = append(c.Notes, "ext:repeated")
								break
							}
						}
						c.Extensions = append(c.Extensions, e)
					case offeredFold(cfg, e.Name):
						// "one it offered" is the name as offered, byte for byte
						// (as for subprotocols); a different spelling was not offered.
						c.Fail = append(c.Fail, "ext:name-case")
					default:
						c.Fail = append(c.Fail, "ext:not-offered")
					}
				}
				if extState == "" {
					extState = "ok"
					c.Notes = append(c.Notes, "ext:present")
				} else {
					c.Notes = append(c.Notes, "ext:two-lines")
				}
			}
		default:
			special = false
			extras++
		}
		if special && l.Name != canonicalName[name] {
			nameCase = true
		}
		if special && !junk && (l.Pre != " " || l.Post != "" || v != l.Value) {
			padded = true
		}
	}
	c.required("upgrade", up)
	c.required("connection", conn)
	c.required("accept", acc)

	// Subprotocol: "a subprotocol in the response must be one it requested".
	// The value as a whole (blanks around it ignored) has to be one of the
	// requested tokens: a comma- or blank-separated list is not, whether or not
	// a requested token occurs in it, and could not be returned as "the
	// subprotocol the server sent" either.
	// Every Sec-WebSocket-Protocol line counts ("a subprotocol in the
	// response"): one unrequested value anywhere forces the failure, also next
	// to a line with a requested one. An empty value is never a requested
	// token. Only several lines that all carry requested values stay open: the
	// statement speaks of "a subprotocol" and does not say which one is then
	// "the subprotocol the server sent".
	bad, empty := 0, 0
	for _, v := range protoVals {
		switch {
		case v == "":
			empty++
		case cfg.Requested(v):
		default:
			bad++
		}
	}
	switch {
	case bad > 0:
		label := "protocol:not-requested"
		for _, v := range protoVals {
			if v != "" && !cfg.Requested(v) && strings.ContainsAny(v, ", \t;") {
				label = "protocol:list"
			}
		}
		if len(protoVals) > 1 && bad < len(protoVals) {
			label = "protocol:dup-mixed"
		}
		c.Fail = append(c.Fail, label)
	case empty > 0:
		c.Fail = append(c.Fail, "protocol:empty")
	case len(protoVals) > 1:
		c.Open = append(c.Open, "protocol:dup")
	case len(protoVals) == 1:
		c.Protocol = protoVals[0]
		c.Notes = append(c.Notes, "protocol:present")
	}

	if lf {
		c.Notes = append(c.Notes, "eol:lf")
	}
	if extras > 0 {
		c.Notes = append(c.Notes, "extra-headers")
	}
	if padded {
		c.Notes = append(c.Notes, "blank-padding")
	}
	if nameCase {
		c.Notes = append(c.Notes, "name-case")
	}

	c.Fail = uniq(c.Fail)
	c.Open = uniq(c.Open)
	c.Notes = uniq(c.Notes)
	if ambiguous {
		c.Open = append(c.Open, "structure:ambiguous")
	}
	// Lines that are not of the form token ":" value (no colon, leading
	// blanks = obs-fold, blanks before the colon, empty name) may be read by a
	// recipient as (part of) any header, so they can stand in for an absent or
	// wrong header line: next to them only the status line and a truncated
	// head still force a failure.
	hard := false
	for _, f := range c.Fail {
		if strings.HasPrefix(f, "status:") || strings.HasPrefix(f, "version:") || f == "truncated-head" || f == "status-line:prefix" || f == "status-line:no-second-sp" {
			hard = true
		}
	}
	switch {
	case ambiguous:
		c.Verdict = Open
	case hard:
		c.Verdict = MustFail
	case rawish > 0:
		c.Verdict = Open
	case len(c.Fail) > 0:
		c.Verdict = MustFail
	case len(c.Open) > 0:
		c.Verdict = Open
	default:
		c.Verdict = MustSucceed
	}
	if c.Verdict != MustSucceed {
		c.Protocol, c.Extensions = "", nil
	}
	return c
}

var canonicalName = map[string]string{
	HUpgrade:    "Upgrade",
	HConnection: "Connection",
	HAccept:     "Sec-WebSocket-Accept",
	HProtocol:   "Sec-WebSocket-Protocol",
	HExtensions: "Sec-WebSocket-Extensions",
}

func offeredFold(cfg Config, name string) bool {
	for _, e := range cfg.Extensions {
		if asciiLower(e.Name) == asciiLower(name) {
			return true
		}
	}
	return false
}

func uniq(s []string) []string {
	if len(s) < 2 {
		return s
	}
	sort.Strings(s)
	out := s[:1]
	for _, x := range s[1:] {
		if x != out[len(out)-1] {
			out = append(out, x)
		}
	}
	return out
}

// ListStatus is the outcome of ParseOptionList.
type ListStatus int

const (
	ListOK      ListStatus = iota // well-formed, at least one element
	ListEmpty                     // nothing but blanks
	ListBadName                   // where an extension name has to stand there is something that is not a token
	ListBadTail                   // malformed after a well-formed name, an empty list element, or HT/escapes inside
)

// ParseOptionList is a strict parser for Sec-WebSocket-Extensions values:
//
//	list   = elem *( *SP "," *SP elem )
//	elem   = token *( *SP ";" *SP param )
//	param  = token [ "=" ( token / quoted ) ]
//	quoted = DQUOTE *( %x20-21 / %x23-5B / %x5D-7E ) DQUOTE      ; no escapes
//
// It is deliberately narrower than RFC 7230 lists (no HT, no empty elements,
// no quoted-pair, no blanks around "="): whatever it does not accept is
// classified as ListBadName when the offending text stands where an extension
// name is expected (such a header names no offered extension), and as
// ListBadTail otherwise.
func ParseOptionList(s string) ([]Ext, ListStatus) {
	if strings.Trim(s, " \t") == "" {
		return nil, ListEmpty
	}
	var out []Ext
	i := 0
	skipSP := func() {
		for i < len(s) && s[i] == ' ' {
			i++
		}
	}
	token := func() string {
		j := i
		for i < len(s) && IsTokenChar(s[i]) {
			i++
		}
		return s[j:i]
	}
	status := ListOK
	worse := func(st ListStatus) {
		// ListBadName dominates ListBadTail dominates ListOK.
		if st == ListBadName || status == ListOK {
			status = st
		}
	}
	for {
		skipSP()
		if i >= len(s) {
			// trailing comma / empty last element
			worse(ListBadTail)
			break
		}
		if s[i] == ',' {
			worse(ListBadTail) // empty element
			i++
			continue
		}
		name := token()
		if name == "" {
			worse(ListBadName)
			// resynchronise at the next comma outside quotes to look at later names
			if !skipToComma(s, &i) {
				break
			}
			continue
		}
		e := Ext{Name: name}
		ok := true
	params:
		for {
			skipSP()
			if i >= len(s) || s[i] == ',' {
				break
			}
			if s[i] != ';' {
				ok = false
				break
			}
			i++
			skipSP()
			k := token()
			if k == "" {
				ok = false
				break
			}
			p := Param{Key: k}
			if i < len(s) && s[i] == '=' {
				i++
				if i < len(s) && s[i] == '"' {
					j := i + 1
					for j < len(s) && s[j] != '"' {
						if s[j] == '\\' || s[j] < 0x20 || s[j] > 0x7e {
							ok = false
							break params
						}
						j++
					}
					if j >= len(s) {
						ok = false
						break
					}
					p.Value = s[i+1 : j]
					i = j + 1
				} else {
					p.Value = token()
					if p.Value == "" {
						ok = false
						break
					}
				}
			}
			e.Params = append(e.Params, p)
		}
		if !ok {
			worse(ListBadTail)
			if !skipToComma(s, &i) {
				break
			}
			continue
		}
		out = append(out, e)
		if i >= len(s) {
			break
		}
		i++ // the comma
		if strings.Trim(s[i:], " ") == "" {
			worse(ListBadTail) // trailing comma
			break
		}
	}
	if status != ListOK {
		return nil, status
	}
	return out, ListOK
}

// skipToComma advances *i just past the next comma that is outside a quoted
// string; false if there is none.
func skipToComma(s string, i *int) bool {
	q := false
	for *i < len(s) {
		c := s[*i]
		*i++
		switch {
		case c == '"':
			q = !q
		case c == ',' && !q:
			return true
		}
	}
	return false
}

// FormatOptionList renders extensions in the canonical form
// "name; k=v; k2=\"quoted value\", name2": a value is quoted iff it is not a
// token (or force is set). sep is written after ';' and ','.
func FormatOptionList(exts []Ext, sep string, force bool) string {
	var b strings.Builder
	for i, e := range exts {
		if i > 0 {
			b.WriteString("," + sep)
		}
		b.WriteString(e.Name)
		for _, p := range e.Params {
			b.WriteString(";" + sep)
			b.WriteString(p.Key)
			if p.Value == "" {
				continue
			}
			b.WriteByte('=')
			if force || !IsToken(p.Value) {
				b.WriteString(`"` + p.Value + `"`)
			} else {
				b.WriteString(p.Value)
			}
		}
	}
	return b.String()
}

// SameExts reports whether two extension lists are equal: same names in the
// same order, and for each the same multiset of (key, value) parameters.
func SameExts(a, b []Ext) bool {
	if len(a) != len(b) {
		return false
	}
	for i := range a {
		if a[i].Name != b[i].Name || len(a[i].Params) != len(b[i].Params) {
			return false
		}
		x := append([]Param(nil), a[i].Params...)
		y := append([]Param(nil), b[i].Params...)
		less := func(p []Param) func(i, j int) bool {
			return func(i, j int) bool {
				if p[i].Key != p[j].Key {
					return p[i].Key < p[j].Key
				}
				return p[i].Value < p[j].Value
			}
		}
		sort.Slice(x, less(x))
		sort.Slice(y, less(y))
		for j := range x {
			if x[j] != y[j] {
				return false
			}
		}
	}
	return true
}
