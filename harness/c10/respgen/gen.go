package respgen

import (
	"strings"
	"unicode"

	"pgregory.net/rapid"
)

// printable: ASCII printable, Latin-1 letters and signs, basic Cyrillic (no CR, LF or other controls).
var printable = &unicode.RangeTable{
	R16:         []unicode.Range16{{Lo: 0x20, Hi: 0x7e, Stride: 1}, {Lo: 0xa1, Hi: 0xff, Stride: 1}, {Lo: 0x410, Hi: 0x44f, Stride: 1}},
	LatinOffset: 2,
}

const tchars = "abcdefghijklmnopqrstuvwxyzABCDEFGHIJKLMNOPQRSTUVWXYZ0123456789!#$%&'*+-.^_`|~"

var tokenRunes = []rune(tchars)

// quotable: what a quoted-string may hold without escapes (printable ASCII minus DQUOTE and backslash).
var quotableRunes = func() []rune {
	var r []rune
	for c := rune(0x20); c <= 0x7e; c++ {
		if c != '"' && c != '\\' {
			r = append(r, c)
		}
	}
	return r
}()

var protoPool = []string{"chat", "superchat", "v1.json", "mqtt", "soap", "wamp.2.json", "x", "graphql-ws", "Chat", "v10.stomp"}
var extPool = []string{"permessage-deflate", "x-a", "x-b", "x-webkit-deflate-frame", "permessage-foo", "X-Custom"}
var paramKeyPool = []string{"client_max_window_bits", "server_max_window_bits", "server_no_context_takeover", "client_no_context_takeover", "a", "b", "mode"}

// Token draws an RFC 7230 token: a realistic one from pool (if given) or a random one.
func Token(t *rapid.T, label string, pool []string) string {
	if len(pool) > 0 && rapid.IntRange(0, 3).Draw(t, label+".pool") > 0 {
		return rapid.SampledFrom(pool).Draw(t, label)
	}
	return rapid.StringOfN(rapid.RuneFrom(tokenRunes), 1, 12, -1).Draw(t, label)
}

// ParamValue draws a parameter value: none, a token, or a string that needs
// quoting but no escapes.
func ParamValue(t *rapid.T, label string) string {
	switch rapid.IntRange(0, 3).Draw(t, label+".kind") {
	case 0:
		return ""
	case 1:
		return rapid.SampledFrom([]string{"8", "15", "10", "true", "0"}).Draw(t, label)
	case 2:
		return rapid.StringOfN(rapid.RuneFrom(tokenRunes), 1, 8, -1).Draw(t, label)
	}
	return rapid.StringOfN(rapid.RuneFrom(quotableRunes), 1, 10, -1).Draw(t, label)
}

// Params draws 0-3 parameters (now and then 9-11, more than httphead keeps inline).
func Params(t *rapid.T, label string) []Param {
	n := rapid.IntRange(0, 3).Draw(t, label+".n")
	if rapid.IntRange(0, 19).Draw(t, label+".many") == 0 {
		n = rapid.IntRange(9, 11).Draw(t, label+".nmany")
	}
	var ps []Param
	for i := 0; i < n; i++ {
		ps = append(ps, Param{Key: Token(t, label+".key", paramKeyPool), Value: ParamValue(t, label+".val")})
	}
	return ps
}

// GenConfig draws what the dialer requests: 0-4 distinct subprotocol tokens
// and 0-3 extension offers (names may repeat, as in two permessage-deflate
// offers) with token or quotable parameter values.
func GenConfig(t *rapid.T, label string) Config {
	var c Config
	if rapid.IntRange(0, 3).Draw(t, label+".hasproto") > 0 {
		g := rapid.Custom(func(t *rapid.T) string { return Token(t, "p", protoPool) })
		c.Protocols = rapid.SliceOfNDistinct(g, 1, 4, rapid.ID[string]).Draw(t, label+".protocols")
	}
	n := rapid.IntRange(0, 3).Draw(t, label+".next")
	for i := 0; i < n; i++ {
		c.Extensions = append(c.Extensions, Ext{Name: Token(t, label+".ext", extPool), Params: Params(t, label+".extp")})
	}
	return c
}

// StatusTokens is the fixed part of the status-token alphabet. Apart from
// "101" every one of them must be refused (the leading-zero forms of 101 are not the literal 101); the
// tokens "0:1", "9;" and the 20-digit one were accepted as 101 by the
// originally pinned tree (finding C10/status-token-nondigit-or-overflow).
var StatusTokens = []string{
	"100", "200", "400", "404", "301", "500", "102", "1010", "1011", "10", "11", "1", "0", "",
	"1O1", "0:1", "9;", "::?", "101x", "x101", "1:1", "0;0", "?1", "5<1", "00:1", "09;",
	"18446744073709551717", "36893488147419103333", "4294967397", "340282366920938463463374607431768211557",
	"9223372036854775909", "18446744073709551616", "99999999999999999999",
	"+101", "-101", "1e2", "101.0", "0x65", "１０１", "10１", "1\t01", "101\t", "\t101", "101\x00", "10l",
	"0101", "00101", "000000000000000000000101",
}

// decAdd adds two non-negative decimal numerals.
func decAdd(a, b string) string {
	var out []byte
	carry := 0
	for i, j := len(a)-1, len(b)-1; i >= 0 || j >= 0 || carry > 0; i, j = i-1, j-1 {
		s := carry
		if i >= 0 {
			s += int(a[i] - '0')
		}
		if j >= 0 {
			s += int(b[j] - '0')
		}
		out = append([]byte{byte('0' + s%10)}, out...)
		carry = s / 10
	}
	return string(out)
}

// WrapNumerals returns decimal numerals that are not the numeral v but that a
// careless machine-word conversion may read as v: k*2^64+v, k*2^63+v and
// k*2^32+v (congruent to v modulo the word size), the digits of 2^63, 2^63-1,
// 2^64, 2^64-1, 2^32, 2^31 (and one more or less) followed by the digits of v
// (a conversion whose overflow guard fires late or only once keeps
// accumulating modulo 2^64 after the wrap), and long digit strings ending in
// the digits of v. For a status code (v = "101") or an HTTP major version
// (v = "1") every one of them is a different number and has to be refused.
func WrapNumerals(v string) []string {
	var out []string
	for _, p := range []string{"18446744073709551616", "9223372036854775808", "4294967296"} {
		acc := "0"
		for k := 1; k <= 6; k++ {
			acc = decAdd(acc, p)
			out = append(out, decAdd(acc, v))
		}
	}
	for _, p := range []string{"9223372036854775808", "9223372036854775807", "9223372036854775809", "18446744073709551616", "18446744073709551615",
		"18446744073709551617", "4294967296", "2147483648", "922337203685477580", "1844674407370955161", "92233720368547758080", "184467440737095516160"} {
		out = append(out, p+v, p+"0"+v, p+"000"+v)
	}
	for _, n := range []int{20, 25, 40, 64, 200} {
		out = append(out, "1"+strings.Repeat("0", n)+v, strings.Repeat("9", n)+v, strings.Repeat("7", n)+v)
	}
	return out
}

var wrap101, wrap1 = WrapNumerals("101"), WrapNumerals("1")

// VersionTokens is the fixed part of the version alphabet.
var VersionTokens = []string{
	"HTTP/1.2", "HTTP/1.9", "HTTP/1.10", "HTTP/1.15", "HTTP/1.999", "HTTP/1.100000",
	"HTTP/1.0", "HTTP/2.0", "HTTP/2.1", "HTTP/0.9", "HTTP/0.1", "HTTP/3.1", "HTTP/1", "HTTP/1.", "HTTP/.1", "HTTP/1.1x", "HTTP/1.:",
	"HTTP/1.;", "HTTP/:.1", "http/1.1", "Http/1.1", "HTTP/1,1", "HTTP/11.1", "HTTP/10.1", "HTTP/1.1.1", "HTTPS/1.1", "HTTP/+1.1", "HTTP/1.-1",
	"HTTP/1.١", "", "HTTP", "HTTP/", "ICY", "HTTP/18446744073709551617.1", "HTTP/1.0x1", "HTTP/1.00", "HTTP/1.1\t", "HTTP\\1.1", "HTTP/1.1/",
	"HTTP/01.1", "HTTP/1.01", "HTTP/001.001", "HTTP/1.18446744073709551617", "HTTP/1.00000000001", "HTTP/1.4294967297",
}

var reasons = []string{"Switching Protocols", "", "OK", "switching protocols", "Web Socket Protocol Handshake", " ", "101", "Switching  Protocols ", "Протоколы", "a\tb", "101 Switching Protocols"}

var pres = []string{" ", " ", " ", "", "  ", "\t", " \t "}
var posts = []string{"", "", "", " ", "\t", "  \t"}

var upgradeWrong = []string{"websocket2", "websockets", "h2c", "", "web socket", "websocke", "TLS/1.0", "websocket/13", `"websocket"`, "ebsocket", "websocket;", "Upgrade", "w"}

// UpgradeFoldOnly are Upgrade values that equal "websocket" only under Unicode
// simple case folding (KELVIN SIGN, LATIN SMALL LETTER LONG S); by ASCII
// case-insensitive comparison they are wrong.
var UpgradeFoldOnly = []string{"websoc\u212aet", "web\u017focket", "WEB\u017fOC\u212aET"}
var upgradeLists = []string{"websocket, h2c", "h2c, websocket", "websocket,websocket", "websocket,"}
var connectionWrong = []string{"keep-alive", "close", "Upgrades", "", "Upgrad", "websocket", "Up grade", "pgrade", `"Upgrade"`, "Upgrade;", "keep-alive, close"}
var connectionLists = []string{"keep-alive, Upgrade", "Upgrade, keep-alive", "a,Upgrade,b", "Upgrade,", "upgrade ,close", ",Upgrade"}
var acceptWrongKinds = []AcceptKind{AcceptOtherKey, AcceptShort, AcceptLong, AcceptCaseFlip, AcceptLastByte, AcceptLiteral}
var acceptLiterals = []string{"", "s3pPLMBiTxaQ9kYGzzhZRbK+xOo=", "AAAAAAAAAAAAAAAAAAAAAAAAAAA=", "dGhlIHNhbXBsZSBub25jZQ==", "websocket", "=", "0000000000000000000000000000"}

var extraNames = []string{"Server", "Date", "X-Powered-By", "Sec-WebSocket-Version", "Sec-WebSocket-Key", "Upgrade-Insecure-Requests",
	"Connection-Id", "X-Upgrade", "Sec-WebSocket-Accept2", "Sec-WebSocket-Accep", "Content-Length", "Set-Cookie", "Via", "Upgrad", "Connectio", "x", "Sec-WebSocket-Protocols", "Sec-WebSocket-Extension"}
var extraValues = []string{"", "x", "gobwas", "Upgrade: websocket", "websocket", "Upgrade", "0", "5", "a=b; Path=/", "Thu, 01 Oct 2026 00:00:00 GMT", "HTTP/1.1 101 Switching Protocols", "ünïcödé", ":", "::"}

// TwoTokenStatusLines are first lines with fewer than the two mandatory SP separators.
var TwoTokenStatusLines = []string{"HTTP/1.1 101", "HTTP/1.1 400", "HTTP/1.1 200", "HTTP/1.1", "101 Switching", "HTTP/1.1\t101 x", "HTTP/1.1\t101\tSwitching",
	"HTTP/1.1 101\tSwitching", "HTTP/1.1101 Switching", "101", "HTTP/1.2 101", "HTTP/1.1 0101"}

// Prefixes are byte strings put before the status line: the first line of such
// a response is not a status line.
var Prefixes = []string{"\r\n", "\n", "\r", " ", "\t", "\r\n\r\n", "\n\n", "\r\n\n", " \r\n", "\r\n ", "\n\r\n\r\n"}

// RawLines are deliberately unusual header lines (class open).
var RawLines = []string{"NoColonHere", " folded: continuation", "\tfolded", "Upgrade websocket", "X-Foo : bar", ": empty-name", "Upgrade : websocket", " Connection: Upgrade", "X Y: z"}

var extBadName = []string{"=x", ";a=1", `"x-a"`, "@", "/x-a", "[x-a]", "x-a, =y", "x-a,;b", "(c) x-a", "\x80\x81", "x-a, \"q\""}
var extBadTail = []string{";", ";;", "; =1", " b", "; a=", "; a=\"unterminated", ";a=1;", "; a = 1", "\tq", "; a=\"es\\\"c\"", "; a=b=c"}

func randCase(t *rapid.T, label, s string) string {
	b := []byte(s)
	for i, c := range b {
		if ('a' <= c && c <= 'z' || 'A' <= c && c <= 'Z') && rapid.Bool().Draw(t, label) {
			b[i] = c ^ 0x20
		}
	}
	return string(b)
}

func nameVariant(t *rapid.T, label, canon string) string {
	switch rapid.IntRange(0, 6).Draw(t, label+".namecase") {
	case 0:
		return strings.ToLower(canon)
	case 1:
		return strings.ToUpper(canon)
	case 2:
		return randCase(t, label+".flip", canon)
	case 3:
		return strings.Replace(canon, "WebSocket", "Websocket", 1)
	}
	return canon
}

func pad(t *rapid.T, label string, l Line) Line {
	if rapid.IntRange(0, 2).Draw(t, label+".pad") == 0 {
		l.Pre = rapid.SampledFrom(pres).Draw(t, label+".pre")
		l.Post = rapid.SampledFrom(posts).Draw(t, label+".post")
	}
	return l
}

// other token that is not requested / offered
func strangerToken(t *rapid.T, label string, taken func(string) bool, like []string) string {
	if len(like) > 0 {
		base := rapid.SampledFrom(like).Draw(t, label+".like")
		var cand string
		switch rapid.IntRange(0, 3).Draw(t, label+".how") {
		case 0:
			cand = base + "x"
		case 1:
			cand = base[:len(base)-1]
		case 2:
			cand = "x" + base
		}
		if cand != "" && IsToken(cand) && !taken(cand) {
			return cand
		}
	}
	for i := 0; ; i++ {
		cand := Token(t, label+".tok", []string{"unknown", "x-zip", "binary", "v2"})
		if !taken(cand) {
			return cand
		}
		if i > 5 {
			cand = cand + "-zz"
			for taken(cand) {
				cand += "z"
			}
			return cand
		}
	}
}

func flipCase(s string) string {
	b := []byte(s)
	for i, c := range b {
		if 'a' <= c && c <= 'z' || 'A' <= c && c <= 'Z' {
			b[i] = c ^ 0x20
			return string(b)
		}
	}
	return s
}

// Opts tunes Gen.
type Opts struct {
	// MaxTrailing bounds the number of bytes after the head (default 200).
	MaxTrailing int
	// LongLines allows header lines of several hundred to several thousand bytes.
	LongLines bool
	// ValidOnly: draw no deviations, only valid (possibly non-canonical) responses.
	ValidOnly bool
	// NoFoldOnly: do not draw the Upgrade values of UpgradeFoldOnly.
	NoFoldOnly bool
	// MinExtra is the least number of well-formed extra (non-websocket) header
	// lines; up to MinExtra+3 are drawn. With MinExtra > 0 the extra lines are
	// also spread before, between and after the websocket headers more often.
	MinExtra int
}

// Gen draws a response for a dialer that requested cfg: a valid response with
// random non-canonical variation, then zero to three deviations from the menu
// of §4.10. What the outcome has to be is decided by Classify, not here.
func Gen(t *rapid.T, label string, cfg Config, o Opts) *Response {
	if o.MaxTrailing == 0 {
		o.MaxTrailing = 200
	}
	L := func(s string) string { return label + "." + s }
	r := &Response{Version: "HTTP/1.1", Status: "101", Reason: "Switching Protocols"}

	// --- valid variation -------------------------------------------------
	if rapid.IntRange(0, 4).Draw(t, L("ver")) == 0 {
		r.Version = rapid.SampledFrom(VersionTokens[:6]).Draw(t, L("version"))
	}
	if rapid.IntRange(0, 2).Draw(t, L("rsn")) == 0 {
		if rapid.IntRange(0, 3).Draw(t, L("rsnrand")) == 0 {
			r.Reason = rapid.StringOfN(rapid.RuneFrom(nil, printable), 0, 30, -1).Draw(t, L("reasonrand"))
		} else {
			r.Reason = rapid.SampledFrom(reasons).Draw(t, L("reason"))
		}
	}
	upVal, connVal := "websocket", "Upgrade"
	switch rapid.IntRange(0, 5).Draw(t, L("upcase")) {
	case 0:
		upVal = "WebSocket"
	case 1:
		upVal = "WEBSOCKET"
	case 2:
		upVal = randCase(t, L("upflip"), upVal)
	}
	switch rapid.IntRange(0, 5).Draw(t, L("conncase")) {
	case 0:
		connVal = "upgrade"
	case 1:
		connVal = "UPGRADE"
	case 2:
		connVal = randCase(t, L("connflip"), connVal)
	}
	up := pad(t, L("up"), Line{Name: nameVariant(t, L("up"), "Upgrade"), Pre: " ", Value: upVal})
	conn := pad(t, L("conn"), Line{Name: nameVariant(t, L("conn"), "Connection"), Pre: " ", Value: connVal})
	acc := pad(t, L("acc"), Line{Name: nameVariant(t, L("acc"), "Sec-WebSocket-Accept"), Pre: " ", Accept: AcceptRight})
	ups, conns, accs := []Line{up}, []Line{conn}, []Line{acc}
	var protos, exts, others []Line

	if len(cfg.Protocols) > 0 && rapid.Bool().Draw(t, L("hasproto")) {
		p := rapid.SampledFrom(cfg.Protocols).Draw(t, L("proto"))
		protos = append(protos, pad(t, L("proto"), Line{Name: nameVariant(t, L("proto"), "Sec-WebSocket-Protocol"), Pre: " ", Value: p}))
	}
	if len(cfg.Extensions) > 0 && rapid.Bool().Draw(t, L("hasext")) {
		// a subset of the offers, without repeating a name, in any order
		idx := rapid.Permutation(seq(len(cfg.Extensions))).Draw(t, L("extperm"))
		var chosen []Ext
		seen := map[string]bool{}
		for _, i := range idx {
			name := cfg.Extensions[i].Name
			if seen[name] || (len(chosen) > 0 && rapid.IntRange(0, 2).Draw(t, L("extskip")) == 0) {
				continue
			}
			seen[name] = true
			chosen = append(chosen, Ext{Name: name, Params: Params(t, L("srvp"))})
		}
		split := len(chosen)
		if len(chosen) > 1 && rapid.IntRange(0, 2).Draw(t, L("extsplit")) == 0 {
			split = rapid.IntRange(1, len(chosen)-1).Draw(t, L("extsplitat"))
		}
		sep := rapid.SampledFrom([]string{" ", " ", "", "  "}).Draw(t, L("extsep"))
		force := rapid.IntRange(0, 3).Draw(t, L("extquote")) == 0
		for _, part := range [][]Ext{chosen[:split], chosen[split:]} {
			if len(part) > 0 {
				exts = append(exts, pad(t, L("ext"), Line{Name: nameVariant(t, L("ext"), "Sec-WebSocket-Extensions"), Pre: " ", Value: FormatOptionList(part, sep, force)}))
			}
		}
	}
	{
		// well-formed extra headers, names that do not collide with the five special ones
		n := rapid.IntRange(0, 4).Draw(t, L("nextra")) - 1
		if o.MinExtra > 0 {
			n = o.MinExtra + rapid.IntRange(0, 3).Draw(t, L("nextramore"))
		}
		for i := 0; i < n; i++ {
			name := Token(t, L("xname"), extraNames)
			if _, special := canonicalName[asciiLower(name)]; special {
				name = "X-" + name
			}
			var v string
			switch k := rapid.IntRange(0, 9).Draw(t, L("xkind")); {
			case k == 0 && o.LongLines:
				n := rapid.SampledFrom([]int{40, 100, 120, 130, 300, 5000}).Draw(t, L("xlong"))
				v = strings.Repeat("long-value ", n/11+1)[:n]
			case k <= 3:
				v = rapid.StringOfN(rapid.RuneFrom(nil, printable), 0, 40, -1).Draw(t, L("xrand"))
				v = trimBlank(v)
			default:
				v = rapid.SampledFrom(extraValues).Draw(t, L("xval"))
			}
			others = append(others, pad(t, L("x"), Line{Name: name, Pre: " ", Value: v}))
		}
	}

	// --- deviations ------------------------------------------------------
	ndev := 0
	if !o.ValidOnly {
		ndev = rapid.SampledFrom([]int{0, 0, 0, 1, 1, 1, 1, 1, 1, 2, 2, 3}).Draw(t, L("ndev"))
	}
	cut := false
	for d := 0; d < ndev; d++ {
		switch rapid.IntRange(0, 22).Draw(t, L("dev")) {
		case 22: // stray line ends / blanks before the status line
			r.Prefix = rapid.SampledFrom(Prefixes).Draw(t, L("prefix"))
		case 0, 1: // status token
			switch rapid.IntRange(-2, 5).Draw(t, L("stkind")) {
			case -2: // value 101, but not the literal: leading zeros
				r.Status = strings.Repeat("0", rapid.IntRange(1, 24).Draw(t, L("stzeros"))) + "101"
			case -1:
				if rapid.Bool().Draw(t, L("stwraprand")) {
					// random long digit string ending in 101
					r.Status = rapid.StringOfN(rapid.RuneFrom([]rune("0123456789")), 17, 45, -1).Draw(t, L("stlong")) + "101"
				} else {
					r.Status = rapid.SampledFrom(wrap101).Draw(t, L("stwrap"))
				}
			case 0:
				r.Status = rapid.StringOfN(rapid.RuneFrom([]rune("0123456789:;<=>?")), 1, 4, -1).Draw(t, L("stcolon"))
			case 1:
				r.Status = rapid.StringOfN(rapid.RuneFrom([]rune("0123456789")), 1, 25, -1).Draw(t, L("stdigits"))
			case 2:
				r.Status = rapid.StringOfN(rapid.RuneFrom([]rune("01")), 1, 6, -1).Draw(t, L("st01"))
			default:
				r.Status = rapid.SampledFrom(StatusTokens).Draw(t, L("status"))
			}
		case 2, 3: // version
			if k := rapid.IntRange(0, 5).Draw(t, L("verkind")); k == 5 {
				// numerals that wrap to 1 as major (must fail) or are huge as minor (open)
				n := rapid.SampledFrom(wrap1).Draw(t, L("verwrap"))
				if rapid.IntRange(0, 3).Draw(t, L("verwrapminor")) == 0 {
					r.Version = "HTTP/1." + n
				} else {
					r.Version = "HTTP/" + n + ".1"
				}
			} else if k == 0 {
				r.Version = "HTTP/" + rapid.StringOfN(rapid.RuneFrom([]rune("0123.:x")), 0, 5, -1).Draw(t, L("verrand"))
			} else {
				r.Version = rapid.SampledFrom(VersionTokens).Draw(t, L("badversion"))
			}
		case 4: // a status line with fewer than two separators
			if rapid.Bool().Draw(t, L("nosp")) {
				r.NoReasonSP = true
			} else {
				r.RawStatusLine = rapid.SampledFrom(TwoTokenStatusLines).Draw(t, L("rawstatus"))
			}
		case 5, 6, 7: // Upgrade
			ups = deviate(t, L("updev"), ups, func(l Line) Line {
				pool := upgradeWrong
				if !o.NoFoldOnly && rapid.IntRange(0, 7).Draw(t, L("upfold")) == 0 {
					pool = UpgradeFoldOnly
				}
				l.Value = rapid.SampledFrom(pool).Draw(t, L("upwrong"))
				return l
			}, upgradeLists)
		case 8, 9, 10: // Connection
			conns = deviate(t, L("conndev"), conns, func(l Line) Line {
				l.Value = rapid.SampledFrom(connectionWrong).Draw(t, L("connwrong"))
				return l
			}, connectionLists)
		case 11, 12, 13, 14: // Accept
			accs = deviate(t, L("accdev"), accs, func(l Line) Line {
				l.Accept = rapid.SampledFrom(acceptWrongKinds).Draw(t, L("acckind"))
				if l.Accept == AcceptLiteral {
					l.Value = rapid.SampledFrom(acceptLiterals).Draw(t, L("acclit"))
				}
				return l
			}, nil)
		case 15, 16: // subprotocol
			base := Line{Name: nameVariant(t, L("pdev"), "Sec-WebSocket-Protocol"), Pre: " "}
			kind := rapid.IntRange(0, 8).Draw(t, L("pkind"))
			if len(cfg.Protocols) == 0 && kind >= 3 {
				kind = 0
			}
			switch kind {
			case 0, 1: // a token that was not requested
				base.Value = strangerToken(t, L("pstranger"), cfg.Requested, cfg.Protocols)
				protos = []Line{base}
			case 2:
				base.Value = ""
				protos = []Line{base}
			case 3: // requested, case flipped
				p := flipCase(rapid.SampledFrom(cfg.Protocols).Draw(t, L("pflip")))
				base.Value = p
				protos = []Line{base}
			case 4: // two header lines
				a, b := base, base
				a.Value = rapid.SampledFrom(cfg.Protocols).Draw(t, L("pdup1"))
				b.Value = rapid.SampledFrom(cfg.Protocols).Draw(t, L("pdup2"))
				protos = []Line{a, b}
			case 5, 7, 8: // a list that embeds a requested token
				req := rapid.SampledFrom(cfg.Protocols).Draw(t, L("plistreq"))
				other := strangerToken(t, L("pliststranger"), cfg.Requested, cfg.Protocols)
				if len(cfg.Protocols) > 1 && rapid.Bool().Draw(t, L("plistboth")) {
					other = rapid.SampledFrom(cfg.Protocols).Draw(t, L("plistreq2"))
				}
				sep := rapid.SampledFrom([]string{", ", ",", " ", " , ", "\t", ";", "; q="}).Draw(t, L("plistsep"))
				switch rapid.IntRange(0, 4).Draw(t, L("plistform")) {
				case 0:
					base.Value = other + sep + req
				case 1:
					base.Value = req + sep + other
				case 2:
					base.Value = req + ","
				case 3:
					base.Value = "," + req
				case 4:
					base.Value = strings.Join(cfg.Protocols, sep) + sep + other
				}
				protos = []Line{base}
			case 6: // requested one and a stranger in two lines
				a, b := base, base
				a.Value = rapid.SampledFrom(cfg.Protocols).Draw(t, L("pmix1"))
				b.Value = strangerToken(t, L("pmix2"), cfg.Requested, cfg.Protocols)
				protos = []Line{a, b}
				if rapid.Bool().Draw(t, L("pmixswap")) {
					protos = []Line{b, a}
				}
			}
		case 17, 18: // extensions
			base := Line{Name: nameVariant(t, L("edev"), "Sec-WebSocket-Extensions"), Pre: " "}
			kind := rapid.IntRange(0, 7).Draw(t, L("ekind"))
			if len(cfg.Extensions) == 0 && kind >= 4 {
				kind = rapid.IntRange(0, 2).Draw(t, L("ekind0"))
			}
			var names []string
			for _, e := range cfg.Extensions {
				names = append(names, e.Name)
			}
			switch kind {
			case 0, 1: // a name that was not offered
				s := Ext{Name: strangerToken(t, L("estranger"), func(n string) bool { return offeredFold(cfg, n) }, names), Params: Params(t, L("esp"))}
				list := []Ext{s}
				if len(cfg.Extensions) > 0 && rapid.Bool().Draw(t, L("ewithgood")) {
					good := Ext{Name: rapid.SampledFrom(names).Draw(t, L("egood"))}
					if rapid.Bool().Draw(t, L("efirst")) {
						list = []Ext{good, s}
					} else {
						list = []Ext{s, good}
					}
				}
				base.Value = FormatOptionList(list, " ", false)
				exts = append(exts, base)
			case 2:
				base.Value = rapid.SampledFrom(extBadName).Draw(t, L("ebadname"))
				exts = append(exts, base)
			case 3:
				base.Value = ""
				exts = append(exts, base)
			case 4: // offered name, case flipped
				n := rapid.SampledFrom(names).Draw(t, L("eflip"))
				base.Value = flipCase(n)
				exts = append(exts, base)
			case 5: // malformed after an offered name
				base.Value = rapid.SampledFrom(names).Draw(t, L("etailname")) + rapid.SampledFrom(extBadTail).Draw(t, L("etail"))
				exts = append(exts, base)
			case 6: // the same offered extension twice
				n := rapid.SampledFrom(names).Draw(t, L("erep"))
				base.Value = n + ", " + n
				exts = []Line{base}
			case 7: // empty element
				base.Value = rapid.SampledFrom(names).Draw(t, L("eempty")) + rapid.SampledFrom([]string{",", ",,x-a", ", ,"}).Draw(t, L("eemptyform"))
				exts = append(exts, base)
			}
		case 19: // unusual line
			others = append(others, Line{Raw: rapid.SampledFrom(RawLines).Draw(t, L("raw"))})
		case 20, 21:
			cut = true
		}
	}

	// --- assemble --------------------------------------------------------
	var lines []Line
	for _, g := range [][]Line{ups, conns, accs, protos, exts, others} {
		lines = append(lines, g...)
	}
	if len(lines) > 1 && (rapid.Bool().Draw(t, L("shuffle")) || (o.MinExtra > 0 && rapid.IntRange(0, 3).Draw(t, L("shufflemore")) > 0)) {
		lines = rapid.Permutation(lines).Draw(t, L("order"))
	}
	r.Lines = lines
	switch rapid.IntRange(0, 4).Draw(t, L("eol")) {
	case 0: // all LF
		r.StatusLF, r.EndLF = true, true
		for i := range r.Lines {
			r.Lines[i].LF = true
		}
	case 1: // mixed
		r.StatusLF = rapid.Bool().Draw(t, L("lf"))
		r.EndLF = rapid.Bool().Draw(t, L("lf"))
		for i := range r.Lines {
			r.Lines[i].LF = rapid.Bool().Draw(t, L("lf"))
		}
	}
	if cut {
		n := len(r.Head("AAAAAAAAAAAAAAAAAAAAAA=="))
		if rapid.Bool().Draw(t, L("cutnearend")) {
			r.Cut = n - rapid.IntRange(1, 4).Draw(t, L("cutback"))
		} else {
			r.Cut = rapid.IntRange(1, n-1).Draw(t, L("cut"))
		}
		return r
	}
	switch rapid.IntRange(0, 5).Draw(t, L("trail")) {
	case 0, 1:
	case 2:
		r.Trailing = rapid.SampledFrom([][]byte{
			[]byte("\r\n\r\n"), []byte("\n"), []byte("HTTP/1.1 200 OK\r\n\r\n"), {0x81, 0x02, 'h', 'i'}, {0x89, 0x00}, {0x00},
			[]byte("Upgrade: websocket\r\n\r\n"),
		}).Draw(t, L("trailfixed"))
	default:
		n := rapid.IntRange(1, o.MaxTrailing).Draw(t, L("trailn"))
		b0 := rapid.Byte().Draw(t, L("trailb"))
		r.Trailing = make([]byte, n)
		for i := range r.Trailing {
			r.Trailing[i] = b0 + byte(i*7)
		}
	}
	return r
}

// JunkPads are bytes that are not blanks (SP, HT) but that over-eager trimming
// (bytes.TrimSpace, unicode.IsSpace) would strip: a right value padded with one
// of them is a wrong value.
var JunkPads = []string{"\v", "\f", "\r", "\x85", "\xc2\x85", "\xc2\xa0", "\x00", "\u2003", "\u3000"}

// JunkPad pads the value of l (left, right or both) with one of JunkPads,
// inside or outside the ordinary blanks.
func JunkPad(t *rapid.T, label string, l Line) Line {
	j := rapid.SampledFrom(JunkPads).Draw(t, label+".junk")
	where := rapid.IntRange(0, 2).Draw(t, label+".where")
	inner := rapid.Bool().Draw(t, label+".inner")
	if where != 1 {
		if inner {
			l.Pre += j
		} else {
			l.Pre = j + l.Pre
		}
	}
	if where != 0 {
		if inner {
			l.Post = j + l.Post
		} else {
			l.Post += j
		}
	}
	return l
}

// deviate replaces the single right line of a required header by one of:
// wrong, absent, duplicated good, duplicated mixed (either order), duplicated
// wrong, a list value.
func deviate(t *rapid.T, label string, cur []Line, wrong func(Line) Line, lists []string) []Line {
	if len(cur) != 1 {
		return cur
	}
	good := cur[0]
	max := 6
	if len(lists) == 0 {
		max = 5
	}
	switch rapid.IntRange(-1, max).Draw(t, label) {
	case -1: // the right value, padded with something that is not a blank
		return []Line{JunkPad(t, label+".pad", good)}
	case 0, 1:
		return []Line{wrong(good)}
	case 2:
		return nil
	case 3:
		return []Line{good, good}
	case 4:
		if rapid.Bool().Draw(t, label+".order") {
			return []Line{good, wrong(good)}
		}
		return []Line{wrong(good), good}
	case 5:
		return []Line{wrong(good), wrong(good)}
	}
	l := good
	l.Value = rapid.SampledFrom(lists).Draw(t, label+".list")
	return []Line{l}
}

func seq(n int) []int {
	s := make([]int, n)
	for i := range s {
		s[i] = i
	}
	return s
}
