package respgen

import (
	"errors"
	"io"
	"net"
	"time"
)

// ErrRunaway is returned by Peer.Read when it is called implausibly often.
var ErrRunaway = errors.New("respgen: runaway reader")

// Peer is a scripted in-memory server: an io.ReadWriter whose Write side
// records the request and whose Read side renders the answer lazily, at the
// first Read, from everything written so far (the accept value depends on the
// key in the request). The answer is then served in the chunk sizes of Sizes
// (cycled; empty = as much as the caller asks for) and ended with End
// (io.EOF if nil), optionally together with the last chunk (EOFWithData).
type Peer struct {
	// Respond turns the request bytes into all bytes the server will send.
	Respond     func(request []byte) []byte
	Sizes       []int
	EOFWithData bool
	End         error

	Written    []byte // everything written, concatenated
	Writes     int    // number of Write calls
	LateWrites int    // bytes written after the first Read
	Started    bool   // the response has been rendered
	Data       []byte // the rendered response
	Pos        int    // bytes of Data consumed
	Reads      int
	i          int
}

// NewPeer returns a peer answering with respond(request).
func NewPeer(respond func(request []byte) []byte, sizes []int) *Peer {
	return &Peer{Respond: respond, Sizes: sizes}
}

func (p *Peer) Write(b []byte) (int, error) {
	p.Writes++
	p.Written = append(p.Written, b...)
	if p.Started {
		p.LateWrites += len(b)
	}
	return len(b), nil
}

func (p *Peer) Read(b []byte) (int, error) {
	if !p.Started {
		p.Started = true
		p.Data = append([]byte(nil), p.Respond(p.Written)...)
	}
	p.Reads++
	if p.Reads > 64+8*len(p.Data)+100000 {
		return 0, ErrRunaway
	}
	if len(b) == 0 {
		return 0, nil
	}
	end := p.End
	if end == nil {
		end = io.EOF
	}
	rem := len(p.Data) - p.Pos
	if rem == 0 {
		return 0, end
	}
	n := len(b)
	if len(p.Sizes) > 0 {
		c := p.Sizes[p.i%len(p.Sizes)]
		p.i++
		if c > 0 && c < n {
			n = c
		}
	}
	if n > rem {
		n = rem
	}
	copy(b, p.Data[p.Pos:p.Pos+n])
	p.Pos += n
	if p.Pos == len(p.Data) && p.EOFWithData {
		return n, end
	}
	return n, nil
}

// Remaining returns the response bytes not yet read from the peer.
func (p *Peer) Remaining() []byte { return p.Data[p.Pos:] }

// Conn wraps a Peer as a net.Conn (for Dialer.Dial through a stub NetDial).
type Conn struct {
	*Peer
	Closed    int
	Deadlines []time.Time
}

type addr struct{}

func (addr) Network() string { return "tcp" }
func (addr) String() string  { return "respgen" }

func (c *Conn) Close() error                       { c.Closed++; return nil }
func (c *Conn) LocalAddr() net.Addr                { return addr{} }
func (c *Conn) RemoteAddr() net.Addr               { return addr{} }
func (c *Conn) SetDeadline(t time.Time) error      { c.Deadlines = append(c.Deadlines, t); return nil }
func (c *Conn) SetReadDeadline(t time.Time) error  { return nil }
func (c *Conn) SetWriteDeadline(t time.Time) error { return nil }
