// C10 — client handshake: the dialer sends a compliant upgrade request, dials
// the URL's host and port, and accepts only a valid 101 response.
package c10

import (
	"bufio"
	"bytes"
	"context"
	"crypto/tls"
	"encoding/base64"
	"errors"
	"fmt"
	"io"
	"math/rand"
	"net"
	"net/http"
	"net/textproto"
	"net/url"
	"strconv"
	"strings"
	"testing"

	"github.com/gobwas/ws"
	"pgregory.net/rapid"

	"verif/harness/c10/respgen"
	"verif/harness/gen"
	"verif/harness/hx"
)

func TestMain(m *testing.M) { hx.Main(m, "C10") }

const (
	sigProtoDup = "C10/unrequested-subprotocol-after-requested"
	sigStatus   = "C10/status-token-nondigit-or-overflow"
	sigFold     = "C10/upgrade-value-unicode-fold"
)

// ---------------------------------------------------------------------------
// dialer configuration

type kv struct {
	K string `json:"k"`
	V string `json:"v"`
}

// dcfg is a generated dialer configuration (JSON-able for samples and replays).
type dcfg struct {
	URL        string         `json:"url"`
	Host       string         `json:"host_override,omitempty"`
	Req        respgen.Config `json:"request"`
	HeaderKind int            `json:"header_kind"` // 0 none, 1 HandshakeHeaderHTTP, 2 String, 3 Bytes, 4 Func
	Extra      []kv           `json:"extra,omitempty"`
	RBuf       int            `json:"rbuf"`
	WBuf       int            `json:"wbuf"`
	Seed       int64          `json:"seed"`
	OnStatus   bool           `json:"on_status_error,omitempty"` // install an OnStatusError callback
	ViaPackage bool           `json:"via_ws_Dial,omitempty"`     // dial through ws.Dial / ws.DefaultDialer
	Wrap       bool           `json:"wrap_conn,omitempty"`       // Dial cases: install a recording WrapConn
	// VetoAt: 0 no OnHeader callback; -1 a callback that only records; k >= 1 a
	// callback that returns errVeto at its k-th invocation.
	VetoAt int `json:"on_header_veto_at,omitempty"`
}

var errVeto = errors.New("c10: OnHeader veto")

func (c *dcfg) extraText() string {
	var b strings.Builder
	for _, e := range c.Extra {
		b.WriteString(e.K + ": " + e.V + "\r\n")
	}
	return b.String()
}

func (c *dcfg) dialer() ws.Dialer {
	d := ws.Dialer{
		ReadBufferSize:  c.RBuf,
		WriteBufferSize: c.WBuf,
		Protocols:       append([]string(nil), c.Req.Protocols...),
		Extensions:      c.Req.Options(),
		Host:            c.Host,
	}
	switch c.HeaderKind {
	case 1:
		h := http.Header{}
		for _, e := range c.Extra {
			h[e.K] = append(h[e.K], e.V)
		}
		d.Header = ws.HandshakeHeaderHTTP(h)
	case 2:
		d.Header = ws.HandshakeHeaderString(c.extraText())
	case 3:
		d.Header = ws.HandshakeHeaderBytes(c.extraText())
	case 4:
		text := c.extraText()
		d.Header = ws.HandshakeHeaderFunc(func(w io.Writer) (int64, error) {
			n, err := io.WriteString(w, text)
			return int64(n), err
		})
	}
	return d
}

var hostPool = []string{"example.org", "localhost", "a-b.c.example", "EXAMPLE.org", "xn--bcher-kva.example", "h", "192.0.2.7", "127.0.0.1",
	"[::1]", "[2001:db8::1]", "[::ffff:192.0.2.1]", "[2001:DB8:0:0:8:800:200C:417A]"}

// hardPaths / hardQueries: characters net/url treats specially. Dial takes the
// string as a request URI: a raw '#' does not start a fragment, it is part of
// the path or query and is sent percent-encoded.
// (No raw blank in the query: net/url keeps RawQuery verbatim, so such a
// string is not a usable URL in the first place — a caller precondition.)
var hardPaths = []string{"/chat#general", "#top", "/a%23b", "/a%3Fb%2Fc", "/a;b=c;d", "/@me/x@y:z", "/\u00e9t\u00e9/\u00fc", "/a b", "/x//y/", "/%E2%82%AC", "/a#b#c", "/!$&'()*+,=", "/a%zz", "/a%2"}
var hardQueries = []string{"?a=1?b=2", "?x#y", "#f?x=1", "?q=\u00e9", "?%23=%3F", "?#", "?a=%zz"}

var pathPool = []string{"", "/", "/chat", "/a/b/c", "/a%20b", "/%2F", "/~user/-._", "/a%2fb/", "//double", "/%41", "/ws/"}
var queryPool = []string{"", "", "?", "?x=1", "?a=b&c=d%20e", "?q=ws://x/y?z", "?%3F=%26"}
var extraNamePool = []string{"Origin", "Cookie", "Authorization", "User-Agent", "X-Custom", "x-lower", "Sec-Fetch-Mode", "Accept-Language", "X-A", "X-B"}
var reservedReq = map[string]bool{"Host": true, "Upgrade": true, "Connection": true, "Sec-Websocket-Version": true, "Sec-Websocket-Key": true,
	"Sec-Websocket-Protocol": true, "Sec-Websocket-Extensions": true, "Content-Length": true, "Transfer-Encoding": true, "Trailer": true, "Expect": true}

var asciiPrintable = func() []rune {
	var r []rune
	for c := rune(0x20); c <= 0x7e; c++ {
		r = append(r, c)
	}
	return r
}()

func genURL(t *rapid.T) (string, string) {
	scheme := rapid.SampledFrom([]string{"ws", "wss"}).Draw(t, "scheme")
	host := rapid.SampledFrom(hostPool).Draw(t, "host")
	if rapid.IntRange(0, 5).Draw(t, "randhost") == 0 {
		host = rapid.StringMatching(`[a-z][a-z0-9-]{0,8}(\.[a-z][a-z0-9]{0,5}){0,2}`).Draw(t, "hostname")
	}
	portForm := "none"
	switch rapid.IntRange(0, 3).Draw(t, "portkind") {
	case 0:
		portForm = "fixed"
		host += ":" + rapid.SampledFrom([]string{"80", "443", "8080", "1", "65535", "0080"}).Draw(t, "port")
	case 1:
		portForm = "random"
		host += fmt.Sprintf(":%d", rapid.IntRange(1, 65535).Draw(t, "portn"))
	}
	path := rapid.SampledFrom(pathPool).Draw(t, "path")
	query := rapid.SampledFrom(queryPool).Draw(t, "query")
	if rapid.IntRange(0, 2).Draw(t, "hardurl") == 0 {
		if rapid.Bool().Draw(t, "hardpath") {
			path = rapid.SampledFrom(hardPaths).Draw(t, "hpath")
		} else {
			query = rapid.SampledFrom(hardQueries).Draw(t, "hquery")
		}
	}
	return scheme + "://" + host + path + query, portForm
}

func genDcfg(t *rapid.T, withURL bool) (dcfg, string) {
	c := dcfg{URL: "ws://example.org/chat"}
	portForm := "none"
	if withURL {
		c.URL, portForm = genURL(t)
	}
	if rapid.IntRange(0, 3).Draw(t, "override") == 0 {
		c.Host = rapid.SampledFrom([]string{"override.example:8443", "other.host", "[::1]:9", "UPPER.example"}).Draw(t, "hostoverride")
	}
	c.Req = respgen.GenConfig(t, "req")
	c.HeaderKind = rapid.IntRange(0, 4).Draw(t, "headerkind")
	if c.HeaderKind != 0 {
		n := rapid.IntRange(0, 4).Draw(t, "nextra")
		spelled := map[string]string{}
		for i := 0; i < n; i++ {
			name := respgen.Token(t, "xname", extraNamePool)
			canon := textproto.CanonicalMIMEHeaderKey(name)
			if reservedReq[canon] {
				continue
			}
			if prev, ok := spelled[canon]; ok && prev != name && c.HeaderKind == 1 {
				// http.Header: two spellings of one name would be written in key order, not in ours
				continue
			}
			spelled[canon] = name
			v := strings.Trim(rapid.StringOfN(rapid.RuneFrom(asciiPrintable), 0, 30, -1).Draw(t, "xval"), " ")
			c.Extra = append(c.Extra, kv{name, v})
		}
	}
	c.RBuf = rapid.SampledFrom([]int{0, 0, 16, 64, 128, 300, 65536}).Draw(t, "rbuf")
	c.WBuf = rapid.SampledFrom([]int{0, 0, 16, 64, 300, 65536}).Draw(t, "wbuf")
	c.Seed = rapid.Int64().Draw(t, "seed")
	c.OnStatus = rapid.Bool().Draw(t, "onstatus")
	c.VetoAt = rapid.SampledFrom([]int{0, 0, 0, -1, -1, 1, 1, 2, 3, 4}).Draw(t, "vetoat")
	return c, portForm
}

// ---------------------------------------------------------------------------
// request-side oracle

func asciiFoldEq(a, b string) bool {
	if len(a) != len(b) {
		return false
	}
	for i := 0; i < len(a); i++ {
		x, y := a[i], b[i]
		if 'A' <= x && x <= 'Z' {
			x += 32
		}
		if 'A' <= y && y <= 'Z' {
			y += 32
		}
		if x != y {
			return false
		}
	}
	return true
}

// checkRequest parses the bytes the dialer wrote with net/http and compares
// them with the configuration. It returns the key and a violation text or "".
func checkRequest(raw []byte, u *url.URL, c *dcfg) (string, string) {
	if !bytes.HasSuffix(raw, []byte("\r\n\r\n")) {
		return "", "request does not end with an empty line"
	}
	for i, b := range raw {
		if b == '\n' && (i == 0 || raw[i-1] != '\r') {
			return "", fmt.Sprintf("bare LF at offset %d of the request", i)
		}
	}
	src := bytes.NewReader(raw)
	br := bufio.NewReaderSize(src, 1<<17)
	req, err := http.ReadRequest(br)
	if err != nil {
		return "", fmt.Sprintf("net/http cannot parse the request: %v", err)
	}
	if br.Buffered() != 0 || src.Len() != 0 {
		return "", fmt.Sprintf("%d bytes follow the request head", br.Buffered()+src.Len())
	}
	if req.Method != "GET" {
		return "", fmt.Sprintf("method %q", req.Method)
	}
	if req.RequestURI != u.RequestURI() {
		return "", fmt.Sprintf("request-URI %q, want %q", req.RequestURI, u.RequestURI())
	}
	if req.Proto != "HTTP/1.1" {
		return "", fmt.Sprintf("protocol %q", req.Proto)
	}
	wantHost := u.Host
	if c.Host != "" {
		wantHost = c.Host
	}
	if req.Host != wantHost {
		return "", fmt.Sprintf("Host %q, want %q", req.Host, wantHost)
	}
	if _, dup := req.Header["Host"]; dup {
		return "", "more than one Host header"
	}
	one := func(name string) (string, string) {
		v := req.Header[name]
		if len(v) != 1 {
			return "", fmt.Sprintf("%d %s headers", len(v), name)
		}
		return v[0], ""
	}
	for _, w := range [][2]string{{"Upgrade", "websocket"}, {"Connection", "Upgrade"}, {"Sec-Websocket-Version", "13"}} {
		v, msg := one(w[0])
		if msg != "" {
			return "", msg
		}
		if !asciiFoldEq(v, w[1]) {
			return "", fmt.Sprintf("%s: %q, want %q", w[0], v, w[1])
		}
	}
	key, msg := one("Sec-Websocket-Key")
	if msg != "" {
		return "", msg
	}
	nonce, err := base64.StdEncoding.DecodeString(key)
	if err != nil || len(nonce) != 16 || base64.StdEncoding.EncodeToString(nonce) != key {
		return "", fmt.Sprintf("key %q is not the base64 form of 16 bytes", key)
	}
	// subprotocols, joined in order
	var protos []string
	for _, line := range req.Header["Sec-Websocket-Protocol"] {
		for _, p := range strings.Split(line, ",") {
			protos = append(protos, strings.Trim(p, " \t"))
		}
	}
	if len(c.Req.Protocols) == 0 {
		if len(protos) != 0 {
			return "", fmt.Sprintf("subprotocols %q sent, none configured", protos)
		}
	} else if strings.Join(protos, "\x00") != strings.Join(c.Req.Protocols, "\x00") {
		return "", fmt.Sprintf("subprotocols %q, configured %q", protos, c.Req.Protocols)
	}
	// extensions parse back to the configured options
	extLines := req.Header["Sec-Websocket-Extensions"]
	if len(c.Req.Extensions) == 0 {
		if len(extLines) != 0 {
			return "", fmt.Sprintf("extensions %q sent, none configured", extLines)
		}
	} else {
		got, st := respgen.ParseOptionList(strings.Join(extLines, ", "))
		if st != respgen.ListOK {
			return "", fmt.Sprintf("extension header %q is not a well-formed option list", extLines)
		}
		if !respgen.SameExts(got, c.Req.Extensions) {
			return "", fmt.Sprintf("extension header %q parses to %v, configured %v", extLines, got, c.Req.Extensions)
		}
	}
	// extra headers verbatim
	want := map[string][]string{}
	for _, e := range c.Extra {
		k := textproto.CanonicalMIMEHeaderKey(e.K)
		want[k] = append(want[k], e.V)
		if line := e.K + ": " + e.V + "\r\n"; !bytes.Contains(raw, []byte("\r\n"+line)) {
			return "", fmt.Sprintf("extra header line %q is not in the request", line)
		}
	}
	for k, vs := range want {
		if got := req.Header[k]; strings.Join(got, "\x00") != strings.Join(vs, "\x00") {
			return "", fmt.Sprintf("extra header %s: %q, configured %q", k, got, vs)
		}
	}
	n := 0
	for k, vs := range req.Header {
		switch k {
		case "Upgrade", "Connection", "Sec-Websocket-Version", "Sec-Websocket-Key", "Sec-Websocket-Protocol", "Sec-Websocket-Extensions":
		default:
			n += len(vs)
		}
	}
	if n != len(c.Extra) {
		return "", fmt.Sprintf("%d header fields beside the handshake ones, %d configured", n, len(c.Extra))
	}
	return key, ""
}

// ---------------------------------------------------------------------------
// running one handshake against a scripted peer

type outcome struct {
	err      error
	hs       ws.Handshake
	brNonNil bool
	buffered int    // br.Buffered() at return
	after    []byte // bytes readable after the handshake: buffer, then connection
	written  []byte
	sent     []byte // everything the peer had to send
	key      string
	keyOK    bool
	lateW    int
	panicked interface{}
	// OnStatusError callback observations
	cbCalls    int
	cbStatus   int
	cbReason   string
	cbBytes    []byte
	urlChanged string // non-empty: how Dialer.Upgrade modified the caller's *url.URL
	cfgChanged string // non-empty: how the handshake modified the Dialer's configuration
	// OnHeader callback observations
	vetoAt       int
	hdrCalls     []kv // arguments of every invocation (copied inside the callback)
	hdrVetoed    bool
	hdrAfterVeto int // invocations after the callback had returned an error
}

// headerHook installs the recording / vetoing OnHeader callback.
func (o *outcome) headerHook(d *ws.Dialer, vetoAt int) {
	o.vetoAt = vetoAt
	if vetoAt == 0 {
		return
	}
	d.OnHeader = func(k, v []byte) error {
		if o.hdrVetoed {
			o.hdrAfterVeto++
			return nil
		}
		o.hdrCalls = append(o.hdrCalls, kv{string(k), string(v)})
		if len(o.hdrCalls) == vetoAt {
			o.hdrVetoed = true
			return errVeto
		}
		return nil
	}
}

// otherHeaders lists, in order, the (name, value) pairs of the header lines of
// the head in sent that are not one of the five websocket headers; only lines
// with a colon, blanks (SP, HT) around name and value removed.
func otherHeaders(sent []byte) []kv {
	lines, _, _ := respgen.SplitLines(sent)
	var out []kv
	for i, l := range lines {
		if i == 0 || l == "" {
			continue
		}
		c := strings.IndexByte(l, ':')
		if c < 0 {
			break // the dialer cannot get past such a line
		}
		name, v := strings.Trim(l[:c], " \t"), strings.Trim(l[c+1:], " \t")
		switch {
		case asciiFoldEq(name, "upgrade"), asciiFoldEq(name, "connection"), asciiFoldEq(name, "sec-websocket-accept"),
			asciiFoldEq(name, "sec-websocket-protocol"), asciiFoldEq(name, "sec-websocket-extensions"):
		default:
			out = append(out, kv{name, v})
		}
	}
	return out
}

// minExtra: responses for a vetoing callback get at least two extra headers.
func minExtra(vetoAt int) int {
	switch {
	case vetoAt > 0:
		return 2
	case vetoAt < 0:
		return 1
	}
	return 0
}

// judgeOnHeader checks the OnHeader contract: the callback sees the
// non-websocket headers in order (a prefix of them if the handshake stops
// early, all of them on success), is never called again after it returned an
// error, and that error is what the dialer returns. vetoDue reports that the
// response is such that the k-th non-websocket header exists.
func judgeOnHeader(o *outcome) (msg string, vetoDue bool) {
	if o.vetoAt == 0 {
		return "", false
	}
	want := otherHeaders(o.sent)
	vetoDue = o.vetoAt > 0 && len(want) >= o.vetoAt
	if o.hdrAfterVeto > 0 {
		return fmt.Sprintf("OnHeader was called %d more time(s) after it had returned an error", o.hdrAfterVeto), vetoDue
	}
	if len(o.hdrCalls) > len(want) {
		return fmt.Sprintf("OnHeader called %d times, the response has %d non-websocket headers", len(o.hdrCalls), len(want)), vetoDue
	}
	for i, c := range o.hdrCalls {
		if !asciiFoldEq(c.K, want[i].K) || c.V != want[i].V {
			return fmt.Sprintf("OnHeader call %d got (%q, %q), the response's non-websocket header %d is (%q, %q)", i+1, c.K, c.V, i+1, want[i].K, want[i].V), vetoDue
		}
	}
	if o.hdrVetoed {
		if o.err != errVeto {
			return fmt.Sprintf("OnHeader returned an error at call %d, the dialer returned %v", o.vetoAt, o.err), vetoDue
		}
		return "", vetoDue
	}
	if o.err == errVeto {
		return "the dialer returned the callback's error although the callback never returned it", vetoDue
	}
	if o.err == nil && len(o.hdrCalls) != len(want) {
		return fmt.Sprintf("success, but OnHeader saw %d of %d non-websocket headers", len(o.hdrCalls), len(want)), vetoDue
	}
	return "", vetoDue
}

// statusHook installs the recording OnStatusError callback.
func (o *outcome) statusHook(d *ws.Dialer) {
	d.OnStatusError = func(status int, reason []byte, resp io.Reader) {
		o.cbCalls++
		o.cbStatus, o.cbReason = status, string(reason)
		o.cbBytes, _ = io.ReadAll(resp)
	}
}

// drain collects what is readable after a handshake: exactly the buffered
// bytes of br (if any), then the rest of the connection read directly.
func drain(br *bufio.Reader, conn io.Reader) (int, []byte, error) {
	var got []byte
	n := 0
	if br != nil {
		n = br.Buffered()
		got = make([]byte, n)
		if _, err := io.ReadFull(br, got); err != nil {
			return n, got, err
		}
	}
	rest, err := io.ReadAll(conn)
	return n, append(got, rest...), err
}

func upgrade(c *dcfg, respond func(key string) []byte, sizes []int, eofWithData bool) outcome {
	return upgradeSeeded(c, respond, sizes, eofWithData, true)
}

// upgradeSeeded runs one Dialer.Upgrade against a scripted peer. With reseed
// the global math/rand source (which ws draws its nonce from) is pinned to
// c.Seed first; without, the source just moves on from the previous dial.
func upgradeSeeded(c *dcfg, respond func(key string) []byte, sizes []int, eofWithData, reseed bool) (o outcome) {
	u, err := url.ParseRequestURI(c.URL)
	if err != nil {
		panic("generator produced an unparsable URL: " + c.URL)
	}
	return upgradeURL(c, u, respond, sizes, eofWithData, reseed)
}

// urlDiff compares a URL with the copy taken before it was handed to the dialer.
func urlDiff(before url.URL, beforeUser *url.Userinfo, beforeStr string, u *url.URL) string {
	if *u != before {
		return fmt.Sprintf("fields changed: %+v, was %+v", *u, before)
	}
	if (u.User == nil) != (beforeUser == nil) || (u.User != nil && *u.User != *beforeUser) {
		return "userinfo changed"
	}
	if u.String() != beforeStr {
		return fmt.Sprintf("String() = %q, was %q", u.String(), beforeStr)
	}
	return ""
}

// upgradeURL is upgradeSeeded on a *url.URL owned by the caller; it also
// records whether the dialer modified that URL.
func upgradeURL(c *dcfg, u *url.URL, respond func(key string) []byte, sizes []int, eofWithData, reseed bool) (o outcome) {
	return upgradeDialer(c, nil, u, respond, sizes, eofWithData, reseed)
}

// renderDialerConfig renders what a Dialer is configured to request:
// subprotocols, extension offers with their parameters in order, Host and the
// bytes of the extra headers.
func renderDialerConfig(d *ws.Dialer) string {
	var hdr bytes.Buffer
	if d.Header != nil {
		d.Header.WriteTo(&hdr)
	}
	return hx.JSON(map[string]interface{}{"protocols": d.Protocols, "extensions": respgen.FromOptions(d.Extensions), "host": d.Host, "header": hdr.String()})
}

// upgradeDialer is upgradeURL through a Dialer owned by the caller (dp; nil =
// a fresh one built from c), used as callers do: by value, so several
// handshakes share the Extensions / Protocols slices. It records whether the
// handshake changed that configuration.
func upgradeDialer(c *dcfg, dp *ws.Dialer, u *url.URL, respond func(key string) []byte, sizes []int, eofWithData, reseed bool) (o outcome) {
	if dp == nil {
		fresh := c.dialer()
		dp = &fresh
	}
	cfgBefore := renderDialerConfig(dp)
	defer func() {
		if after := renderDialerConfig(dp); after != cfgBefore {
			o.cfgChanged = fmt.Sprintf("%s, was %s", after, cfgBefore)
		}
	}()
	before, beforeStr := *u, u.String()
	var beforeUser *url.Userinfo
	if u.User != nil {
		cp := *u.User
		beforeUser = &cp
	}
	defer func() { o.urlChanged = urlDiff(before, beforeUser, beforeStr, u) }()
	peer := respgen.NewPeer(nil, sizes)
	peer.EOFWithData = eofWithData
	peer.Respond = func(req []byte) []byte {
		o.key, o.keyOK = respgen.KeyFromRequest(req)
		return respond(o.key)
	}
	d := *dp
	if c.OnStatus {
		o.statusHook(&d)
	}
	o.headerHook(&d, c.VetoAt)
	if reseed {
		rand.Seed(c.Seed)
	}
	var br *bufio.Reader
	func() {
		defer func() { o.panicked = recover() }()
		br, o.hs, o.err = d.Upgrade(peer, u)
	}()
	o.written, o.sent, o.lateW = peer.Written, peer.Data, peer.LateWrites
	if o.panicked != nil {
		return o
	}
	o.brNonNil = br != nil
	if o.err == nil {
		o.buffered, o.after, _ = drain(br, peer)
	}
	if br != nil {
		ws.PutReader(br)
	}
	return o
}

// foldOnly reports whether v equals "websocket" under Unicode case folding but
// not under ASCII case-insensitive comparison (predicate of sigFold).
func foldOnly(v string) bool {
	v = strings.Trim(v, " \t")
	return strings.EqualFold(v, "websocket") && !asciiFoldEq(v, "websocket")
}

// withoutFoldOnly returns r with every fold-only Upgrade value replaced by
// "websocket", and whether there was one.
func withoutFoldOnly(r *respgen.Response) (*respgen.Response, bool) {
	var c *respgen.Response
	for i, l := range r.Lines {
		if l.Raw == "" && l.Accept == respgen.AcceptLiteral && asciiFoldEq(l.Name, "upgrade") && foldOnly(l.Value) {
			if c == nil {
				c = r.Clone()
			}
			c.Lines[i].Value = "websocket"
		}
	}
	if c == nil {
		return r, false
	}
	return c, true
}

// firstProtocolRequested reports whether the first Sec-WebSocket-Protocol line of r carries a requested value.
func firstProtocolRequested(r *respgen.Response, cfg respgen.Config) bool {
	for _, l := range r.Lines {
		if l.Raw == "" && asciiFoldEq(l.Name, "sec-websocket-protocol") {
			return l.Accept == respgen.AcceptLiteral && cfg.Requested(strings.Trim(l.Pre+l.Value+l.Post, " \t"))
		}
	}
	return false
}

// judge is the response-side oracle. It returns a violation text or "".
func judge(o *outcome, r *respgen.Response, cfg respgen.Config, cl respgen.Class) string {
	if o.panicked != nil {
		return fmt.Sprintf("Dialer.Upgrade panicked: %v", o.panicked)
	}
	if !o.keyOK {
		return fmt.Sprintf("the request has no Sec-WebSocket-Key: %q", o.written)
	}
	if o.lateW != 0 {
		return fmt.Sprintf("the dialer wrote %d bytes after it started reading the response", o.lateW)
	}
	if o.err != nil && o.brNonNil {
		return fmt.Sprintf("error %v returned together with a non-nil *bufio.Reader", o.err)
	}
	if o.urlChanged != "" {
		return "Dialer.Upgrade modified the caller's *url.URL: " + o.urlChanged
	}
	if o.cfgChanged != "" {
		return "the handshake modified the Dialer's configuration: " + o.cfgChanged
	}
	if msg := judgeStatusError(o); msg != "" {
		return msg
	}
	msg, vetoDue := judgeOnHeader(o)
	if msg != "" {
		return msg
	}
	if o.hdrVetoed {
		hx.Class("onheader/vetoed/" + cl.Verdict.String())
		return "" // refused by the callback, reported as such (checked above)
	}
	if o.vetoAt != 0 {
		hx.Class("onheader/not-vetoed")
	}
	verdict := cl.Verdict
	if verdict == respgen.MustSucceed && vetoDue {
		return fmt.Sprintf("valid response with %d non-websocket headers: OnHeader was to veto the %d-th, but was called %d times (err %v)", len(otherHeaders(o.sent)), o.vetoAt, len(o.hdrCalls), o.err)
	}
	if verdict == respgen.MustFail && hx.Known(sigFold) {
		if r2, had := withoutFoldOnly(r); had && respgen.Classify(r2, cfg).Verdict != respgen.MustFail {
			hx.Exclude(sigFold)
			verdict = respgen.Open
		}
	}
	if verdict == respgen.MustFail && hx.Known(sigProtoDup) && len(cl.Fail) == 1 && cl.Fail[0] == "protocol:dup-mixed" && firstProtocolRequested(r, cfg) {
		// predicate of sigProtoDup: the only reason to refuse is an unrequested
		// value on a later Sec-WebSocket-Protocol line
		hx.Exclude(sigProtoDup)
		verdict = respgen.Open
	}
	switch verdict {
	case respgen.MustFail:
		if o.err == nil {
			return fmt.Sprintf("handshake succeeded although the response must be refused (%s)", strings.Join(cl.Fail, ", "))
		}
		return ""
	case respgen.MustSucceed:
		if o.err != nil {
			return fmt.Sprintf("handshake failed with %q on a valid response (%s)", o.err, cl.Vector())
		}
		if o.hs.Protocol != cl.Protocol {
			return fmt.Sprintf("Handshake.Protocol = %q, the server sent %q", o.hs.Protocol, cl.Protocol)
		}
		if got := respgen.FromOptions(o.hs.Extensions); !respgen.SameExts(got, cl.Extensions) {
			return fmt.Sprintf("Handshake.Extensions = %v, the server sent %v", got, cl.Extensions)
		}
		if n := len(r.Head(o.key)); !bytes.Equal(o.sent[n:], r.Trailing) {
			return "harness: rendered response does not end with the trailing bytes"
		}
	default:
		if o.err != nil {
			return ""
		}
		// unconditional invariants of a success, judged on the bytes sent
		if o.hs.Protocol != "" && !cfg.Requested(o.hs.Protocol) {
			return fmt.Sprintf("Handshake.Protocol = %q was not requested", o.hs.Protocol)
		}
		for _, e := range respgen.FromOptions(o.hs.Extensions) {
			if !cfg.Offered(e.Name) {
				return fmt.Sprintf("Handshake.Extensions names %q, which was not offered", e.Name)
			}
		}
		if msg := headInvariants(o.sent, o.key); msg != "" {
			return msg
		}
	}
	// success: every byte after the head is readable once, in order
	_, end, complete := respgen.SplitLines(o.sent)
	if !complete {
		return "success although the response head never ended"
	}
	if !bytes.Equal(o.after, o.sent[end:]) {
		return fmt.Sprintf("bytes after the head: server sent %d (%x), buffer (%d) + connection gave %d (%x)",
			len(o.sent)-end, clip(o.sent[end:]), o.buffered, len(o.after), clip(o.after))
	}
	return ""
}

// judgeStatusError checks how a non-101 status is reported. When the status
// line is complete, of the plain form "HTTP/1.x SP 3DIGIT SP reason" with a
// valid version and a status value other than 101, the error has to be a
// ws.StatusError carrying exactly that value and its text has to mention it;
// an installed OnStatusError callback is called once with the same status, the
// reason phrase, and a reader that yields the status line followed by the
// rest of what the server sent. In every other case a StatusError / callback
// may only appear with a status that is in the response line.
func judgeStatusError(o *outcome) string {
	nl := bytes.IndexByte(o.sent, '\n')
	se, isSE := o.err.(ws.StatusError)
	if nl < 0 {
		if isSE || o.cbCalls > 0 {
			return fmt.Sprintf("status error %v / callback reported although the status line never ended", o.err)
		}
		return ""
	}
	line := strings.TrimSuffix(string(o.sent[:nl]), "\r")
	parts := strings.SplitN(line, " ", 3)
	expect := -1 // the status that has to be reported, if determined
	if len(parts) == 3 && respgen.ClassifyVersion(parts[0]) == "" && len(parts[1]) == 3 && respgen.ClassifyStatus(parts[1]) == "fail:status:value" {
		expect, _ = strconv.Atoi(parts[1])
	}
	if expect >= 0 && !isSE {
		return fmt.Sprintf("status line %q: error is %T %q, want ws.StatusError(%d)", line, o.err, fmt.Sprint(o.err), expect)
	}
	if isSE {
		if len(parts) < 3 || respgen.ClassifyStatus(parts[1]) != "fail:status:value" {
			return fmt.Sprintf("ws.StatusError(%d) for the status line %q", int(se), line)
		}
		if want := strings.TrimLeft(parts[1], "0"); strconv.Itoa(int(se)) != want && !(want == "" && se == 0) {
			return fmt.Sprintf("ws.StatusError(%d) for the status line %q", int(se), line)
		}
		if !strings.Contains(se.Error(), strconv.Itoa(int(se))) {
			return fmt.Sprintf("StatusError(%d).Error() = %q does not mention the status", int(se), se.Error())
		}
	}
	if o.cbCalls > 1 || (o.cbCalls == 1 && !isSE) {
		return fmt.Sprintf("OnStatusError called %d times, error %v", o.cbCalls, o.err)
	}
	if o.cbCalls == 1 {
		if o.cbStatus != int(se) {
			return fmt.Sprintf("OnStatusError got status %d, the error says %d", o.cbStatus, int(se))
		}
		if len(parts) == 3 && o.cbReason != parts[2] {
			return fmt.Sprintf("OnStatusError got reason %q, the response line says %q", o.cbReason, parts[2])
		}
		rest := o.sent[nl+1:]
		ok := bytes.HasPrefix(o.cbBytes, []byte(line)) && bytes.HasSuffix(o.cbBytes, rest)
		if ok {
			mid := string(o.cbBytes[len(line) : len(o.cbBytes)-len(rest)])
			ok = mid == "\r\n" || mid == "\n"
		}
		if !ok {
			return fmt.Sprintf("OnStatusError reader gave %q, the server sent %q", clipStr(o.cbBytes, 200), clipStr(o.sent, 200))
		}
	}
	return ""
}

func clip(b []byte) []byte {
	if len(b) > 48 {
		return b[:48]
	}
	return b
}

// headInvariants checks, on the raw bytes of an accepted response, what every
// accepted response has to have whatever else is unusual about it: a right
// accept value, an Upgrade and a Connection header naming websocket / upgrade.
func headInvariants(sent []byte, key string) string {
	lines, _, complete := respgen.SplitLines(sent)
	if !complete {
		return "success although the response head never ended"
	}
	if msg := strictStatusLine(lines[0]); msg != "" {
		return "success with " + msg
	}
	accept := respgen.Accept(key)
	var okAcc, okUp, okConn bool
	for _, l := range lines[1:] {
		c := strings.IndexByte(l, ':')
		if c < 0 {
			continue
		}
		name, v := strings.Trim(l[:c], " \t"), strings.Trim(l[c+1:], " \t")
		switch {
		case asciiFoldEq(name, "sec-websocket-accept"):
			okAcc = okAcc || v == accept
		case asciiFoldEq(name, "upgrade"):
			for _, e := range strings.Split(v, ",") {
				okUp = okUp || strings.EqualFold(strings.Trim(e, " \t"), "websocket")
			}
		case asciiFoldEq(name, "connection"):
			for _, e := range strings.Split(v, ",") {
				okConn = okConn || strings.EqualFold(strings.Trim(e, " \t"), "upgrade")
			}
		}
	}
	switch {
	case !okAcc:
		return "success without a Sec-WebSocket-Accept header carrying the value for the key sent"
	case !okUp:
		return "success without an Upgrade header naming websocket"
	case !okConn:
		return "success without a Connection header naming upgrade"
	}
	return ""
}

type respCase struct {
	Dialer dcfg              `json:"dialer"`
	Resp   *respgen.Response `json:"response"`
	Chunks []int             `json:"chunks,omitempty"`
	EOFWD  bool              `json:"eof_with_data,omitempty"`
	Class  string            `json:"class"`
	Vector string            `json:"vector"`
}

// chunkInsideHead reports whether the chunk plan puts a transport read boundary inside a head of n bytes.
func chunkInsideHead(sizes []int, rbuf, n int) bool {
	if rbuf == 0 {
		rbuf = 4096
	}
	if n > rbuf {
		return true
	}
	return len(sizes) > 0 && sizes[0] < n
}

func noteResponse(c *dcfg, r *respgen.Response, cl respgen.Class, sizes []int, eofwd bool, headLen int) {
	hx.Class("resp/" + cl.Verdict.String())
	for _, l := range cl.Fail {
		hx.Class("dev/fail/" + l)
	}
	for _, l := range cl.Open {
		hx.Class("dev/open/" + l)
	}
	for _, l := range cl.Notes {
		hx.Class("note/" + l)
	}
	render := func() interface{} {
		return respCase{*c, r, sizes, eofwd, cl.Verdict.String(), cl.Vector()}
	}
	boundary := len(r.Trailing) > 0 && r.Cut == 0 && chunkInsideHead(sizes, c.RBuf, headLen)
	switch {
	case cl.Deviations() == 1:
		hx.NonTrivial(hx.Hash("dev1", cl.Vector()), render)
	case cl.Deviations() == 0 && len(cl.Notes) > 0:
		hx.NonTrivial(hx.Hash("noncanon", cl.Vector()), render)
	case boundary:
		hx.NonTrivial(hx.Hash("boundary", cl.Vector(), gen.ChunkClass(sizes), c.RBuf), render)
	}
	if boundary {
		hx.Class("trailing+boundary-in-head")
	}
}

const dummyKey = "AAAAAAAAAAAAAAAAAAAAAA=="

func genChunks(t *rapid.T, headLen int) []int {
	switch rapid.IntRange(0, 6).Draw(t, "chunkkind") {
	case 0:
		return []int{headLen, 1 << 20} // the head exactly, then the rest
	case 1:
		return []int{headLen + rapid.IntRange(-3, 3).Draw(t, "chunkoff"), 1 << 20}
	case 2:
		return rapid.SliceOfN(rapid.IntRange(1, 400), 1, 8).Draw(t, "bigchunks")
	}
	return gen.Chunks(t, "chunks")
}

// ---------------------------------------------------------------------------
// tests

// Response side: generated responses against the acceptance model.
func TestResponse(t *testing.T) {
	hx.Check(t, 8, func(t *rapid.T) {
		c, _ := genDcfg(t, false)
		c.HeaderKind, c.Extra = 0, nil
		r := respgen.Gen(t, "resp", c.Req, respgen.Opts{LongLines: true, MinExtra: minExtra(c.VetoAt)})
		headLen := len(r.Head(dummyKey))
		sizes := genChunks(t, headLen)
		eofwd := rapid.Bool().Draw(t, "eofwd")
		cl := respgen.Classify(r, c.Req)
		hx.Eval()
		noteResponse(&c, r, cl, sizes, eofwd, headLen)
		o := upgrade(&c, r.Render, sizes, eofwd)
		if msg := judge(&o, r, c.Req, cl); msg != "" {
			t.Fatalf("%s\ncase: %s\nresponse bytes: %q", msg, hx.JSON(respCase{c, r, sizes, eofwd, cl.Verdict.String(), cl.Vector()}), clipStr(o.sent, 600))
		}
	})
}

func clipStr(b []byte, n int) string {
	if len(b) > n {
		return string(b[:n]) + "…"
	}
	return string(b)
}

// Valid responses only (every case must succeed): denser coverage of the
// success path — handshake result and conservation of the bytes after the head
// under every chunking and buffer size.
func TestValidResponses(t *testing.T) {
	hx.Check(t, 4, func(t *rapid.T) {
		c, _ := genDcfg(t, false)
		c.HeaderKind, c.Extra = 0, nil
		r := respgen.Gen(t, "resp", c.Req, respgen.Opts{LongLines: true, ValidOnly: true, MaxTrailing: 400, MinExtra: minExtra(c.VetoAt)})
		headLen := len(r.Head(dummyKey))
		sizes := genChunks(t, headLen)
		eofwd := rapid.Bool().Draw(t, "eofwd")
		cl := respgen.Classify(r, c.Req)
		if cl.Verdict != respgen.MustSucceed {
			t.Fatalf("harness: ValidOnly response classified %s (%s)", cl.Verdict, cl.Vector())
		}
		hx.Eval()
		noteResponse(&c, r, cl, sizes, eofwd, headLen)
		o := upgrade(&c, r.Render, sizes, eofwd)
		if msg := judge(&o, r, c.Req, cl); msg != "" {
			t.Fatalf("%s\ncase: %s\nresponse bytes: %q", msg, hx.JSON(respCase{c, r, sizes, eofwd, cl.Verdict.String(), cl.Vector()}), clipStr(o.sent, 600))
		}
		if o.brNonNil && o.buffered == 0 {
			hx.Class("success/reader-returned-empty")
		} else if o.brNonNil {
			hx.Class("success/reader-returned")
		} else {
			hx.Class("success/reader-nil")
		}
	})
}

type reqCase struct {
	Dialer dcfg   `json:"dialer"`
	Wire   string `json:"request_bytes,omitempty"`
}

// Request side: what Dialer.Upgrade writes, parsed back with net/http; two
// upgrades per case for key freshness.
func TestRequest(t *testing.T) {
	hx.Check(t, 4, func(t *rapid.T) {
		c, portForm := genDcfg(t, true)
		u, err := url.ParseRequestURI(c.URL)
		if err != nil {
			t.Skip("not a request URI") // Dial refuses it, see checkDial
		}
		hx.Eval()
		hx.Class(fmt.Sprintf("req/%s/port=%s/v6=%v", u.Scheme, portForm, strings.HasPrefix(u.Host, "[")))
		hx.Class(fmt.Sprintf("req/header-adapter=%d/extra=%d", c.HeaderKind, len(c.Extra)))
		hx.Class(fmt.Sprintf("req/override=%v/protocols=%d/extensions=%d", c.Host != "", len(c.Req.Protocols), len(c.Req.Extensions)))
		if len(c.Req.Protocols) > 0 || len(c.Req.Extensions) > 0 || len(c.Extra) > 0 || strings.HasPrefix(u.Host, "[") || portForm != "none" {
			hx.NonTrivial(hx.Hash("req", u.Scheme, strings.HasPrefix(u.Host, "["), portForm, len(c.Req.Protocols), len(c.Req.Extensions), c.HeaderKind, len(c.Extra), c.Host != "", c.WBuf),
				func() interface{} { return reqCase{Dialer: c} })
		}
		valid := respgen.Valid()
		var keys []string
		shared, _ := url.ParseRequestURI(c.URL)
		// One Dialer value for all dials of the case; the server accepts the
		// offered extensions with parameters of its own, different from the offer.
		one := c.dialer()
		if len(c.Req.Extensions) > 0 {
			var answer []respgen.Ext
			seen := map[string]bool{}
			for _, e := range c.Req.Extensions {
				if !seen[e.Name] {
					seen[e.Name] = true
					answer = append(answer, respgen.Ext{Name: e.Name, Params: []respgen.Param{{Key: "server-chosen", Value: "10"}, {Key: "zz"}}})
				}
			}
			valid.Lines = append(valid.Lines, respgen.Line{Name: "Sec-WebSocket-Extensions", Pre: " ", Value: respgen.FormatOptionList(answer, " ", false)})
		}
		for i := 0; i < 3; i++ {
			// second dial of the same case: the global source moves on, no re-seeding
			// All dials of the case share one *url.URL, as a caller's would; u
			// (parsed separately) stays the reference. The third dial uses the
			// same URL with a dialer that has no Host override.
			cc := c
			if i == 2 {
				cc.Host = ""
				one.Host = ""
			}
			o := upgradeDialer(&cc, &one, shared, valid.Render, nil, false, i == 0)
			if o.cfgChanged != "" {
				t.Fatalf("dial %d modified the Dialer's configuration: %s", i+1, o.cfgChanged)
			}
			if o.panicked != nil {
				t.Fatalf("Dialer.Upgrade panicked: %v", o.panicked)
			}
			if o.urlChanged != "" {
				t.Fatalf("Dialer.Upgrade modified the caller's *url.URL: %s\nconfig: %s", o.urlChanged, hx.JSON(cc))
			}
			key, msg := checkRequest(o.written, u, &cc)
			if msg != "" {
				t.Fatalf("dial %d on the same URL: %s\nconfig: %s\nrequest: %q", i+1, msg, hx.JSON(cc), o.written)
			}
			if key != o.key {
				t.Fatalf("harness: key extraction disagrees with net/http: %q vs %q", o.key, key)
			}
			if o.err != nil {
				t.Fatalf("handshake failed with %q on the canonical valid response\nconfig: %s", o.err, hx.JSON(c))
			}
			keys = append(keys, key)
		}
		if keys[0] == keys[1] || keys[1] == keys[2] || keys[0] == keys[2] {
			t.Fatalf("two consecutive dials sent the same key %q\nconfig: %s", keys[0], hx.JSON(c))
		}
	})
}

// TestKeyFreshness: many dials from one seeding of the global source: every key is new.
func TestKeyFreshness(t *testing.T) {
	if !hx.Mine(0) {
		return
	}
	c := dcfg{URL: "ws://example.org/", Seed: 7}
	u, _ := url.ParseRequestURI(c.URL)
	d := c.dialer()
	rand.Seed(c.Seed)
	seen := map[string]bool{}
	var bits [128][2]int
	valid := respgen.Valid()
	n := 2000
	for i := 0; i < n; i++ {
		var key string
		peer := respgen.NewPeer(func(req []byte) []byte {
			key, _ = respgen.KeyFromRequest(req)
			return valid.Render(key)
		}, nil)
		br, _, err := d.Upgrade(peer, u)
		if br != nil {
			ws.PutReader(br)
		}
		if err != nil {
			hx.Failf(t, i, "dial %d failed: %v", i, err)
			return
		}
		raw, derr := base64.StdEncoding.DecodeString(key)
		if derr != nil || len(raw) != 16 {
			hx.Failf(t, key, "dial %d: key %q is not base64 of 16 bytes", i, key)
			return
		}
		if seen[key] {
			hx.Failf(t, key, "dial %d reused key %q", i, key)
			return
		}
		seen[key] = true
		for b := 0; b < 128; b++ {
			bits[b][raw[b/8]>>(7-uint(b%8))&1]++
		}
	}
	// "a randomly selected 16-byte value": every one of the 128 bits takes both
	// values somewhere in the sample (for fair bits the chance of a constant one
	// among 2000 samples is 128 * 2^-1999).
	for b := 0; b < 128; b++ {
		if bits[b][0] == 0 || bits[b][1] == 0 {
			hx.Failf(t, map[string]int{"bit": b, "zeros": bits[b][0], "ones": bits[b][1]}, "bit %d (byte %d) of the decoded key is constant over %d handshakes: %d zeros, %d ones", b, b/8, n, bits[b][0], bits[b][1])
			return
		}
	}
	hx.EvalN(n)
	hx.Part("consecutive dials: pairwise distinct keys, every key bit takes both values", int64(n), false)
}

// ---------------------------------------------------------------------------
// Dial: address derivation

// wrapConn is a recording layer around a connection (returned by the TLSClient
// and WrapConn stubs): it counts the bytes that pass through it.
type wrapConn struct {
	net.Conn
	read, wrote int
}

func (w *wrapConn) Read(p []byte) (int, error) {
	n, err := w.Conn.Read(p)
	w.read += n
	return n, err
}

func (w *wrapConn) Write(p []byte) (int, error) {
	n, err := w.Conn.Write(p)
	w.wrote += n
	return n, err
}

type dialRec struct {
	network, addr string
	calls         int
	tlsCalls      int
	tlsHost       string
	tlsGot        net.Conn
	raw           *respgen.Conn
	wrapped       *wrapConn // what the TLSClient stub returned
	wrapCalls     int
	wrapGot       net.Conn  // what WrapConn received
	outer         *wrapConn // what the WrapConn stub returned
	// byte counts at the moment Dial returned
	peerRead, tlsRead, tlsWrote, outerRead, outerWrote int
}

func dialOnce(c *dcfg, r *respgen.Response, sizes []int) (rec *dialRec, conn net.Conn, o outcome) {
	rec = &dialRec{}
	peer := respgen.NewPeer(nil, sizes)
	peer.Respond = func(req []byte) []byte {
		o.key, o.keyOK = respgen.KeyFromRequest(req)
		return r.Render(o.key)
	}
	rec.raw = &respgen.Conn{Peer: peer}
	d := c.dialer()
	d.NetDial = func(ctx context.Context, network, addr string) (net.Conn, error) {
		rec.calls++
		rec.network, rec.addr = network, addr
		return rec.raw, nil
	}
	d.TLSClient = func(conn net.Conn, hostname string) net.Conn {
		rec.tlsCalls++
		rec.tlsHost, rec.tlsGot = hostname, conn
		rec.wrapped = &wrapConn{Conn: conn}
		return rec.wrapped
	}
	if c.Wrap {
		d.WrapConn = func(conn net.Conn) net.Conn {
			rec.wrapCalls++
			rec.wrapGot = conn
			rec.outer = &wrapConn{Conn: conn}
			return rec.outer
		}
	}
	if c.OnStatus {
		o.statusHook(&d)
	}
	o.headerHook(&d, c.VetoAt)
	rand.Seed(c.Seed)
	var br *bufio.Reader
	func() {
		defer func() { o.panicked = recover() }()
		if c.ViaPackage {
			// ws.Dial is DefaultDialer.Dial: configure the package variable for
			// the duration of this call (tests of this package run sequentially)
			saved := ws.DefaultDialer
			defer func() { ws.DefaultDialer = saved }()
			ws.DefaultDialer = d
			conn, br, o.hs, o.err = ws.Dial(context.Background(), c.URL)
			return
		}
		conn, br, o.hs, o.err = d.Dial(context.Background(), c.URL)
	}()
	o.written, o.sent, o.lateW = peer.Written, peer.Data, peer.LateWrites
	if o.panicked != nil {
		return
	}
	rec.peerRead = peer.Pos
	if rec.wrapped != nil {
		rec.tlsRead, rec.tlsWrote = rec.wrapped.read, rec.wrapped.wrote
	}
	if rec.outer != nil {
		rec.outerRead, rec.outerWrote = rec.outer.read, rec.outer.wrote
	}
	o.brNonNil = br != nil
	if o.err == nil {
		o.buffered, o.after, _ = drain(br, conn)
	}
	if br != nil {
		ws.PutReader(br)
	}
	return
}

// expectedAddr is the reference: net/url's Hostname and Port, defaults 80/443.
func expectedAddr(u *url.URL) string {
	port := u.Port()
	if port == "" {
		if u.Scheme == "wss" {
			port = "443"
		} else {
			port = "80"
		}
	}
	return net.JoinHostPort(u.Hostname(), port)
}

func checkDial(c *dcfg, r *respgen.Response, sizes []int) string {
	u, err := url.ParseRequestURI(c.URL)
	rec, conn, o := dialOnce(c, r, sizes)
	if o.panicked != nil {
		return fmt.Sprintf("Dial panicked: %v", o.panicked)
	}
	if err != nil {
		// not a request URI (bad escape, bad host): nothing may be dialed
		hx.Class("dial/url-rejected")
		if o.err == nil || rec.calls != 0 {
			return fmt.Sprintf("Dial of %q, which net/url refuses (%v): err=%v, NetDial calls=%d", c.URL, err, o.err, rec.calls)
		}
		return ""
	}
	if rec.calls != 1 {
		return fmt.Sprintf("NetDial called %d times", rec.calls)
	}
	if rec.network != "tcp" {
		return fmt.Sprintf("NetDial network %q, want tcp", rec.network)
	}
	if want := expectedAddr(u); rec.addr != want {
		return fmt.Sprintf("NetDial address %q, want %q", rec.addr, want)
	}
	var wantConn net.Conn = rec.raw
	if u.Scheme == "wss" {
		if rec.tlsCalls != 1 || rec.tlsGot != net.Conn(rec.raw) {
			return fmt.Sprintf("TLSClient called %d times / not with the dialed connection", rec.tlsCalls)
		}
		wantConn = rec.wrapped
		if rec.tlsWrote != len(o.written) || rec.tlsRead != rec.peerRead {
			return fmt.Sprintf("TLSClient's connection carried %d written / %d read bytes, the peer saw %d / %d", rec.tlsWrote, rec.tlsRead, len(o.written), rec.peerRead)
		}
	} else if rec.tlsCalls != 0 {
		return "TLSClient called for a ws:// URL"
	}
	// WrapConn is the outermost layer: it receives the dialed (ws) or
	// TLS-wrapped (wss) connection, all handshake I/O goes through what it
	// returns, and that is what Dial returns.
	if c.Wrap {
		if rec.wrapCalls != 1 {
			return fmt.Sprintf("WrapConn called %d times", rec.wrapCalls)
		}
		if rec.wrapGot != wantConn {
			return fmt.Sprintf("WrapConn received %T, want the %s connection", rec.wrapGot, map[bool]string{false: "dialed", true: "TLS-wrapped"}[u.Scheme == "wss"])
		}
		if rec.outerWrote != len(o.written) || rec.outerRead != rec.peerRead {
			return fmt.Sprintf("WrapConn's connection carried %d written / %d read bytes, the peer saw %d / %d: handshake I/O bypassed the wrapper", rec.outerWrote, rec.outerRead, len(o.written), rec.peerRead)
		}
		wantConn = rec.outer
	} else if rec.wrapCalls != 0 {
		return "WrapConn called although not configured"
	}
	if _, msg := checkRequest(o.written, u, c); msg != "" {
		return msg
	}
	cl := respgen.Classify(r, c.Req)
	if msg := judge(&o, r, c.Req, cl); msg != "" {
		return msg
	}
	if o.err == nil && conn != wantConn {
		return fmt.Sprintf("Dial returned %T, which is not the outermost connection (dialed / TLS-wrapped / WrapConn's)", conn)
	}
	return ""
}

func TestDial(t *testing.T) {
	hx.Check(t, 2, func(t *rapid.T) {
		c, portForm := genDcfg(t, true)
		r := respgen.Gen(t, "resp", c.Req, respgen.Opts{ValidOnly: rapid.IntRange(0, 3).Draw(t, "validonly") > 0, MinExtra: minExtra(c.VetoAt)})
		sizes := gen.Chunks(t, "chunks")
		c.ViaPackage = rapid.IntRange(0, 3).Draw(t, "via_ws_Dial") == 0
		c.Wrap = rapid.Bool().Draw(t, "wrapconn")
		if c.Wrap {
			hx.Class("dial/wrapconn")
		}
		if c.ViaPackage {
			hx.Class("dial/via-ws.Dial")
		}
		hx.Eval()
		if u, err := url.ParseRequestURI(c.URL); err == nil {
			hx.Class(fmt.Sprintf("dial/%s/port=%s/v6=%v", u.Scheme, portForm, strings.HasPrefix(u.Host, "[")))
			if strings.Contains(c.URL, "#") {
				hx.Class("dial/raw-hash-in-url")
			}
			hx.NonTrivial(hx.Hash("dial", u.Scheme, portForm, strings.HasPrefix(u.Host, "["), u.Path == "", u.RawQuery != "", c.Host != "", strings.Contains(c.URL, "#")), func() interface{} {
				return map[string]interface{}{"dial": c.URL, "want_addr": expectedAddr(u), "want_request_uri": u.RequestURI()}
			})
		}
		if msg := checkDial(&c, r, sizes); msg != "" {
			t.Fatalf("%s\nconfig: %s", msg, hx.JSON(c))
		}
	})
}

// Every combination of scheme x host form x port form x path x query.
func TestDialURLGrid(t *testing.T) {
	n := 0
	valid := respgen.Valid()
	valid.Trailing = []byte{0x81, 0x01, 'x'}
	for _, scheme := range []string{"ws", "wss"} {
		for hi, host := range hostPool {
			if !hx.Mine(hi) {
				continue
			}
			for _, port := range []string{"", ":80", ":443", ":8080", ":1", ":65535"} {
				for _, path := range append(append([]string(nil), pathPool...), hardPaths...) {
					for _, q := range append([]string{"", "?", "?x=1&y=%20"}, hardQueries...) {
						c := dcfg{URL: scheme + "://" + host + port + path + q, Seed: int64(n), ViaPackage: n%5 == 0, Wrap: n%3 == 0}
						n++
						if msg := checkDial(&c, valid, nil); msg != "" {
							hx.Failf(t, c, "%s", msg)
							return
						}
					}
				}
			}
		}
	}
	hx.EvalN(n)
	hx.Part("dial: scheme x host form x port x path (incl. #, escapes, ;, @, non-ASCII, bad escapes) x query", int64(n), true)
}

// ---------------------------------------------------------------------------
// enumerated response sub-spaces

func runFixed(t *testing.T, c *dcfg, r *respgen.Response, sizes []int) bool {
	cl := respgen.Classify(r, c.Req)
	o := upgrade(c, r.Render, sizes, false)
	if msg := judge(&o, r, c.Req, cl); msg != "" {
		hx.Failf(t, respCase{*c, r, sizes, false, cl.Verdict.String(), cl.Vector()}, "%s", msg)
		return false
	}
	hx.Class("grid/" + cl.Verdict.String())
	if cl.Deviations() == 1 {
		hx.NonTrivial(hx.Hash("dev1", cl.Vector()), nil)
	}
	return true
}

// Status tokens: every token of length 1..3 (thorough: 4) over the bytes
// 0x30-0x3F — the digits and the six characters the pinned tree took for
// digits —, every byte value at every position of "101", and multiples of
// 2^32 / 2^63 / 2^64 plus 101.
func TestStatusTokenGrid(t *testing.T) {
	c := dcfg{URL: "ws://example.org/", Seed: 1, OnStatus: true}
	n := 0
	try := func(tok string) bool {
		n++
		r := respgen.Valid()
		r.Status = tok
		return runFixed(t, &c, r, nil)
	}
	maxLen := hx.Pick(3, 4)
	var rec func(prefix []byte) bool
	rec = func(prefix []byte) bool {
		if len(prefix) > 0 && !try(string(prefix)) {
			return false
		}
		if len(prefix) == maxLen {
			return true
		}
		for b := byte(0x30); b <= 0x3f; b++ {
			if len(prefix) == 0 && !hx.Mine(int(b)) {
				continue
			}
			if !rec(append(prefix, b)) {
				return false
			}
		}
		return true
	}
	if !rec(nil) {
		return
	}
	if hx.Mine(0) {
		for b := 0; b < 256; b++ {
			if b == ' ' || b == '\n' {
				continue
			}
			s := string([]byte{byte(b)})
			for _, tok := range []string{s, s + "101", "101" + s, "1" + s + "1", "10" + s, s + "01", "1" + s + "01"} {
				if !try(tok) {
					return
				}
			}
		}
		pow := []string{"4294967296", "9223372036854775808", "18446744073709551616"}
		for _, p := range pow {
			for k := 1; k <= 40; k++ {
				if !try(addDec(mulDec(p, k), "101")) {
					return
				}
			}
		}
		for z := 1; z <= 30; z++ {
			if !try(strings.Repeat("0", z) + "101") {
				return
			}
		}
		// numerals congruent to 101 modulo the word size, digits of 2^63 / 2^64
		// (+-1) followed by 101, long digit strings ending in 101: all are other numbers
		for _, tok := range respgen.WrapNumerals("101") {
			if respgen.ClassifyStatus(tok) != "fail:status:value" {
				hx.Failf(t, tok, "harness: %q classified %q", tok, respgen.ClassifyStatus(tok))
				return
			}
			if !try(tok) {
				return
			}
		}
	}
	hx.EvalN(n)
	hx.Part("status tokens: all strings over 0x30-0x3F up to the tier's length, byte insertions around 101, 2^k multiples + 101", int64(n), true)
}

// decimal string arithmetic for tokens beyond 64 bits
func mulDec(a string, k int) string {
	out := "0"
	for i := 0; i < k; i++ {
		out = addDec(out, a)
	}
	return out
}

func addDec(a, b string) string {
	var out []byte
	carry := 0
	for i, j := len(a)-1, len(b)-1; i >= 0 || j >= 0 || carry > 0; i, j = i-1, j-1 {
		s := carry
		if i >= 0 {
			s += int(a[i] - '0')
		}
		if j >= 0 {
			s += int(b[j] - '0')
		}
		out = append([]byte{byte('0' + s%10)}, out...)
		carry = s / 10
	}
	return string(out)
}

// Versions: "HTTP/" followed by every string of length 0..4 (thorough: 5) over {0,1,2,9,.,:,x}.
func TestVersionGrid(t *testing.T) {
	c := dcfg{URL: "ws://example.org/", Seed: 1}
	alpha := []byte("0129.:x")
	maxLen := hx.Pick(4, 5)
	n := 0
	var rec func(s []byte) bool
	rec = func(s []byte) bool {
		if len(s) > 0 || hx.Mine(0) {
			n++
			r := respgen.Valid()
			r.Version = "HTTP/" + string(s)
			if !runFixed(t, &c, r, nil) {
				return false
			}
		}
		if len(s) == maxLen {
			return true
		}
		for i, b := range alpha {
			if len(s) == 0 && !hx.Mine(i) {
				continue
			}
			if !rec(append(s, b)) {
				return false
			}
		}
		return true
	}
	if !rec(nil) {
		return
	}
	if hx.Mine(0) {
		versions := append([]string(nil), respgen.VersionTokens...)
		for _, w := range respgen.WrapNumerals("1") {
			if lbl := respgen.ClassifyVersion("HTTP/" + w + ".1"); lbl != "fail:version:major" {
				hx.Failf(t, w, "harness: major %q classified %q", w, lbl)
				return
			}
			// as major: another number than 1, must fail; as minor: >= 1 but huge, open
			versions = append(versions, "HTTP/"+w+".1", "HTTP/"+w+".0", "HTTP/1."+w, "HTTP/"+w+"."+w)
		}
		for _, v := range versions {
			n++
			r := respgen.Valid()
			r.Version = v
			if !runFixed(t, &c, r, nil) {
				return
			}
		}
	}
	hx.EvalN(n)
	hx.Part("versions: HTTP/ + all strings over {0,1,2,9,.,:,x} up to the tier's length, and the fixed alphabet", int64(n), true)
}

// Per-header states: Upgrade x Connection x Accept, each in 8 states, x
// subprotocol {absent, requested, not requested} x extensions {absent, offered
// with parameters, unknown} x {CRLF, LF}.
func TestHeaderStateGrid(t *testing.T) {
	cfg := respgen.Config{
		Protocols:  []string{"chat", "superchat"},
		Extensions: []respgen.Ext{{Name: "permessage-deflate", Params: []respgen.Param{{Key: "client_max_window_bits"}}}, {Name: "x-a"}},
	}
	c := dcfg{URL: "ws://example.org/", Req: cfg, Seed: 3}
	type mk func(good respgen.Line, wrong func(respgen.Line) respgen.Line) []respgen.Line
	states := []mk{
		func(g respgen.Line, w func(respgen.Line) respgen.Line) []respgen.Line { return []respgen.Line{g} },
		func(g respgen.Line, w func(respgen.Line) respgen.Line) []respgen.Line {
			g.Name = strings.ToLower(g.Name)
			if g.Accept == respgen.AcceptLiteral {
				g.Value = strings.ToUpper(g.Value)
			}
			return []respgen.Line{g}
		},
		func(g respgen.Line, w func(respgen.Line) respgen.Line) []respgen.Line {
			g.Pre, g.Post = " \t ", "\t "
			return []respgen.Line{g}
		},
		func(g respgen.Line, w func(respgen.Line) respgen.Line) []respgen.Line { return []respgen.Line{w(g)} },
		func(g respgen.Line, w func(respgen.Line) respgen.Line) []respgen.Line { return nil },
		func(g respgen.Line, w func(respgen.Line) respgen.Line) []respgen.Line { return []respgen.Line{g, g} },
		func(g respgen.Line, w func(respgen.Line) respgen.Line) []respgen.Line { return []respgen.Line{g, w(g)} },
		func(g respgen.Line, w func(respgen.Line) respgen.Line) []respgen.Line {
			return []respgen.Line{w(g), w(g)}
		},
	}
	base := respgen.Valid()
	wrongUp := func(l respgen.Line) respgen.Line { l.Value = "websocket2"; return l }
	wrongConn := func(l respgen.Line) respgen.Line { l.Value = "keep-alive"; return l }
	wrongAcc := func(l respgen.Line) respgen.Line { l.Accept = respgen.AcceptOtherKey; return l }
	protoStates := [][]respgen.Line{nil,
		{{Name: "Sec-WebSocket-Protocol", Pre: " ", Value: "superchat"}},
		{{Name: "Sec-WebSocket-Protocol", Pre: " ", Value: "chat2"}}}
	extStates := [][]respgen.Line{nil,
		{{Name: "Sec-WebSocket-Extensions", Pre: " ", Value: `x-a; k="v 1"; flag, permessage-deflate; client_max_window_bits=10`}},
		{{Name: "Sec-WebSocket-Extensions", Pre: " ", Value: "x-unknown"}}}
	n := 0
	for i, su := range states {
		if !hx.Mine(i) {
			continue
		}
		for _, sc := range states {
			for _, sa := range states {
				for _, ps := range protoStates {
					for _, es := range extStates {
						for _, lf := range []bool{false, true} {
							r := &respgen.Response{Version: "HTTP/1.1", Status: "101", Reason: "Switching Protocols", Trailing: []byte{0x82, 0x00}}
							r.Lines = append(r.Lines, su(base.Lines[0], wrongUp)...)
							r.Lines = append(r.Lines, sc(base.Lines[1], wrongConn)...)
							r.Lines = append(r.Lines, ps...)
							r.Lines = append(r.Lines, sa(base.Lines[2], wrongAcc)...)
							r.Lines = append(r.Lines, es...)
							if lf {
								r.StatusLF, r.EndLF = true, true
								for k := range r.Lines {
									r.Lines[k].LF = true
								}
							}
							n++
							if !runFixed(t, &c, r, nil) {
								return
							}
						}
					}
				}
			}
		}
	}
	hx.EvalN(n)
	hx.Part("header states: 8 x 8 x 8 (Upgrade, Connection, Accept) x 3 subprotocol x 3 extension x 2 line ends", int64(n), true)
}

// Every cut point of a valid head: the dialer must fail and return no reader.
func TestTruncatedHeads(t *testing.T) {
	c := dcfg{URL: "ws://example.org/", Req: respgen.Config{Protocols: []string{"chat"}}, Seed: 5}
	n := 0
	for _, lf := range []bool{false, true} {
		r := respgen.Valid()
		r.Lines = append(r.Lines, respgen.Line{Name: "Sec-WebSocket-Protocol", Pre: " ", Value: "chat"})
		if lf {
			r.StatusLF, r.EndLF = true, true
			for k := range r.Lines {
				r.Lines[k].LF = true
			}
		}
		full := len(r.Head(dummyKey))
		for cut := 1; cut < full; cut++ {
			if !hx.Mine(cut) {
				continue
			}
			rc := r.Clone()
			rc.Cut = cut
			for _, sizes := range [][]int{nil, {1}, {7}} {
				n++
				if !runFixed(t, &c, rc, sizes) {
					return
				}
			}
		}
	}
	hx.EvalN(n)
	hx.Part("every cut point of a valid head x 3 chunkings x {CRLF, LF}", int64(n), true)
}

// ---------------------------------------------------------------------------
// known findings

func accepted(r *respgen.Response, cfg respgen.Config) bool {
	c := dcfg{URL: "ws://example.org/", Req: cfg, Seed: 11}
	o := upgrade(&c, r.Render, nil, false)
	return o.panicked == nil && o.err == nil
}

func TestKnownFindings(t *testing.T) {
	// Fixed in /repo (5c0c0bd): asciiToInt took 0x3A-0x3F as digits and wrapped on overflow.
	var hit []string
	for _, tok := range []string{"0:1", "9;", "18446744073709551717", "00:1", "36893488147419103333"} {
		r := respgen.Valid()
		r.Status = tok
		if accepted(r, respgen.Config{}) {
			hit = append(hit, tok)
		}
	}
	hx.Probe(t, sigStatus, "Dialer.Upgrade accepts a status token that is not 101: "+strings.Join(hit, " "), len(hit) > 0, hit)

	// A second Sec-WebSocket-Protocol line with a value that was not requested.
	hit = nil
	for _, second := range []string{"chatx", "v2.unknown", "Chat", ""} {
		r := respgen.Valid()
		r.Lines = append(r.Lines, respgen.Line{Name: "Sec-WebSocket-Protocol", Pre: " ", Value: "chat"}, respgen.Line{Name: "Sec-WebSocket-Protocol", Pre: " ", Value: second})
		if accepted(r, respgen.Config{Protocols: []string{"chat", "superchat"}}) {
			hit = append(hit, fmt.Sprintf("%q", second))
		}
	}
	hx.Probe(t, sigProtoDup, "Dialer.Upgrade (Protocols chat, superchat) accepts 'Sec-WebSocket-Protocol: chat' followed by a second 'Sec-WebSocket-Protocol: "+strings.Join(hit, " / ")+"' and reports chat", len(hit) > 0, hit)

	// Upgrade value compared with Unicode case folding.
	hit = nil
	for _, v := range respgen.UpgradeFoldOnly {
		r := respgen.Valid()
		r.Lines[0].Value = v
		if accepted(r, respgen.Config{}) {
			hit = append(hit, fmt.Sprintf("%+q", v))
		}
	}
	hx.Probe(t, sigFold, "Dialer.Upgrade accepts 'Upgrade: "+strings.Join(hit, " / ")+"' (U+212A KELVIN SIGN / U+017F LONG S; bytes.EqualFold is Unicode folding, RFC 6455 asks for an ASCII case-insensitive match for websocket)", len(hit) > 0, hit)
}

// ---------------------------------------------------------------------------
// native fuzz target

const acceptPlaceholder = "{{ACCEPT}}"

var fuzzCfg = respgen.Config{
	Protocols:  []string{"chat", "superchat"},
	Extensions: []respgen.Ext{{Name: "permessage-deflate", Params: []respgen.Param{{Key: "client_max_window_bits"}}}, {Name: "x-a"}},
}

// strictStatusLine: version HTTP/1.x (digits, x >= 1), status digits with value 101.
func strictStatusLine(line string) string {
	sp := strings.IndexByte(line, ' ')
	if sp < 0 {
		return "no SP in the status line"
	}
	version, rest := line[:sp], line[sp+1:]
	sp2 := strings.IndexByte(rest, ' ')
	if sp2 < 0 {
		return "a status line without the second SP"
	}
	status := rest[:sp2]
	if lbl := respgen.ClassifyVersion(version); strings.HasPrefix(lbl, "fail:") {
		return fmt.Sprintf("version %q", version)
	}
	if lbl := respgen.ClassifyStatus(status); strings.HasPrefix(lbl, "fail:") {
		return fmt.Sprintf("status token %q", status)
	}
	return ""
}

func fuzzOne(t *testing.T, data []byte) {
	if len(data) == 0 {
		return
	}
	ctl, body := data[0], data[1:]
	c := dcfg{URL: "ws://example.org/chat", Req: fuzzCfg, Seed: 20261001}
	c.RBuf = []int{0, 16, 64, 128}[ctl&3]
	var sizes []int
	switch (ctl >> 2) & 3 {
	case 1:
		sizes = []int{1}
	case 2:
		sizes = []int{7}
	case 3:
		sizes = []int{33, 5}
	}
	respond := func(key string) []byte {
		return bytes.ReplaceAll(body, []byte(acceptPlaceholder), []byte(respgen.Accept(key)))
	}
	o := upgrade(&c, respond, sizes, ctl&16 != 0)
	if o.panicked != nil {
		t.Fatalf("Dialer.Upgrade panicked: %v", o.panicked)
	}
	if !o.keyOK {
		t.Fatalf("request without key: %q", o.written)
	}
	if o.err != nil {
		if o.brNonNil {
			t.Fatalf("error %v with a non-nil reader", o.err)
		}
		return
	}
	_, end, complete := respgen.SplitLines(o.sent)
	if !complete {
		t.Fatalf("success on a head that never ended: %q", o.sent)
	}
	if msg := headInvariants(o.sent, o.key); msg != "" {
		t.Fatalf("%s: %q", msg, o.sent)
	}
	if o.hs.Protocol != "" && !fuzzCfg.Requested(o.hs.Protocol) {
		t.Fatalf("protocol %q was not requested: %q", o.hs.Protocol, o.sent)
	}
	for _, e := range respgen.FromOptions(o.hs.Extensions) {
		if !fuzzCfg.Offered(e.Name) {
			t.Fatalf("extension %q was not offered: %q", e.Name, o.sent)
		}
	}
	if !bytes.Equal(o.after, o.sent[end:]) {
		t.Fatalf("bytes after the head: sent %x, readable %x (buffered %d)", o.sent[end:], o.after, o.buffered)
	}
}

func fuzzSeeds() [][]byte {
	right := respgen.Accept(dummyKey)
	var out [][]byte
	add := func(ctl byte, r *respgen.Response) {
		b := bytes.ReplaceAll(r.Render(dummyKey), []byte(right), []byte(acceptPlaceholder))
		out = append(out, append([]byte{ctl}, b...))
	}
	v := respgen.Valid()
	add(0, v)
	w := v.Clone()
	w.Trailing = []byte{0x81, 0x02, 'h', 'i'}
	w.Lines = append(w.Lines, respgen.Line{Name: "Sec-WebSocket-Protocol", Pre: " ", Value: "chat"},
		respgen.Line{Name: "Sec-WebSocket-Extensions", Pre: " ", Value: "permessage-deflate; server_max_window_bits=10, x-a"})
	add(5, w)
	for i, tok := range []string{"0:1", "9;", "18446744073709551717", "0101", "200", ""} {
		s := v.Clone()
		s.Status = tok
		add(byte(i), s)
	}
	for i, ver := range []string{"HTTP/1.0", "HTTP/1.:", "HTTP/1.10", "HTTP/2.0"} {
		s := w.Clone()
		s.Version = ver
		add(byte(8+i), s)
	}
	lf := w.Clone()
	lf.StatusLF, lf.EndLF = true, true
	for i := range lf.Lines {
		lf.Lines[i].LF = true
	}
	add(2, lf)
	bad := v.Clone()
	bad.Lines[2].Accept = respgen.AcceptOtherKey
	add(1, bad)
	nosp := v.Clone()
	nosp.NoReasonSP = true
	add(0, nosp)
	return out
}

// FuzzDialerUpgrade feeds arbitrary bytes as the server's answer. The first
// byte selects read-buffer size and chunking; the text {{ACCEPT}} in the rest
// is replaced by the right accept value for the key the dialer sent.
func FuzzDialerUpgrade(f *testing.F) {
	for _, s := range fuzzSeeds() {
		f.Add(s)
	}
	f.Fuzz(fuzzOne)
}

// ---------------------------------------------------------------------------
// self-check of the trusted base (model, renderer, parsers) on literal tables

func TestModelSelfCheck(t *testing.T) {
	fail := func(format string, args ...interface{}) { hx.Failf(t, nil, "harness self-check: "+format, args...) }
	if a := respgen.Accept("dGhlIHNhbXBsZSBub25jZQ=="); a != "s3pPLMBiTxaQ9kYGzzhZRbK+xOo=" {
		fail("Accept of the RFC 6455 sample key = %q", a)
	}
	for tok, want := range map[string]string{"101": "", "0101": "fail:status:not-literal", "100": "fail:status:value", "0:1": "fail:status:nondigit",
		"9;": "fail:status:nondigit", "18446744073709551717": "fail:status:value", "": "fail:status:nondigit", "1010": "fail:status:value", "00000101": "fail:status:not-literal"} {
		if got := respgen.ClassifyStatus(tok); got != want {
			fail("ClassifyStatus(%q) = %q, want %q", tok, got, want)
		}
	}
	for v, want := range map[string]string{"HTTP/1.1": "", "HTTP/1.2": "", "HTTP/1.10": "", "HTTP/1.0": "fail:version:minor<1", "HTTP/2.0": "fail:version:major",
		"HTTP/1.:": "fail:version:form", "http/1.1": "fail:version:form", "HTTP/1": "fail:version:form", "HTTP/01.1": "open:version:leading-zero",
		"HTTP/1.01": "open:version:leading-zero", "HTTP/1.00": "fail:version:minor<1", "HTTP/1.1.1": "fail:version:form", "HTTP/1.18446744073709551617": "open:version:huge-minor"} {
		if got := respgen.ClassifyVersion(v); got != want {
			fail("ClassifyVersion(%q) = %q, want %q", v, got, want)
		}
	}
	type pl struct {
		in   string
		st   respgen.ListStatus
		want []respgen.Ext
	}
	for _, c := range []pl{
		{"x-a", respgen.ListOK, []respgen.Ext{{Name: "x-a"}}},
		{`x-a; k=v; q="a b,;="; flag , y`, respgen.ListOK, []respgen.Ext{{Name: "x-a", Params: []respgen.Param{{Key: "k", Value: "v"}, {Key: "q", Value: "a b,;="}, {Key: "flag"}}}, {Name: "y"}}},
		{"", respgen.ListEmpty, nil}, {"  ", respgen.ListEmpty, nil},
		{"=x", respgen.ListBadName, nil}, {`"x-a"`, respgen.ListBadName, nil}, {"x-a, =y", respgen.ListBadName, nil}, {"x-a;;, @", respgen.ListBadName, nil},
		{"x-a;", respgen.ListBadTail, nil}, {"x-a b", respgen.ListBadTail, nil}, {"x-a,", respgen.ListBadTail, nil}, {"x-a,,y", respgen.ListBadTail, nil},
		{"x-a; k=\"unterminated", respgen.ListBadTail, nil}, {"x-a; k=\"e\\\"s\"", respgen.ListBadTail, nil}, {"x-a;\tk", respgen.ListBadTail, nil}, {"x-a; k = v", respgen.ListBadTail, nil},
	} {
		got, st := respgen.ParseOptionList(c.in)
		if st != c.st || (st == respgen.ListOK && !respgen.SameExts(got, c.want)) {
			fail("ParseOptionList(%q) = %v, %d; want %v, %d", c.in, got, st, c.want, c.st)
		}
	}
	cfg := fuzzCfg
	v := respgen.Valid()
	if cl := respgen.Classify(v, cfg); cl.Verdict != respgen.MustSucceed || cl.Vector() != "" {
		fail("canonical response classified %v %q", cl.Verdict, cl.Vector())
	}
	want := "HTTP/1.1 101 Switching Protocols\r\nUpgrade: websocket\r\nConnection: Upgrade\r\nSec-WebSocket-Accept: s3pPLMBiTxaQ9kYGzzhZRbK+xOo=\r\n\r\n"
	if got := string(v.Render("dGhlIHNhbXBsZSBub25jZQ==")); got != want {
		fail("canonical rendering = %q", got)
	}
	if lines, end, ok := respgen.SplitLines([]byte("a\r\nb\n\r\nrest")); !ok || end != 7 || len(lines) != 3 || lines[0] != "a" || lines[1] != "b" {
		fail("SplitLines = %q %d %v", lines, end, ok)
	}
	if k, ok := respgen.KeyFromRequest([]byte("GET / HTTP/1.1\r\nHost: x\r\nsec-websocket-KEY:  abc \r\n\r\n")); !ok || k != "abc" {
		fail("KeyFromRequest = %q %v", k, ok)
	}
	mod := func(f func(r *respgen.Response)) respgen.Class {
		r := respgen.Valid()
		f(r)
		return respgen.Classify(r, cfg)
	}
	for name, c := range map[string]struct {
		cl   respgen.Class
		want respgen.Verdict
	}{
		"lf":            {mod(func(r *respgen.Response) { r.StatusLF = true }), respgen.MustSucceed},
		"kelvin":        {mod(func(r *respgen.Response) { r.Lines[0].Value = "websoc\u212aet" }), respgen.MustFail},
		"conn-list":     {mod(func(r *respgen.Response) { r.Lines[1].Value = "keep-alive, Upgrade" }), respgen.Open},
		"no-accept":     {mod(func(r *respgen.Response) { r.Lines = r.Lines[:2] }), respgen.MustFail},
		"raw+no-accept": {mod(func(r *respgen.Response) { r.Lines[2] = respgen.Line{Raw: "x"} }), respgen.Open},
		"raw+status":    {mod(func(r *respgen.Response) { r.Lines[2] = respgen.Line{Raw: "x"}; r.Status = "200" }), respgen.MustFail},
		"proto-ok": {mod(func(r *respgen.Response) {
			r.Lines = append(r.Lines, respgen.Line{Name: "sec-websocket-protocol", Value: " chat "})
		}), respgen.MustSucceed},
		"proto-bad": {mod(func(r *respgen.Response) {
			r.Lines = append(r.Lines, respgen.Line{Name: "Sec-WebSocket-Protocol", Pre: " ", Value: "Chat"})
		}), respgen.MustFail},
		"ext-unknown": {mod(func(r *respgen.Response) {
			r.Lines = append(r.Lines, respgen.Line{Name: "Sec-WebSocket-Extensions", Pre: " ", Value: "x-a, x-c"})
		}), respgen.MustFail},
		"ext-case": {mod(func(r *respgen.Response) {
			r.Lines = append(r.Lines, respgen.Line{Name: "Sec-WebSocket-Extensions", Pre: " ", Value: "X-A"})
		}), respgen.MustFail},
		"ext-twice": {mod(func(r *respgen.Response) {
			r.Lines = append(r.Lines, respgen.Line{Name: "Sec-WebSocket-Extensions", Pre: " ", Value: "x-a, x-a; p=1"})
		}), respgen.MustSucceed},
		"proto-empty": {mod(func(r *respgen.Response) {
			r.Lines = append(r.Lines, respgen.Line{Name: "Sec-WebSocket-Protocol", Pre: " ", Value: ""})
		}), respgen.MustFail},
		"proto-good-then-bad": {mod(func(r *respgen.Response) {
			r.Lines = append(r.Lines, respgen.Line{Name: "Sec-WebSocket-Protocol", Pre: " ", Value: "chat"}, respgen.Line{Name: "Sec-WebSocket-Protocol", Pre: " ", Value: "chatx"})
		}), respgen.MustFail},
		"proto-two-good": {mod(func(r *respgen.Response) {
			r.Lines = append(r.Lines, respgen.Line{Name: "Sec-WebSocket-Protocol", Pre: " ", Value: "chat"}, respgen.Line{Name: "Sec-WebSocket-Protocol", Pre: " ", Value: "superchat"})
		}), respgen.Open},
		"0101":     {mod(func(r *respgen.Response) { r.Status = "0101" }), respgen.MustFail},
		"0101+bad": {mod(func(r *respgen.Response) { r.Status = "0101"; r.Lines[0].Value = "h2c" }), respgen.MustFail},
		"cut":      {mod(func(r *respgen.Response) { r.Cut = 10 }), respgen.MustFail},
	} {
		if c.cl.Verdict != c.want {
			fail("%s classified %v (%s), want %v", name, c.cl.Verdict, c.cl.Vector(), c.want)
		}
	}
}

// Every required header x every non-blank padding byte sequence x {before,
// after, both} x {adjacent to the value, outside ordinary blanks} x {CRLF, LF}:
// "surrounding blanks" are SP and HT only, so the padded value is a wrong value.
func TestJunkPadding(t *testing.T) {
	if !hx.Mine(1) {
		return
	}
	c := dcfg{URL: "ws://example.org/", Req: respgen.Config{Protocols: []string{"chat"}}, Seed: 9}
	n, asserted := 0, 0
	for line := 0; line < 4; line++ {
		for _, j := range respgen.JunkPads {
			for where := 0; where < 3; where++ {
				for _, inner := range []bool{true, false} {
					for _, lf := range []bool{false, true} {
						r := respgen.Valid()
						r.Lines = append(r.Lines, respgen.Line{Name: "Sec-WebSocket-Protocol", Pre: " ", Value: "chat"})
						l := &r.Lines[line]
						if where != 1 {
							if inner {
								l.Pre += j
							} else {
								l.Pre = j + l.Pre
							}
						}
						if where != 0 {
							if inner {
								l.Post = j + " "
							} else {
								l.Post = " " + j
							}
						}
						if lf {
							r.StatusLF, r.EndLF = true, true
							for k := range r.Lines {
								r.Lines[k].LF = true
							}
						}
						n++
						if respgen.Classify(r, c.Req).Verdict == respgen.MustFail {
							asserted++
						}
						if !runFixed(t, &c, r, nil) {
							return
						}
					}
				}
			}
		}
	}
	if asserted < n*3/4 {
		hx.Failf(t, nil, "harness: only %d of %d junk-padding cases are must-fail", asserted, n)
	}
	hx.EvalN(n)
	hx.Part("junk padding: 4 headers x padding bytes x position x placement x line end", int64(n), true)
}

// Subprotocol values that are not, as a whole, one of the requested tokens:
// lists with and without a requested token inside.
func TestProtocolLists(t *testing.T) {
	if !hx.Mine(2) {
		return
	}
	c := dcfg{URL: "ws://example.org/", Req: respgen.Config{Protocols: []string{"chat", "superchat", "v1.json"}}, Seed: 10}
	toks := []string{"chat", "superchat", "v1.json", "mqtt", "v2.unknown", "Chat", "cha", "chatx"}
	seps := []string{", ", ",", " ", " , ", "\t", ";", "; q=", ",,", " ,"}
	n := 0
	try := func(v string) bool {
		r := respgen.Valid()
		r.Lines = append(r.Lines, respgen.Line{Name: "Sec-WebSocket-Protocol", Pre: " ", Value: v})
		n++
		cl := respgen.Classify(r, c.Req)
		if want := c.Req.Requested(v); (cl.Verdict == respgen.MustSucceed) != want || (!want && cl.Verdict != respgen.MustFail) {
			hx.Failf(t, v, "harness: protocol value %q classified %v", v, cl.Verdict)
			return false
		}
		return runFixed(t, &c, r, nil)
	}
	for _, a := range toks {
		if !try(a) || !try(a+",") || !try(","+a) || !try(a+";") {
			return
		}
		for _, b := range toks {
			for _, s := range seps {
				if !try(a + s + b) {
					return
				}
				if !try(a + s + b + s + "chat") {
					return
				}
			}
		}
	}
	hx.EvalN(n)
	hx.Part("subprotocol values: single tokens and 2-/3-element lists over requested and foreign tokens x separators", int64(n), true)
}

// ---------------------------------------------------------------------------
// default TLS client (TLSClient == nil): server name per dial, caller's config untouched

// helloConn records what is written (the ClientHello) and ends the stream at
// the first Read, so the TLS handshake fails at once.
type helloConn struct {
	respgen.Conn
	wrote []byte
}

func (h *helloConn) Write(b []byte) (int, error) { h.wrote = append(h.wrote, b...); return len(b), nil }
func (h *helloConn) Read(b []byte) (int, error)  { return 0, io.EOF }

// clientHelloSNI extracts the host name of the server_name extension from the
// first TLS record of b. ok is false if b is not a ClientHello; name is "" if
// the hello has no server_name extension.
func clientHelloSNI(b []byte) (name string, ok bool) {
	if len(b) < 5 || b[0] != 22 {
		return "", false
	}
	n := int(b[3])<<8 | int(b[4])
	if len(b) < 5+n {
		return "", false
	}
	h := b[5 : 5+n]
	if len(h) < 4 || h[0] != 1 {
		return "", false
	}
	hl := int(h[1])<<16 | int(h[2])<<8 | int(h[3])
	if len(h) < 4+hl {
		return "", false
	}
	p := h[4 : 4+hl]
	skip := func(k int) bool {
		if len(p) < k {
			return false
		}
		p = p[k:]
		return true
	}
	vec := func(lenBytes int) ([]byte, bool) {
		if len(p) < lenBytes {
			return nil, false
		}
		l := 0
		for i := 0; i < lenBytes; i++ {
			l = l<<8 | int(p[i])
		}
		p = p[lenBytes:]
		if len(p) < l {
			return nil, false
		}
		v := p[:l]
		p = p[l:]
		return v, true
	}
	if !skip(2 + 32) { // version, random
		return "", false
	}
	if _, ok := vec(1); !ok { // session id
		return "", false
	}
	if _, ok := vec(2); !ok { // cipher suites
		return "", false
	}
	if _, ok := vec(1); !ok { // compression methods
		return "", false
	}
	if len(p) == 0 {
		return "", true
	}
	exts, ok := vec(2)
	if !ok {
		return "", false
	}
	for len(exts) >= 4 {
		typ := int(exts[0])<<8 | int(exts[1])
		l := int(exts[2])<<8 | int(exts[3])
		if len(exts) < 4+l {
			return "", false
		}
		data := exts[4 : 4+l]
		exts = exts[4+l:]
		if typ != 0 {
			continue
		}
		// server_name_list: len(2) { type(1) len(2) name }
		if len(data) < 5 || data[2] != 0 {
			return "", false
		}
		nl := int(data[3])<<8 | int(data[4])
		if len(data) < 5+nl {
			return "", false
		}
		return string(data[5 : 5+nl]), true
	}
	return "", true
}

func TestDefaultTLSClientServerName(t *testing.T) {
	if !hx.Mine(3) {
		return
	}
	hosts := []string{"a.example", "b.example.org:8443", "c.example.net", "a.example:444", "d.example"}
	type kind struct {
		name string
		mk   func() *tls.Config
		want func(host string) string
	}
	self := func(h string) string { return h }
	kinds := []kind{
		{"nil", func() *tls.Config { return nil }, self},
		{"empty-shared", func() *tls.Config { return &tls.Config{} }, self},
		{"fixed", func() *tls.Config { return &tls.Config{ServerName: "fixed.example"} }, func(string) string { return "fixed.example" }},
		{"nil-again", func() *tls.Config { return nil }, self},
	}
	n := 0
	for _, k := range kinds {
		cfg := k.mk() // shared between the dials of this kind
		before := ""
		if cfg != nil {
			before = cfg.ServerName
		}
		for _, host := range hosts {
			u, _ := url.Parse("wss://" + host + "/chat")
			hc := &helloConn{}
			var addr string
			d := ws.Dialer{
				TLSConfig: cfg,
				NetDial: func(ctx context.Context, network, a string) (net.Conn, error) {
					addr = a
					return hc, nil
				},
			}
			wraps, wrapGotTLS := 0, false
			var outer *wrapConn
			if n%2 == 1 { // every other dial also with WrapConn: it gets the *tls.Conn and carries the (plaintext) request
				d.WrapConn = func(conn net.Conn) net.Conn {
					wraps++
					_, wrapGotTLS = conn.(*tls.Conn)
					outer = &wrapConn{Conn: conn}
					return outer
				}
			}
			n++
			desc := map[string]string{"tls_config": k.name, "url": u.String()}
			_, _, _, err := d.Dial(context.Background(), u.String())
			if err == nil {
				hx.Failf(t, desc, "Dial succeeded although the connection ended during the TLS handshake")
				return
			}
			if d.WrapConn != nil && (wraps != 1 || !wrapGotTLS) {
				hx.Failf(t, desc, "default TLS client + WrapConn: WrapConn called %d times, received a *tls.Conn: %v", wraps, wrapGotTLS)
				return
			}
			if want := expectedAddr(u); addr != want {
				hx.Failf(t, desc, "NetDial address %q, want %q", addr, want)
				return
			}
			sni, ok := clientHelloSNI(hc.wrote)
			if !ok {
				hx.Failf(t, desc, "no ClientHello was written before the first read (%d bytes: %x)", len(hc.wrote), clip(hc.wrote))
				return
			}
			if want := k.want(u.Hostname()); sni != want {
				hx.Failf(t, desc, "ClientHello server_name %q, want %q (address dialed: %s)", sni, want, addr)
				return
			}
			if cfg != nil && cfg.ServerName != before {
				hx.Failf(t, desc, "the caller's tls.Config was modified: ServerName %q, was %q", cfg.ServerName, before)
				return
			}
			hx.Class("tls-default/" + k.name)
		}
	}
	hx.EvalN(n)
	hx.NonTrivial(hx.Hash("tls-default-sni"), func() interface{} {
		return map[string]interface{}{"test": "default TLS client", "hosts": hosts, "configs": []string{"nil", "shared empty", "fixed ServerName"}}
	})
	hx.Part("default TLS client: 4 config kinds x 5 consecutive wss dials to different hosts", int64(n), true)
}

// The rejection error's accessors (the server-side counterpart of StatusError):
// StatusCode() is the status given with RejectionStatus, Error() the reason.
func TestRejectionErrorAccessors(t *testing.T) {
	if !hx.Mine(4) {
		return
	}
	n := 0
	for _, code := range []int{0, 400, 401, 403, 404, 426, 500, 503, 999} {
		for _, reason := range []string{"", "no", "bad handshake: 400"} {
			for _, swap := range []bool{false, true} {
				opts := []ws.RejectOption{ws.RejectionStatus(code), ws.RejectionReason(reason)}
				if swap {
					opts[0], opts[1] = opts[1], opts[0]
				}
				n++
				err := ws.RejectConnectionError(opts...)
				rej, ok := err.(*ws.ConnectionRejectedError)
				if !ok || rej.StatusCode() != code || rej.Error() != reason {
					hx.Failf(t, map[string]interface{}{"code": code, "reason": reason}, "RejectConnectionError(status %d, reason %q): %T StatusCode()=%d Error()=%q", code, reason, err, rej.StatusCode(), rej.Error())
					return
				}
			}
		}
	}
	hx.EvalN(n)
}

// OnHeader veto: extra headers before, between and after the websocket
// headers (one of them before a Sec-WebSocket-Extensions line); the callback
// vetoes the k-th one. The dialer has to return exactly the callback's error
// and must not call it again.
func TestOnHeaderVeto(t *testing.T) {
	if !hx.Mine(5) {
		return
	}
	cfg := respgen.Config{Protocols: []string{"chat"}, Extensions: []respgen.Ext{{Name: "x-a"}}}
	x := func(i int) respgen.Line {
		return respgen.Line{Name: fmt.Sprintf("X-Extra-%d", i), Pre: " ", Value: fmt.Sprintf("value %d", i)}
	}
	base := respgen.Valid()
	up, conn, acc := base.Lines[0], base.Lines[1], base.Lines[2]
	ext := respgen.Line{Name: "Sec-WebSocket-Extensions", Pre: " ", Value: "x-a; p=1"}
	proto := respgen.Line{Name: "Sec-WebSocket-Protocol", Pre: " ", Value: "chat"}
	layouts := [][]respgen.Line{
		{x(1), up, x(2), conn, x(3), acc, x(4)},
		{up, conn, acc, x(1), x(2), ext},
		{x(1), x(2), x(3), up, conn, acc, proto, ext},
		{up, x(1), conn, acc, ext, x(2), proto},
		{x(1), ext, up, conn, acc},
	}
	n := 0
	for _, lines := range layouts {
		for veto := -1; veto <= 5; veto++ {
			for _, lf := range []bool{false, true} {
				for _, sizes := range [][]int{nil, {1}, {13}} {
					r := &respgen.Response{Version: "HTTP/1.1", Status: "101", Reason: "Switching Protocols", Trailing: []byte{0x81, 0x00}}
					r.Lines = append([]respgen.Line(nil), lines...)
					if lf {
						r.StatusLF, r.EndLF = true, true
						for k := range r.Lines {
							r.Lines[k].LF = true
						}
					}
					c := dcfg{URL: "ws://example.org/", Req: cfg, Seed: 12, VetoAt: veto}
					n++
					if !runFixed(t, &c, r, sizes) {
						return
					}
				}
			}
		}
	}
	hx.EvalN(n)
	hx.Part("OnHeader: 5 header layouts x veto position (none, record-only, 1..5) x line end x 3 chunkings", int64(n), true)
}

// Bytes before the status line: the first line of the response is then not a
// status line, whatever follows.
func TestLeadingBytes(t *testing.T) {
	if !hx.Mine(6) {
		return
	}
	cfg := respgen.Config{Protocols: []string{"chat"}, Extensions: []respgen.Ext{{Name: "x-a"}}}
	c := dcfg{URL: "ws://example.org/", Req: cfg, Seed: 13, OnStatus: true, VetoAt: -1}
	n := 0
	for _, prefix := range respgen.Prefixes {
		for variant := 0; variant < 3; variant++ {
			for _, lf := range []bool{false, true} {
				for _, sizes := range [][]int{nil, {1}, {2}, {len(prefix), 1 << 20}} {
					r := respgen.Valid()
					r.Prefix = prefix
					r.Trailing = []byte{0x81, 0x00}
					switch variant {
					case 1:
						r.Lines = append(r.Lines, respgen.Line{Name: "Sec-WebSocket-Protocol", Pre: " ", Value: "chat"}, respgen.Line{Name: "X-Extra", Pre: " ", Value: "1"})
					case 2:
						r.Status = "200"
					}
					if lf {
						r.StatusLF, r.EndLF = true, true
						for k := range r.Lines {
							r.Lines[k].LF = true
						}
					}
					n++
					if cl := respgen.Classify(r, cfg); cl.Verdict != respgen.MustFail {
						hx.Failf(t, prefix, "harness: prefix %q classified %v", prefix, cl.Verdict)
						return
					}
					if !runFixed(t, &c, r, sizes) {
						return
					}
				}
			}
		}
	}
	hx.EvalN(n)
	hx.Part("bytes before the status line: prefixes x 3 responses x line end x 4 chunkings", int64(n), true)
}

// First lines with fewer than the two mandatory separators, followed by an
// otherwise valid head: malformed status lines, whatever tokens they hold.
func TestTwoTokenStatusLines(t *testing.T) {
	if !hx.Mine(7) {
		return
	}
	c := dcfg{URL: "ws://example.org/", Req: respgen.Config{Protocols: []string{"chat"}}, Seed: 14, OnStatus: true}
	n := 0
	lines := append([]string(nil), respgen.TwoTokenStatusLines...)
	for _, v := range []string{"HTTP/1.1", "HTTP/1.2", "HTTP/1.0", "HTTP/2.0"} {
		for _, st := range []string{"101", "100", "200", "400", "0101", ""} {
			lines = append(lines, v+" "+st, v+"\t"+st, v+st)
		}
	}
	for _, raw := range lines {
		for _, lf := range []bool{false, true} {
			for _, sizes := range [][]int{nil, {1}, {5}} {
				r := respgen.Valid()
				r.RawStatusLine = raw
				r.Trailing = []byte{0x81, 0x00}
				if lf {
					r.StatusLF, r.EndLF = true, true
					for k := range r.Lines {
						r.Lines[k].LF = true
					}
				}
				n++
				if cl := respgen.Classify(r, c.Req); cl.Verdict != respgen.MustFail {
					hx.Failf(t, raw, "harness: status line %q classified %v", raw, cl.Verdict)
					return
				}
				if !runFixed(t, &c, r, sizes) {
					return
				}
			}
		}
	}
	hx.EvalN(n)
	hx.Part("status lines with fewer than two separators x line end x 3 chunkings", int64(n), true)
}
