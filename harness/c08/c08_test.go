// C08 — automatic control-frame replies are always valid frames with the right
// content; the control-frame writer never emits an oversized or non-final frame.
//
// Oracle: replies are parsed with the reference codec (ref.ParseFrames) and
// judged from the peer's side with ref.BrokenRules, ref.ClosePayload and the
// peer's own ws.CheckHeader.
package c08

import (
	"bytes"
	"errors"
	"fmt"
	"io"
	"math/rand"
	"testing"
	"unicode/utf8"

	"github.com/gobwas/ws"
	"github.com/gobwas/ws/wsutil"
	"pgregory.net/rapid"

	"verif/harness/gen"
	"verif/harness/hx"
	"verif/harness/ref"
	"verif/harness/tx"
)

func TestMain(m *testing.M) { hx.Main(m, "C08") }

const (
	sigCloseUnmasked = "C08/client-protocol-error-close-header-unmasked"
	sigWriterLimit   = "C08/control-writer-limit-not-enforced"
)

// ---------------------------------------------------------------------------
// entry points

const (
	eHandleRaw      = iota // ControlHandler.Handle, Src = payload as on the wire (masked on the server side), DisableSrcCiphering=false
	eHandlePlain           // ControlHandler.Handle, Src = unmasked payload, DisableSrcCiphering=true
	eFrameTop              // ControlFrameHandler applied to a top-level frame of a Reader (as readData does)
	eFrameInter            // ControlFrameHandler as Reader.OnIntermediate, frame between two fragments
	eMessage               // HandleControlMessage(conn, state, Message)
	eMessageSide           // HandleClientControlMessage / HandleServerControlMessage
	eReadMessage           // ReadMessage, then HandleControlMessage on what it returned
	eReadDataTop           // ReadData: control frame before a data message
	eReadDataInter         // ReadData: control frame between the fragments of a data message
	eReadTextSkip          // ReadClientText/ReadServerText: control frame inside a fragmented binary message that is skipped
	eReadBinarySkip        // ReadClientBinary/ReadServerBinary: control frame inside a fragmented text message that is skipped
	eDiscardFresh          // Reader+ControlFrameHandler as OnIntermediate: NextFrame, Discard(); control frame inside the discarded message
	eDiscardPartial        // the same after a partial Read of the first fragment
	numEntries
)

var entryNames = [...]string{"Handle/raw-src", "Handle/plain-src", "ControlFrameHandler/top", "ControlFrameHandler/OnIntermediate",
	"HandleControlMessage", "Handle{Client,Server}ControlMessage", "ReadMessage+HandleControlMessage", "ReadData/top", "ReadData/intermediate",
	"Read{Client,Server}Text/inside-skipped-message", "Read{Client,Server}Binary/inside-skipped-message",
	"Reader.Discard/after-NextFrame", "Reader.Discard/after-partial-read"}

type ctlCase struct {
	Op      byte
	Payload []byte
	Server  bool // the endpoint under test is a server
	Entry   int
	Chunks  []int
	Key     [4]byte // mask of the incoming frame (server side)
	EOFWD   bool    // the source returns its last chunk together with io.EOF
	SameKey bool    // every frame of a multi-frame stream is masked with Key (a peer may reuse its key)
	// Rsv: RSV bits of the incoming control frame; the receiving side then runs with
	// ws.StateExtended (its header check lets them through). Only for entries that see a header.
	Rsv byte
	// NoFin: the header handed to ControlHandler.Handle has Fin unset (Handle is documented as
	// not checking headers itself). Only eHandleRaw / eHandlePlain; the handler may refuse
	// (error, nothing written) or answer properly.
	NoFin bool
	// Fault: the source ends after K (< len(Payload)) payload bytes of the control
	// frame, with tx.ErrInjected (faultError) or with a plain EOF (faultCut).
	Fault int
	K     int
}

const (
	faultNone = iota
	faultError
	faultCut
)

var faultNames = [...]string{"", "error after k payload bytes", "stream ends after k payload bytes"}

// hasSource: entry points that read the payload from a source that can fail.
func hasSource(e int) bool {
	switch e {
	case eHandleRaw, eHandlePlain, eFrameTop, eFrameInter, eReadDataTop, eReadDataInter:
		return true
	}
	return false
}

// faultApplies says which (entry, opcode, fault) combinations have a defined expectation here.
// A plain EOF inside a ping/pong payload is only used where the library itself can see the
// truncation (top-level frame of a Reader); handing ControlHandler a Src shorter than h.Length
// breaks its precondition, and the intermediate-frame variant is C16's listed finding.
func faultApplies(e int, op byte, fault int) bool {
	if !hasSource(e) {
		return false
	}
	if fault == faultCut && op != ref.OpClose {
		return e == eFrameTop || e == eReadDataTop
	}
	return true
}

// src builds the source for data; at is the offset of the control frame's payload in data.
func (c ctlCase) src(data []byte, at int) *tx.Src {
	if c.Fault != faultNone {
		data = data[:at+c.K]
	}
	s := tx.NewSrc(data, c.Chunks)
	s.EOFWithData = c.EOFWD
	if c.Fault == faultError {
		s.End = tx.ErrInjected
	}
	return s
}

type ctlDesc struct {
	Op      string `json:"op"`
	Payload string `json:"payload_hex"`
	Len     int    `json:"len"`
	Side    string `json:"side"`
	Entry   string `json:"entry"`
	Chunks  []int  `json:"src_chunks,omitempty"`
	Key     string `json:"mask,omitempty"`
	EOFWD   bool   `json:"eof_with_data,omitempty"`
	SameKey bool   `json:"same_key_for_all_frames,omitempty"`
	Rsv     int    `json:"rsv,omitempty"`
	NoFin   bool   `json:"header_fin_unset,omitempty"`
	Fault   string `json:"fault,omitempty"`
	K       int    `json:"k,omitempty"`
}

var opNames = map[byte]string{ref.OpPing: "ping", ref.OpPong: "pong", ref.OpClose: "close"}

func (c ctlCase) desc() ctlDesc {
	d := ctlDesc{Op: opNames[c.Op], Payload: fmt.Sprintf("%x", c.Payload), Len: len(c.Payload), Side: "client", Entry: entryNames[c.Entry], Chunks: c.Chunks,
		EOFWD: c.EOFWD, SameKey: c.SameKey && c.Server, Rsv: int(c.Rsv), NoFin: c.NoFin, Fault: faultNames[c.Fault], K: c.K}
	if c.Server {
		d.Side = "server"
		d.Key = fmt.Sprintf("%x", c.Key)
	}
	return d
}

func (c ctlCase) state() ws.State {
	s := ws.StateClientSide
	if c.Server {
		s = ws.StateServerSide
	}
	if c.Rsv != 0 {
		s = s.Set(ws.StateExtended)
	}
	return s
}

// rsvApplies: entry points through which a header with RSV bits can legally arrive.
func rsvApplies(e int) bool {
	switch e {
	case eHandleRaw, eHandlePlain, eFrameTop, eFrameInter, eReadMessage, eReadDataTop, eReadDataInter, eDiscardFresh, eDiscardPartial:
		return true
	}
	return false
}

// alt picks the second spelling of an entry point (the exported per-opcode
// method instead of Handle, the side-fixed wrapper instead of the function
// that takes a state) for half of the cases.
func (c ctlCase) alt() bool { return (len(c.Payload)+int(c.Key[0])+c.Entry)&1 == 1 }

func (c ctlCase) handle(ch wsutil.ControlHandler, h ws.Header) error {
	if !c.alt() {
		return ch.Handle(h)
	}
	switch c.Op {
	case ref.OpPing:
		return ch.HandlePing(h)
	case ref.OpPong:
		return ch.HandlePong(h)
	}
	return ch.HandleClose(h)
}

func (c ctlCase) readData(rw io.ReadWriter) ([]byte, error) {
	switch {
	case c.Rsv != 0 || !c.alt():
		data, _, err := wsutil.ReadData(rw, c.state())
		return data, err
	case c.Server:
		data, _, err := wsutil.ReadClientData(rw)
		return data, err
	}
	data, _, err := wsutil.ReadServerData(rw)
	return data, err
}

// incoming is the control frame as the peer sends it.
func (c ctlCase) incoming() ref.Frame {
	return ref.Frame{H: ref.Header{Fin: true, Rsv: c.Rsv, Op: c.Op, Masked: c.Server, Mask: c.Key}, Payload: c.Payload}
}

func (c ctlCase) dataFrame(op byte, fin bool, p string) ref.Frame {
	k := c.Key
	if !c.SameKey {
		k[0] ^= p[0]
	}
	return ref.Frame{H: ref.Header{Fin: fin, Op: op, Masked: c.Server, Mask: k}, Payload: []byte(p)}
}

var errStall = errors.New("harness: reader keeps returning (0, nil)")

// run drives the case through its entry point. It returns what was written to
// the destination, the error reported to the caller, and a harness-level
// complaint (stream not consumed as expected) or "".
func (c ctlCase) run() (written []byte, err error, trouble string) {
	rec := tx.NewRec()
	state := c.state()
	in := c.incoming()
	hdrLen := len(in.Encode()) - len(c.Payload)
	// The header as the header check accepted it.
	h := ws.Header{Fin: !c.NoFin, Rsv: c.Rsv, OpCode: ws.OpCode(c.Op), Length: int64(len(c.Payload)), Masked: c.Server, Mask: c.Key}
	switch c.Entry {
	case eHandleRaw:
		wirePayload := c.Payload
		if c.Server {
			wirePayload = ref.Mask(c.Payload, c.Key, 0)
		}
		err = c.handle(wsutil.ControlHandler{Src: c.src(wirePayload, 0), Dst: rec, State: state}, h)
	case eHandlePlain:
		err = c.handle(wsutil.ControlHandler{Src: c.src(c.Payload, 0), Dst: rec, State: state, DisableSrcCiphering: true}, h)
	case eFrameTop:
		rd := &wsutil.Reader{Source: c.src(in.Encode(), hdrLen), State: state}
		hdr, herr := rd.NextFrame()
		if herr != nil {
			return nil, nil, fmt.Sprintf("NextFrame on a valid control frame: %v", herr)
		}
		err = wsutil.ControlFrameHandler(rec, state)(hdr, rd)
	case eFrameInter:
		first := c.dataFrame(ref.OpText, false, "ab")
		wire := ref.EncodeAll([]ref.Frame{first, in, c.dataFrame(ref.OpCont, true, "cd")})
		rd := &wsutil.Reader{Source: c.src(wire, len(first.Encode())+hdrLen), State: state, OnIntermediate: wsutil.ControlFrameHandler(rec, state)}
		if _, herr := rd.NextFrame(); herr != nil {
			return nil, nil, fmt.Sprintf("NextFrame on a valid text frame: %v", herr)
		}
		var data []byte
		data, err = readAll(rd)
		if err == nil && string(data) != "abcd" {
			trouble = fmt.Sprintf("message around the control frame delivered as %q", data)
		}
	case eMessage:
		err = wsutil.HandleControlMessage(rec, state, wsutil.Message{OpCode: ws.OpCode(c.Op), Payload: c.Payload})
	case eMessageSide:
		msg := wsutil.Message{OpCode: ws.OpCode(c.Op), Payload: c.Payload}
		if c.Server {
			err = wsutil.HandleClientControlMessage(rec, msg)
		} else {
			err = wsutil.HandleServerControlMessage(rec, msg)
		}
	case eReadMessage:
		var msgs []wsutil.Message
		var rerr error
		switch {
		case c.Rsv != 0 || !c.alt():
			msgs, rerr = wsutil.ReadMessage(c.src(in.Encode(), hdrLen), state, nil)
		case c.Server:
			msgs, rerr = wsutil.ReadClientMessage(c.src(in.Encode(), hdrLen), nil)
		default:
			msgs, rerr = wsutil.ReadServerMessage(c.src(in.Encode(), hdrLen), nil)
		}
		if rerr != nil || len(msgs) != 1 {
			return nil, nil, fmt.Sprintf("ReadMessage on a valid control frame: %d messages, err=%v", len(msgs), rerr)
		}
		err = wsutil.HandleControlMessage(rec, state, msgs[0])
	case eReadDataTop:
		wire := ref.EncodeAll([]ref.Frame{in, c.dataFrame(ref.OpText, true, "hi")})
		var data []byte
		data, err = c.readData(tx.RW{Reader: c.src(wire, hdrLen), Writer: rec})
		if err == nil && string(data) != "hi" {
			trouble = fmt.Sprintf("message after the control frame delivered as %q", data)
		}
	case eReadDataInter:
		first := c.dataFrame(ref.OpBinary, false, "ab")
		wire := ref.EncodeAll([]ref.Frame{first, in, c.dataFrame(ref.OpCont, true, "cd")})
		var data []byte
		data, err = c.readData(tx.RW{Reader: c.src(wire, len(first.Encode())+hdrLen), Writer: rec})
		if err == nil && string(data) != "abcd" {
			trouble = fmt.Sprintf("message around the control frame delivered as %q", data)
		}
	case eReadTextSkip, eReadBinarySkip:
		skipped, wanted := byte(ref.OpBinary), byte(ref.OpText)
		if c.Entry == eReadBinarySkip {
			skipped, wanted = ref.OpText, ref.OpBinary
		}
		first := c.dataFrame(skipped, false, "ab")
		wire := ref.EncodeAll([]ref.Frame{first, in, c.dataFrame(ref.OpCont, true, "cd"), c.dataFrame(wanted, true, "hi")})
		rw := tx.RW{Reader: c.src(wire, len(first.Encode())+hdrLen), Writer: rec}
		var data []byte
		switch {
		case c.Entry == eReadTextSkip && c.Server:
			data, err = wsutil.ReadClientText(rw)
		case c.Entry == eReadTextSkip:
			data, err = wsutil.ReadServerText(rw)
		case c.Server:
			data, err = wsutil.ReadClientBinary(rw)
		default:
			data, err = wsutil.ReadServerBinary(rw)
		}
		if err == nil && string(data) != "hi" {
			trouble = fmt.Sprintf("message after the skipped one delivered as %q", data)
		}
	case eDiscardFresh, eDiscardPartial:
		first := c.dataFrame(ref.OpText, false, "ab")
		wire := ref.EncodeAll([]ref.Frame{first, in, c.dataFrame(ref.OpCont, true, "cd")})
		rd := &wsutil.Reader{Source: c.src(wire, len(first.Encode())+hdrLen), State: state, OnIntermediate: wsutil.ControlFrameHandler(rec, state)}
		if _, herr := rd.NextFrame(); herr != nil {
			return nil, nil, fmt.Sprintf("NextFrame on a valid text frame: %v", herr)
		}
		if c.Entry == eDiscardPartial {
			var b [1]byte
			if n, rerr := rd.Read(b[:]); n != 1 || rerr != nil || b[0] != 'a' {
				return nil, nil, fmt.Sprintf("first Read of the fragmented message: %d bytes %q, %v", n, b[:n], rerr)
			}
		}
		err = rd.Discard()
	}
	return rec.Bytes(), err, trouble
}

func readAll(rd *wsutil.Reader) ([]byte, error) {
	var data []byte
	buf := make([]byte, 64)
	for idle := 0; idle < 16; {
		n, err := rd.Read(buf)
		data = append(data, buf[:n]...)
		if err == io.EOF {
			return data, nil
		}
		if err != nil {
			return data, err
		}
		if n == 0 {
			idle++
		}
	}
	return data, errStall
}

// ---------------------------------------------------------------------------
// oracle

func toWS(h ref.Header) ws.Header {
	return ws.Header{Fin: h.Fin, Rsv: h.Rsv, OpCode: ws.OpCode(h.Op), Masked: h.Masked, Mask: h.Mask, Length: h.Length}
}

// checkFrameForPeer: a single final control frame the peer's header check
// accepts, masked exactly when sent by a client.
func checkFrameForPeer(f ref.Frame, sentByServer bool, wantOp byte) string {
	h := f.H
	if h.Op != wantOp {
		return fmt.Sprintf("reply has opcode %#x, want %#x", h.Op, wantOp)
	}
	if !h.Fin {
		return "reply is not a final frame"
	}
	if h.Length > 125 {
		return fmt.Sprintf("reply carries %d payload bytes", h.Length)
	}
	if h.Masked == sentByServer {
		return fmt.Sprintf("reply masked=%v but the sender is server=%v", h.Masked, sentByServer)
	}
	peer := ref.EndState{Side: ref.SideServer}
	peerState := ws.StateServerSide
	if sentByServer {
		peer = ref.EndState{Side: ref.SideClient}
		peerState = ws.StateClientSide
	}
	if s := ref.BrokenRules(h, peer); !s.Empty() {
		return fmt.Sprintf("reply header %v breaks %v from the peer's point of view", h, s)
	}
	if err := ws.CheckHeader(toWS(h), peerState); err != nil {
		return fmt.Sprintf("the peer's ws.CheckHeader rejects the reply header %v: %v", h, err)
	}
	return ""
}

// outcome classes of a close
const (
	outEcho   = "echo+ClosedError"
	outReject = "1002+ProtocolError"
)

// judge applies the oracle. It returns the class label of the outcome and a
// violation description or "".
func judge(c ctlCase, written []byte, err error) (class string, bad string) {
	if c.Fault != faultNone {
		// The frame never arrived whole: no reply may be built from a part of its payload.
		if len(written) != 0 {
			return "", fmt.Sprintf("%d of %d payload bytes arrived before the source failed, yet %x was written (error returned: %v)", c.K, len(c.Payload), written, err)
		}
		if err == nil && c.Op != ref.OpPong {
			return "", fmt.Sprintf("%d of %d payload bytes arrived before the source failed, but no error was reported", c.K, len(c.Payload))
		}
		return fmt.Sprintf("fault/%s/%s/nothing-written", opNames[c.Op], faultNames[c.Fault]), ""
	}
	frames, rest, perr := ref.ParseFrames(written)
	if perr != nil {
		return "", fmt.Sprintf("bytes written are not a sequence of whole frames: %v (rest %x of %x)", perr, rest, written)
	}
	switch c.Op {
	case ref.OpPong:
		if len(written) != 0 {
			return "", fmt.Sprintf("a pong was answered with %x", written)
		}
		if err != nil {
			return "", fmt.Sprintf("a pong produced the error %v", err)
		}
		return "pong/ignored", ""
	case ref.OpPing:
		if err != nil {
			return "", fmt.Sprintf("a ping produced the error %v", err)
		}
		if len(frames) != 1 {
			return "", fmt.Sprintf("a ping was answered with %d frames (%x)", len(frames), written)
		}
		if msg := checkFrameForPeer(frames[0], c.Server, ref.OpPong); msg != "" {
			return "", msg
		}
		if !bytes.Equal(frames[0].Payload, c.Payload) {
			return "", fmt.Sprintf("pong payload %x differs from the ping payload %x", frames[0].Payload, c.Payload)
		}
		return "ping/pong", ""
	}

	// close
	if len(frames) != 1 {
		return "", fmt.Sprintf("a close was answered with %d frames (%x); error %v", len(frames), written, err)
	}
	f := frames[0]
	if msg := checkFrameForPeer(f, c.Server, ref.OpClose); msg != "" {
		return "", msg
	}
	var closed wsutil.ClosedError
	var proto ws.ProtocolError
	isClosed := errors.As(err, &closed)
	isProto := errors.As(err, &proto)

	if len(c.Payload) == 0 {
		if len(f.Payload) != 0 {
			return "", fmt.Sprintf("an empty close was answered with payload %x", f.Payload)
		}
		if !isClosed || closed.Code != 1005 || closed.Reason != "" {
			return "", fmt.Sprintf("an empty close was reported as %#v, want ClosedError{1005}", err)
		}
		return "close/empty", ""
	}

	// Shape of the reply.
	if len(f.Payload) < 2 {
		return "", fmt.Sprintf("close reply has a %d-byte payload %x", len(f.Payload), f.Payload)
	}
	if ref.ClosePayload(f.Payload) == ref.CloseReject {
		return "", fmt.Sprintf("close reply payload %x is not a valid close payload", f.Payload)
	}
	if rc, rr := ws.ParseCloseFrameData(f.Payload); ws.CheckCloseFrameData(rc, rr) != nil {
		return "", fmt.Sprintf("the peer's ws.CheckCloseFrameData rejects the close reply payload %x: %v", f.Payload, ws.CheckCloseFrameData(rc, rr))
	}
	status := uint16(f.Payload[0])<<8 | uint16(f.Payload[1])

	verdict := ref.CloseReject // 1-byte payload
	badReason := false
	var code uint16
	var reason string
	if len(c.Payload) >= 2 {
		verdict = ref.ClosePayload(c.Payload)
		code = uint16(c.Payload[0])<<8 | uint16(c.Payload[1])
		reason = string(c.Payload[2:])
		badReason = !utf8.Valid(c.Payload[2:])
	}

	echoOK := func() string {
		if status != code {
			return fmt.Sprintf("close %d answered with status %d", code, status)
		}
		if !isClosed || uint16(closed.Code) != code || closed.Reason != reason {
			return fmt.Sprintf("close %d %q reported to the caller as %#v", code, reason, err)
		}
		return ""
	}
	rejectOK := func() string {
		if status != 1002 && !(badReason && status == 1007) {
			return fmt.Sprintf("invalid close %x answered with status %d, want 1002", c.Payload, status)
		}
		if !isProto {
			return fmt.Sprintf("invalid close %x reported to the caller as %#v, want a ws.ProtocolError", c.Payload, err)
		}
		return ""
	}
	switch verdict {
	case ref.CloseAccept:
		return "close/accept/" + outEcho, echoOK()
	case ref.CloseReject:
		return "close/reject/" + outReject, rejectOK()
	default:
		// Codes the property leaves open may be answered either way.
		if isClosed {
			return "open/close-code/" + outEcho, echoOK()
		}
		return "open/close-code/" + outReject, rejectOK()
	}
}

func nonTrivial(c ctlCase) bool {
	if len(c.Payload) == 0 {
		return false
	}
	if c.Fault != faultNone {
		return c.K > 0
	}
	invalidClose := c.Op == ref.OpClose && (len(c.Payload) == 1 || ref.ClosePayload(c.Payload) == ref.CloseReject)
	return !c.Server || invalidClose
}

func codeClass(c ctlCase) string {
	if c.Op != ref.OpClose {
		return "-"
	}
	switch {
	case len(c.Payload) == 0:
		return "empty"
	case len(c.Payload) == 1:
		return "1byte"
	}
	code := uint16(c.Payload[0])<<8 | uint16(c.Payload[1])
	r := "reason-ok"
	if len(c.Payload) == 2 {
		r = "no-reason"
	} else if !utf8.Valid(c.Payload[2:]) {
		r = "reason-bad"
	}
	return fmt.Sprintf("%v/%s", ref.CloseCode(code), r)
}

func note(c ctlCase) {
	if !nonTrivial(c) {
		return
	}
	hx.NonTrivial(hx.Hash("ctl", c.Op, len(c.Payload), c.Server, c.Entry, codeClass(c), c.Fault, c.K, c.Rsv, c.NoFin), func() interface{} { return c.desc() })
}

// one runs and judges a case; it returns the outcome class and the violation or "".
func one(c ctlCase) (string, string) {
	if hx.Known(sigCloseUnmasked) && !c.Server && c.Op == ref.OpClose && len(c.Payload) > 0 &&
		(len(c.Payload) == 1 || ref.ClosePayload(c.Payload) != ref.CloseAccept) {
		hx.Exclude(sigCloseUnmasked)
		return "excluded", ""
	}
	written, err, trouble := c.run()
	if trouble != "" {
		return "", trouble
	}
	note(c)
	if c.NoFin && len(written) == 0 && err != nil {
		return "open/unchecked-header-fin-unset/refused", ""
	}
	return judge(c, written, err)
}

// ---------------------------------------------------------------------------
// enumerations

var chunkPlans = [][]int{nil, {1}, {3}}

func payloadOf(n int, salt byte) []byte {
	p := make([]byte, n)
	for i := range p {
		p[i] = byte(i*37) ^ salt ^ 0x80
	}
	return p
}

type tally map[string]int

func (tl tally) flush(prefix string) {
	for _, k := range sortedKeys(tl) {
		n := tl[k]
		if n <= 3000 {
			for i := 0; i < n; i++ {
				hx.Class(prefix + k)
			}
		} else {
			for i := 0; i < n/1000; i++ {
				hx.Class(prefix + k + " (x1000)")
			}
		}
	}
}

func sortedKeys(m tally) []string {
	ks := make([]string, 0, len(m))
	for k := range m {
		ks = append(ks, k)
	}
	for i := 1; i < len(ks); i++ {
		for j := i; j > 0 && ks[j-1] > ks[j]; j-- {
			ks[j-1], ks[j] = ks[j], ks[j-1]
		}
	}
	return ks
}

// ping and pong, every payload length 0..125, both sides, every entry point, three transports.
func TestPingPongAllLengths(t *testing.T) {
	rand.Seed(8)
	tl := tally{}
	n := 0
	for l := 0; l <= 125; l++ {
		if !hx.Mine(l) {
			continue
		}
		for _, op := range []byte{ref.OpPing, ref.OpPong} {
			for _, server := range []bool{true, false} {
				for e := 0; e < numEntries; e++ {
					for ci, chunks := range chunkPlans {
						for _, eofwd := range []bool{false, true} {
							c := ctlCase{Op: op, Payload: payloadOf(l, byte(e)), Server: server, Entry: e, Chunks: chunks,
								Key: [4]byte{byte(l), 0x80 | byte(e), byte(ci) + 0x20, 0x5a}, EOFWD: eofwd, SameKey: (l+ci)&1 == 1}
							n++
							class, bad := one(c)
							if bad != "" {
								hx.Failf(t, c.desc(), "%s", bad)
								return
							}
							tl[fmt.Sprintf("%s/server=%v", class, server)]++
						}
					}
				}
			}
		}
	}
	hx.EvalN(n)
	hx.Part("ping/pong: payload length 0..125 x side x every entry point x 3 transport chunkings x last chunk with/without EOF", int64(n), true)
	tl.flush("enum/")
}

var (
	// every boundary scalar value of the UTF-8 encoding forms, U+FFFD included
	validReason   = []byte("bye \u007f\u0080\u07ff\u0800\u20ac\ud7ff\ue000\ufffd\ufffe\uffff\U00010000\U0010ffff")
	invalidReason = []byte("bye \xe2\x82")
)

// All 65536 close codes x {no reason, valid reason, invalid UTF-8 reason} x
// both sides. Quick: the entry point rotates with the code (every entry sees
// every code class); thorough: every entry point for every code.
func TestCloseAllCodes(t *testing.T) {
	rand.Seed(9)
	tl := tally{}
	n := 0
	for code := 0; code < 65536; code++ {
		if !hx.Mine(code) {
			continue
		}
		for ri, reason := range [][]byte{nil, validReason, invalidReason} {
			p := append([]byte{byte(code >> 8), byte(code)}, reason...)
			for _, server := range []bool{true, false} {
				first, last := 0, numEntries-1
				if !hx.Thorough() {
					// neighbouring codes of one class go through different entries
					first = (code + 3*ri) % numEntries
					if !server {
						first = (first + 4) % numEntries
					}
					last = first
				}
				for e := first; e <= last; e++ {
					c := ctlCase{Op: ref.OpClose, Payload: p, Server: server, Entry: e, Chunks: chunkPlans[(code+e)%len(chunkPlans)],
						Key: [4]byte{byte(code), byte(code>>8) ^ 0x35, 0xc3, byte(e) + 0x60}, EOFWD: ((code>>3)+ri+e)&1 == 1, SameKey: (code>>1)&1 == 1}
					n++
					class, bad := one(c)
					if bad != "" {
						hx.Failf(t, c.desc(), "%s", bad)
						return
					}
					tl[fmt.Sprintf("%s/server=%v", class, server)]++
				}
			}
		}
	}
	hx.EvalN(n)
	if hx.Thorough() {
		hx.Part("close: all 65536 codes x {no, valid, invalid} reason x side x every entry point", int64(n), true)
	} else {
		hx.Part("close: all 65536 codes x {no, valid, invalid} reason x side (entry point rotating with the code)", int64(n), true)
	}
	tl.flush("enum/")
}

// The boundary codes of every class through every entry point on both sides
// (so the quick tier does not depend on the rotation above), the empty and
// all 256 one-byte payloads, and every payload length 2..125.
func TestCloseBoundaries(t *testing.T) {
	rand.Seed(10)
	tl := tally{}
	n := 0
	var payloads [][]byte
	payloads = append(payloads, nil)
	for b := 0; b < 256; b++ {
		payloads = append(payloads, []byte{byte(b)})
	}
	for _, code := range []int{0, 1, 999, 1000, 1001, 1002, 1003, 1004, 1005, 1006, 1007, 1008, 1009, 1010, 1011, 1012, 1013, 1014, 1015, 1016,
		1100, 2000, 2999, 3000, 3999, 4000, 4999, 5000, 32768, 65535} {
		for _, reason := range [][]byte{nil, validReason, invalidReason, []byte("\xff"), []byte("ok"), []byte("\ufffd"), []byte("\U0010ffff\ufffe")} {
			payloads = append(payloads, append([]byte{byte(code >> 8), byte(code)}, reason...))
		}
	}
	for l := 2; l <= 125; l++ { // every length, ASCII and multi-byte reasons; a reason cut inside a sequence
		for _, code := range []int{1000, 4999, 1006} {
			p := []byte{byte(code >> 8), byte(code)}
			for len(p) < l {
				p = append(p, "r\xc3\xa9s"[(len(p)-2)%4])
			}
			payloads = append(payloads, p)
		}
	}
	for i, p := range payloads {
		if !hx.Mine(i) {
			continue
		}
		for _, server := range []bool{true, false} {
			for e := 0; e < numEntries; e++ {
				for ci, chunks := range chunkPlans[:2] {
					c := ctlCase{Op: ref.OpClose, Payload: p, Server: server, Entry: e, Chunks: chunks, Key: [4]byte{byte(i), 0x91, byte(ci), byte(e)},
						EOFWD: (i+e+ci)&1 == 1, SameKey: (i>>1)&1 == 1}
					n++
					class, bad := one(c)
					if bad != "" {
						hx.Failf(t, c.desc(), "%s", bad)
						return
					}
					tl[fmt.Sprintf("%s/server=%v", class, server)]++
				}
			}
		}
	}
	hx.EvalN(n)
	hx.Part("close: empty, all 256 one-byte payloads, 30 boundary codes x 7 reasons, every length 2..125 x side x every entry point x 2 chunkings", int64(n), true)
	tl.flush("enum/")
}

// A control frame whose payload does not arrive whole (the source fails or ends
// after k < L bytes): an error is reported and nothing is written - in
// particular no pong or close built from a prefix of the payload.
func TestCutSources(t *testing.T) {
	rand.Seed(13)
	tl := tally{}
	n := 0
	for li, l := range []int{1, 2, 3, 4, 17, 124, 125} {
		if !hx.Mine(li) {
			continue
		}
		ks := map[int]bool{0: true, 1: true, 2: true, l / 2: true, l - 1: true}
		for k := 0; k < l; k++ {
			if !ks[k] && !hx.Thorough() {
				continue
			}
			for _, op := range []byte{ref.OpPing, ref.OpPong, ref.OpClose} {
				p := payloadOf(l, byte(k))
				if op == ref.OpClose {
					p = append([]byte{0x03, 0xe8}, bytes.Repeat([]byte("r"), l)...)[:l]
				}
				for _, server := range []bool{true, false} {
					for e := 0; e < numEntries; e++ {
						for _, fault := range []int{faultError, faultCut} {
							if !faultApplies(e, op, fault) {
								continue
							}
							for v := 0; v < 4; v++ {
								c := ctlCase{Op: op, Payload: p, Server: server, Entry: e, Chunks: chunkPlans[v&1], EOFWD: v&2 != 0,
									Key: [4]byte{byte(l), 0xa7, byte(k), byte(e)}, Fault: fault, K: k}
								n++
								class, bad := one(c)
								if bad != "" {
									hx.Failf(t, c.desc(), "%s", bad)
									return
								}
								tl[class]++
							}
						}
					}
				}
			}
		}
	}
	hx.EvalN(n)
	hx.Part("cut sources: payload lengths {1,2,3,4,17,124,125} x cut after k bytes x opcode x side x 6 entry points with a source x {error, EOF} x chunking x EOF-with-data", int64(n), true)
	tl.flush("enum/")
}

// Opcodes that are not ping/pong/close (continuation, text, binary and the
// reserved ones): ControlHandler.Handle documents ErrNotControlFrame; nothing
// is written to Dst and nothing is read from Src. The adapters
// (ControlFrameHandler, HandleControlMessage and its Client/Server variants)
// only refer to ControlHandler: no reply frame, and an error comes back.
func TestNotControlFrame(t *testing.T) {
	n := 0
	for op := 0; op < 16; op++ {
		if op == ref.OpClose || op == ref.OpPing || op == ref.OpPong {
			continue
		}
		for _, l := range []int{0, 1, 2, 125, 126, 300} {
			for _, server := range []bool{true, false} {
				for _, fin := range []bool{true, false} {
					state := ws.StateClientSide
					if server {
						state = ws.StateServerSide
					}
					payload := payloadOf(l, byte(op))
					h := ws.Header{Fin: fin, OpCode: ws.OpCode(op), Length: int64(l), Masked: server, Mask: [4]byte{1, 2, 3, byte(op)}}
					desc := map[string]interface{}{"opcode": op, "len": l, "server": server, "fin": fin}
					n++
					if l > 0 {
						hx.NonTrivial(hx.Hash("notctl", op, l, server, fin), func() interface{} { return desc })
					}
					for _, plain := range []bool{false, true} {
						src, rec := tx.NewSrc(payload, nil), tx.NewRec()
						err := wsutil.ControlHandler{Src: src, Dst: rec, State: state, DisableSrcCiphering: plain}.Handle(h)
						if err != wsutil.ErrNotControlFrame || rec.Len() != 0 || src.Reads != 0 {
							hx.Failf(t, desc, "ControlHandler.Handle (DisableSrcCiphering=%v): err=%v, %d bytes written, %d reads of Src; want ErrNotControlFrame, nothing written, Src untouched",
								plain, err, rec.Len(), src.Reads)
							return
						}
					}
					{
						src, rec := tx.NewSrc(payload, nil), tx.NewRec()
						if err := wsutil.ControlFrameHandler(rec, state)(h, src); err == nil || rec.Len() != 0 {
							hx.Failf(t, desc, "ControlFrameHandler: err=%v, %x written; want an error and no reply", err, rec.Bytes())
							return
						}
					}
					msg := wsutil.Message{OpCode: ws.OpCode(op), Payload: payload}
					rec := tx.NewRec()
					err := wsutil.HandleControlMessage(rec, state, msg)
					if err == nil || rec.Len() != 0 {
						hx.Failf(t, desc, "HandleControlMessage: err=%v, %x written; want an error and no reply", err, rec.Bytes())
						return
					}
					rec = tx.NewRec()
					if server {
						err = wsutil.HandleClientControlMessage(rec, msg)
					} else {
						err = wsutil.HandleServerControlMessage(rec, msg)
					}
					if err == nil || rec.Len() != 0 {
						hx.Failf(t, desc, "Handle{Client,Server}ControlMessage: err=%v, %x written; want an error and no reply", err, rec.Bytes())
						return
					}
				}
			}
		}
	}
	hx.EvalN(n)
	hx.Part("not a control frame: 13 opcodes x 6 payload lengths x side x fin, through Handle (both source modes), ControlFrameHandler, HandleControlMessage and its side variants", int64(n), true)
	tally{"enum/not-control/ErrNotControlFrame-nothing-written": n}.flush("")
}

// Header variety: RSV bits 1..7 on the incoming control frame (receiving side
// in ws.StateExtended, so its header check accepts them) and, for the direct
// Handle entries, a header with Fin unset. The reply is judged as always: a
// final frame with RSV 0 that the peer's plain RFC 6455 header check accepts.
func TestHeaderVariety(t *testing.T) {
	rand.Seed(15)
	tl := tally{}
	n := 0
	payloads := map[byte][][]byte{
		ref.OpPing:  {nil, {0x31}, payloadOf(125, 3)},
		ref.OpPong:  {nil, payloadOf(7, 5)},
		ref.OpClose: {nil, {0x03, 0xe8}, append([]byte{0x03, 0xe9}, validReason...), {0x03, 0xed}, {0x07}},
	}
	for _, op := range []byte{ref.OpPing, ref.OpPong, ref.OpClose} {
		for _, p := range payloads[op] {
			for rsv := 0; rsv < 8; rsv++ {
				for _, server := range []bool{true, false} {
					for e := 0; e < numEntries; e++ {
						if !rsvApplies(e) {
							continue
						}
						for _, nofin := range []bool{false, true} {
							if nofin && e != eHandleRaw && e != eHandlePlain {
								continue
							}
							if rsv == 0 && !nofin {
								continue // the plain case is enumerated elsewhere
							}
							c := ctlCase{Op: op, Payload: p, Server: server, Entry: e, Chunks: chunkPlans[(rsv+e)%2], EOFWD: rsv&1 == 1,
								Key: [4]byte{byte(rsv) + 9, 0x4d, byte(e) + 0x90, 0xe2}, Rsv: byte(rsv), NoFin: nofin}
							n++
							class, bad := one(c)
							if bad != "" {
								hx.Failf(t, c.desc(), "%s", bad)
								return
							}
							tl[fmt.Sprintf("%s/rsv-set=%v/fin-unset=%v", class, rsv != 0, nofin)]++
						}
					}
				}
			}
		}
	}
	hx.EvalN(n)
	hx.Part("header variety: RSV 0..7 x {Fin unset for direct Handle} x ping/pong/close payloads (empty and non-empty) x side x the 9 entry points that see a header", int64(n), true)
	tl.flush("enum/header/")
}

// A reply buffer must belong to one handler at a time: after an invalid long
// close was answered, ping A is handled with a source that, midway, has ping B
// handled by another ControlHandler (another connection); each pong carries
// its own ping's payload.
type nestingSrc struct {
	data  []byte
	pos   int
	inner func()
	done  bool
}

func (s *nestingSrc) Read(p []byte) (int, error) {
	if s.pos == len(s.data) {
		return 0, io.EOF
	}
	half := len(s.data) / 2
	if s.pos >= half && !s.done {
		s.done = true
		s.inner()
	}
	end := len(s.data)
	if s.pos < half {
		end = half
	}
	n := copy(p, s.data[s.pos:end])
	s.pos += n
	return n, nil
}

func TestNestedHandlersKeepTheirBuffers(t *testing.T) {
	rand.Seed(16)
	n := 0
	for _, l := range []int{63, 64, 100, 121, 125} {
		for _, server := range []bool{true, false} {
			for _, prelude := range []string{"none", "invalid-close", "valid-close", "ping"} {
				state := ws.StateClientSide
				if server {
					state = ws.StateServerSide
				}
				hdr := func(op byte, p []byte) ws.Header {
					return ws.Header{Fin: true, OpCode: ws.OpCode(op), Length: int64(len(p)), Masked: server, Mask: [4]byte{1, 2, 3, 4}}
				}
				desc := map[string]interface{}{"len": l, "server": server, "handled_before": prelude}
				var pre []byte
				switch prelude {
				case "invalid-close":
					pre = append([]byte{0x03, 0xed}, bytes.Repeat([]byte("x"), l-2)...) // code 1005
				case "valid-close":
					pre = append([]byte{0x03, 0xe8}, bytes.Repeat([]byte("x"), l-2)...)
				case "ping":
					pre = payloadOf(l, 0x11)
				}
				if pre != nil {
					op := byte(ref.OpClose)
					if prelude == "ping" {
						op = ref.OpPing
					}
					rec := tx.NewRec()
					err := wsutil.ControlHandler{Src: bytes.NewReader(pre), Dst: rec, State: state, DisableSrcCiphering: true}.Handle(hdr(op, pre))
					if _, bad := judge(ctlCase{Op: op, Payload: pre, Server: server}, rec.Bytes(), err); bad != "" {
						hx.Failf(t, desc, "frame handled first: %s", bad)
						return
					}
				}
				a, b := payloadOf(l, 0xa0), payloadOf(l, 0x0b)
				recA, recB := tx.NewRec(), tx.NewRec()
				var errB error
				src := &nestingSrc{data: a, inner: func() {
					errB = wsutil.ControlHandler{Src: bytes.NewReader(b), Dst: recB, State: state, DisableSrcCiphering: true}.Handle(hdr(ref.OpPing, b))
				}}
				errA := wsutil.ControlHandler{Src: src, Dst: recA, State: state, DisableSrcCiphering: true}.Handle(hdr(ref.OpPing, a))
				n++
				if _, bad := judge(ctlCase{Op: ref.OpPing, Payload: a, Server: server}, recA.Bytes(), errA); bad != "" {
					hx.Failf(t, desc, "outer ping: %s", bad)
					return
				}
				if _, bad := judge(ctlCase{Op: ref.OpPing, Payload: b, Server: server}, recB.Bytes(), errB); bad != "" {
					hx.Failf(t, desc, "ping handled while the outer one was being read: %s", bad)
					return
				}
				hx.NonTrivial(hx.Hash("nested", l, server, prelude), func() interface{} { return desc })
			}
		}
	}
	hx.EvalN(n)
	hx.Part("nested handlers: ping B handled from inside ping A's source x 5 lengths x side x what was handled before", int64(n), true)
	tally{"enum/nested-handlers/both-pongs-own-payload": n}.flush("")
}

// Headers ControlHandler was never meant to get (it does not check them itself):
// a control header announcing more than 125 bytes. What it does with the frame
// is not decided by the property, but "every reply is a single final frame that
// the peer's own header check accepts: at most 125 payload bytes ..." holds for
// whatever it writes.
func TestOversizedUncheckedHeader(t *testing.T) {
	rand.Seed(17)
	n, wrote := 0, 0
	for _, l := range []int{126, 127, 128, 131, 200, 1000, 70000} {
		for _, op := range []byte{ref.OpPing, ref.OpPong, ref.OpClose} {
			for _, server := range []bool{true, false} {
				for v := 0; v < 8; v++ {
					p := payloadOf(l, byte(v))
					if op == ref.OpClose {
						p = append([]byte{0x03, 0xe8}, bytes.Repeat([]byte("r"), l-2)...)
						if v&4 != 0 {
							p[1] = 0xed // 1005: must-reject code
						}
					}
					c := ctlCase{Op: op, Payload: p, Server: server, Entry: eHandleRaw + v&1, Chunks: chunkPlans[(v>>1)&1], Key: [4]byte{byte(l), 0x3c, byte(v), 0x99}}
					written, _, _ := c.run()
					n++
					desc := map[string]interface{}{"op": opNames[op], "announced_and_present": l, "server": server, "entry": entryNames[c.Entry], "chunks": c.Chunks}
					frames, rest, perr := ref.ParseFrames(written)
					if perr != nil {
						hx.Failf(t, desc, "bytes written are not whole frames: %v (rest %x)", perr, rest)
						return
					}
					if op == ref.OpPong && len(written) != 0 {
						hx.Failf(t, desc, "a pong was answered with %x", written)
						return
					}
					if len(frames) > 1 {
						hx.Failf(t, desc, "%d frames written in answer to one control frame", len(frames))
						return
					}
					for _, f := range frames {
						wrote++
						want := byte(ref.OpPong)
						if op == ref.OpClose {
							want = ref.OpClose
						}
						msg := checkFrameForPeer(f, server, want)
						if msg == "" && op == ref.OpClose && len(f.Payload) != 0 && (len(f.Payload) < 2 || ref.ClosePayload(f.Payload) == ref.CloseReject) {
							msg = fmt.Sprintf("close reply payload %x is not a valid close payload", f.Payload)
						}
						if msg != "" {
							hx.Failf(t, desc, "%s", msg)
							return
						}
					}
					hx.NonTrivial(hx.Hash("oversize", op, l, server, v), func() interface{} { return desc })
				}
			}
		}
	}
	hx.EvalN(n)
	hx.Part("unchecked oversized control header handed to ControlHandler.Handle: 7 lengths > 125 x opcode x side x source mode x chunking", int64(n), true)
	tally{"open/oversized-unchecked-header/reply-written-and-valid": wrote, "open/oversized-unchecked-header/nothing-written": n - wrote}.flush("")
}

// The exported package variable wsutil.DefaultWriteBuffer (buffer size of plain
// Writers) is application configuration: whatever it is set to, every reply is
// still one final frame with the right content. Runs alone (no test of this
// package is parallel) and restores the value.
func TestDefaultWriteBufferSetting(t *testing.T) {
	rand.Seed(18)
	saved := wsutil.DefaultWriteBuffer
	defer func() { wsutil.DefaultWriteBuffer = saved }()
	type pl struct {
		op byte
		p  []byte
	}
	var payloads []pl
	for l := 0; l <= 125; l++ {
		payloads = append(payloads, pl{ref.OpPing, payloadOf(l, 0x42)})
	}
	payloads = append(payloads, pl{ref.OpPong, nil}, pl{ref.OpPong, payloadOf(125, 1)},
		pl{ref.OpClose, nil}, pl{ref.OpClose, []byte{0x07}},
		pl{ref.OpClose, []byte{0x03, 0xe8}}, pl{ref.OpClose, append([]byte{0x03, 0xe9}, validReason...)},
		pl{ref.OpClose, append([]byte{0x0f, 0xa0}, bytes.Repeat([]byte("r"), 123)...)},
		pl{ref.OpClose, []byte{0x03, 0xed}}, pl{ref.OpClose, []byte{0x03, 0xee, 'x'}}, pl{ref.OpClose, []byte{0x00, 0x00}},
		pl{ref.OpClose, []byte{0x03, 0xf4}}, pl{ref.OpClose, []byte{0x07, 0xd0}},
		pl{ref.OpClose, append([]byte{0x03, 0xe8}, invalidReason...)},
		pl{ref.OpClose, append([]byte{0x03, 0xed}, bytes.Repeat([]byte("r"), 123)...)})
	tl := tally{}
	n := 0
	for _, size := range []int{16, 32, 64} {
		wsutil.DefaultWriteBuffer = size
		for pi, x := range payloads {
			if !hx.Mine(pi) {
				continue
			}
			for _, server := range []bool{true, false} {
				for e := 0; e < numEntries; e++ {
					c := ctlCase{Op: x.op, Payload: x.p, Server: server, Entry: e, Chunks: chunkPlans[(pi+e)%len(chunkPlans)],
						EOFWD: (pi+e)&1 == 1, Key: [4]byte{byte(pi), 0x5e, byte(size), byte(e) + 0x70}}
					n++
					class, bad := one(c)
					if bad != "" {
						hx.Failf(t, map[string]interface{}{"DefaultWriteBuffer": size, "case": c.desc()}, "with wsutil.DefaultWriteBuffer=%d: %s", size, bad)
						return
					}
					tl[class]++
				}
			}
		}
	}
	hx.EvalN(n)
	hx.Part("wsutil.DefaultWriteBuffer in {16, 32, 64}: ping 0..125, pong, valid / invalid / empty / 1-byte closes x side x every entry point", int64(n), true)
	tl.flush("enum/default-write-buffer/")
}

// ---------------------------------------------------------------------------
// random cases

var boundaryScalars = []rune{0x00, 0x41, 0x7f, 0x80, 0x7ff, 0x800, 0xd7ff, 0xe000, 0xfffd, 0xfffe, 0xffff, 0x10000, 0x10ffff}

func drawClosePayload(t *rapid.T) []byte {
	switch rapid.IntRange(0, 9).Draw(t, "close.kind") {
	case 0:
		return nil
	case 1:
		return []byte{rapid.Byte().Draw(t, "close.b")}
	}
	var code int
	switch rapid.IntRange(0, 3).Draw(t, "close.codekind") {
	case 0:
		code = rapid.SampledFrom([]int{1000, 1001, 1002, 1003, 1007, 1008, 1009, 1010, 1011, 3000, 3999, 4000, 4999}).Draw(t, "close.code")
	case 1:
		code = rapid.SampledFrom([]int{0, 999, 1004, 1005, 1006, 1015, 1016, 2999}).Draw(t, "close.code")
	case 2:
		code = rapid.SampledFrom([]int{1012, 1013, 1014, 5000, 65535}).Draw(t, "close.code")
	default:
		code = rapid.IntRange(0, 65535).Draw(t, "close.code")
	}
	p := []byte{byte(code >> 8), byte(code)}
	switch rapid.IntRange(0, 3).Draw(t, "close.reason") {
	case 0:
	case 1:
		if rapid.Bool().Draw(t, "close.boundary") {
			for k := rapid.IntRange(1, 20).Draw(t, "close.nrunes"); k > 0; k-- {
				p = utf8.AppendRune(p, rapid.SampledFrom(boundaryScalars).Draw(t, "close.rune"))
			}
		} else {
			p = append(p, gen.ValidText(t, "close.text", 123)...)
		}
	case 2:
		r := gen.ValidText(t, "close.text", 120)
		p = append(p, r...)
		p = append(p, rapid.SampledFrom([][]byte{{0xff}, {0xc0, 0x80}, {0xe2, 0x82}, {0xed, 0xa0, 0x80}, {0x80}}).Draw(t, "close.bad")...)
	default:
		p = append(p, rapid.SliceOfN(rapid.Byte(), 0, 123).Draw(t, "close.bytes")...)
	}
	return p
}

func TestRepliesRandom(t *testing.T) {
	hx.Check(t, 10, func(t *rapid.T) {
		rand.Seed(rapid.Int64().Draw(t, "randseed"))
		c := ctlCase{
			Op:     rapid.SampledFrom([]byte{ref.OpPing, ref.OpPong, ref.OpClose, ref.OpClose}).Draw(t, "op"),
			Server: rapid.Bool().Draw(t, "server"),
			Entry:  rapid.IntRange(0, numEntries-1).Draw(t, "entry"),
			Chunks: gen.Chunks(t, "chunks"),
			Key:    gen.Key(t, "key"),
		}
		if c.Op == ref.OpClose {
			c.Payload = drawClosePayload(t)
		} else {
			c.Payload = gen.CtlFrame(t, "ctl", false).Payload
		}
		c.EOFWD = rapid.Bool().Draw(t, "eofwd")
		if rsvApplies(c.Entry) && rapid.IntRange(0, 3).Draw(t, "rsv?") == 0 {
			c.Rsv = byte(rapid.IntRange(1, 7).Draw(t, "rsv"))
		}
		if (c.Entry == eHandleRaw || c.Entry == eHandlePlain) && rapid.IntRange(0, 3).Draw(t, "nofin?") == 0 {
			c.NoFin = true
		}
		if c.Server && rapid.IntRange(0, 3).Draw(t, "samekey?") == 0 {
			b := rapid.Byte().Draw(t, "samekey")
			c.SameKey, c.Key = true, [4]byte{b, b + 0x3b, b + 0x77, b + 0xc1}
		}
		if len(c.Payload) > 0 && rapid.IntRange(0, 3).Draw(t, "fault?") == 0 {
			f := rapid.IntRange(faultError, faultCut).Draw(t, "fault")
			if faultApplies(c.Entry, c.Op, f) {
				c.Fault = f
				c.K = rapid.IntRange(0, len(c.Payload)-1).Draw(t, "k")
			}
		}
		hx.Eval()
		class, bad := one(c)
		if bad != "" {
			t.Fatalf("%s\ncase: %s", bad, hx.JSON(c.desc()))
		}
		hx.Class(fmt.Sprintf("random/%s/server=%v", class, c.Server))
		hx.Class("random/entry/" + entryNames[c.Entry])
	})
}

// Several control frames in front of / inside one message through ReadData:
// the replies appear in order, one per ping, and the close ends the call.
func TestReadDataSequences(t *testing.T) {
	hx.Check(t, 4, func(t *rapid.T) {
		rand.Seed(rapid.Int64().Draw(t, "randseed"))
		server := rapid.Bool().Draw(t, "server")
		state := ws.StateClientSide
		if server {
			state = ws.StateServerSide
		}
		var shared *[4]byte
		if server && rapid.IntRange(0, 3).Draw(t, "samekey?") == 0 {
			b := rapid.Byte().Draw(t, "samekey")
			shared = &[4]byte{b, b + 0x3b, b + 0x77, b + 0xc1}
		}
		mk := func(op byte, fin bool, p []byte) ref.Frame {
			h := ref.Header{Fin: fin, Op: op, Masked: server}
			if shared != nil {
				h.Mask = *shared
			} else if server {
				h.Mask = gen.Key(t, "key")
			}
			return ref.Frame{H: h, Payload: p}
		}
		var frames []ref.Frame
		var pings [][]byte
		var closeP []byte
		closed := false
		ctl := func(label string) {
			for k := rapid.IntRange(0, 3).Draw(t, label); k > 0 && !closed; k-- {
				switch rapid.IntRange(0, 5).Draw(t, label+".kind") {
				case 0, 1, 2:
					p := gen.CtlFrame(t, label+".ping", false).Payload
					frames = append(frames, mk(ref.OpPing, true, p))
					pings = append(pings, p)
				case 3, 4:
					frames = append(frames, mk(ref.OpPong, true, gen.CtlFrame(t, label+".pong", false).Payload))
				default:
					closeP = drawClosePayload(t)
					frames = append(frames, mk(ref.OpClose, true, closeP))
					closed = true
				}
			}
		}
		ctl("before")
		if !closed {
			frames = append(frames, mk(ref.OpBinary, false, []byte("ab")))
			ctl("inside")
		}
		if !closed {
			frames = append(frames, mk(ref.OpCont, true, []byte("cd")))
		}
		chunks := gen.Chunks(t, "chunks")
		hx.Eval()
		if hx.Known(sigCloseUnmasked) && closed && !server && len(closeP) > 0 && (len(closeP) == 1 || ref.ClosePayload(closeP) != ref.CloseAccept) {
			hx.Exclude(sigCloseUnmasked)
			return
		}
		rec := tx.NewRec()
		src := tx.NewSrc(ref.EncodeAll(frames), chunks)
		src.EOFWithData = rapid.Bool().Draw(t, "eofwd")
		data, _, err := wsutil.ReadData(tx.RW{Reader: src, Writer: rec}, state)
		replies, rest, perr := ref.ParseFrames(rec.Bytes())
		if perr != nil {
			t.Fatalf("replies are not whole frames: %v (rest %x)\nframes: %v", perr, rest, ref.Describe(frames))
		}
		want := len(pings)
		if closed {
			want++
		}
		if len(replies) != want {
			t.Fatalf("%d pings, close=%v: %d reply frames\nframes: %v", len(pings), closed, len(replies), ref.Describe(frames))
		}
		for i, p := range pings {
			c := ctlCase{Op: ref.OpPing, Payload: p, Server: server}
			if _, bad := judge(c, replies[i].Encode(), nil); bad != "" {
				t.Fatalf("reply %d: %s\nframes: %v", i, bad, ref.Describe(frames))
			}
		}
		if closed {
			c := ctlCase{Op: ref.OpClose, Payload: closeP, Server: server}
			class, bad := judge(c, replies[len(pings)].Encode(), err)
			if bad != "" {
				t.Fatalf("close reply: %s\nframes: %v", bad, ref.Describe(frames))
			}
			hx.Class("readdata-sequence/" + class)
		} else {
			if err != nil || string(data) != "abcd" {
				t.Fatalf("ReadData returned %q, %v\nframes: %v", data, err, ref.Describe(frames))
			}
			hx.Class(fmt.Sprintf("readdata-sequence/message-delivered/pings=%d", len(pings)))
			if shared != nil {
				hx.Class("readdata-sequence/same-key-for-all-frames")
			}
		}
		if len(pings) >= 2 || (len(pings) >= 1 && closed) {
			hx.NonTrivial(hx.Hash("seq", ref.Shape(frames), server, len(closeP)), func() interface{} {
				return map[string]interface{}{"kind": "ReadData sequence", "server": server, "frames": ref.Describe(frames)}
			})
		}
	})
}

// ReadMessage returns the control frames it met between the fragments of a
// message; answering each with HandleControlMessage (the documented pairing)
// after the call must give every ping its own payload back.
func checkReadMessageInterleaved(server bool, ctl []ref.Frame, chunks []int, eofWD bool, keyOf func(i int) [4]byte) string {
	state := ws.StateClientSide
	if server {
		state = ws.StateServerSide
	}
	mk := func(i int, op byte, fin bool, p []byte) ref.Frame {
		return ref.Frame{H: ref.Header{Fin: fin, Op: op, Masked: server, Mask: keyOf(i)}, Payload: p}
	}
	frames := []ref.Frame{mk(0, ref.OpText, false, []byte("ab"))}
	for i, c := range ctl {
		frames = append(frames, mk(i+1, c.H.Op, true, c.Payload))
	}
	frames = append(frames, mk(len(ctl)+1, ref.OpCont, true, []byte("cd")))
	src := tx.NewSrc(ref.EncodeAll(frames), chunks)
	src.EOFWithData = eofWD
	msgs, err := wsutil.ReadMessage(src, state, nil)
	if err != nil || len(msgs) != len(ctl)+1 {
		return fmt.Sprintf("ReadMessage on a valid stream: %d messages, err=%v", len(msgs), err)
	}
	if last := msgs[len(ctl)]; last.OpCode != ws.OpText || string(last.Payload) != "abcd" {
		return fmt.Sprintf("ReadMessage delivered the data message as op=%#x %q", byte(last.OpCode), last.Payload)
	}
	for i, c := range ctl {
		rec := tx.NewRec()
		herr := wsutil.HandleControlMessage(rec, state, msgs[i])
		if byte(msgs[i].OpCode) != c.H.Op {
			return fmt.Sprintf("control message %d has opcode %#x, frame %d was %#x", i, byte(msgs[i].OpCode), i, c.H.Op)
		}
		if _, bad := judge(ctlCase{Op: c.H.Op, Payload: c.Payload, Server: server}, rec.Bytes(), herr); bad != "" {
			return fmt.Sprintf("control frame %d of %d (payload %x): %s", i, len(ctl), c.Payload, bad)
		}
	}
	return ""
}

func TestReadMessageInterleaved(t *testing.T) {
	rand.Seed(14)
	lens := []int{0, 1, 2, 7, 125}
	n := 0
	key := func(i int) [4]byte { return [4]byte{byte(i), 0x6c, byte(7 * i), 0xf1} }
	var run func(ctl []ref.Frame, depth int) bool
	run = func(ctl []ref.Frame, depth int) bool {
		if len(ctl) >= 2 {
			for v := 0; v < 10; v++ {
				key := key
				if v >= 8 { // server side, one key for every frame
					key = func(int) [4]byte { return [4]byte{0x12, 0x6c, 0xa7, 0xf1} }
				}
				n++
				if msg := checkReadMessageInterleaved(v&1 != 0 || v >= 8, ctl, chunkPlans[(v>>1)&1], v&4 != 0, key); msg != "" {
					hx.Failf(t, map[string]interface{}{"server": v&1 != 0, "control_frames": ref.Describe(ctl), "chunks": chunkPlans[(v>>1)&1], "eof_with_data": v&4 != 0}, "%s", msg)
					return false
				}
			}
			if len(ctl) >= 2 && len(ctl[0].Payload) > 0 && len(ctl[1].Payload) > 0 {
				hx.NonTrivial(hx.Hash("rm-inter", ref.Shape(ctl), len(ctl[0].Payload), len(ctl[1].Payload)), func() interface{} {
					return map[string]interface{}{"kind": "ReadMessage+HandleControlMessage, several intermediate control frames", "control_frames": ref.Describe(ctl)}
				})
			}
		}
		if depth == 3 {
			return true
		}
		for _, l := range lens {
			for _, op := range []byte{ref.OpPing, ref.OpPong} {
				if op == ref.OpPong && l != 2 {
					continue
				}
				f := ref.Frame{H: ref.Header{Fin: true, Op: op}, Payload: payloadOf(l, byte(0x31*(depth+1)))}
				if !run(append(ctl[:len(ctl):len(ctl)], f), depth+1) {
					return false
				}
			}
		}
		return true
	}
	if !run(nil, 0) {
		return
	}
	hx.EvalN(n)
	hx.Part("ReadMessage + HandleControlMessage: 2..3 control frames (ping lengths {0,1,2,7,125}, pong) inside one fragmented message x side x chunking x EOF-with-data", int64(n), true)
	tally{"enum/readmessage-interleaved/every-ping-own-payload": n}.flush("")
}

func TestReadMessageInterleavedRandom(t *testing.T) {
	hx.Check(t, 3, func(t *rapid.T) {
		rand.Seed(rapid.Int64().Draw(t, "randseed"))
		server := rapid.Bool().Draw(t, "server")
		var ctl []ref.Frame
		pings := 0
		for k := rapid.IntRange(2, 4).Draw(t, "nctl"); k > 0; k-- {
			f := gen.CtlFrame(t, "ctl", false)
			if f.H.Op == ref.OpPing {
				pings++
			}
			ctl = append(ctl, f)
		}
		keys := make([][4]byte, len(ctl)+2)
		same := server && rapid.IntRange(0, 3).Draw(t, "samekey?") == 0
		for i := range keys {
			if same && i > 0 {
				keys[i] = keys[0]
			} else {
				keys[i] = gen.Key(t, "key")
			}
		}
		chunks := gen.Chunks(t, "chunks")
		eofWD := rapid.Bool().Draw(t, "eofwd")
		hx.Eval()
		if msg := checkReadMessageInterleaved(server, ctl, chunks, eofWD, func(i int) [4]byte { return keys[i] }); msg != "" {
			t.Fatalf("%s\nserver=%v control frames: %v chunks=%v", msg, server, ref.Describe(ctl), chunks)
		}
		hx.Class(fmt.Sprintf("readmessage-interleaved/random/pings=%d/server=%v", pings, server))
		if pings >= 2 {
			hx.NonTrivial(hx.Hash("rm-inter-rand", ref.Shape(ctl), hx.Hash(ref.EncodeAll(ctl)), server), func() interface{} {
				return map[string]interface{}{"kind": "ReadMessage+HandleControlMessage random", "server": server, "control_frames": ref.Describe(ctl)}
			})
		}
	})
}

// ---------------------------------------------------------------------------
// control writer

type wrOp struct {
	Flush bool `json:"flush,omitempty"`
	N     int  `json:"write,omitempty"`
}

type wrCase struct {
	Buf    int    `json:"buffer"` // 0: NewControlWriter; else NewControlWriterBuffer with that many bytes
	Server bool   `json:"server"`
	Op     byte   `json:"opcode"`
	Ops    []wrOp `json:"ops"`
}

// minBuf is the smallest buffer the constructor documents as legal
// ("panics if len(buf) <= ws.MinHeaderSize + x").
func minBuf(server bool) int {
	if server {
		return ws.MinHeaderSize + ws.MinHeaderSize + 1
	}
	return ws.MinHeaderSize + ws.MinHeaderSize + 4 + 1
}

// capacity per the constructor docs: x header bytes are reserved, at most 125 payload bytes are used.
func (c wrCase) capacity() int {
	if c.Buf == 0 {
		return 125
	}
	x := ws.MinHeaderSize
	if !c.Server {
		x += 4
	}
	n := c.Buf - x
	if n > 125 {
		n = 125
	}
	return n
}

type wrStats struct {
	frames, overflow, smallBufRefused, multiWrite int
}

func runWriter(c wrCase, st *wrStats) string {
	rec := tx.NewRec()
	state := ws.StateClientSide
	if c.Server {
		state = ws.StateServerSide
	}
	var w *wsutil.ControlWriter
	if c.Buf == 0 {
		w = wsutil.NewControlWriter(rec, state, ws.OpCode(c.Op))
	} else {
		w = wsutil.NewControlWriterBuffer(rec, state, ws.OpCode(c.Op), make([]byte, c.Buf))
	}
	capacity := c.capacity()
	var accepted []byte // everything the writer took, in order
	pending := 0        // bytes accepted since the last flush
	writes := 0
	next := byte(1)
	ops := append(append([]wrOp(nil), c.Ops...), wrOp{Flush: true})
	for i, o := range ops {
		if o.Flush {
			if err := w.Flush(); err != nil {
				return fmt.Sprintf("op %d: Flush failed on a healthy destination: %v", i, err)
			}
			if writes >= 2 {
				st.multiWrite++
			}
			pending, writes = 0, 0
		} else {
			p := make([]byte, o.N)
			for j := range p {
				p[j] = next
				next++
			}
			n, err := w.Write(p)
			switch {
			case pending+o.N <= capacity:
				if n != o.N || err != nil {
					return fmt.Sprintf("op %d: Write(%d bytes) with %d of %d pending returned (%d, %v)", i, o.N, pending, capacity, n, err)
				}
			case pending+o.N > 125:
				if err == nil || n != 0 {
					return fmt.Sprintf("op %d: Write(%d bytes) with %d pending crosses the 125-byte limit but returned (%d, %v)", i, o.N, pending, n, err)
				}
				st.overflow++
			default:
				// Fits 125 bytes but exceeds this writer's limit (its buffer minus the reserved header
				// bytes): "writes that would exceed the limit fail instead".
				if err == nil || n != 0 {
					return fmt.Sprintf("op %d: Write(%d bytes) with %d pending exceeds the writer's limit of %d but returned (%d, %v)", i, o.N, pending, capacity, n, err)
				}
				st.smallBufRefused++
			}
			if err == nil {
				accepted = append(accepted, p...)
				pending += n
				writes++
			}
		}
		// Invariant on everything emitted so far.
		frames, rest, perr := ref.ParseFrames(rec.Bytes())
		if perr != nil {
			return fmt.Sprintf("after op %d: destination does not hold whole frames: %v (rest %x)", i, perr, rest)
		}
		var got []byte
		for k, f := range frames {
			if msg := checkFrameForPeer(f, c.Server, c.Op); msg != "" {
				return fmt.Sprintf("after op %d: frame %d: %s", i, k, msg)
			}
			got = append(got, f.Payload...)
		}
		if !bytes.HasPrefix(accepted, got) {
			return fmt.Sprintf("after op %d: emitted payload %x is not a prefix of the accepted bytes %x", i, got, accepted)
		}
		if o.Flush && !bytes.Equal(accepted, got) {
			return fmt.Sprintf("after op %d (Flush): emitted payload is %d bytes, %d bytes were accepted", i, len(got), len(accepted))
		}
		st.frames = len(frames)
	}
	return ""
}

var ctlOps = []byte{ref.OpPing, ref.OpPong, ref.OpClose}

// Every pair and (at boundary sizes) triple of Write sizes, flushed once or after every write.
func TestControlWriterEnumerated(t *testing.T) {
	rand.Seed(11)
	var st wrStats
	n := 0
	run := func(c wrCase) bool {
		n++
		if msg := runWriter(c, &st); msg != "" {
			hx.Failf(t, c, "%s", msg)
			return false
		}
		return true
	}
	for a := 0; a <= 130; a++ {
		if !hx.Mine(a) {
			continue
		}
		for b := 0; b <= 130; b++ {
			for v := 0; v < 4; v++ {
				c := wrCase{Server: v&1 != 0, Op: ctlOps[(a+b)%3], Ops: []wrOp{{N: a}, {N: b}}}
				if v&2 != 0 {
					c.Ops = []wrOp{{N: a}, {Flush: true}, {N: b}}
				}
				if v&2 == 0 && a > 0 && b > 0 && a+b <= 125 && !c.Server {
					hx.NonTrivial(hx.Hash("wr2", a, b, v), func() interface{} { return c })
				}
				if !run(c) {
					return
				}
			}
		}
	}
	edge := []int{0, 1, 25, 62, 63, 100, 124, 125, 126}
	for ai, a := range edge {
		if !hx.Mine(ai) {
			continue
		}
		for _, b := range edge {
			for _, d := range edge {
				for _, server := range []bool{true, false} {
					c := wrCase{Server: server, Op: ref.OpPing, Ops: []wrOp{{N: a}, {N: b}, {N: d}}}
					if a+b+d > 125 {
						hx.NonTrivial(hx.Hash("wr3", a, b, d, server), func() interface{} { return c })
					}
					if !run(c) {
						return
					}
					c.Ops = []wrOp{{N: a}, {N: b}, {Flush: true}, {N: d}, {N: a}}
					if !run(c) {
						return
					}
				}
			}
		}
	}
	// Every legal buffer size x write patterns around that writer's capacity.
	for size := 5; size <= 140; size++ {
		if !hx.Mine(size) {
			continue
		}
		for _, server := range []bool{true, false} {
			if size < minBuf(server) {
				continue
			}
			capa := wrCase{Buf: size, Server: server}.capacity()
			for _, total := range []int{capa - 1, capa, capa + 1, 125, 126} {
				if total < 0 {
					continue
				}
				for _, first := range []int{0, 1, total / 2, total - 1, total} {
					if first < 0 || first > total {
						continue
					}
					c := wrCase{Buf: size, Server: server, Op: ctlOps[size%3], Ops: []wrOp{{N: first}, {N: total - first}, {Flush: true}, {N: 1}}}
					if !run(c) {
						return
					}
				}
			}
		}
	}
	hx.EvalN(n)
	hx.Part("control writer: all pairs of write sizes 0..130 x side x flush-between, triples over 9 boundary sizes, every buffer size 5..140 x patterns around the capacity", int64(n), true)
	bulkClass("writer/enum/write-refused-over-125", st.overflow)
	bulkClass("writer/enum/flush-after->=2-writes", st.multiWrite)
	bulkClass("writer/exceeds-small-buffer-limit/refused", st.smallBufRefused)
}

func bulkClass(label string, n int) {
	tally{label: n}.flush("")
}

func TestControlWriterRandom(t *testing.T) {
	hx.Check(t, 6, func(t *rapid.T) {
		rand.Seed(rapid.Int64().Draw(t, "randseed"))
		c := wrCase{Server: rapid.Bool().Draw(t, "server"), Op: rapid.SampledFrom(ctlOps).Draw(t, "op")}
		if rapid.Bool().Draw(t, "ownbuf") {
			c.Buf = rapid.IntRange(minBuf(c.Server), 140).Draw(t, "buf")
		}
		nops := rapid.IntRange(1, 10).Draw(t, "nops")
		for i := 0; i < nops; i++ {
			switch rapid.IntRange(0, 5).Draw(t, "kind") {
			case 0:
				c.Ops = append(c.Ops, wrOp{Flush: true})
			case 1:
				c.Ops = append(c.Ops, wrOp{N: rapid.SampledFrom([]int{0, 1, 100, 124, 125, 126, 130}).Draw(t, "n")})
			default:
				c.Ops = append(c.Ops, wrOp{N: rapid.IntRange(0, 130).Draw(t, "n")})
			}
		}
		hx.Eval()
		var st wrStats
		if msg := runWriter(c, &st); msg != "" {
			t.Fatalf("%s\ncase: %s", msg, hx.JSON(c))
		}
		kind := "NewControlWriter"
		if c.Buf != 0 {
			kind = "NewControlWriterBuffer"
		}
		hx.Class(fmt.Sprintf("writer/random/%s/server=%v/refused-over-125=%v/multi-write-frame=%v", kind, c.Server, st.overflow > 0, st.multiWrite > 0))
		if st.smallBufRefused > 0 {
			hx.Class("writer/exceeds-small-buffer-limit/refused")
		}
		if st.multiWrite > 0 || st.overflow > 0 {
			hx.NonTrivial(hx.Hash("wr", c.Buf, c.Server, c.Op, fmt.Sprint(c.Ops)), func() interface{} { return c })
		}
	})
}

// ---------------------------------------------------------------------------
// findings of the originally pinned tree (repaired in /repo)

func TestKnownFindings(t *testing.T) {
	rand.Seed(12)
	// Client side, close with the reserved code 1005: the reply's header must say masked.
	{
		c := ctlCase{Op: ref.OpClose, Payload: []byte{0x03, 0xed}, Server: false, Entry: eHandlePlain}
		written, _, _ := c.run()
		present := false
		if v, h, _ := ref.DecodeHeader(written); v == ref.OK && h.Op == ref.OpClose && !h.Masked {
			present = true
		}
		hx.Probe(t, sigCloseUnmasked,
			"client-side ControlHandler.HandleClose answering close code 1005 wrote a frame whose header says unmasked (payload XOR-ed with a key that is not sent)",
			present, map[string]interface{}{"case": c.desc(), "written_hex": fmt.Sprintf("%x", written)})
	}
	// ControlWriter: 100+100+100 bytes must not come out as fragments.
	{
		rec := tx.NewRec()
		w := wsutil.NewControlWriter(rec, ws.StateServerSide, ws.OpPing)
		var errs []string
		for i := 0; i < 3; i++ {
			_, err := w.Write(make([]byte, 100))
			errs = append(errs, fmt.Sprint(err))
		}
		w.Flush()
		frames, _, _ := ref.ParseFrames(rec.Bytes())
		present := false
		var shape []string
		for _, f := range frames {
			shape = append(shape, f.H.String())
			if !f.H.Fin || f.H.Op == ref.OpCont {
				present = true
			}
		}
		hx.Probe(t, sigWriterLimit,
			"ControlWriter: writes of 100+100+100 bytes emitted non-final control fragments instead of failing with ErrControlOverflow",
			present, map[string]interface{}{"writes": []int{100, 100, 100}, "write_errors": errs, "frames": shape})
	}
}
