package ref

import "unicode/utf8"

// Rule names one framing rule of RFC 6455 that the header check owns.
type Rule int

const (
	RuleReservedOp Rule = iota
	RuleControlTooLong
	RuleControlNotFinal
	RuleRsv
	RuleMaskRequired
	RuleMaskUnexpected
	RuleContinuationExpected
	RuleContinuationUnexpected
	numRules
)

var ruleNames = [...]string{
	"reserved-opcode", "control>125", "control-not-final", "rsv-without-extension",
	"mask-required", "mask-unexpected", "continuation-expected", "continuation-unexpected",
}

func (r Rule) String() string { return ruleNames[r] }

// Side of the endpoint that *receives* the frame.
type Side int

const (
	SideNone Side = iota
	SideServer
	SideClient
)

func (s Side) String() string { return [...]string{"none", "server", "client"}[s] }

// EndState is the endpoint state the header check looks at.
type EndState struct {
	Side       Side
	Extended   bool
	Fragmented bool
}

// RuleSet is a bit set of Rule.
type RuleSet uint16

func (s RuleSet) Has(r Rule) bool { return s&(1<<uint(r)) != 0 }
func (s RuleSet) Empty() bool     { return s == 0 }
func (s RuleSet) Count() int {
	n := 0
	for r := Rule(0); r < numRules; r++ {
		if s.Has(r) {
			n++
		}
	}
	return n
}
func (s RuleSet) String() string {
	out := "{"
	for r := Rule(0); r < numRules; r++ {
		if s.Has(r) {
			if len(out) > 1 {
				out += ","
			}
			out += r.String()
		}
	}
	return out + "}"
}

// BrokenRules returns every rule the header breaks in the given state.
func BrokenRules(h Header, st EndState) (s RuleSet) {
	add := func(r Rule) { s |= 1 << uint(r) }
	if IsReserved(h.Op) {
		add(RuleReservedOp)
	}
	if IsControl(h.Op) {
		if h.Length > 125 {
			add(RuleControlTooLong)
		}
		if !h.Fin {
			add(RuleControlNotFinal)
		}
	}
	if h.Rsv != 0 && !st.Extended {
		add(RuleRsv)
	}
	if st.Side == SideServer && !h.Masked {
		add(RuleMaskRequired)
	}
	if st.Side == SideClient && h.Masked {
		add(RuleMaskUnexpected)
	}
	if st.Fragmented && !IsControl(h.Op) && h.Op != OpCont {
		add(RuleContinuationExpected)
	}
	if !st.Fragmented && h.Op == OpCont {
		add(RuleContinuationUnexpected)
	}
	return s
}

// CloseVerdict classifies a close status code per the property text of C03.
type CloseVerdict int

const (
	CloseAccept CloseVerdict = iota // 1000-1003, 1007-1011, 3000-4999
	CloseReject                     // every other code below 5000 except 1012-1014
	CloseOpen                       // 1012-1014 and >= 5000: left open
)

func CloseCode(code uint16) CloseVerdict {
	switch {
	case code >= 1000 && code <= 1003, code >= 1007 && code <= 1011, code >= 3000 && code <= 4999:
		return CloseAccept
	case code >= 1012 && code <= 1014, code >= 5000:
		return CloseOpen
	default:
		return CloseReject
	}
}

// ClosePayload classifies a whole close payload (len >= 2).
func ClosePayload(p []byte) CloseVerdict {
	code := uint16(p[0])<<8 | uint16(p[1])
	v := CloseCode(code)
	if !utf8.Valid(p[2:]) {
		return CloseReject
	}
	return v
}
