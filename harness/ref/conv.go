package ref

import "fmt"

// A conversation is a []Frame (payloads unmasked; H.Length is ignored and
// derived from the payload when encoding).

// Validate walks the frames with the RFC 6455 rules (the ones BrokenRules
// knows) keeping the fragmentation flag, and returns the index of the first
// offending frame with the set of rules it breaks, or -1. fragmentedAtEnd
// reports whether a fragmented message is still open after the last frame
// (only meaningful when idx == -1).
func Validate(frames []Frame, side Side, extended bool) (idx int, broken RuleSet, fragmentedAtEnd bool) {
	frag := false
	for i, f := range frames {
		h := f.H
		h.Length = int64(len(f.Payload))
		if s := BrokenRules(h, EndState{side, extended, frag}); !s.Empty() {
			return i, s, frag
		}
		if !IsControl(h.Op) {
			frag = !h.Fin
		}
	}
	return -1, 0, frag
}

// FragmentedBefore returns the fragmentation flag in force when frame i arrives
// (the frames before i must be valid).
func FragmentedBefore(frames []Frame, i int) bool {
	frag := false
	for _, f := range frames[:i] {
		if !IsControl(f.H.Op) {
			frag = !f.H.Fin
		}
	}
	return frag
}

// Event is one observable item of a valid conversation, in stream order.
type Event struct {
	// Kind: "ctl" — a control frame (Intermediate tells whether it arrived
	// between the fragments of a message); "msg" — a complete data message,
	// positioned at its final fragment.
	Kind         string
	Op           byte
	Payload      []byte
	Intermediate bool
	// For "msg": index of the first frame, number of data fragments, header of the first frame.
	First     int
	Fragments int
	FirstH    Header
	// Index of the frame that completes the event.
	At int
}

func (e Event) String() string {
	p := e.Payload
	if len(p) > 16 {
		return fmt.Sprintf("%s(op=%#x len=%d %x…)", e.Kind, e.Op, len(p), p[:16])
	}
	return fmt.Sprintf("%s(op=%#x %x)", e.Kind, e.Op, p)
}

// Events is the expected observable history of a valid conversation. Frames
// of a message left open at the end produce no event.
func Events(frames []Frame) []Event {
	var out []Event
	var cur *Event
	for i, f := range frames {
		switch {
		case IsControl(f.H.Op):
			out = append(out, Event{Kind: "ctl", Op: f.H.Op, Payload: f.Payload, Intermediate: cur != nil, At: i})
		case cur == nil:
			h := f.H
			h.Length = int64(len(f.Payload))
			cur = &Event{Kind: "msg", Op: f.H.Op, Payload: append([]byte(nil), f.Payload...), First: i, Fragments: 1, FirstH: h}
		default:
			cur.Payload = append(cur.Payload, f.Payload...)
			cur.Fragments++
		}
		if cur != nil && !IsControl(f.H.Op) && f.H.Fin {
			cur.At = i
			out = append(out, *cur)
			cur = nil
		}
	}
	return out
}

// Shape renders the frame-kind sequence compactly (for shape hashing and
// samples): T/B/C/P/O/X for text/binary/continuation/ping/pong/close, lower
// case when not final, followed by a payload-length class.
func Shape(frames []Frame) string {
	b := make([]byte, 0, 2*len(frames))
	for _, f := range frames {
		var c byte
		switch f.H.Op {
		case OpText:
			c = 'T'
		case OpBinary:
			c = 'B'
		case OpCont:
			c = 'C'
		case OpPing:
			c = 'P'
		case OpPong:
			c = 'O'
		case OpClose:
			c = 'X'
		default:
			c = 'R'
		}
		if !f.H.Fin {
			c |= 0x20
		}
		b = append(b, c, lenClass(len(f.Payload)))
	}
	return string(b)
}

func lenClass(n int) byte {
	switch {
	case n == 0:
		return '0'
	case n < 8:
		return '1'
	case n < 126:
		return '2'
	case n < 65536:
		return '3'
	}
	return '4'
}

// Describe renders a conversation for samples and failure messages.
func Describe(frames []Frame) []string {
	out := make([]string, len(frames))
	for i, f := range frames {
		p := f.Payload
		if len(p) > 12 {
			out[i] = fmt.Sprintf("op=%#x fin=%v rsv=%d masked=%v len=%d payload=%x…", f.H.Op, f.H.Fin, f.H.Rsv, f.H.Masked, len(p), p[:12])
		} else {
			out[i] = fmt.Sprintf("op=%#x fin=%v rsv=%d masked=%v len=%d payload=%x", f.H.Op, f.H.Fin, f.H.Rsv, f.H.Masked, len(p), p)
		}
	}
	return out
}

// Alphabet is the small frame alphabet of the exhaustive small-scope parts:
// {text, binary, continuation} x fin x payload class {0,1,5} and {ping, pong}
// (final) x payload class. Payload bytes are filled by mk so that every frame
// of a sequence carries distinct content.
type Letter struct {
	Op  byte
	Fin bool
	Len int
}

func Alphabet() []Letter {
	var a []Letter
	for _, op := range []byte{OpText, OpBinary, OpCont} {
		for _, fin := range []bool{false, true} {
			for _, n := range []int{0, 1, 5} {
				a = append(a, Letter{op, fin, n})
			}
		}
	}
	for _, op := range []byte{OpPing, OpPong} {
		for _, n := range []int{0, 1, 5} {
			a = append(a, Letter{op, true, n})
		}
	}
	return a
}

// Build turns letters into frames: ASCII payload bytes distinct per frame
// (valid UTF-8), masked with a per-frame key when masked is set.
func Build(letters []Letter, masked bool) []Frame {
	fs := make([]Frame, len(letters))
	for i, l := range letters {
		p := make([]byte, l.Len)
		for j := range p {
			p[j] = byte('a' + (i*7+j)%26)
		}
		h := Header{Fin: l.Fin, Op: l.Op, Masked: masked}
		if masked {
			h.Mask = [4]byte{byte(0x11 * (i + 1)), byte(0x35 + i), 0x80 | byte(i), byte(0xfe - i)}
		}
		fs[i] = Frame{h, p}
	}
	return fs
}

// EnumerateValid calls fn with every valid letter sequence of length 1..depth
// that ends outside a fragmented message (complete conversations).
func EnumerateValid(depth int, fn func([]Letter)) {
	alpha := Alphabet()
	var rec func(seq []Letter, frag bool)
	rec = func(seq []Letter, frag bool) {
		if len(seq) > 0 && !frag {
			fn(seq)
		}
		if len(seq) == depth {
			return
		}
		for _, l := range alpha {
			ctl := IsControl(l.Op)
			if !ctl {
				if frag && l.Op != OpCont {
					continue
				}
				if !frag && l.Op == OpCont {
					continue
				}
			}
			nf := frag
			if !ctl {
				nf = !l.Fin
			}
			rec(append(seq[:len(seq):len(seq)], l), nf)
		}
	}
	rec(nil, false)
}

// EnumeratePrefixes calls fn with every valid letter sequence of length
// 0..depth (complete or ending inside a fragmented message) and the
// fragmentation flag after it.
func EnumeratePrefixes(depth int, fn func(seq []Letter, fragmented bool)) {
	alpha := Alphabet()
	var rec func(seq []Letter, frag bool)
	rec = func(seq []Letter, frag bool) {
		fn(seq, frag)
		if len(seq) == depth {
			return
		}
		for _, l := range alpha {
			ctl := IsControl(l.Op)
			if !ctl {
				if frag && l.Op != OpCont {
					continue
				}
				if !frag && l.Op == OpCont {
					continue
				}
			}
			nf := frag
			if !ctl {
				nf = !l.Fin
			}
			rec(append(seq[:len(seq):len(seq)], l), nf)
		}
	}
	rec(nil, false)
}
