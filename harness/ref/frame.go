// Package ref holds the reference models the oracles compare gobwas/ws with.
// Everything here is written from the RFC texts and imports nothing from the
// library under test.
package ref

import (
	"encoding/binary"
	"fmt"
)

// Opcodes (RFC 6455 §5.2).
const (
	OpCont   = 0x0
	OpText   = 0x1
	OpBinary = 0x2
	OpClose  = 0x8
	OpPing   = 0x9
	OpPong   = 0xA
)

// Header is the reference's view of a frame header.
type Header struct {
	Fin    bool
	Rsv    byte // 3 bits, RSV1 is bit 2 (value 4)
	Op     byte // 4 bits
	Masked bool
	Mask   [4]byte
	Length int64
}

func (h Header) String() string {
	return fmt.Sprintf("{fin=%v rsv=%d op=%#x masked=%v mask=%x len=%d}", h.Fin, h.Rsv, h.Op, h.Masked, h.Mask, h.Length)
}

// LengthForm returns 0, 2 or 8: the number of extended length bytes of the
// minimal encoding of n.
func LengthForm(n int64) int {
	switch {
	case n < 126:
		return 0
	case n <= 0xFFFF:
		return 2
	default:
		return 8
	}
}

// HeaderLen is the encoded size of h.
func HeaderLen(h Header) int {
	n := 2 + LengthForm(h.Length)
	if h.Masked {
		n += 4
	}
	return n
}

// EncodeHeader is RFC 6455 §5.2 with the minimal length form.
func EncodeHeader(h Header) []byte {
	b := make([]byte, 0, 14)
	var b0 byte
	if h.Fin {
		b0 |= 0x80
	}
	b0 |= (h.Rsv & 7) << 4
	b0 |= h.Op & 0x0f
	var b1 byte
	if h.Masked {
		b1 |= 0x80
	}
	switch LengthForm(h.Length) {
	case 0:
		b = append(b, b0, b1|byte(h.Length))
	case 2:
		b = append(b, b0, b1|126, byte(h.Length>>8), byte(h.Length))
	default:
		b = append(b, b0, b1|127)
		var l [8]byte
		binary.BigEndian.PutUint64(l[:], uint64(h.Length))
		b = append(b, l[:]...)
	}
	if h.Masked {
		b = append(b, h.Mask[:]...)
	}
	return b
}

// Verdict of the reference decoder.
type Verdict int

const (
	Incomplete Verdict = iota // not enough bytes for the header
	MSB                       // 64-bit length with the top bit set
	NonMinimal                // complete, but the length is not in minimal form
	OK                        // complete, minimal
)

func (v Verdict) String() string {
	return [...]string{"incomplete", "msb", "nonminimal", "ok"}[v]
}

// DecodeHeader decodes the header at the start of b. n is the header size in
// bytes (valid for OK, NonMinimal and MSB).
func DecodeHeader(b []byte) (v Verdict, h Header, n int) {
	if len(b) < 2 {
		return Incomplete, h, 0
	}
	h.Fin = b[0]&0x80 != 0
	h.Rsv = (b[0] >> 4) & 7
	h.Op = b[0] & 0x0f
	h.Masked = b[1]&0x80 != 0
	l7 := b[1] & 0x7f
	n = 2
	ext := 0
	switch l7 {
	case 126:
		ext = 2
	case 127:
		ext = 8
	}
	need := n + ext
	if h.Masked {
		need += 4
	}
	if len(b) < need {
		return Incomplete, h, 0
	}
	minimal := true
	switch ext {
	case 0:
		h.Length = int64(l7)
	case 2:
		h.Length = int64(b[2])<<8 | int64(b[3])
		minimal = h.Length >= 126
	case 8:
		u := binary.BigEndian.Uint64(b[2:10])
		if u>>63 != 0 {
			return MSB, h, need
		}
		h.Length = int64(u)
		minimal = h.Length > 0xFFFF
	}
	n += ext
	if h.Masked {
		copy(h.Mask[:], b[n:n+4])
		n += 4
	}
	if !minimal {
		return NonMinimal, h, n
	}
	return OK, h, n
}

// Mask is RFC 6455 §5.3: out[i] = in[i] XOR key[(off+i) mod 4], into a new slice.
func Mask(in []byte, key [4]byte, off int64) []byte {
	out := make([]byte, len(in))
	for i := range in {
		out[i] = in[i] ^ key[(off+int64(i))&3]
	}
	return out
}

// IsControl: opcode with the top bit set.
func IsControl(op byte) bool { return op&0x8 != 0 }

// IsReserved: 3-7 and 0xB-0xF.
func IsReserved(op byte) bool {
	switch op & 0xf {
	case 3, 4, 5, 6, 7, 0xb, 0xc, 0xd, 0xe, 0xf:
		return true
	}
	return false
}

// Frame is one frame of a conversation (payload is the *unmasked* payload).
type Frame struct {
	H       Header
	Payload []byte
}

// Encode renders the frame to wire bytes, masking the payload if H.Masked.
func (f Frame) Encode() []byte {
	h := f.H
	h.Length = int64(len(f.Payload))
	b := EncodeHeader(h)
	if h.Masked {
		return append(b, Mask(f.Payload, h.Mask, 0)...)
	}
	return append(b, f.Payload...)
}

// EncodeAll renders a conversation.
func EncodeAll(fs []Frame) []byte {
	var b []byte
	for _, f := range fs {
		b = append(b, f.Encode()...)
	}
	return b
}

// ParseFrames splits b into whole frames (unmasking the payloads). rest is what
// is left when no further whole frame could be parsed; err describes why when
// rest is non-empty.
func ParseFrames(b []byte) (fs []Frame, rest []byte, err error) {
	for len(b) > 0 {
		v, h, n := DecodeHeader(b)
		switch v {
		case Incomplete:
			return fs, b, fmt.Errorf("incomplete header (%d bytes left)", len(b))
		case MSB:
			return fs, b, fmt.Errorf("length with top bit set")
		case NonMinimal:
			return fs, b, fmt.Errorf("non-minimal length form in header %v", h)
		}
		if int64(len(b)-n) < h.Length {
			return fs, b, fmt.Errorf("header %v announces %d payload bytes, only %d present", h, h.Length, len(b)-n)
		}
		p := b[n : n+int(h.Length)]
		if h.Masked {
			p = Mask(p, h.Mask, 0)
		} else {
			p = append([]byte(nil), p...)
		}
		fs = append(fs, Frame{h, p})
		b = b[n+int(h.Length):]
	}
	return fs, nil, nil
}
