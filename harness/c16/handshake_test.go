package c16

import (
	"bufio"
	"bytes"
	"context"
	"crypto/sha1"
	"encoding/base64"
	"fmt"
	"io"
	"math/rand"
	"net"
	"net/http"
	"net/url"
	"strings"
	"testing"
	"time"

	"github.com/gobwas/httphead"
	"github.com/gobwas/ws"
	"pgregory.net/rapid"

	"verif/harness/c09/reqgen"
	"verif/harness/gen"
	"verif/harness/hx"
	"verif/harness/tx"
)

const guid = "258EAFA5-E914-47DA-95CA-C5AB0DC85B11"

func acceptFor(key string) string {
	h := sha1.Sum([]byte(key + guid))
	return base64.StdEncoding.EncodeToString(h[:])
}

type hsCase struct {
	Kind   string // "request" (server reads) or "response" (client reads)
	Head   string
	Off    int
	Fault  error
	Chunks []int
	Seed   int64
	BufSz  int
}

func (c hsCase) describe() interface{} {
	return map[string]interface{}{"kind": c.Kind, "head": c.Head, "cut_offset": c.Off, "head_len": len(c.Head), "fault": c.Fault.Error(), "chunks": c.Chunks, "bufsize": c.BufSz}
}

// validRequest draws a compliant upgrade request in one of several layouts.
func validRequest(t *rapid.T) string {
	nl := "\r\n"
	if rapid.IntRange(0, 3).Draw(t, "lf") == 0 {
		nl = "\n"
	}
	key := base64.StdEncoding.EncodeToString(rapid.SliceOfN(rapid.Byte(), 16, 16).Draw(t, "key"))
	hdrs := []string{
		"Host: " + rapid.SampledFrom([]string{"example.com", "localhost:8080", "[::1]:80"}).Draw(t, "host"),
		rapid.SampledFrom([]string{"Upgrade: websocket", "upgrade: WebSocket", "UPGRADE:  websocket "}).Draw(t, "upg"),
		rapid.SampledFrom([]string{"Connection: Upgrade", "Connection: keep-alive, Upgrade", "connection: upgrade"}).Draw(t, "conn"),
		"Sec-WebSocket-Version: 13",
		"Sec-WebSocket-Key: " + key,
	}
	if rapid.Bool().Draw(t, "proto") {
		hdrs = append(hdrs, "Sec-WebSocket-Protocol: chat, superchat")
	}
	if rapid.Bool().Draw(t, "ext") {
		hdrs = append(hdrs, "Sec-WebSocket-Extensions: permessage-deflate; client_max_window_bits, x-a")
	}
	for i := rapid.IntRange(0, 3).Draw(t, "extra"); i > 0; i-- {
		hdrs = append(hdrs, fmt.Sprintf("X-Extra-%d: %s", i, strings.Repeat("v", rapid.IntRange(0, 90).Draw(t, "xlen"))))
	}
	perm := rapid.Permutation(hdrs).Draw(t, "order")
	target := rapid.SampledFrom([]string{"/", "/chat?x=1", "/a/b/c"}).Draw(t, "target")
	return "GET " + target + " HTTP/1.1" + nl + strings.Join(perm, nl) + nl + nl
}

func (c hsCase) runRequest() error {
	src := tx.NewSrc([]byte(c.Head[:c.Off]), c.Chunks)
	src.End = c.Fault
	rec := tx.NewRec()
	u := ws.Upgrader{
		ReadBufferSize: c.BufSz,
		Protocol:       func([]byte) bool { return true },
		Extension:      func(httphead.Option) bool { return true },
	}
	_, err := u.Upgrade(tx.RW{Reader: src, Writer: rec})
	if err == nil {
		return fmt.Errorf("Upgrader.Upgrade succeeded on a request cut at %d of %d bytes", c.Off, len(c.Head))
	}
	if out := rec.Bytes(); bytes.Contains(out, []byte(" 101 ")) || bytes.HasPrefix(out, []byte("HTTP/1.1 101")) {
		return fmt.Errorf("Upgrader.Upgrade wrote a 101 response for a cut request: %q", out)
	}
	return nil
}

// lazyPeer renders the response once the request (and with it the key) has been written.
type lazyPeer struct {
	written bytes.Buffer
	render  func(key string) []byte
	cut     int
	fault   error
	chunks  []int
	src     *tx.Src
}

func (p *lazyPeer) Write(b []byte) (int, error) { return p.written.Write(b) }

func (p *lazyPeer) Read(b []byte) (int, error) {
	if p.src == nil {
		key := ""
		for _, line := range strings.Split(p.written.String(), "\r\n") {
			if strings.HasPrefix(line, "Sec-WebSocket-Key: ") {
				key = strings.TrimPrefix(line, "Sec-WebSocket-Key: ")
			}
		}
		resp := p.render(key)
		if p.cut >= 0 && p.cut < len(resp) {
			resp = resp[:p.cut]
		}
		p.src = tx.NewSrc(resp, p.chunks)
		p.src.End = p.fault
	}
	return p.src.Read(b)
}

// validResponse draws the layout of a compliant 101 response; the accept value is filled in per key.
func validResponse(t *rapid.T) func(key string) []byte {
	nl := "\r\n"
	if rapid.IntRange(0, 3).Draw(t, "lf") == 0 {
		nl = "\n"
	}
	status := rapid.SampledFrom([]string{"HTTP/1.1 101 Switching Protocols", "HTTP/1.1 101 ", "HTTP/1.2 101 OK"}).Draw(t, "status")
	upg := rapid.SampledFrom([]string{"Upgrade: websocket", "upgrade: WebSocket"}).Draw(t, "upg")
	conn := rapid.SampledFrom([]string{"Connection: Upgrade", "connection: upgrade"}).Draw(t, "conn")
	proto := rapid.Bool().Draw(t, "proto")
	ext := rapid.Bool().Draw(t, "ext")
	var extra []string
	for i := rapid.IntRange(0, 3).Draw(t, "extra"); i > 0; i-- {
		extra = append(extra, fmt.Sprintf("X-Extra-%d: %s", i, strings.Repeat("v", rapid.IntRange(0, 90).Draw(t, "xlen"))))
	}
	order := rapid.Permutation([]int{0, 1, 2, 3, 4, 5}).Draw(t, "order")
	return func(key string) []byte {
		all := [][]string{{upg}, {conn}, {"Sec-WebSocket-Accept: " + acceptFor(key)}, nil, nil, extra}
		if proto {
			all[3] = []string{"Sec-WebSocket-Protocol: chat"}
		}
		if ext {
			all[4] = []string{"Sec-WebSocket-Extensions: permessage-deflate; client_max_window_bits=10"}
		}
		var lines []string
		for _, i := range order {
			lines = append(lines, all[i]...)
		}
		return []byte(status + nl + strings.Join(lines, nl) + nl + nl)
	}
}

func dialer(bufsz int) ws.Dialer {
	return ws.Dialer{
		ReadBufferSize: bufsz,
		Protocols:      []string{"chat", "superchat"},
		Extensions: []httphead.Option{
			httphead.NewOption("permessage-deflate", map[string]string{"client_max_window_bits": ""}),
		},
	}
}

var testURL, _ = url.Parse("ws://example.com/chat")

// timeoutErr is a transport error of the kind a conn reports when a deadline somebody set on it expires.
type timeoutErr struct{ temporary bool }

func (e timeoutErr) Error() string   { return "verif: i/o timeout" }
func (e timeoutErr) Timeout() bool   { return true }
func (e timeoutErr) Temporary() bool { return e.temporary }

// peerConn makes a lazyPeer a net.Conn (deadlines are accepted and ignored) and records Close.
type peerConn struct {
	*lazyPeer
	closed int
}

func (c *peerConn) Close() error                     { c.closed++; return nil }
func (c *peerConn) LocalAddr() net.Addr              { return nil }
func (c *peerConn) RemoteAddr() net.Addr             { return nil }
func (c *peerConn) SetDeadline(time.Time) error      { return nil }
func (c *peerConn) SetReadDeadline(time.Time) error  { return nil }
func (c *peerConn) SetWriteDeadline(time.Time) error { return nil }

// runResponseDial is runResponse through Dialer.Dial: ctxKind 0 = Background, 1 = a cancellable context that
// stays alive, 2 = a context with a far deadline; timeout is Dialer.Timeout. The context never ends during the
// call, so whatever error the transport reported (a timeout of its own included) is the handshake's failure.
func (c hsCase) runResponseDial(render func(string) []byte, ctxKind int, timeout time.Duration) error {
	rand.Seed(c.Seed)
	pc := &peerConn{lazyPeer: &lazyPeer{render: render, cut: c.Off, fault: c.Fault, chunks: c.Chunks}}
	d := dialer(c.BufSz)
	d.Timeout = timeout
	d.NetDial = func(ctx context.Context, network, addr string) (net.Conn, error) { return pc, nil }
	ctx := context.Background()
	var cancel context.CancelFunc = func() {}
	switch ctxKind {
	case 1:
		ctx, cancel = context.WithCancel(ctx)
	case 2:
		ctx, cancel = context.WithTimeout(ctx, time.Hour)
	}
	_, br, _, err := d.Dial(ctx, "ws://example.com/chat")
	cancel()
	if err == nil {
		return fmt.Errorf("Dialer.Dial (context kind %d, Timeout %v) succeeded on a response cut at %d bytes by %v", ctxKind, timeout, c.Off, c.Fault)
	}
	if br != nil { // the conn itself is handed back closed, which is fine
		return fmt.Errorf("Dialer.Dial returned a buffered reader together with the error %v", err)
	}
	if pc.closed == 0 {
		return fmt.Errorf("Dialer.Dial failed with %v and left the conn open", err)
	}
	return nil
}

func (c hsCase) runResponse(render func(string) []byte) error {
	rand.Seed(c.Seed)
	p := &lazyPeer{render: render, cut: c.Off, fault: c.Fault, chunks: c.Chunks}
	br, _, err := dialer(c.BufSz).Upgrade(p, testURL)
	if err == nil {
		return fmt.Errorf("Dialer.Upgrade succeeded on a response cut at %d bytes", c.Off)
	}
	if br != nil {
		return fmt.Errorf("Dialer.Upgrade returned a buffered reader together with the error %v", err)
	}
	return nil
}

// TestHandshakeWriteFaults: the request (resp. response) is complete, but the
// transport fails one of the peer's own writes: the handshake must not report success.
func TestHandshakeWriteFaults(t *testing.T) {
	hx.Check(t, 1, func(t *rapid.T) {
		bufsz := rapid.SampledFrom([]int{0, 16, 64, 128}).Draw(t, "wbufsize")
		failAt := rapid.IntRange(0, 4).Draw(t, "failAt")
		short := rapid.IntRange(0, 20).Draw(t, "short")
		if rapid.Bool().Draw(t, "server") {
			head := validRequest(t)
			rec := tx.NewRec()
			rec.FailAt, rec.Short = failAt, short
			var err error
			kind := "Upgrader"
			if rapid.IntRange(0, 2).Draw(t, "httpupgrader") == 0 {
				// the net/http flavoured upgrader writes the 101 to the hijacked connection
				kind = "HTTPUpgrader"
				req, perr := http.ReadRequest(bufio.NewReader(strings.NewReader(head)))
				if perr != nil {
					t.Fatalf("harness: net/http refused the request: %v\n%q", perr, head)
				}
				hu := ws.HTTPUpgrader{Protocol: func(string) bool { return true }, Extension: func(httphead.Option) bool { return true }}
				_, _, _, err = hu.Upgrade(req, &hijackWriter{conn: recConn{rec: rec}, hdr: http.Header{}})
			} else {
				u := ws.Upgrader{WriteBufferSize: bufsz, Protocol: func([]byte) bool { return true }, Extension: func(httphead.Option) bool { return true }}
				_, err = u.Upgrade(tx.RW{Reader: tx.NewSrc([]byte(head), nil), Writer: rec})
			}
			hx.Eval()
			hx.Class(fmt.Sprintf("handshake/write-fault/server:%s/failed=%v", kind, rec.Failed))
			if rec.Failed {
				hx.NonTrivial(hx.Hash("wf-srv", kind, head, bufsz, failAt, short), func() interface{} {
					return map[string]interface{}{"kind": "server write fault", "request": head, "write_buffer": bufsz, "fail_at_write": failAt, "accepted_of_failing_write": short}
				})
				if err == nil {
					t.Fatalf("%s.Upgrade reported success although destination write %d failed (%d bytes of the response reached the peer)\nrequest: %q", kind, failAt, rec.Len(), head)
				}
			} else if err != nil {
				t.Fatalf("harness: valid request refused: %v\n%q", err, head)
			}
			return
		}
		render := validResponse(t)
		seed := rapid.Int64().Draw(t, "seed")
		rand.Seed(seed)
		p := &lazyPeer{render: render, cut: -1, fault: io.EOF}
		fw := &failingPeer{lazyPeer: p, failAt: failAt, short: short}
		d := dialer(0)
		d.WriteBufferSize = bufsz
		br, _, err := d.Upgrade(fw, testURL)
		hx.Eval()
		hx.Class(fmt.Sprintf("handshake/write-fault/client/failed=%v", fw.failed))
		if fw.failed {
			hx.NonTrivial(hx.Hash("wf-cli", bufsz, failAt, short, seed), func() interface{} {
				return map[string]interface{}{"kind": "client write fault", "write_buffer": bufsz, "fail_at_write": failAt, "accepted_of_failing_write": short}
			})
			if err == nil {
				t.Fatalf("Dialer.Upgrade reported success although its request write %d failed", failAt)
			}
			if br != nil {
				t.Fatalf("Dialer.Upgrade returned a buffered reader together with the error %v", err)
			}
		} else if err != nil {
			t.Fatalf("harness: valid response refused: %v", err)
		}
	})
}

// hijackWriter hands an in-memory connection to HTTPUpgrader.
type hijackWriter struct {
	conn net.Conn
	hdr  http.Header
}

func (h *hijackWriter) Header() http.Header         { return h.hdr }
func (h *hijackWriter) Write(p []byte) (int, error) { return len(p), nil }
func (h *hijackWriter) WriteHeader(int)             {}
func (h *hijackWriter) Hijack() (net.Conn, *bufio.ReadWriter, error) {
	return h.conn, bufio.NewReadWriter(bufio.NewReader(h.conn), bufio.NewWriter(h.conn)), nil
}

type recConn struct {
	net.Conn
	rec *tx.Rec
}

func (c recConn) Write(p []byte) (int, error)      { return c.rec.Write(p) }
func (c recConn) Read(p []byte) (int, error)       { return 0, io.EOF }
func (c recConn) SetDeadline(time.Time) error      { return nil }
func (c recConn) SetWriteDeadline(time.Time) error { return nil }
func (c recConn) SetReadDeadline(time.Time) error  { return nil }
func (c recConn) Close() error                     { return nil }

// failingPeer fails the failAt-th Write of the dialer (accepting short bytes of it) and every later one.
type failingPeer struct {
	*lazyPeer
	failAt, short int
	calls         int
	failed        bool
}

func (f *failingPeer) Write(b []byte) (int, error) {
	if f.failed {
		return 0, tx.ErrInjected
	}
	if f.calls == f.failAt {
		f.failed = true
		n := f.short
		if n > len(b) {
			n = len(b)
		}
		f.lazyPeer.Write(b[:n])
		return n, tx.ErrInjected
	}
	f.calls++
	return f.lazyPeer.Write(b)
}

func TestHandshakeCuts(t *testing.T) {
	hx.Check(t, 0.5, func(t *rapid.T) {
		chunks := gen.Chunks(t, "chunks")
		bufsz := rapid.SampledFrom([]int{0, 64, 128}).Draw(t, "bufsize")
		n := 0
		if rapid.Bool().Draw(t, "server") {
			head := validRequest(t)
			if rapid.Bool().Draw(t, "reqgen") {
				// the structured request grammar of C09 (valid plan): more layouts and spellings
				head = string(reqgen.GenValid(t, "req").Render())
				probe := hsCase{Kind: "request", Head: head, Off: len(head), Fault: io.EOF, BufSz: bufsz}
				if err := probe.runRequest(); err == nil || !strings.Contains(err.Error(), "succeeded") {
					hx.Class("handshake/reqgen-request-not-accepted-by-plain-upgrader(skipped)")
					head = validRequest(t)
				} else if i := strings.Index(head, "\r\n\r\n"); i >= 0 && i+4 < len(head) {
					head = head[:i+4]
				} else if i := strings.Index(head, "\n\n"); i >= 0 && i+2 < len(head) {
					head = head[:i+2]
				}
			}
			// sanity: the uncut request must be accepted, otherwise the generator is wrong
			full := hsCase{Kind: "request", Head: head, Off: len(head), Fault: io.EOF, Chunks: chunks, BufSz: bufsz}
			if err := full.runRequest(); err == nil || !strings.Contains(err.Error(), "succeeded") {
				t.Fatalf("harness: uncut request not accepted: %v\n%q", err, head)
			}
			for off := 0; off < len(head); off++ {
				for _, fault := range []error{io.EOF, tx.ErrInjected} {
					c := hsCase{Kind: "request", Head: head, Off: off, Fault: fault, Chunks: chunks, BufSz: bufsz}
					n++
					if off > 0 {
						hx.NonTrivial(hx.Hash("req", head, off, fault == io.EOF, len(chunks), bufsz), c.describe)
					}
					if err := c.runRequest(); err != nil {
						t.Fatalf("%v\ncase: %s", err, hx.JSON(c.describe()))
					}
				}
			}
			hx.Class("handshake/request")
		} else {
			render := validResponse(t)
			seed := rapid.Int64().Draw(t, "seed")
			sample := string(render("dGhlIHNhbXBsZSBub25jZQ=="))
			full := hsCase{Kind: "response", Head: sample, Off: -1, Fault: io.EOF, Chunks: chunks, Seed: seed, BufSz: bufsz}
			if err := full.runResponse(render); err == nil || !strings.Contains(err.Error(), "succeeded") {
				t.Fatalf("harness: uncut response not accepted: %v\n%q", err, sample)
			}
			ctxKind := rapid.IntRange(0, 2).Draw(t, "ctx")
			timeout := rapid.SampledFrom([]time.Duration{0, time.Hour}).Draw(t, "timeout")
			for off := 0; off < len(sample); off++ {
				for _, fault := range []error{io.EOF, tx.ErrInjected, timeoutErr{false}, timeoutErr{true}} {
					c := hsCase{Kind: "response", Head: sample, Off: off, Fault: fault, Chunks: chunks, Seed: seed, BufSz: bufsz}
					n++
					if off > 0 {
						hx.NonTrivial(hx.Hash("resp", sample, off, fmt.Sprint(fault), len(chunks), bufsz), c.describe)
					}
					if err := c.runResponse(render); err != nil {
						t.Fatalf("%v\ncase: %s", err, hx.JSON(c.describe()))
					}
					// the same cut seen through Dial, which wraps the handshake in its context bookkeeping
					if off%3 == int(seed&1) || off == len(sample)-1 {
						n++
						if err := c.runResponseDial(render, ctxKind, timeout); err != nil {
							t.Fatalf("%v\ncase: %s", err, hx.JSON(c.describe()))
						}
					}
				}
			}
			hx.Class(fmt.Sprintf("handshake/response/dial-ctx%d-timeout%v", ctxKind, timeout != 0))
			hx.Class("handshake/response")
		}
		hx.EvalN(n)
	})
}
