package c16

import (
	"bytes"
	"fmt"
	"math/rand"
	"testing"

	"github.com/gobwas/ws"
	"github.com/gobwas/ws/wsutil"
	"pgregory.net/rapid"

	"verif/harness/gen"
	"verif/harness/hx"
	"verif/harness/ref"
	"verif/harness/tx"
)

// wop is one call on the fragmenting writer.
type wop struct {
	Kind string // write, through, readfrom, flush, fragment
	N    int
}

type wcase struct {
	Client  bool
	BufSize int
	Ops     []wop
	Seed    int64
	FailAt  int
	Short   int
	// NoFlush: DisableFlush() (plain writes grow the buffer and reach the destination only at Flush);
	// Ext: a send extension that sets RSV2 on every frame; Ctor: bufsize | size | get.
	NoFlush bool
	Ext     bool
	Ctor    string
}

func (c wcase) describe() interface{} {
	return map[string]interface{}{"client": c.Client, "bufsize": c.BufSize, "ops": c.Ops, "fail_at_write": c.FailAt, "short": c.Short, "disable_flush": c.NoFlush, "extension": c.Ext, "ctor": c.Ctor}
}

type wresult struct {
	n   int64
	err error
}

// apply runs the history against a fresh writer over rec and returns, per
// op, the result and the number of destination calls/bytes seen after it.
func (c wcase) apply(rec *tx.Rec) (res []wresult, callsAfter []int, failedAtOp int) {
	rand.Seed(c.Seed)
	state := ws.StateServerSide
	if c.Client {
		state = ws.StateClientSide
	}
	var w *wsutil.Writer
	switch c.Ctor {
	case "size":
		w = wsutil.NewWriterSize(rec, state, ws.OpBinary, c.BufSize)
	case "get":
		w = wsutil.GetWriter(rec, state, ws.OpBinary, c.BufSize)
		defer wsutil.PutWriter(w)
	default:
		w = wsutil.NewWriterBufferSize(rec, state, ws.OpBinary, c.BufSize)
	}
	if c.NoFlush {
		w.DisableFlush()
	}
	if c.Ext {
		w.SetExtensions(wsutil.SendExtensionFunc(func(h ws.Header) (ws.Header, error) {
			h.Rsv |= ws.Rsv(false, true, false)
			return h, nil
		}))
	}
	failedAtOp = -1
	for i, op := range c.Ops {
		var r wresult
		switch op.Kind {
		case "write":
			n, err := w.Write(gen.Filled(op.N, byte(i)))
			r = wresult{int64(n), err}
		case "through":
			n, err := w.WriteThrough(gen.Filled(op.N, byte(i)))
			if err == wsutil.ErrNotEmpty {
				err = nil // refused without touching the destination; not a transport failure
			}
			r = wresult{int64(n), err}
		case "readfrom":
			n, err := w.ReadFrom(bytes.NewReader(gen.Filled(op.N, byte(i))))
			r = wresult{n, err}
		case "flush":
			r = wresult{0, w.Flush()}
		case "fragment":
			r = wresult{0, w.FlushFragment()}
		case "grow":
			w.Grow(op.N)
		case "resetop":
			// the quick opcode reset keeps the destination: a recorded destination failure must survive it
			w.ResetOp(ws.OpText)
		}
		res = append(res, r)
		callsAfter = append(callsAfter, len(rec.Calls))
		if rec.Failed && failedAtOp < 0 {
			failedAtOp = i
		}
	}
	return res, callsAfter, failedAtOp
}

func drawOps(t *rapid.T, bufsize int) []wop {
	n := rapid.IntRange(2, 14).Draw(t, "nops")
	ops := make([]wop, n)
	for i := range ops {
		kind := rapid.SampledFrom([]string{"write", "write", "write", "through", "readfrom", "flush", "flush", "fragment", "resetop", "grow"}).Draw(t, "op")
		size := 0
		switch kind {
		case "grow":
			size = rapid.SampledFrom([]int{1, bufsize, 3 * bufsize}).Draw(t, "grow")
		case "write", "through", "readfrom":
			size = rapid.SampledFrom([]int{0, 1, bufsize / 2, bufsize - 11, bufsize, bufsize + 1, 2*bufsize + 3, 300}).Draw(t, "size")
			if size < 0 {
				size = 1
			}
		}
		ops[i] = wop{kind, size}
	}
	return ops
}

// TestWriterFaults: for every destination write index of the uncut run (and
// short-write amounts) fail that call and check what follows.
func TestWriterFaults(t *testing.T) {
	hx.Check(t, 2, func(t *rapid.T) {
		c := wcase{
			Client:  rapid.Bool().Draw(t, "client"),
			BufSize: rapid.SampledFrom([]int{16, 20, 64, 131, 140, 4096}).Draw(t, "bufsize"),
			Seed:    rapid.Int64().Draw(t, "seed"),
			FailAt:  -1,
			NoFlush: rapid.IntRange(0, 3).Draw(t, "noflush") == 0,
			Ext:     rapid.IntRange(0, 3).Draw(t, "ext") == 0,
			Ctor:    rapid.SampledFrom([]string{"bufsize", "bufsize", "size", "get"}).Draw(t, "ctor"),
		}
		c.Ops = drawOps(t, c.BufSize)
		clean := tx.NewRec()
		c.apply(clean)
		uncut := clean.Bytes()
		total := len(clean.Calls)
		hx.Class(fmt.Sprintf("writer/destwrites=%d", min(total, 6)))
		hx.Class(fmt.Sprintf("writer/ctor=%s/noflush=%v/ext=%v", c.Ctor, c.NoFlush, c.Ext))
		n := 0
		for k := 0; k < total; k++ {
			// the failing call accepts 0, 1, half, all but one or ALL of its bytes and reports the error (a full
			// count together with an error is legal for an io.Writer: tee, logging and deadline wrappers do it)
			shorts := []int{0, len(clean.Calls[k])}
			if l := len(clean.Calls[k]); l > 1 {
				shorts = append(shorts, 1, l/2, l-1)
			}
			for _, short := range shorts {
				cc := c
				cc.FailAt, cc.Short = k, short
				rec := tx.NewRec()
				rec.FailAt, rec.Short = k, short
				res, callsAfter, failedAtOp := cc.apply(rec)
				n++
				if k >= 1 {
					hx.NonTrivial(hx.Hash(fmt.Sprint(c.Ops), c.Client, c.BufSize, k, short, c.NoFlush, c.Ext, c.Ctor), cc.describe)
				}
				if failedAtOp < 0 {
					t.Fatalf("harness: destination write %d never happened in the faulty run\ncase: %s", k, hx.JSON(cc.describe()))
				}
				// bytes received before (and including the accepted part of) the failing call are a prefix of the uncut stream
				if got := rec.Bytes(); !bytes.HasPrefix(uncut, got) {
					t.Fatalf("bytes that reached the destination before the failure are not a prefix of the fault-free stream\ncase: %s", hx.JSON(cc.describe()))
				}
				// nothing is sent after the failure
				if rec.CallsAfter != 0 {
					t.Fatalf("%d further destination writes (%d bytes) were attempted after destination write %d failed\ncase: %s", rec.CallsAfter, rec.AfterFail, k, hx.JSON(cc.describe()))
				}
				_ = callsAfter
				// every later write and flush reports an error
				for i := failedAtOp + 1; i < len(cc.Ops); i++ {
					switch cc.Ops[i].Kind {
					case "readfrom", "resetop", "grow":
						continue // only "no further byte" is asserted for ReadFrom; ResetOp and Grow return nothing
					}
					if res[i].err == nil {
						t.Fatalf("op %d (%v) after the failed destination write %d (during op %d) reported success\ncase: %s", i, cc.Ops[i], k, failedAtOp, hx.JSON(cc.describe()))
					}
				}
			}
		}
		// fault-free run: the stream is whole frames (sanity of the harness; the content is C06's business)
		if _, rest, err := ref.ParseFrames(uncut); err != nil || len(rest) != 0 {
			t.Fatalf("fault-free run produced a stream that does not parse into whole frames: %v", err)
		}
		hx.EvalN(n)
	})
}
