// C16 — truncated or failing transports never yield a complete-looking
// message. Reader side: every byte offset of a valid frame stream is cut
// (clean EOF or injected error) and every reader entry point is run over it.
package c16

import (
	"bytes"
	"errors"
	"fmt"
	"io"
	"testing"

	"github.com/gobwas/ws"
	"github.com/gobwas/ws/wsutil"
	"pgregory.net/rapid"

	"verif/harness/gen"
	"verif/harness/hx"
	"verif/harness/ref"
	"verif/harness/tx"
)

func TestMain(m *testing.M) { hx.Main(m, "C16") }

// cutCase is one (stream, cut) pair.
type cutCase struct {
	Frames []ref.Frame
	State  ws.State
	Off    int   // the transport ends after Off bytes
	Fault  error // io.EOF or tx.ErrInjected
	Chunks []int
	EOFDat bool
	Entry  string
	// Skip: Reader.SkipHeaderCheck (entries ".../skipcheck"); the streams are valid, so the cut is judged alike.
	Skip bool

	data   []byte
	start  []int // offset of each frame
	hdrEnd []int
	end    []int
}

func (c *cutCase) prepare() {
	c.data = ref.EncodeAll(c.Frames)
	c.start, c.hdrEnd, c.end = nil, nil, nil
	pos := 0
	for _, f := range c.Frames {
		h := f.H
		h.Length = int64(len(f.Payload))
		c.start = append(c.start, pos)
		c.hdrEnd = append(c.hdrEnd, pos+ref.HeaderLen(h))
		pos += ref.HeaderLen(h) + len(f.Payload)
		c.end = append(c.end, pos)
	}
}

func (c *cutCase) src() *tx.Src {
	s := tx.NewSrc(c.data[:c.Off], c.Chunks)
	s.End = c.Fault
	s.EOFWithData = c.EOFDat
	return s
}

func (c *cutCase) describe() interface{} {
	k, where := c.locate()
	return map[string]interface{}{
		"entry": c.Entry, "state": int(c.State), "cut_offset": c.Off, "stream_len": len(c.data), "fault": c.Fault.Error(),
		"cut_frame": k, "cut_in": where, "chunks": c.Chunks, "frames": ref.Describe(c.Frames),
	}
}

// locate returns the index of the frame the cut falls in and where:
// "boundary" (exactly before frame k), "header" or "payload".
func (c *cutCase) locate() (int, string) {
	for k := range c.Frames {
		switch {
		case c.Off == c.start[k]:
			return k, "boundary"
		case c.Off < c.hdrEnd[k]:
			return k, "header"
		case c.Off < c.end[k]:
			return k, "payload"
		}
	}
	return len(c.Frames), "boundary"
}

// cleanEOFAllowed: only a cut that is not inside a payload, while no
// fragmented message is open, may surface as a plain io.EOF.
func (c *cutCase) cleanEOFAllowed() bool {
	k, where := c.locate()
	if where == "payload" {
		return false
	}
	return !ref.FragmentedBefore(c.Frames, k)
}

// complete returns the events fully contained in the first Off bytes.
func (c *cutCase) complete() []ref.Event {
	var out []ref.Event
	for _, e := range ref.Events(c.Frames) {
		if c.end[e.At] <= c.Off {
			out = append(out, e)
		}
	}
	return out
}

// checkFinalErr validates the error that ends the run over the cut stream.
func (c *cutCase) checkFinalErr(err error, what string) error {
	if err == nil {
		return fmt.Errorf("%s reported success although the stream ends at offset %d", what, c.Off)
	}
	if err == io.EOF && !c.cleanEOFAllowed() {
		k, where := c.locate()
		return fmt.Errorf("%s reported a clean io.EOF although the stream was cut in the %s of frame %d (fragmented=%v)", what, where, k, ref.FragmentedBefore(c.Frames, k))
	}
	return nil
}

func readUntil(r io.Reader, bufSize, maxIdle int) ([]byte, error) {
	buf := make([]byte, bufSize)
	var out []byte
	idle := 0
	for {
		n, err := r.Read(buf)
		out = append(out, buf[:n]...)
		if err != nil {
			return out, err
		}
		if n == 0 {
			if idle++; idle > maxIdle {
				return out, fmt.Errorf("harness: %d consecutive (0, nil) reads", idle)
			}
		} else {
			idle = 0
		}
	}
}

type ctlSeen struct {
	op      byte
	length  int64
	payload []byte
	err     error
}

// ---------------------------------------------------------------------------
// wsutil.Reader with a recording OnIntermediate handler

func (c *cutCase) runReader() error {
	src := c.src()
	idle := 2*len(c.Frames) + 4
	var ictl []ctlSeen
	rd := &wsutil.Reader{Source: src, State: c.State, CheckUTF8: true, SkipHeaderCheck: c.Skip}
	rd.OnIntermediate = func(h ws.Header, r io.Reader) error {
		p, err := readUntil(r, 64, idle)
		if err == io.EOF {
			err = nil
		}
		ictl = append(ictl, ctlSeen{byte(h.OpCode), h.Length, p, err})
		return err
	}
	checkIctl := func() error {
		// A handler is given a header announcing L bytes: it obtains L bytes or its read fails.
		for i, s := range ictl {
			if s.err == nil && int64(len(s.payload)) != s.length {
				return fmt.Errorf("intermediate control frame %d (op=%#x) announced %d bytes; the handler got %d bytes and a clean end of payload", i, s.op, s.length, len(s.payload))
			}
		}
		return nil
	}
	// Walk the uncut history; stop where the cut bites.
	for _, e := range ref.Events(c.Frames) {
		if e.Kind == "ctl" && e.Intermediate {
			continue
		}
		wholeHere := c.end[e.At] <= c.Off
		h, err := rd.NextFrame()
		if err != nil {
			if wholeHere {
				return fmt.Errorf("NextFrame failed (%v) although %v is completely present", err, e)
			}
			if e2 := checkIctl(); e2 != nil {
				return e2
			}
			return c.checkFinalErr(err, "Reader.NextFrame")
		}
		if h.OpCode != ws.OpCode(e.Op) {
			return fmt.Errorf("NextFrame opcode %v, stream has %#x", h.OpCode, e.Op)
		}
		p, err := readUntil(rd, 7, idle)
		if err == io.EOF {
			if !wholeHere {
				return fmt.Errorf("%v was reported complete (io.EOF after %d bytes) although the stream ends at offset %d, before its end %d", e, len(p), c.Off, c.end[e.At])
			}
			if !bytes.Equal(p, e.Payload) {
				return fmt.Errorf("%v delivered as %x", e, p)
			}
			continue
		}
		if wholeHere {
			return fmt.Errorf("reading %v failed (%v) although it is completely present", e, err)
		}
		if !bytes.HasPrefix(e.Payload, p) {
			return fmt.Errorf("bytes delivered before the failure (%x) are not a prefix of the message (%x)", p, e.Payload)
		}
		if e2 := checkIctl(); e2 != nil {
			return e2
		}
		return c.checkFinalErr(err, "Reader.Read")
	}
	_, err := rd.NextFrame()
	if e2 := checkIctl(); e2 != nil {
		return e2
	}
	return c.checkFinalErr(err, "Reader.NextFrame")
}

// runNextReader: the package-level wsutil.NextReader, one call per top-level frame/message
// (a fresh Reader each time; control frames between fragments are skipped by it).
func (c *cutCase) runNextReader() error {
	src := c.src()
	idle := 2*len(c.Frames) + 4
	for _, e := range ref.Events(c.Frames) {
		if e.Kind == "ctl" && e.Intermediate {
			continue
		}
		wholeHere := c.end[e.At] <= c.Off
		h, r, err := wsutil.NextReader(src, c.State)
		if err != nil {
			if wholeHere {
				return fmt.Errorf("NextReader failed (%v) although %v is completely present", err, e)
			}
			return c.checkFinalErr(err, "NextReader")
		}
		if h.OpCode != ws.OpCode(e.Op) {
			return fmt.Errorf("NextReader opcode %v, stream has %#x", h.OpCode, e.Op)
		}
		p, err := readUntil(r, 7, idle)
		if err == io.EOF {
			if !wholeHere {
				return fmt.Errorf("%v was reported complete by the reader NextReader returned (io.EOF after %d bytes) although the stream ends at offset %d, before its end %d", e, len(p), c.Off, c.end[e.At])
			}
			if !bytes.Equal(p, e.Payload) {
				return fmt.Errorf("%v delivered as %x", e, p)
			}
			continue
		}
		if wholeHere {
			return fmt.Errorf("reading %v failed (%v) although it is completely present", e, err)
		}
		if !bytes.HasPrefix(e.Payload, p) {
			return fmt.Errorf("bytes delivered before the failure (%x) are not a prefix of the message (%x)", p, e.Payload)
		}
		return c.checkFinalErr(err, "NextReader's reader")
	}
	_, _, err := wsutil.NextReader(src, c.State)
	return c.checkFinalErr(err, "NextReader")
}

// ---------------------------------------------------------------------------
// wsutil.Reader with ControlFrameHandler as OnIntermediate, and ReadData: no
// reply may be written for a control frame that was cut.

func (c *cutCase) checkReplies(rec *tx.Rec) error {
	frames, rest, err := ref.ParseFrames(rec.Bytes())
	if err != nil || len(rest) != 0 {
		return nil // malformed replies are C08's business
	}
	// pings completely present before the cut, in order
	var pings [][]byte
	for i, f := range c.Frames {
		if f.H.Op == ref.OpPing && c.end[i] <= c.Off {
			pings = append(pings, f.Payload)
		}
	}
	n := 0
	for _, f := range frames {
		if f.H.Op != ref.OpPong {
			continue
		}
		if n >= len(pings) {
			return fmt.Errorf("a pong (payload %x) was written although only %d pings are completely present before the cut at %d", f.Payload, len(pings), c.Off)
		}
		if !bytes.Equal(f.Payload, pings[n]) {
			return fmt.Errorf("pong %d carries %x, the ping carried %x (shortened payload answered)", n, f.Payload, pings[n])
		}
		n++
	}
	return nil
}

func (c *cutCase) runReaderWithHandler() error {
	src := c.src()
	rec := tx.NewRec()
	idle := 2*len(c.Frames) + 4
	rd := &wsutil.Reader{Source: src, State: c.State, CheckUTF8: true, OnIntermediate: wsutil.ControlFrameHandler(rec, c.State)}
	for {
		h, err := rd.NextFrame()
		if err != nil {
			break
		}
		if h.OpCode.IsControl() {
			if err := wsutil.ControlFrameHandler(rec, c.State)(h, rd); err != nil {
				break
			}
			continue
		}
		if _, err := readUntil(rd, 16, idle); err != io.EOF {
			break
		}
	}
	return c.checkReplies(rec)
}

func (c *cutCase) runReadData() error {
	src := c.src()
	rec := tx.NewRec()
	rw := tx.RW{Reader: src, Writer: rec}
	done := c.complete()
	for _, e := range done {
		if e.Kind != "msg" {
			continue
		}
		p, op, err := wsutil.ReadData(rw, c.State)
		if err != nil {
			return fmt.Errorf("ReadData failed (%v) although %v is completely present", err, e)
		}
		if op != ws.OpCode(e.Op) || !bytes.Equal(p, e.Payload) {
			return fmt.Errorf("ReadData returned op=%v %x, want %v", op, p, e)
		}
	}
	_, _, err := wsutil.ReadData(rw, c.State)
	var ce wsutil.ClosedError
	if errors.As(err, &ce) {
		// a close frame completely present ends the conversation legitimately
		for i, f := range c.Frames {
			if f.H.Op == ref.OpClose && c.end[i] <= c.Off {
				return c.checkReplies(rec)
			}
		}
		return fmt.Errorf("ReadData reported %v although no complete close frame precedes the cut", err)
	}
	if e2 := c.checkFinalErr(err, "ReadData"); e2 != nil {
		return e2
	}
	return c.checkReplies(rec)
}

// finalFrameOfMessage reports whether frame k is the final data frame of its message.
func (c *cutCase) finalDataFrame(k int) bool {
	return k < len(c.Frames) && !ref.IsControl(c.Frames[k].H.Op) && c.Frames[k].H.Fin
}

// runReadDataFiltered: the Text/Binary variants discard unwanted messages; a
// stream that ends inside a discarded fragmented message must still be an error.
func (c *cutCase) runReadDataFiltered(want ws.OpCode) error {
	src := c.src()
	rec := tx.NewRec()
	rw := tx.RW{Reader: src, Writer: rec}
	read := func() ([]byte, error) {
		switch {
		case c.State.ServerSide() && want == ws.OpText:
			return wsutil.ReadClientText(rw)
		case c.State.ServerSide():
			return wsutil.ReadClientBinary(rw)
		case want == ws.OpText:
			return wsutil.ReadServerText(rw)
		}
		return wsutil.ReadServerBinary(rw)
	}
	for _, e := range c.complete() {
		if e.Kind != "msg" || ws.OpCode(e.Op) != want {
			continue
		}
		p, err := read()
		if err != nil {
			return fmt.Errorf("%s failed (%v) although %v is completely present", c.Entry, err, e)
		}
		if !bytes.Equal(p, e.Payload) {
			return fmt.Errorf("%s returned %x, want %v", c.Entry, p, e)
		}
	}
	_, err := read()
	var ce wsutil.ClosedError
	if errors.As(err, &ce) {
		for i, f := range c.Frames {
			if f.H.Op == ref.OpClose && c.end[i] <= c.Off {
				return c.checkReplies(rec)
			}
		}
		return fmt.Errorf("%s reported %v although no complete close frame precedes the cut", c.Entry, err)
	}
	if err == nil {
		return fmt.Errorf("%s reported success although the stream ends at offset %d", c.Entry, c.Off)
	}
	k, where := c.locate()
	_, _ = k, where
	if e2 := c.checkFinalErr(err, c.Entry); e2 != nil {
		return e2
	}
	return c.checkReplies(rec)
}

// runReaderDiscard: every message is discarded right after NextFrame. When the
// stream ends while a fragmented message is open, Discard must report an error
// that is not a clean end of stream.
func (c *cutCase) runReaderDiscard() error {
	src := c.src()
	rd := &wsutil.Reader{Source: src, State: c.State, CheckUTF8: true, SkipHeaderCheck: c.Skip}
	for _, e := range ref.Events(c.Frames) {
		if e.Kind == "ctl" && e.Intermediate {
			continue
		}
		whole := c.end[e.At] <= c.Off
		_, err := rd.NextFrame()
		if err != nil {
			if whole {
				return fmt.Errorf("NextFrame failed (%v) although %v is completely present", err, e)
			}
			return c.checkFinalErr(err, "Reader.NextFrame")
		}
		derr := rd.Discard()
		if whole {
			if derr != nil {
				return fmt.Errorf("Discard failed (%v) although %v is completely present", derr, e)
			}
			continue
		}
		k, where := c.locate()
		if derr == nil || derr == io.EOF {
			// (a cut inside the last frame of the message used to be left open: Discard is an API like any other
			// and must not report success for a message of which the stream delivered only a part)
			return fmt.Errorf("Discard returned %v although the stream ends at %d inside the message %v being discarded (cut in the %s of frame %d)", derr, c.Off, e, where, k)
		}
		return nil
	}
	_, err := rd.NextFrame()
	return c.checkFinalErr(err, "Reader.NextFrame")
}

// ---------------------------------------------------------------------------
// ReadMessage

func (c *cutCase) runReadMessage() error {
	src := c.src()
	done := c.complete()
	var want []wsutil.Message
	for _, e := range done {
		want = append(want, wsutil.Message{OpCode: ws.OpCode(e.Op), Payload: e.Payload})
		if e.Kind == "ctl" && e.Intermediate {
			continue
		}
		out, err := wsutil.ReadMessage(src, c.State, nil)
		if err != nil {
			return fmt.Errorf("ReadMessage failed (%v) although %v is completely present", err, e)
		}
		if len(out) != len(want) {
			return fmt.Errorf("ReadMessage returned %d messages, want %d", len(out), len(want))
		}
		for i := range out {
			if out[i].OpCode != want[i].OpCode || !bytes.Equal(out[i].Payload, want[i].Payload) {
				return fmt.Errorf("ReadMessage message %d: op=%v %x, want op=%v %x", i, out[i].OpCode, out[i].Payload, want[i].OpCode, want[i].Payload)
			}
		}
		want = nil
	}
	// want now holds the complete intermediate control frames of the open message, if any.
	out, err := wsutil.ReadMessage(src, c.State, nil)
	if e2 := c.checkFinalErr(err, "ReadMessage"); e2 != nil {
		return e2
	}
	if len(out) > len(want) {
		return fmt.Errorf("ReadMessage returned %d messages together with the error; only %d control frames are completely present", len(out), len(want))
	}
	for i := range out {
		if out[i].OpCode != want[i].OpCode || !bytes.Equal(out[i].Payload, want[i].Payload) {
			return fmt.Errorf("ReadMessage returned op=%v %x with the error; the stream has op=%v %x there", out[i].OpCode, out[i].Payload, want[i].OpCode, want[i].Payload)
		}
	}
	return nil
}

// ---------------------------------------------------------------------------
// ws.ReadFrame / ws.ReadHeader

func (c *cutCase) runReadFrame() error {
	src := c.src()
	for k, f := range c.Frames {
		got, err := ws.ReadFrame(src)
		whole := c.end[k] <= c.Off
		if whole {
			if err != nil {
				return fmt.Errorf("ReadFrame failed (%v) on frame %d which is completely present", err, k)
			}
			want := f.Payload
			if f.H.Masked {
				want = ref.Mask(f.Payload, f.H.Mask, 0)
			}
			if !bytes.Equal(got.Payload, want) {
				return fmt.Errorf("ReadFrame frame %d payload mismatch", k)
			}
			continue
		}
		if err == nil {
			return fmt.Errorf("ReadFrame returned frame %d as whole although the stream ends at %d (frame ends at %d)", k, c.Off, c.end[k])
		}
		if err == io.EOF && c.Off > c.hdrEnd[k] {
			return fmt.Errorf("ReadFrame reported a clean io.EOF for frame %d cut inside its payload", k)
		}
		return nil
	}
	_, err := ws.ReadFrame(src)
	if err == nil {
		return fmt.Errorf("ReadFrame succeeded past the end of the stream")
	}
	return nil
}

func (c *cutCase) runReadHeader() error {
	// headers only: position a fresh source at each frame start
	for k := range c.Frames {
		if c.start[k] >= c.Off {
			break
		}
		s := tx.NewSrc(c.data[c.start[k]:c.Off], c.Chunks)
		s.End = c.Fault
		_, err := ws.ReadHeader(s)
		if c.hdrEnd[k] <= c.Off {
			if err != nil {
				return fmt.Errorf("ReadHeader failed (%v) on header %d which is completely present", err, k)
			}
		} else if err == nil {
			return fmt.Errorf("ReadHeader accepted header %d cut at %d of %d bytes", k, c.Off-c.start[k], c.hdrEnd[k]-c.start[k])
		}
	}
	return nil
}

func (c *cutCase) run() error {
	switch c.Entry {
	case "Reader/skipcheck":
		c.Skip = true
		return c.runReader()
	case "Reader+Discard/skipcheck":
		c.Skip = true
		return c.runReaderDiscard()
	case "Reader":
		return c.runReader()
	case "Reader+ControlFrameHandler":
		return c.runReaderWithHandler()
	case "ReadData":
		return c.runReadData()
	case "ReadText":
		return c.runReadDataFiltered(ws.OpText)
	case "ReadBinary":
		return c.runReadDataFiltered(ws.OpBinary)
	case "Reader+Discard":
		return c.runReaderDiscard()
	case "ReadMessage":
		return c.runReadMessage()
	case "ReadFrame":
		return c.runReadFrame()
	case "NextReader":
		return c.runNextReader()
	}
	return c.runReadHeader()
}

var readerEntries = []string{"Reader", "Reader+Discard", "Reader+ControlFrameHandler", "ReadData", "ReadText", "ReadBinary", "ReadMessage", "ReadFrame", "ReadHeader", "NextReader", "Reader/skipcheck", "Reader+Discard/skipcheck"}

// sweep runs every cut offset x fault kind x entry point over one conversation.
// It returns the first failing case.
func sweep(frames []ref.Frame, state ws.State, chunkings [][]int, offsets func(c *cutCase) []int) (*cutCase, error, int) {
	n := 0
	base := cutCase{Frames: frames, State: state}
	base.prepare()
	for _, off := range offsets(&base) {
		for _, fault := range []error{io.EOF, tx.ErrInjected} {
			for ci, chunks := range chunkings {
				for _, entry := range readerEntries {
					if state == 0 && (entry == "ReadData" || entry == "ReadText" || entry == "ReadBinary" || entry == "Reader+ControlFrameHandler") {
						continue // replying needs a side
					}
					c := base
					c.Off, c.Fault, c.Chunks, c.Entry = off, fault, chunks, entry
					c.EOFDat = ci%2 == 1 && fault == io.EOF
					n++
					k, where := c.locate()
					frag := k < len(frames) && ref.FragmentedBefore(frames, k)
					multi := len(frames) > 1
					if multi && (where != "boundary" || frag) {
						hx.NonTrivial(hx.Hash(ref.Shape(frames), off, fault == io.EOF, len(chunks), entry, int(state)), c.describe)
					}
					if err := c.run(); err != nil {
						return &c, err, n
					}
				}
			}
		}
	}
	return nil, nil, n
}

func allOffsets(c *cutCase) []int {
	out := make([]int, len(c.data))
	for i := range out {
		out[i] = i
	}
	return out
}

// nearBoundaries: every offset within 16 bytes of a frame start/header end/frame end, plus a stride sample.
func nearBoundaries(c *cutCase) []int {
	mark := map[int]bool{}
	add := func(x int) {
		for d := -16; d <= 16; d++ {
			if x+d >= 0 && x+d < len(c.data) {
				mark[x+d] = true
			}
		}
	}
	for k := range c.start {
		add(c.start[k])
		add(c.hdrEnd[k])
		add(c.end[k])
	}
	for x := 0; x < len(c.data); x += 997 {
		mark[x] = true
	}
	var out []int
	for x := 0; x < len(c.data); x++ {
		if mark[x] {
			out = append(out, x)
		}
	}
	return out
}

func drawSide(t *rapid.T) (ws.State, bool) {
	switch rapid.IntRange(0, 4).Draw(t, "side") {
	case 0, 1:
		return ws.StateServerSide, true
	case 2, 3:
		return ws.StateClientSide, false
	}
	return 0, rapid.Bool().Draw(t, "masked")
}

// TestReaderCuts: random conversations, every offset.
func TestReaderCuts(t *testing.T) {
	hx.Check(t, 0.4, func(t *rapid.T) {
		state, masked := drawSide(t)
		frames := gen.Conversation(t, "conv", gen.ConvOpts{Masked: masked, MaxMsgs: 3, MaxPayload: 40, Close: true})
		chunkings := [][]int{nil, gen.Chunks(t, "chunks")}
		c, err, n := sweep(frames, state, chunkings, allOffsets)
		hx.EvalN(n)
		hx.Class(fmt.Sprintf("reader/frames=%d", min(len(frames), 8)))
		if err != nil {
			t.Fatalf("%v\ncase: %s", err, hx.JSON(c.describe()))
		}
	})
}

// TestReaderCutsBig: conversations with a ~70 KB message: offsets near every frame boundary plus a stride sample.
func TestReaderCutsBig(t *testing.T) {
	hx.Check(t, 0.02, func(t *rapid.T) {
		state, masked := drawSide(t)
		frames := gen.Message(t, "big", gen.ConvOpts{Masked: masked}, true)
		frames = append(frames, gen.Message(t, "small", gen.ConvOpts{Masked: masked, MaxPayload: 20}, false)...)
		c, err, n := sweep(frames, state, [][]int{nil}, nearBoundaries)
		hx.EvalN(n)
		hx.Class("reader/big")
		if err != nil {
			t.Fatalf("%v\ncase: %s", err, hx.JSON(c.describe()))
		}
	})
}

// TestReaderCutsSmallScope: every valid sequence of length <= depth over the small alphabet, every offset.
func TestReaderCutsSmallScope(t *testing.T) {
	depth := hx.Pick(2, 3)
	var total int64
	idx := 0
	failed := false
	ref.EnumerateValid(depth, func(seq []ref.Letter) {
		idx++
		if failed || !hx.Mine(idx) {
			return
		}
		for _, side := range []struct {
			st     ws.State
			masked bool
		}{{ws.StateServerSide, true}, {ws.StateClientSide, false}} {
			frames := ref.Build(seq, side.masked)
			c, err, n := sweep(frames, side.st, [][]int{nil, {1}}, allOffsets)
			total += int64(n)
			if err != nil {
				hx.Failf(t, c.describe(), "%v", err)
				failed = true
				return
			}
		}
	})
	hx.EvalN(int(total))
	hx.Part(fmt.Sprintf("reader: all valid sequences of length<=%d over the 24-letter alphabet x 2 sides x every cut offset x {EOF, error} x chunk{all,1} x 9 entry points", depth), total, true)
}

func min(a, b int) int {
	if a < b {
		return a
	}
	return b
}

// TestKnownFindings holds the regression probes of findings recorded in known_findings.json.
func TestKnownFindings(t *testing.T) {
	// [text fin=0 "ab"][ping "0123456789" cut after 4 payload bytes], server side.
	frames := []ref.Frame{
		{H: ref.Header{Op: ref.OpText, Masked: true, Mask: [4]byte{1, 2, 3, 4}}, Payload: []byte("ab")},
		{H: ref.Header{Fin: true, Op: ref.OpPing, Masked: true, Mask: [4]byte{5, 6, 7, 8}}, Payload: []byte("0123456789")},
	}
	data := ref.EncodeAll(frames)
	cut := data[:len(data)-6]
	present := false
	var detail string
	{
		var got []byte
		var gotErr error
		rd := &wsutil.Reader{Source: tx.NewSrc(cut, nil), State: ws.StateServerSide}
		rd.OnIntermediate = func(h ws.Header, r io.Reader) error {
			got, gotErr = io.ReadAll(r)
			return gotErr
		}
		if _, err := rd.NextFrame(); err == nil {
			io.ReadAll(rd)
		}
		if gotErr == nil && len(got) == 4 {
			present = true
			detail = "OnIntermediate read 4 of 10 announced bytes followed by a clean EOF"
		}
	}
	{
		rec := tx.NewRec()
		wsutil.ReadData(tx.RW{Reader: tx.NewSrc(cut, nil), Writer: rec}, ws.StateServerSide)
		if fs, _, _ := ref.ParseFrames(rec.Bytes()); len(fs) > 0 {
			present = true
			detail += fmt.Sprintf("; ReadData answered the cut ping with %d frame(s), first payload %q", len(fs), fs[0].Payload)
		}
	}
	hx.Probe(t, "C16/intermediate-control-cut-handed-as-short-payload",
		"an intermediate control frame cut mid-payload is handed to the control handler as a short clean payload: "+detail,
		present, map[string]interface{}{"frames": ref.Describe(frames), "cut": "6 bytes before the end of the ping payload"})
}

// TestReadFrameHugeCuts: frames larger than 1 MiB are read by ws.ReadFrame in growing
// chunks and by ReadMessage through a growing buffer; a stream that ends inside such a
// payload — in particular exactly at 1, 2, 4 MiB of payload — must end in a non-EOF error.
func TestReadFrameHugeCuts(t *testing.T) {
	const MiB = 1 << 20
	size := 4*MiB + MiB/2
	if !hx.Thorough() {
		size = 2*MiB + MiB/2
	}
	payload := gen.Filled(size, 3)
	n := 0
	for _, masked := range []bool{false, true} {
		f := ref.Frame{H: ref.Header{Fin: true, Op: ref.OpBinary, Masked: masked, Mask: [4]byte{1, 2, 3, 4}}, Payload: payload}
		data := f.Encode()
		hdr := len(data) - size
		state := ws.StateClientSide
		if masked {
			state = ws.StateServerSide
		}
		var cuts []int
		for _, base := range []int{0, MiB, 2 * MiB, 3 * MiB, 4 * MiB} {
			for _, d := range []int{-1, 0, 1} {
				if c := base + d; c >= 0 && c < size {
					cuts = append(cuts, c)
				}
			}
		}
		cuts = append(cuts, size-1)
		for _, cut := range cuts {
			for _, fault := range []error{io.EOF, tx.ErrInjected} {
				for _, entry := range []string{"ReadFrame", "ReadMessage"} {
					src := tx.NewSrc(nil, nil)
					src.Data = data[:hdr+cut] // no private copy of multi-megabyte streams
					src.End = fault
					var err error
					var got int
					if entry == "ReadFrame" {
						var fr ws.Frame
						fr, err = ws.ReadFrame(src)
						got = len(fr.Payload)
					} else {
						var ms []wsutil.Message
						ms, err = wsutil.ReadMessage(src, state, nil)
						got = len(ms)
					}
					n++
					desc := map[string]interface{}{"entry": entry, "frame_payload": size, "payload_bytes_before_cut": cut, "fault": fault.Error(), "masked": masked}
					hx.NonTrivial(hx.Hash("hugecut", entry, cut, fault == io.EOF, masked), func() interface{} { return desc })
					if err == nil {
						hx.Failf(t, desc, "%s reported success for a %d-byte frame cut after %d payload bytes (returned %d)", entry, size, cut, got)
						return
					}
					if err == io.EOF && cut > 0 {
						hx.Failf(t, desc, "%s reported a clean io.EOF for a %d-byte frame cut after %d payload bytes", entry, size, cut)
						return
					}
					if entry == "ReadMessage" && got != 0 {
						hx.Failf(t, desc, "ReadMessage returned %d messages together with the error for a cut frame", got)
						return
					}
				}
			}
		}
	}
	hx.EvalN(n)
	hx.Part("reader: one frame > 1 MiB cut at 0, 1, 2, 3, 4 MiB of payload (+-1) and one byte before its end x {EOF, error} x {ReadFrame, ReadMessage} x masked", int64(n), true)
}

// TestReadMessageControlBetweenFragments: a control frame between the fragments
// of a message - a Close included - does not end the message: if the stream
// stops anywhere before the final fragment is complete, ReadMessage (which
// collects control frames instead of acting on them) reports an error, never a
// message; the uncut stream yields the control messages and the whole message.
func TestReadMessageControlBetweenFragments(t *testing.T) {
	n := 0
	for _, masked := range []bool{false, true} {
		state := ws.StateClientSide
		if masked {
			state = ws.StateServerSide
		}
		mk := func(op byte, fin bool, k int, p []byte) ref.Frame {
			h := ref.Header{Fin: fin, Op: op, Masked: masked}
			if masked {
				h.Mask = [4]byte{byte(k), 0x3d, 0x52, 0x17}
			}
			return ref.Frame{H: h, Payload: p}
		}
		ctls := []ref.Frame{
			mk(ref.OpClose, true, 1, nil),
			mk(ref.OpClose, true, 2, []byte{0x03, 0xe8}),
			mk(ref.OpClose, true, 3, append([]byte{0x03, 0xe9}, "going away"...)),
			mk(ref.OpPing, true, 4, []byte("ping")),
			mk(ref.OpPong, true, 5, nil),
		}
		for ci, ctl := range ctls {
			for _, first := range [][]byte{[]byte("ab"), {}} {
				frames := []ref.Frame{mk(ref.OpText, false, 7, first), ctl, mk(ref.OpCont, false, 8, []byte("cd")), mk(ref.OpCont, true, 9, []byte("ef"))}
				wire := ref.EncodeAll(frames)
				want := string(first) + "cdef"
				for _, chunks := range [][]int{nil, {1}, {3}} {
					// uncut
					ms, err := wsutil.ReadMessage(tx.NewSrc(wire, chunks), state, nil)
					n++
					if err != nil || len(ms) != 2 || ms[0].OpCode != ws.OpCode(ctl.H.Op) || string(ms[0].Payload) != string(ctl.Payload) || string(ms[1].Payload) != want {
						hx.Failf(t, map[string]interface{}{"frames": ref.Describe(frames), "chunks": chunks}, "ReadMessage over the whole stream: err=%v messages=%v, want the control frame and %q", err, ms, want)
						return
					}
					for cut := 1; cut < len(wire); cut++ {
						for _, fault := range []error{io.EOF, tx.ErrInjected} {
							for _, withData := range []bool{false, true} {
								src := tx.NewSrc(wire[:cut], chunks)
								src.End, src.EOFWithData = fault, withData && fault == io.EOF
								ms, err := wsutil.ReadMessage(src, state, nil)
								n++
								desc := map[string]interface{}{"frames": ref.Describe(frames), "cut_at": cut, "of": len(wire), "ends_with": fmt.Sprint(fault), "chunks": chunks, "masked": masked}
								hx.NonTrivial(hx.Hash("ctl-between", ci, len(first), cut, fault == io.EOF, len(chunks), masked, withData), func() interface{} { return desc })
								if err == nil {
									hx.Failf(t, desc, "ReadMessage reported success (%d messages, last %q) although the stream stopped %d bytes before the end of the final fragment", len(ms), lastPayload(ms), len(wire)-cut)
									return
								}
							}
						}
					}
				}
			}
		}
	}
	hx.EvalN(n)
	hx.Part("ReadMessage: {close x3, ping, pong} between the fragments of a 3-fragment message x every cut offset x {EOF, EOF with data, error} x chunk{all,1,3} x masked", int64(n), true)
}

func lastPayload(ms []wsutil.Message) []byte {
	if len(ms) == 0 {
		return nil
	}
	return ms[len(ms)-1].Payload
}
