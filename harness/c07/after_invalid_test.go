package c07

import (
	"bytes"
	"fmt"
	"io"
	"testing"

	"github.com/gobwas/ws"
	"github.com/gobwas/ws/wsutil"

	"verif/harness/hx"
	"verif/harness/ref"
	"verif/harness/tx"
)

// TestMessageAfterInvalidOne: the verdict on a text message depends on that
// message alone. After a Reader with CheckUTF8 has reported an invalid text
// message, the next message on the same Reader is judged exactly as a new
// Reader judges it: valid text and binary messages are accepted, invalid ones
// refused. The caller moves on either with Discard() (always allowed) or, when
// the reader had taken the whole invalid message from the transport before it
// gave its verdict (the stream position is then exactly the start of the next
// frame), with NextFrame directly, as NextFrame's contract ("after receiving
// or discarding all current message bytes") allows.
func TestMessageAfterInvalidOne(t *testing.T) {
	type msg struct {
		op    byte
		parts [][]byte
	}
	invalids := []msg{
		{ref.OpText, [][]byte{[]byte("a\xe2\x82")}},                  // ends inside a sequence: verdict at the end of the message
		{ref.OpText, [][]byte{[]byte("\xf0\x9f\x98")}},               // the same, four-byte form
		{ref.OpText, [][]byte{[]byte("ab\xff")}},                     // rejected at the last byte
		{ref.OpText, [][]byte{[]byte("a\xffbcdefgh")}},               // rejected early, payload left over
		{ref.OpText, [][]byte{[]byte("a\xe2"), []byte("\x82")}},      // fragmented, still incomplete at the end
		{ref.OpText, [][]byte{[]byte("ok"), []byte("\xc0\xaf"), {}}}, // overlong in a later fragment
		{ref.OpText, [][]byte{[]byte("\xed\xa0\x80")}},               // surrogate
	}
	follows := []msg{
		{ref.OpBinary, [][]byte{{1, 2, 0xff, 0xfe}}},
		{ref.OpText, [][]byte{[]byte("ok")}},
		{ref.OpText, [][]byte{[]byte("h\xc3"), []byte("\xa9llo \xe2\x82\xac")}},
		{ref.OpText, [][]byte{[]byte("bad\x80")}},
		{ref.OpBinary, [][]byte{{}, {0x80}}},
		{ref.OpPing, [][]byte{[]byte("ping \xff payload")}}, // a control frame between messages is not text either
		{ref.OpPong, [][]byte{{}}},
	}
	build := func(m msg, masked bool, salt int) []ref.Frame {
		var fs []ref.Frame
		for i, p := range m.parts {
			h := ref.Header{Fin: i == len(m.parts)-1, Op: m.op, Masked: masked}
			if i > 0 {
				h.Op = ref.OpCont
			}
			if masked {
				h.Mask = [4]byte{byte(salt), 0x7c, byte(i), 0x19}
			}
			fs = append(fs, ref.Frame{H: h, Payload: p})
		}
		return fs
	}
	// readOne reads the next message from rd until its end or an error.
	readOne := func(rd *wsutil.Reader) (ws.OpCode, []byte, error) {
		h, err := rd.NextFrame()
		if err != nil {
			return 0, nil, err
		}
		var out []byte
		buf := make([]byte, 5)
		for idle := 0; idle < 64; {
			n, err := rd.Read(buf)
			if n < 0 || n > len(buf) {
				return h.OpCode, out, fmt.Errorf("Read returned n=%d for a %d-byte buffer (err=%v)", n, len(buf), err)
			}
			out = append(out, buf[:n]...)
			if err == io.EOF {
				return h.OpCode, out, nil
			}
			if err != nil {
				return h.OpCode, out, err
			}
			if n == 0 {
				idle++
			}
		}
		return h.OpCode, out, fmt.Errorf("harness: reader makes no progress")
	}
	n := 0
	for ii, inv := range invalids {
		for fi, fol := range follows {
			for _, masked := range []bool{false, true} {
				for _, chunks := range [][]int{nil, {1}, {3}} {
					state := ws.StateClientSide
					if masked {
						state = ws.StateServerSide
					}
					first := ref.EncodeAll(build(inv, masked, 1))
					second := ref.EncodeAll(build(fol, masked, 2))
					// what a new Reader makes of the follow-up message
					fresh := &wsutil.Reader{Source: tx.NewSrc(second, chunks), State: state, CheckUTF8: true}
					wantOp, wantData, wantErr := readOne(fresh)
					for _, mode := range []string{"Discard", "NextFrame"} {
						src := tx.NewSrc(append(append([]byte(nil), first...), second...), chunks)
						rd := &wsutil.Reader{Source: src, State: state, CheckUTF8: true}
						_, _, err := readOne(rd)
						desc := map[string]interface{}{"invalid_message": fmt.Sprintf("%q", inv.parts), "next_message": fmt.Sprintf("op=%d %q", fol.op, fol.parts), "masked": masked, "chunks": chunks, "caller_moves_on_with": mode}
						if err != wsutil.ErrInvalidUTF8 {
							hx.Failf(t, desc, "harness: the invalid text message was reported as %v", err)
							return
						}
						if mode == "Discard" {
							if err := rd.Discard(); err != nil {
								hx.Failf(t, desc, "Discard after the invalid message: %v", err)
								return
							}
						} else if src.Pos != len(first) {
							continue // part of the invalid message is still in the transport: only Discard may follow
						}
						n++
						hx.NonTrivial(hx.Hash("after-invalid", ii, fi, masked, len(chunks), mode), func() interface{} { return desc })
						gotOp, gotData, gotErr := readOne(rd)
						if gotOp != wantOp || gotErr != wantErr || !bytes.Equal(gotData, wantData) {
							hx.Failf(t, desc, "after an invalid text message the next message was read as op=%v %q err=%v; a new Reader reads it as op=%v %q err=%v", gotOp, gotData, gotErr, wantOp, wantData, wantErr)
							return
						}
					}
				}
			}
		}
	}
	hx.EvalN(n)
	hx.Part("message after an invalid text message: 7 invalid x 7 follow-ups (data and control) x masked x chunk{all,1,3} x {Discard, NextFrame when fully received}", int64(n), true)
}
