// C07 — text messages are accepted iff their whole payload is valid UTF-8.
//
// Oracle: the standard library's unicode/utf8 (Valid, FullRune, DecodeRune).
// Code under test: wsutil.UTF8Reader standalone, and the validating path of
// wsutil.Reader{CheckUTF8:true}, wsutil.ReadMessage and wsutil.ReadData.
package c07

import (
	"bytes"
	"fmt"
	"io"
	"testing"
	"unicode/utf8"

	"github.com/gobwas/ws"
	"github.com/gobwas/ws/wsutil"
	"pgregory.net/rapid"

	"verif/harness/gen"
	"verif/harness/hx"
	"verif/harness/ref"
	"verif/harness/tx"
)

func TestMain(m *testing.M) { hx.Main(m, "C07") }

// ---------------------------------------------------------------------------
// oracle helpers (std library only)

// prefixOfValid reports whether b can be extended to a valid UTF-8 string:
// a run of whole valid code points followed by nothing or by an incomplete
// sequence that is legal so far.
func prefixOfValid(b []byte) bool {
	for len(b) > 0 {
		if !utf8.FullRune(b) {
			return true
		}
		r, sz := utf8.DecodeRune(b)
		if r == utf8.RuneError && sz == 1 {
			return false
		}
		b = b[sz:]
	}
	return true
}

// lastBoundary is the length of the longest prefix of b made of whole valid
// code points, provided b is a prefix of a valid string.
func lastBoundary(b []byte) int {
	n := 0
	for n < len(b) && utf8.FullRune(b[n:]) {
		_, sz := utf8.DecodeRune(b[n:])
		n += sz
	}
	return n
}

func hasMultibyte(b []byte) bool {
	for _, c := range b {
		if c >= 0x80 {
			return true
		}
	}
	return false
}

var coverTail = []byte{0x00, 0x7F, 0x80, 0x8F, 0x90, 0x9F, 0xA0, 0xBF, 0xC0, 0xFF}

// The harness' own helper against brute force: b is a prefix of a valid
// string iff some extension by at most three continuation bytes is valid.
func TestOracleSelfCheck(t *testing.T) {
	ext := []byte{0x80, 0x8F, 0x90, 0x9F, 0xA0, 0xBF}
	brute := func(b []byte) bool {
		if utf8.Valid(b) {
			return true
		}
		buf := append([]byte(nil), b...)
		for _, x := range ext {
			b1 := append(buf, x)
			if utf8.Valid(b1) {
				return true
			}
			for _, y := range ext {
				b2 := append(b1, y)
				if utf8.Valid(b2) {
					return true
				}
				for _, z := range ext {
					if utf8.Valid(append(b2, z)) {
						return true
					}
				}
			}
		}
		return false
	}
	check := func(b []byte) bool {
		if prefixOfValid(b) != brute(b) {
			hx.Failf(t, fmt.Sprintf("%x", b), "harness helper prefixOfValid(%x)=%v disagrees with brute force", b, prefixOfValid(b))
			return false
		}
		return true
	}
	for i := 0; i < 256; i++ {
		if !check([]byte{byte(i)}) {
			return
		}
		for j := 0; j < 256; j++ {
			if !check([]byte{byte(i), byte(j)}) {
				return
			}
		}
		for _, j := range coverTail {
			for _, k := range coverTail {
				if !check([]byte{byte(i), j, k}) || !check([]byte{'a', byte(i), j, k}) {
					return
				}
			}
		}
	}
}

// ---------------------------------------------------------------------------
// standalone UTF8Reader

type saCase struct {
	Bytes  string `json:"bytes_hex"`
	Chunks []int  `json:"src_chunks,omitempty"`
	Bufs   []int  `json:"read_buffers"`
	EOFWD  bool   `json:"eof_with_data,omitempty"`
}

// stats of one standalone run, for class labels.
type saStats struct {
	rejected   bool // a read returned ErrInvalidUTF8
	lateReject bool // an error-free read left a definitely-invalid prefix behind (Valid()==false)
	midOpen    int  // error-free reads that ended inside a sequence (Accepted() left open)
	midAtBound int  // ... of which Accepted() equalled the last code-point boundary of that read
}

// driveUTF8 feeds everything src still holds through u with the given read
// buffer sizes and applies the oracle after every Read. s is what src serves.
func driveUTF8(u *wsutil.UTF8Reader, src *tx.Src, s []byte, bufs []int, st *saStats) string {
	start := src.Pos
	maxb := 0
	for _, b := range bufs {
		if b > maxb {
			maxb = b
		}
	}
	buf := make([]byte, maxb)
	stall := 0
	for i := 0; ; i++ {
		p := buf[:bufs[i%len(bufs)]]
		before := src.Pos
		n, err := u.Read(p)
		seen := s[start:src.Pos]
		if n < 0 || n > len(p) {
			return fmt.Sprintf("Read returned n=%d for a %d-byte buffer", n, len(p))
		}
		if err == wsutil.ErrInvalidUTF8 {
			if prefixOfValid(seen) {
				return fmt.Sprintf("Read reported ErrInvalidUTF8 after %x, which is a prefix of a valid string", seen)
			}
			st.rejected = true
			// Looking again after the verdict: invalid bytes were read, so Valid() is false
			// now and stays false however the rest of the source is read; the reader must
			// never end up "clean EOF and valid".
			if u.Valid() {
				return fmt.Sprintf("Valid()=true right after Read reported ErrInvalidUTF8 (bytes seen %x)", seen)
			}
			for k := 0; k < len(s)+4; k++ {
				_, err := u.Read(p)
				if u.Valid() {
					return fmt.Sprintf("Valid()=true after reading on behind an ErrInvalidUTF8 (bytes seen %x, last error %v)", s[start:src.Pos], err)
				}
				if err != nil && err != wsutil.ErrInvalidUTF8 {
					break
				}
			}
			return ""
		}
		if err != nil && err != io.EOF {
			return fmt.Sprintf("unexpected error %v after %x", err, seen)
		}
		if n != src.Pos-before || !bytes.Equal(p[:n], s[before:src.Pos]) {
			return fmt.Sprintf("Read returned %d bytes %x, source delivered %x", n, p[:n], s[before:src.Pos])
		}
		want := utf8.Valid(seen)
		if got := u.Valid(); got != want {
			return fmt.Sprintf("after error-free reads of %x: Valid()=%v, unicode/utf8 says %v", seen, got, want)
		}
		if !want && !prefixOfValid(seen) {
			st.lateReject = true
		}
		a := u.Accepted()
		if a < 0 || a > n {
			return fmt.Sprintf("Accepted()=%d after a Read of %d bytes", a, n)
		}
		if want && a != n {
			return fmt.Sprintf("Accepted()=%d after a Read of %d bytes that ends valid text %x", a, n, seen)
		}
		if !want && prefixOfValid(seen) {
			// Read ended inside a sequence: the doc comment does not pin the value down.
			st.midOpen++
			lb := lastBoundary(seen) - (before - start)
			if lb < 0 {
				lb = 0
			}
			if a == lb {
				st.midAtBound++
			}
		}
		if err == io.EOF {
			if src.Pos != len(s) {
				return fmt.Sprintf("EOF after %d of %d bytes", src.Pos, len(s))
			}
			return ""
		}
		if n == 0 {
			if stall++; stall > 4 {
				return "Read keeps returning (0, nil)"
			}
		}
	}
}

func checkStandalone(s []byte, chunks, bufs []int, eofWD bool, st *saStats) string {
	src := tx.NewSrc(s, chunks)
	src.EOFWithData = eofWD
	return driveUTF8(wsutil.NewUTF8Reader(src), src, s, bufs, st)
}

var (
	wholeBufs = []int{64}
	byteBufs  = []int{1}
)

func noteStandalone(s []byte, mode string) {
	hx.NonTrivial(hx.Hash("sa", s, mode), func() interface{} {
		return map[string]interface{}{"kind": "standalone", "bytes_hex": fmt.Sprintf("%x", s), "reads": mode, "valid": utf8.Valid(s)}
	})
}

// both feeds the string whole and in 1-byte reads.
func standaloneBoth(t *testing.T, s []byte, agg *saStats) bool {
	for _, bufs := range [][]int{wholeBufs, byteBufs} {
		var st saStats
		if msg := checkStandalone(s, nil, bufs, false, &st); msg != "" {
			hx.Failf(t, saCase{Bytes: fmt.Sprintf("%x", s), Bufs: bufs}, "UTF8Reader: %s", msg)
			return false
		}
		agg.midOpen += st.midOpen
		agg.midAtBound += st.midAtBound
		if st.lateReject {
			agg.lateReject = true
		}
	}
	return true
}

// Every byte string of length <= 2 (quick) / <= 3 (thorough), whole and in 1-byte reads.
func TestUTF8ExhaustiveShort(t *testing.T) {
	maxLen := hx.Pick(2, 3)
	var agg saStats
	n := 0
	var valid, invalid int
	one := func(s []byte) bool {
		n++
		if utf8.Valid(s) {
			valid++
		} else {
			invalid++
		}
		if len(s) == 2 && s[0] >= 0xC2 && prefixOfValid(s) {
			noteStandalone(s, "1-byte")
		}
		return standaloneBoth(t, s, &agg)
	}
	if hx.Mine(0) && !one(nil) {
		return
	}
	for a := 0; a < 256; a++ {
		if !hx.Mine(a) {
			continue
		}
		if !one([]byte{byte(a)}) {
			return
		}
		for b := 0; b < 256; b++ {
			if !one([]byte{byte(a), byte(b)}) {
				return
			}
			if maxLen < 3 {
				continue
			}
			for c := 0; c < 256; c++ {
				if !one([]byte{byte(a), byte(b), byte(c)}) {
					return
				}
			}
		}
	}
	hx.EvalN(2 * n)
	hx.Part(fmt.Sprintf("standalone UTF8Reader: every byte string of length <= %d, whole and in 1-byte reads", maxLen), int64(n), true)
	// histogram in bulk (one Class call per case would dominate the run time)
	bulk("standalone/exhaustive/valid", valid)
	bulk("standalone/exhaustive/invalid", invalid)
	flushAggBulk(&agg)
}

// bulk adds n to a class; hx has no bulk API, so large enumerations are
// reported with a scale suffix instead of n calls.
func bulk(label string, n int) {
	if n <= 0 {
		return
	}
	if n <= 2000 {
		for i := 0; i < n; i++ {
			hx.Class(label)
		}
		return
	}
	for i := 0; i < n/1000; i++ {
		hx.Class(label + " (x1000)")
	}
}

func flushAggBulk(agg *saStats) {
	bulk("open/standalone/accepted-inside-sequence=last-boundary", agg.midAtBound)
	bulk("open/standalone/accepted-inside-sequence=other", agg.midOpen-agg.midAtBound)
	if agg.lateReject {
		hx.Class("open/standalone/invalid-prefix-not-rejected-at-once")
	}
}

// Structured cover of longer strings: every lead byte x boundary continuation
// values in the three following positions; also with an ASCII byte in front
// (sequence not aligned with the start of the read).
func TestUTF8Cover4(t *testing.T) {
	var agg saStats
	n := 0
	for a := 0; a < 256; a++ {
		if !hx.Mine(a) {
			continue
		}
		for _, b := range coverTail {
			for _, c := range coverTail {
				for _, d := range coverTail {
					s := []byte{byte(a), b, c, d}
					n++
					if utf8.Valid(s) && a >= 0xC2 {
						noteStandalone(s, "1-byte")
					}
					if !standaloneBoth(t, s, &agg) {
						return
					}
					if hx.Thorough() {
						n++
						if !standaloneBoth(t, append([]byte{'x'}, s...), &agg) {
							return
						}
					}
				}
			}
		}
	}
	hx.EvalN(2 * n)
	hx.Part("standalone UTF8Reader: 256 lead bytes x {00,7F,80,8F,90,9F,A0,BF,C0,FF}^3, whole and in 1-byte reads", int64(n), true)
	flushAggBulk(&agg)
}

// ---------------------------------------------------------------------------
// class-exhaustive enumerations, driven by the definition of UTF-8

// The byte ranges the standard distinguishes (Unicode table 3-7 plus the bytes
// that never occur).
var utf8Ranges = [][2]byte{{0x00, 0x7F}, {0x80, 0x8F}, {0x90, 0x9F}, {0xA0, 0xBF}, {0xC0, 0xC1}, {0xC2, 0xDF}, {0xE0, 0xE0},
	{0xE1, 0xEC}, {0xED, 0xED}, {0xEE, 0xEF}, {0xF0, 0xF0}, {0xF1, 0xF3}, {0xF4, 0xF4}, {0xF5, 0xFF}}

// repsBoth: both boundary bytes of every range; repsOne: one byte per range.
func repsBoth() []byte {
	var r []byte
	for _, x := range utf8Ranges {
		r = append(r, x[0])
		if x[1] != x[0] {
			r = append(r, x[1])
		}
	}
	return r
}

func repsOne() []byte {
	r := make([]byte, len(utf8Ranges))
	for i, x := range utf8Ranges {
		r[i] = x[0]
	}
	r[0] = 'a'
	return r
}

// enumerate calls fn with every string of length 1..maxLen over alpha whose
// first letter index belongs to this shard. The slice is reused.
func enumerate(alpha []byte, maxLen int, fn func(s []byte, index int) bool) bool {
	buf := make([]byte, maxLen)
	index := 0
	var rec func(depth int) bool
	rec = func(depth int) bool {
		for li, b := range alpha {
			if depth == 0 && !hx.Mine(li) {
				continue
			}
			buf[depth] = b
			index++
			if !fn(buf[:depth+1], index) {
				return false
			}
			if depth+1 < maxLen && !rec(depth+1) {
				return false
			}
		}
		return true
	}
	return rec(0)
}

// Quick: all strings of length <= 4 over both boundary bytes of every range
// (24 letters); thorough: also all strings of length <= 6 over one byte per
// range (14 letters). Standalone in one Read and in 1-byte reads; every tenth
// string also as a text message through Reader and ReadMessage.
func TestUTF8ClassExhaustive(t *testing.T) {
	var agg saStats
	var st convStats
	n, nmsg := 0, 0
	one := func(s []byte, index int) bool {
		n++
		if !standaloneBoth(t, s, &agg) {
			return false
		}
		if index%10 != 0 {
			return true
		}
		p := append([]byte(nil), s...)
		for v := 0; v < 4; v++ {
			run := convRun{server: v&1 != 0, entry: []int{entryReader, entryReadMessage}[v>>1], extended: (index/10)&1 == 1}
			var cuts []int
			if index%20 == 0 && len(p) > 1 {
				cuts = []int{len(p) / 2}
			}
			run.frames = fragment(ref.OpText, p, cuts, run.server, index, nil)
			nmsg++
			if msg := runConversation(run, &st); msg != "" {
				hx.Failf(t, run.desc(), "%s", msg)
				return false
			}
		}
		return true
	}
	both := repsBoth()
	if !enumerate(both, 4, one) {
		return
	}
	name := fmt.Sprintf("class-exhaustive: all strings of length <= 4 over the %d boundary bytes of the 14 UTF-8 byte ranges", len(both))
	if hx.Thorough() {
		if !enumerate(repsOne(), 6, one) {
			return
		}
		name += ", and of length <= 6 over one byte per range"
	}
	hx.EvalN(2*n + nmsg)
	hx.Part(name+" (standalone whole + 1-byte reads; every tenth as a message)", int64(n), true)
	classesFromStats("message/class-exhaustive", &st)
	flushAggBulk(&agg)
}

type oneByteSrc struct {
	b    byte
	done bool
}

func (s *oneByteSrc) Read(p []byte) (int, error) {
	if s.done || len(p) == 0 {
		return 0, io.EOF
	}
	s.done = true
	p[0] = s.b
	return 1, nil
}

// The whole tree of strings over the boundary bytes up to length 7 (9 in the
// thorough tier), fed byte by byte, with the oracle applied at every node. A
// branch ends where the reader reports ErrInvalidUTF8 (it is not used after
// that, and the report is checked to be justified, which makes every extension
// invalid as well); every other branch is followed to the full depth, so a
// reader that fails to reject is followed into whatever it accepts later.
func TestUTF8PrefixTree(t *testing.T) {
	alpha := repsBoth()
	maxLen := hx.Pick(7, 9)
	nodes, rejected, late := 0, 0, 0
	prefix := make([]byte, 0, maxLen)
	var buf [1]byte
	var walk func(u wsutil.UTF8Reader) bool
	walk = func(u wsutil.UTF8Reader) bool {
		for li, b := range alpha {
			if len(prefix) == 0 && !hx.Mine(li) {
				continue
			}
			next := u // the reader is a plain value: state after the prefix
			next.Source = &oneByteSrc{b: b}
			seen := append(prefix, b)
			nodes++
			n, err := next.Read(buf[:])
			fail := ""
			switch {
			case err == wsutil.ErrInvalidUTF8:
				if prefixOfValid(seen) {
					fail = "ErrInvalidUTF8 on a prefix of a valid string"
				} else if next.Valid() {
					fail = "Valid()=true right after Read reported ErrInvalidUTF8"
				}
				rejected++
			case err != nil || n != 1 || buf[0] != b:
				fail = fmt.Sprintf("Read returned (%d, %v), byte %#x", n, err, buf[0])
			case next.Valid() != utf8.Valid(seen):
				fail = fmt.Sprintf("Valid()=%v, unicode/utf8 says %v", next.Valid(), utf8.Valid(seen))
			case next.Accepted() < 0 || next.Accepted() > 1 || (utf8.Valid(seen) && next.Accepted() != 1):
				fail = fmt.Sprintf("Accepted()=%d after a 1-byte Read, valid so far: %v", next.Accepted(), utf8.Valid(seen))
			}
			if fail != "" {
				hx.Failf(t, saCase{Bytes: fmt.Sprintf("%x", seen), Bufs: byteBufs}, "UTF8Reader fed byte by byte: %s", fail)
				return false
			}
			if err != nil {
				continue
			}
			if !prefixOfValid(seen) {
				late++
			}
			if len(seen) == 3 && seen[0] >= 0xC2 && utf8.Valid(seen) {
				noteStandalone(seen, "prefix-tree")
			}
			if len(seen) < maxLen {
				prefix = seen
				ok := walk(next)
				prefix = prefix[:len(seen)-1]
				if !ok {
					return false
				}
			}
		}
		return true
	}
	if !walk(wsutil.UTF8Reader{}) {
		return
	}
	hx.EvalN(nodes)
	hx.Part(fmt.Sprintf("prefix tree: every string of length <= %d over the boundary bytes of the 14 UTF-8 byte ranges, byte by byte, branches cut where the reader reports an error", maxLen), int64(nodes), true)
	bulk("standalone/prefix-tree/rejected-branches", rejected)
	bulk("open/standalone/invalid-prefix-not-rejected-at-once", late)
}

// ---------------------------------------------------------------------------
// piece generator

var boundaryRunes = []rune{0x00, 0x41, 0x7f, 0x80, 0xe9, 0x7ff, 0x800, 0xfff, 0x1000, 0x20ac, 0xcfff, 0xd000, 0xd7ff,
	0xe000, 0xfffd, 0xffff, 0x10000, 0x1f600, 0x3ffff, 0x40000, 0xfffff, 0x100000, 0x10ffff}

func drawRune(t *rapid.T, label string) rune {
	if rapid.Bool().Draw(t, label+".b") {
		return rapid.SampledFrom(boundaryRunes).Draw(t, label+".br")
	}
	for {
		var r rune
		switch rapid.IntRange(1, 4).Draw(t, label+".w") {
		case 1:
			r = rune(rapid.IntRange(0, 0x7f).Draw(t, label+".r"))
		case 2:
			r = rune(rapid.IntRange(0x80, 0x7ff).Draw(t, label+".r"))
		case 3:
			r = rune(rapid.IntRange(0x800, 0xffff).Draw(t, label+".r"))
		default:
			r = rune(rapid.IntRange(0x10000, 0x10ffff).Draw(t, label+".r"))
		}
		if r < 0xd800 || r > 0xdfff {
			return r
		}
	}
}

func drawCont(t *rapid.T, label string) byte {
	if rapid.Bool().Draw(t, label+".cb") {
		return rapid.SampledFrom([]byte{0x80, 0x8f, 0x90, 0x9f, 0xa0, 0xbf}).Draw(t, label+".c")
	}
	return byte(rapid.IntRange(0x80, 0xbf).Draw(t, label+".c"))
}

var badKinds = []string{"overlong2", "overlong3", "overlong4", "surrogate", "toobig", "badlead", "lonecont", "truncated", "badcont"}

// badPiece draws one ill-formed byte sequence of the given kind.
func badPiece(t *rapid.T, label, kind string) []byte {
	switch kind {
	case "overlong2":
		return []byte{byte(rapid.IntRange(0xc0, 0xc1).Draw(t, label+".l")), drawCont(t, label)}
	case "overlong3":
		return []byte{0xe0, byte(rapid.IntRange(0x80, 0x9f).Draw(t, label+".2")), drawCont(t, label)}
	case "overlong4":
		return []byte{0xf0, byte(rapid.IntRange(0x80, 0x8f).Draw(t, label+".2")), drawCont(t, label), drawCont(t, label)}
	case "surrogate":
		return []byte{0xed, byte(rapid.IntRange(0xa0, 0xbf).Draw(t, label+".2")), drawCont(t, label)}
	case "toobig":
		if rapid.Bool().Draw(t, label+".f4") {
			return []byte{0xf4, byte(rapid.IntRange(0x90, 0xbf).Draw(t, label+".2")), drawCont(t, label), drawCont(t, label)}
		}
		return []byte{byte(rapid.IntRange(0xf5, 0xf7).Draw(t, label+".l")), drawCont(t, label), drawCont(t, label), drawCont(t, label)}
	case "badlead":
		return []byte{byte(rapid.IntRange(0xf8, 0xff).Draw(t, label+".l"))}
	case "lonecont":
		return []byte{drawCont(t, label)}
	case "truncated":
		r := drawRune(t, label)
		for r < 0x80 {
			r = rapid.SampledFrom(boundaryRunes[3:]).Draw(t, label+".mb")
		}
		e := utf8.AppendRune(nil, r)
		return e[:rapid.IntRange(1, len(e)-1).Draw(t, label+".keep")]
	default: // badcont: one continuation byte replaced by a non-continuation byte
		r := drawRune(t, label)
		for r < 0x80 {
			r = rapid.SampledFrom(boundaryRunes[3:]).Draw(t, label+".mb")
		}
		e := utf8.AppendRune(nil, r)
		i := rapid.IntRange(1, len(e)-1).Draw(t, label+".at")
		if rapid.Bool().Draw(t, label+".hi") {
			e[i] = byte(rapid.IntRange(0xc0, 0xff).Draw(t, label+".x"))
		} else {
			e[i] = byte(rapid.IntRange(0x00, 0x7f).Draw(t, label+".x"))
		}
		return e
	}
}

// pieces draws a byte string of at most max bytes made of well-formed code
// points with, in about half of the cases, one or more ill-formed pieces.
// Signature matches gen.ConvOpts.Text.
func pieces(t *rapid.T, label string, max int) []byte {
	b, _ := piecesK(t, label, max)
	return b
}

func piecesK(t *rapid.T, label string, max int) (b []byte, kind string) {
	n := rapid.IntRange(0, 12).Draw(t, label+".n")
	mode := rapid.IntRange(0, 9).Draw(t, label+".mode") // 0-4 clean, 5-8 one bad piece, 9 several
	badAt := -1
	kind = "clean"
	if mode >= 5 && mode <= 8 {
		badAt = rapid.IntRange(0, n).Draw(t, label+".badat")
	}
	for i := 0; i <= n; i++ {
		var p []byte
		bad := i == badAt || (mode == 9 && rapid.IntRange(0, 2).Draw(t, label+".bad?") == 0)
		if bad {
			k := rapid.SampledFrom(badKinds).Draw(t, label+".kind")
			p = badPiece(t, label+".p", k)
			if kind == "clean" {
				kind = k
			} else {
				kind = "several"
			}
		} else if i < n {
			p = utf8.AppendRune(nil, drawRune(t, label+".p"))
		}
		if len(b)+len(p) > max {
			break
		}
		b = append(b, p...)
	}
	return b, kind
}

func TestUTF8Random(t *testing.T) {
	hx.Check(t, 10, func(t *rapid.T) {
		s, kind := piecesK(t, "s", 64)
		if rapid.Bool().Draw(t, "asciirun?") {
			run := make([]byte, rapid.IntRange(1, 40).Draw(t, "asciirun"))
			for i := range run {
				run[i] = 'a' + byte(i%26)
			}
			s = append(run, s...)
		}
		chunks := gen.Chunks(t, "chunks")
		bufs := rapid.SliceOfN(rapid.IntRange(1, 12), 1, 6).Draw(t, "bufs")
		if rapid.IntRange(0, 2).Draw(t, "bigbuf?") == 0 {
			bufs = []int{rapid.SampledFrom([]int{16, 32, 64, 256}).Draw(t, "bigbuf")}
		}
		eofWD := rapid.Bool().Draw(t, "eofwd")
		hx.Eval()
		valid := utf8.Valid(s)
		var st saStats
		if msg := checkStandalone(s, chunks, bufs, eofWD, &st); msg != "" {
			t.Fatalf("UTF8Reader: %s\nbytes=%x chunks=%v bufs=%v eofWithData=%v", msg, s, chunks, bufs, eofWD)
		}
		hx.Class(fmt.Sprintf("standalone/random/%s/valid=%v/rejected-by-read=%v", kind, valid, st.rejected))
		if st.midOpen > 0 {
			if st.midAtBound == st.midOpen {
				hx.Class("open/standalone/accepted-inside-sequence=last-boundary")
			} else {
				hx.Class("open/standalone/accepted-inside-sequence=other")
			}
		}
		if st.lateReject {
			hx.Class("open/standalone/invalid-prefix-not-rejected-at-once")
		}
		if st.midOpen > 0 {
			hx.NonTrivial(hx.Hash("sa-rand", s, fmt.Sprint(chunks), fmt.Sprint(bufs)), func() interface{} {
				return map[string]interface{}{"kind": "standalone-random", "bytes_hex": fmt.Sprintf("%x", s), "src_chunks": chunks, "read_buffers": bufs, "valid": valid}
			})
		}

		// Reset: a reader that did not fail behaves like a new one on the next source.
		if !st.rejected && rapid.Bool().Draw(t, "reset") {
			s2, _ := piecesK(t, "s2", 24)
			src := tx.NewSrc(s, nil)
			u := wsutil.NewUTF8Reader(src)
			var st1 saStats
			if msg := driveUTF8(u, src, s, bufs, &st1); msg != "" || st1.rejected {
				t.Fatalf("second run over the same bytes differs: %q rejected=%v", msg, st1.rejected)
			}
			src2 := tx.NewSrc(s2, chunks)
			u.Reset(src2)
			var st2 saStats
			if msg := driveUTF8(u, src2, s2, bufs, &st2); msg != "" {
				t.Fatalf("UTF8Reader after Reset: %s\nfirst=%x second=%x", msg, s, s2)
			}
			hx.Class(fmt.Sprintf("standalone/reset/first-valid=%v/second-valid=%v", valid, utf8.Valid(s2)))
		}
	})
}

// ---------------------------------------------------------------------------
// through the message reader

const (
	entryReader = iota
	entryReadMessage
	entryReadData
	numEntries
)

var entryNames = [...]string{"Reader", "ReadMessage", "ReadData"}

type convRun struct {
	frames  []ref.Frame
	server  bool // the reading endpoint is a server (frames are masked)
	entry   int
	chunks  []int
	bufs    []int // read buffer sizes (entryReader)
	eofWD   bool
	discard map[int]int // entryReader: message index -> read that many bytes, then Discard()
	// entryReader: Reader.OnContinuation. contNil: not set; contNoop: set, reads nothing; k >= 1: reads the
	// first k bytes of every continuation body with io.ReadFull (contAll: the whole body).
	cont int
	// entryReader: indices (>= 1) of frames at whose first byte the transport returns
	// (0, tx.ErrTransient) once - a read deadline firing between two frames; the reading
	// loop retries. Never combined with discard.
	stall []int
	// entryReader: Reader.OnIntermediate. interNil: not set; interAll: reads the control
	// payload to the end; interNone: returns at once (looks at the header only);
	// interHalf: reads half of the payload. The reader must skip what is left itself.
	inter int
	// extended: the reading side's state carries ws.StateExtended (an extension was
	// negotiated); the frames keep their RSV bits clear, i.e. plain uncompressed messages.
	extended bool
}

const (
	interNil = iota
	interAll
	interNone
	interHalf
	numInter
)

const (
	contNil  = 0
	contNoop = -1
	contAll  = 1 << 20
)

var contModes = []int{contNil, contNoop, 1, 2, 3, contAll}

type convCase struct {
	Frames  []string    `json:"frames"`
	Server  bool        `json:"reader_is_server"`
	Entry   string      `json:"entry"`
	Chunks  []int       `json:"src_chunks,omitempty"`
	Bufs    []int       `json:"read_buffers,omitempty"`
	EOFWD   bool        `json:"eof_with_data,omitempty"`
	Discard map[int]int `json:"discard_after,omitempty"`
	Cont    int         `json:"on_continuation_reads,omitempty"`
	Stall   []int       `json:"transient_error_before_frames,omitempty"`
	Inter   int         `json:"on_intermediate_mode,omitempty"`
	Ext     bool        `json:"state_extended,omitempty"`
}

func (c convRun) desc() convCase {
	return convCase{ref.Describe(c.frames), c.server, entryNames[c.entry], c.chunks, c.bufs, c.eofWD, c.discard, c.cont, c.stall, c.inter, c.extended}
}

type convStats struct {
	delivered, rejectedEarly, rejectedAtEnd, discarded int
	retries                                            int // reads retried after tx.ErrTransient
	lookedAgain                                        int // invalid messages on which Read was called again after ErrInvalidUTF8
	stayedFailed                                       int // open: after a transient error the reader ended with a transport-type error
}

func isData(op ws.OpCode) bool { return op == ws.OpText || op == ws.OpBinary }

// runConversation plays a valid frame stream into one entry point and checks
// every data message against unicode/utf8. It returns "" or the violation.
func runConversation(c convRun, st *convStats) string {
	wire := ref.EncodeAll(c.frames)
	end := make([]int, len(c.frames))
	off := 0
	for i, f := range c.frames {
		off += len(f.Encode())
		end[i] = off
	}
	state := ws.StateClientSide
	if c.server {
		state = ws.StateServerSide
	}
	if c.extended {
		state = state.Set(ws.StateExtended)
	}
	src := tx.NewSrc(wire, c.chunks)
	src.EOFWithData = c.eofWD
	if len(c.stall) > 0 {
		src.StallAt = map[int]bool{}
		for _, i := range c.stall {
			src.StallAt[end[i-1]] = true // first byte of frame i
		}
	}
	maxRetry := 2*len(c.stall) + 2
	retried := 0
	rec := tx.NewRec()
	rd := &wsutil.Reader{Source: src, State: state, CheckUTF8: true}
	// Bytes the OnContinuation handler takes from a continuation body are logged
	// in stream order together with the bytes Read delivers: the handler runs
	// when the Reader moves on to that frame, i.e. after everything before it
	// was delivered. Validity is judged on all bytes of the message, whoever
	// consumed them.
	if c.inter != interNil {
		rd.OnIntermediate = func(h ws.Header, body io.Reader) error {
			k := int(h.Length)
			switch c.inter {
			case interNone:
				return nil
			case interHalf:
				k /= 2
			}
			_, err := io.ReadFull(body, make([]byte, k))
			return err
		}
	}
	var sink *[]byte
	if c.cont != contNil {
		rd.OnContinuation = func(h ws.Header, body io.Reader) error {
			if c.cont == contNoop {
				return nil
			}
			k := c.cont
			if int64(k) > h.Length {
				k = int(h.Length)
			}
			p := make([]byte, k)
			n, err := io.ReadFull(body, p)
			if err == io.EOF || err == io.ErrUnexpectedEOF {
				err = nil
			}
			if sink != nil {
				*sink = append(*sink, p[:n]...)
			}
			return err
		}
	}
	bufs := c.bufs
	if len(bufs) == 0 {
		bufs = []int{512}
	}
	maxIdle := 2*len(c.frames) + 4

	// The side-fixed wrappers (ReadClientMessage, ReadServerData, Read{Client,Server}{Text,Binary}, ...)
	// are the same entry points with the state filled in: used for half of the plain-state cases.
	sideAPI := !c.extended && len(wire)&1 == 1
	nData := 0
	for _, e := range ref.Events(c.frames) {
		if e.Kind == "msg" {
			nData++
		}
	}
	mi := -1
	for _, e := range ref.Events(c.frames) {
		if e.Kind != "msg" {
			continue
		}
		mi++
		text := e.Op == ref.OpText
		valid := !text || utf8.Valid(e.Payload)
		msgEnd := end[e.At]
		what := fmt.Sprintf("message %d (op=%#x payload=%x, utf8.Valid=%v)", mi, e.Op, e.Payload, utf8.Valid(e.Payload))

		var data []byte
		sink = &data
		var op ws.OpCode
		var err error // nil: delivered as complete
		discarded := false
		fromDiscard := false

		switch c.entry {
		case entryReader:
			var hdr ws.Header
			for {
				hdr, err = rd.NextFrame()
				if err == tx.ErrTransient && retried < maxRetry {
					retried++
					st.retries++
					continue
				}
				if err != nil {
					return fmt.Sprintf("%s: NextFrame failed on a valid stream: %v", what, err)
				}
				if !hdr.OpCode.IsControl() {
					break
				}
				if err = rd.Discard(); err != nil {
					return fmt.Sprintf("%s: Discard of a top-level control frame failed: %v", what, err)
				}
			}
			op = hdr.OpCode
			limit, partial := c.discard[mi]
			idle := 0
			buf := make([]byte, 512)
		read:
			for i := 0; ; i++ {
				if partial && len(data) >= limit {
					// Discard walks the remaining frames; a reading OnContinuation handler may
					// meet the ill-formed bytes there, which is a legitimate rejection. Any
					// failure is judged below like a failed Read.
					if err = rd.Discard(); err == nil {
						discarded = true
					}
					fromDiscard = true
					break read
				}
				p := buf[:bufs[i%len(bufs)]]
				if partial {
					p = buf[:1]
				}
				var n int
				n, err = rd.Read(p)
				if n < 0 || n > len(p) {
					return fmt.Sprintf("%s: Read returned n=%d for a %d-byte buffer", what, n, len(p))
				}
				data = append(data, p[:n]...)
				switch {
				case err == io.EOF:
					err = nil
					break read
				case err == tx.ErrTransient && n == 0 && retried < maxRetry:
					// nothing of the next frame was consumed: the caller tries again
					retried++
					st.retries++
				case err != nil:
					break read
				case n == 0:
					if idle++; idle > maxIdle {
						return fmt.Sprintf("%s: Read returned (0, nil) %d times", what, idle)
					}
				}
			}
		case entryReadMessage:
			for {
				var msgs []wsutil.Message
				switch {
				case !sideAPI:
					msgs, err = wsutil.ReadMessage(src, state, nil)
				case c.server:
					msgs, err = wsutil.ReadClientMessage(src, nil)
				default:
					msgs, err = wsutil.ReadServerMessage(src, nil)
				}
				if err != nil {
					for _, m := range msgs {
						if isData(m.OpCode) {
							return fmt.Sprintf("%s: ReadMessage failed with %v but returned a data message %x", what, err, m.Payload)
						}
					}
					break
				}
				if len(msgs) == 0 {
					return fmt.Sprintf("%s: ReadMessage returned no message and no error", what)
				}
				last := msgs[len(msgs)-1]
				if isData(last.OpCode) {
					data, op = last.Payload, last.OpCode
					break
				}
			}
		case entryReadData:
			rw := tx.RW{Reader: src, Writer: rec}
			switch {
			case !sideAPI:
				data, op, err = wsutil.ReadData(rw, state)
			case nData == 1 && len(wire)%4 == 3 && c.server && text:
				data, err = wsutil.ReadClientText(rw)
				op = ws.OpText
			case nData == 1 && len(wire)%4 == 3 && c.server:
				data, err = wsutil.ReadClientBinary(rw)
				op = ws.OpBinary
			case nData == 1 && len(wire)%4 == 3 && text:
				data, err = wsutil.ReadServerText(rw)
				op = ws.OpText
			case nData == 1 && len(wire)%4 == 3:
				data, err = wsutil.ReadServerBinary(rw)
				op = ws.OpBinary
			case c.server:
				data, op, err = wsutil.ReadClientData(rw)
			default:
				data, op, err = wsutil.ReadServerData(rw)
			}
		}

		if src.Runaway {
			return what + ": runaway reading"
		}
		if discarded {
			st.discarded++
			continue
		}
		if src.Pos > msgEnd {
			return fmt.Sprintf("%s: %d bytes consumed, the message ends at offset %d (verdict later than the end of the message)", what, src.Pos, msgEnd)
		}
		if src.Stalls > 0 && err != nil && err != wsutil.ErrInvalidUTF8 {
			// One-directional after a transport hiccup: a reader that stays failed is
			// not judged; only a success or an ErrInvalidUTF8 verdict must be right.
			st.stayedFailed++
			return ""
		}
		if valid {
			if err != nil {
				return fmt.Sprintf("%s: rejected with %v", what, err)
			}
			if !bytes.Equal(data, e.Payload) || byte(op) != e.Op {
				return fmt.Sprintf("%s: delivered op=%#x payload=%x", what, byte(op), data)
			}
			st.delivered++
			continue
		}
		if err == nil {
			return fmt.Sprintf("%s: invalid text returned as a complete message (%x)", what, data)
		}
		if err != wsutil.ErrInvalidUTF8 {
			return fmt.Sprintf("%s: invalid text on a well-formed stream reported as %v, want ErrInvalidUTF8", what, err)
		}
		if src.Pos < msgEnd {
			st.rejectedEarly++
		} else {
			st.rejectedAtEnd++
		}
		if c.entry == entryReader && !fromDiscard {
			// A consumer that keeps calling Read after the verdict must never see the
			// invalid message end in io.EOF ("never returned as complete").
			buf := make([]byte, 64)
			for k := 0; k < len(wire)+maxIdle; k++ {
				_, err := rd.Read(buf)
				if err == io.EOF {
					return fmt.Sprintf("%s: after ErrInvalidUTF8, reading on ended in io.EOF: the invalid message is returned as complete", what)
				}
				if err != nil && err != wsutil.ErrInvalidUTF8 {
					break
				}
				if src.Pos >= len(wire) && err != nil {
					break
				}
			}
			st.lookedAgain++
		}
		return "" // the stream is not used for further messages
	}
	return ""
}

// fragment cuts payload at the given sorted positions into frames, with the
// control frames of ctl[i] after fragment i (only between fragments).
func fragment(op byte, payload []byte, cuts []int, masked bool, keySeed int, ctl map[int][]ref.Frame) []ref.Frame {
	var fs []ref.Frame
	prev := 0
	k := 0
	mk := func(op byte, fin bool, p []byte) ref.Frame {
		h := ref.Header{Fin: fin, Op: op, Masked: masked}
		if masked {
			k++
			s := keySeed*31 + k*7
			h.Mask = [4]byte{byte(s), byte(s>>3) | 0x80, byte(s * 5), byte(0xff - s)}
		}
		return ref.Frame{H: h, Payload: p}
	}
	for i := 0; i <= len(cuts); i++ {
		to := len(payload)
		if i < len(cuts) {
			to = cuts[i]
		}
		fop := op
		if i > 0 {
			fop = ref.OpCont
		}
		fs = append(fs, mk(fop, i == len(cuts), payload[prev:to]))
		prev = to
		if i < len(cuts) {
			for _, c := range ctl[i] {
				fs = append(fs, mk(c.H.Op, true, c.Payload))
			}
		}
	}
	return fs
}

// midSequenceCut reports whether a cut falls inside a multi-byte sequence
// (the byte right after the cut is a continuation byte).
func midSequenceCut(payload []byte, cuts []int) bool {
	for _, c := range cuts {
		if c > 0 && c < len(payload) && payload[c]&0xC0 == 0x80 {
			return true
		}
	}
	return false
}

func noteMessage(payload []byte, cuts []int, extra string) {
	hx.NonTrivial(hx.Hash("msg", payload, fmt.Sprint(cuts), extra), func() interface{} {
		return map[string]interface{}{"kind": "message", "payload_hex": fmt.Sprintf("%x", payload), "fragment_cuts": cuts, "variant": extra, "valid": utf8.Valid(payload)}
	})
}

// corpus of short payloads: every well-formed boundary, every ill-formed class.
var goodSeqs = []string{"a", "\x00", "\x7f", "\xc2\x80", "\xdf\xbf", "\xe0\xa0\x80", "\xe2\x82\xac", "\xed\x9f\xbf", "\xee\x80\x80",
	"\xef\xbf\xbf", "\xf0\x90\x80\x80", "\xf1\x80\x80\x80", "\xf4\x8f\xbf\xbf"}

var badSeqs = []string{"\x80", "\xbf", "\xc0\x80", "\xc1\xbf", "\xe0\x80\x80", "\xe0\x9f\xbf", "\xed\xa0\x80", "\xed\xbf\xbf",
	"\xf0\x80\x80\x80", "\xf0\x8f\xbf\xbf", "\xf4\x90\x80\x80", "\xf5\x80\x80\x80", "\xf8\x88\x80\x80", "\xfe", "\xff",
	"\xc2", "\xe2", "\xe2\x82", "\xf0", "\xf0\x90", "\xf0\x90\x80",
	"\xc2\x20", "\xe2\x28\xa1", "\xe2\x82\x28", "\xf0\x28\x8c\xbc", "\xf0\x90\x28\xbc", "\xf0\x90\x80\x28", "\xe2\x82\xc2"}

func shortPayloads() [][]byte {
	good, bad := goodSeqs, badSeqs
	var out [][]byte
	out = append(out, nil)
	for _, list := range [][]string{good, bad} {
		for _, p := range list {
			out = append(out, []byte(p), []byte("a"+p), []byte(p+"a"), []byte("\xc3\xa9"+p+"z"))
		}
	}
	for _, p := range good[3:] {
		out = append(out, []byte(p+p))
		for _, q := range []string{"\xc2", "\xe2\x82", "\xf0\x90\x80"} {
			out = append(out, []byte(p+q)) // valid, then a truncated tail
		}
	}
	return out
}

var ping = ref.Frame{H: ref.Header{Fin: true, Op: ref.OpPing}, Payload: []byte{0xe2, 0x82}} // control payloads are not text
var pong = ref.Frame{H: ref.Header{Fin: true, Op: ref.OpPong}, Payload: []byte{0xac}}

// everySplit runs payload through every split into two and three fragments x
// side x entry x text/binary x with/without interleaved control x transport.
func everySplit(t *testing.T, payload []byte, seed int, count *int, st *convStats) bool {
	var cutSets [][]int
	cutSets = append(cutSets, nil)
	for i := 0; i <= len(payload); i++ {
		cutSets = append(cutSets, []int{i})
		for j := i; j <= len(payload); j++ {
			cutSets = append(cutSets, []int{i, j})
		}
	}
	for _, cuts := range cutSets {
		for _, op := range []byte{ref.OpText, ref.OpBinary} {
			for v := 0; v < 2*numEntries*2*2; v++ {
				server := v&1 != 0
				withCtl := v&2 != 0
				byteChunks := v&4 != 0
				entry := (v >> 3) % numEntries
				if withCtl && len(cuts) == 0 {
					continue
				}
				var ctl map[int][]ref.Frame
				if withCtl {
					ctl = map[int][]ref.Frame{0: {ping}, len(cuts) - 1: {pong, ping}}
				}
				modes := contModes[:1]
				if entry == entryReader && len(cuts) > 0 {
					modes = contModes
				}
				for mi, cont := range append(append([]int(nil), modes...), contNil) {
					stalled := mi == len(modes) // last round: a transient error before every frame after the first
					if stalled && !(entry == entryReader && len(cuts) > 0) {
						continue
					}
					run := convRun{frames: fragment(op, payload, cuts, server, seed, ctl), server: server, entry: entry, cont: cont}
					if stalled {
						for i := 1; i < len(run.frames); i++ {
							run.stall = append(run.stall, i)
						}
					}
					if byteChunks {
						run.chunks = []int{1}
						run.bufs = []int{1, 3}
					}
					inters := []int{interNil}
					if entry == entryReader && withCtl {
						if mi == 0 {
							inters = []int{interNil, interAll, interNone, interHalf}
						} else {
							inters = []int{mi % numInter}
						}
					}
					for ii, inter := range inters {
						run.inter = inter
						run.extended = (mi+ii+len(cuts))&1 == 1
						if mi == 0 && ii == 0 {
							// plain round: the same case under StateExtended as well
							ext := run
							ext.extended = !run.extended
							*count++
							if msg := runConversation(ext, st); msg != "" {
								hx.Failf(t, ext.desc(), "%s", msg)
								return false
							}
						}
						*count++
						if op == ref.OpText && midSequenceCut(payload, cuts) {
							noteMessage(payload, cuts, fmt.Sprintf("%s/server=%v/ctl=%v/bytewise=%v/oncont=%d/stalls=%v/onintermediate=%d", entryNames[entry], server, withCtl, byteChunks, cont, stalled, inter))
						}
						if msg := runConversation(run, st); msg != "" {
							hx.Failf(t, run.desc(), "%s", msg)
							return false
						}
					}
				}
			}
		}
	}
	return true
}

func classesFromStats(prefix string, st *convStats) {
	bulk(prefix+"/delivered", st.delivered)
	bulk(prefix+"/rejected-before-end-of-message", st.rejectedEarly)
	bulk(prefix+"/rejected-at-end-of-message", st.rejectedAtEnd)
	bulk(prefix+"/discarded-part-way", st.discarded)
	bulk(prefix+"/read-on-after-ErrInvalidUTF8-never-EOF", st.lookedAgain)
	bulk(prefix+"/reads-retried-after-transient-error", st.retries)
	bulk("open/"+prefix+"/stayed-failed-after-transient-error", st.stayedFailed)
}

// Short payloads at every split point.
func TestMessageEverySplit(t *testing.T) {
	var st convStats
	n := 0
	for i, p := range shortPayloads() {
		if !hx.Mine(i) {
			continue
		}
		if !everySplit(t, p, i, &n, &st) {
			return
		}
	}
	hx.EvalN(n)
	hx.Part("message reader: corpus of short payloads x every split into <=3 fragments x side x entry x text/binary x interleaved control x transport", int64(n), true)
	classesFromStats("message/every-split", &st)
}

// Thorough: every byte string of length <= 2 and the 3-byte cover, as a text
// message at every two-fragment split, all entries, both sides.
func TestMessageExhaustiveTiny(t *testing.T) {
	if !hx.Thorough() {
		t.Skip("thorough tier only")
	}
	var st convStats
	n := 0
	one := func(p []byte, seed int) bool {
		for cut := 0; cut <= len(p); cut++ {
			for v := 0; v < 2*numEntries; v++ {
				run := convRun{frames: fragment(ref.OpText, p, []int{cut}, v&1 != 0, seed, nil), server: v&1 != 0, entry: v >> 1, extended: (cut+seed)&1 == 1}
				n++
				if msg := runConversation(run, &st); msg != "" {
					hx.Failf(t, run.desc(), "%s", msg)
					return false
				}
			}
		}
		return true
	}
	for a := 0; a < 256; a++ {
		if !hx.Mine(a) {
			continue
		}
		if !one([]byte{byte(a)}, a) {
			return
		}
		for b := 0; b < 256; b++ {
			if !one([]byte{byte(a), byte(b)}, b) {
				return
			}
		}
		for _, b := range coverTail {
			for _, c := range coverTail {
				if !one([]byte{byte(a), b, c}, int(c)) {
					return
				}
				for _, d := range coverTail {
					if !one([]byte{byte(a), b, c, d}, int(d)) {
						return
					}
				}
			}
		}
	}
	hx.EvalN(n)
	hx.Part("message reader: every text payload of <=2 bytes and the 3/4-byte cover x every two-fragment split x side x entry", int64(n), true)
	classesFromStats("message/exhaustive-tiny", &st)
}

// Every sequence of the table at every offset 0..40 behind an ASCII run (every
// position relative to 8- and 16-byte words of the read buffer), with ASCII
// tails, delivered to the validator in ONE large Read as well as in 1-, 3-,
// 8- and 16-byte reads; standalone and as a message through all entries.
func TestAsciiRunAlignment(t *testing.T) {
	const ascii = "The quick brown fox jumps over the lazy dog 0123456789"
	tails := []string{"", "z", "lazy dog 0123456789"}
	saBufs := [][]int{{256}, {1}, {3}, {8}, {16}}
	var agg saStats
	var st convStats
	n, si := 0, 0
	for _, list := range [][]string{goodSeqs, badSeqs} {
		for _, seq := range list {
			si++
			if !hx.Mine(si) {
				continue
			}
			for k := 0; k <= 40; k++ {
				for ti, tail := range tails {
					s := []byte(ascii[:k] + seq + tail)
					for _, bufs := range saBufs {
						var one saStats
						n++
						if msg := checkStandalone(s, nil, bufs, k&1 == 1, &one); msg != "" {
							hx.Failf(t, saCase{Bytes: fmt.Sprintf("%x", s), Bufs: bufs, EOFWD: k&1 == 1}, "UTF8Reader: %s", msg)
							return
						}
						agg.midOpen += one.midOpen
						agg.midAtBound += one.midAtBound
					}
					if seq[0] >= 0x80 && k >= 7 {
						hx.NonTrivial(hx.Hash("ascii-run", k, seq, ti), func() interface{} {
							return map[string]interface{}{"kind": "ascii-run", "ascii_prefix": k, "sequence_hex": fmt.Sprintf("%x", seq), "tail": tail, "valid": utf8.Valid(s)}
						})
					}
					for v := 0; v < 2*numEntries*2; v++ {
						run := convRun{server: v&1 != 0, entry: (v >> 1) % numEntries, extended: (k+ti+v>>1)&1 == 1}
						var cuts []int
						if v >= 2*numEntries { // fragmented in front of the sequence, 7-byte transport chunks
							cuts = []int{k / 2}
							run.chunks = []int{7}
							run.bufs = []int{16}
						}
						run.frames = fragment(ref.OpText, s, cuts, run.server, k, nil)
						n++
						if msg := runConversation(run, &st); msg != "" {
							hx.Failf(t, run.desc(), "%s", msg)
							return
						}
					}
				}
			}
		}
	}
	hx.EvalN(n)
	hx.Part("ASCII run of 0..40 bytes ++ every sequence of the valid/invalid/truncated table ++ 3 ASCII tails: standalone in one Read and in 1/3/8/16-byte reads; as a message x side x entry x {one frame + one read, fragmented + chunked}", int64(n), true)
	classesFromStats("message/ascii-run", &st)
	flushAggBulk(&agg)
}

// drawCuts draws fragment boundaries; positions inside multi-byte sequences are preferred.
func drawCuts(t *rapid.T, label string, payload []byte) []int {
	n := rapid.IntRange(0, 5).Draw(t, label+".n")
	var inside []int
	for i := 1; i < len(payload); i++ {
		if payload[i]&0xC0 == 0x80 {
			inside = append(inside, i)
		}
	}
	cuts := make([]int, 0, n)
	for i := 0; i < n; i++ {
		if len(inside) > 0 && rapid.IntRange(0, 2).Draw(t, label+".mid?") > 0 {
			cuts = append(cuts, rapid.SampledFrom(inside).Draw(t, label+".mid"))
		} else {
			cuts = append(cuts, rapid.IntRange(0, len(payload)).Draw(t, label+".at"))
		}
	}
	for i := 1; i < len(cuts); i++ {
		for j := i; j > 0 && cuts[j-1] > cuts[j]; j-- {
			cuts[j-1], cuts[j] = cuts[j], cuts[j-1]
		}
	}
	return cuts
}

func drawCtl(t *rapid.T, label string, cuts []int) map[int][]ref.Frame {
	if len(cuts) == 0 || rapid.Bool().Draw(t, label+".none") {
		return nil
	}
	ctl := map[int][]ref.Frame{}
	for i := range cuts {
		for k := rapid.IntRange(0, 2).Draw(t, label+".n"); k > 0; k-- {
			ctl[i] = append(ctl[i], gen.CtlFrame(t, label+".f", false))
		}
	}
	return ctl
}

// One message, long payloads, random fragmenting with forced mid-sequence
// splits; the same bytes as a binary message must always be delivered.
func TestMessageRandom(t *testing.T) {
	hx.Check(t, 8, func(t *rapid.T) {
		payload, kind := piecesK(t, "payload", 96)
		cuts := drawCuts(t, "cuts", payload)
		server := rapid.Bool().Draw(t, "server")
		entry := rapid.IntRange(0, numEntries-1).Draw(t, "entry")
		ctl := drawCtl(t, "ctl", cuts)
		run := convRun{
			server: server, entry: entry,
			chunks: gen.Chunks(t, "chunks"),
			bufs:   rapid.SliceOfN(rapid.IntRange(1, 40), 1, 5).Draw(t, "bufs"),
			eofWD:  rapid.Bool().Draw(t, "eofwd"),
		}
		run.extended = rapid.Bool().Draw(t, "extended")
		seed := rapid.IntRange(0, 255).Draw(t, "keyseed")
		if entry == entryReader {
			run.cont = rapid.SampledFrom(contModes).Draw(t, "oncontinuation")
			run.inter = rapid.IntRange(0, numInter-1).Draw(t, "onintermediate")
		}
		var stallMask uint64
		if entry == entryReader && len(cuts) > 0 && rapid.Bool().Draw(t, "stalls?") {
			stallMask = rapid.Uint64().Draw(t, "stallmask") | 1<<uint(rapid.IntRange(1, len(cuts)).Draw(t, "stallone"))
		}
		hx.Eval()
		valid := utf8.Valid(payload)
		mid := midSequenceCut(payload, cuts)
		for _, op := range []byte{ref.OpText, ref.OpBinary} {
			run.frames = fragment(op, payload, cuts, server, seed, ctl)
			run.stall = nil
			for i := 1; i < len(run.frames) && stallMask != 0; i++ {
				if stallMask>>(uint(i)%64)&1 == 1 {
					run.stall = append(run.stall, i)
				}
			}
			var st convStats
			if msg := runConversation(run, &st); msg != "" {
				t.Fatalf("%s\ncase: %s", msg, hx.JSON(run.desc()))
			}
			if op == ref.OpText && len(run.stall) > 0 {
				hx.Class(fmt.Sprintf("message/random/Reader/transient-errors-at-frame-starts/valid=%v/retries>0=%v/stayed-failed=%v", valid, st.retries > 0, st.stayedFailed > 0))
			}
			if op == ref.OpText {
				out := "delivered"
				if st.rejectedEarly > 0 {
					out = "rejected-before-end"
				} else if st.rejectedAtEnd > 0 {
					out = "rejected-at-end"
				}
				hx.Class(fmt.Sprintf("message/random/%s/text/%s/valid=%v/%s", entryNames[entry], kind, valid, out))
				hx.Class(fmt.Sprintf("message/random/mid-sequence-cut=%v/ctl=%v/chunks=%s", mid, len(ctl) > 0, gen.ChunkClass(run.chunks)))
				hx.Class(fmt.Sprintf("message/random/%s/state-extended=%v/valid=%v", entryNames[entry], run.extended, valid))
				if entry == entryReader && len(cuts) > 0 {
					hx.Class(fmt.Sprintf("message/random/Reader/on-continuation=%d/valid=%v", run.cont, valid))
				}
				if entry == entryReader && len(ctl) > 0 {
					hx.Class(fmt.Sprintf("message/random/Reader/on-intermediate-mode=%d/valid=%v", run.inter, valid))
				}
			} else if !valid {
				hx.Class("message/random/binary-with-invalid-utf8/delivered")
			}
		}
		if hasMultibyte(payload) && (mid || gen.SmallChunk(run.chunks)) {
			noteMessage(payload, cuts, fmt.Sprintf("%s/server=%v/chunks=%v/oncont=%d", entryNames[entry], server, run.chunks, run.cont))
		}
	})
}

// Several messages one after the other (gen.Conversation with the piece
// generator for text): per-message reset of the validator, including after a
// message that was given up part-way with Discard().
func TestConversationRandom(t *testing.T) {
	hx.Check(t, 5, func(t *rapid.T) {
		server := rapid.Bool().Draw(t, "server")
		frames := gen.Conversation(t, "conv", gen.ConvOpts{Masked: server, MaxMsgs: 4, MaxPayload: 40, Text: pieces})
		run := convRun{
			frames: frames, server: server,
			entry:  rapid.IntRange(0, numEntries-1).Draw(t, "entry"),
			chunks: gen.Chunks(t, "chunks"),
			bufs:   rapid.SliceOfN(rapid.IntRange(1, 40), 1, 5).Draw(t, "bufs"),
			eofWD:  rapid.Bool().Draw(t, "eofwd"),
		}
		run.extended = rapid.Bool().Draw(t, "extended")
		nmsg, ntext, ninvalid := 0, 0, 0
		firstInvalid := -1
		for _, e := range ref.Events(frames) {
			if e.Kind != "msg" {
				continue
			}
			if e.Op == ref.OpText {
				ntext++
				if !utf8.Valid(e.Payload) {
					ninvalid++
					if firstInvalid < 0 {
						firstInvalid = nmsg
					}
				}
			}
			nmsg++
		}
		if run.entry == entryReader && nmsg > 1 && rapid.Bool().Draw(t, "discard?") {
			run.discard = map[int]int{}
			for i := 0; i < nmsg-1; i++ {
				if rapid.Bool().Draw(t, "discard") {
					run.discard[i] = rapid.IntRange(0, 6).Draw(t, "after")
				}
			}
		}
		if run.entry == entryReader {
			// Discard() skips bytes past the validator, so a handler that reads continuation
			// bodies through the validator is only combined with messages read completely
			// (what the validator sees after a Discard is outside the statement).
			modes := contModes
			if len(run.discard) > 0 {
				modes = contModes[:2]
			}
			run.cont = rapid.SampledFrom(modes).Draw(t, "oncontinuation")
			run.inter = rapid.IntRange(0, numInter-1).Draw(t, "onintermediate")
			if len(run.discard) == 0 && len(frames) > 1 && rapid.Bool().Draw(t, "stalls?") {
				mask := rapid.Uint64().Draw(t, "stallmask")
				for i := 1; i < len(frames); i++ {
					if mask>>(uint(i)%64)&1 == 1 {
						run.stall = append(run.stall, i)
					}
				}
			}
		}
		hx.Eval()
		var st convStats
		if msg := runConversation(run, &st); msg != "" {
			t.Fatalf("%s\ncase: %s", msg, hx.JSON(run.desc()))
		}
		hx.Class(fmt.Sprintf("conversation/%s/messages=%d/delivered-before-the-end=%v/discarded=%v/rejected=%v",
			entryNames[run.entry], nmsg, st.delivered > 0, st.discarded > 0, st.rejectedEarly+st.rejectedAtEnd > 0))
		if st.delivered+st.discarded >= 1 && nmsg >= 2 && ntext >= 1 {
			hx.NonTrivial(hx.Hash("conv", ref.Shape(frames), wireHash(frames), fmt.Sprint(run.discard), run.entry, run.cont), func() interface{} {
				return map[string]interface{}{"kind": "conversation", "frames": ref.Describe(frames), "entry": entryNames[run.entry], "discard_after": run.discard, "on_continuation_reads": run.cont}
			})
		}
	})
}

func wireHash(frames []ref.Frame) uint64 { return hx.Hash(ref.EncodeAll(frames)) }

// Two messages in a row on one Reader, deterministic: a first message that
// leaves the validator anywhere (complete text, binary with ill-formed bytes,
// text abandoned inside a sequence with Discard) must not influence the second.
func TestTwoMessagesSameReader(t *testing.T) {
	firsts := []struct {
		name    string
		op      byte
		payload string
		cuts    []int
		discard int // <0: read completely
	}{
		{"valid text, split inside the last sequence", ref.OpText, "ab\xe2\x82\xac", []int{3}, -1},
		{"valid text ending in a 4-byte sequence, byte fragments", ref.OpText, "\xf0\x90\x80\x80", []int{1, 2, 3}, -1},
		{"binary with a dangling lead byte", ref.OpBinary, "ab\xe2\x82", []int{2}, -1},
		{"binary, ill-formed", ref.OpBinary, "\xff\xc0\x80", nil, -1},
		{"text abandoned after the lead byte of a sequence", ref.OpText, "\xe2\x82\xac tail", []int{1}, 1},
		{"text abandoned after two bytes of a 4-byte sequence", ref.OpText, "a\xf0\x90\x80\x80zz", []int{3}, 3},
		{"text abandoned before any read", ref.OpText, "\xe2\x82\xac", []int{2}, 0},
		{"empty text", ref.OpText, "", nil, -1},
	}
	var st convStats
	n := 0
	for fi, f := range firsts {
		for si, second := range shortPayloads() {
			if !hx.Mine(si) {
				continue
			}
			for v := 0; v < 4; v++ {
				server := v&1 != 0
				var cuts2 []int
				if v&2 != 0 && len(second) > 0 {
					cuts2 = []int{(len(second) + 1) / 2}
				}
				frames := fragment(f.op, []byte(f.payload), f.cuts, server, fi, nil)
				frames = append(frames, fragment(ref.OpText, second, cuts2, server, si, nil)...)
				run := convRun{frames: frames, server: server, entry: entryReader, bufs: []int{2}}
				if f.discard >= 0 {
					run.discard = map[int]int{0: f.discard}
				}
				n++
				if hasMultibyte(second) {
					noteMessage(second, cuts2, "after: "+f.name)
				}
				if msg := runConversation(run, &st); msg != "" {
					hx.Failf(t, run.desc(), "first message %q: %s", f.name, msg)
					return
				}
			}
		}
	}
	hx.EvalN(n)
	hx.Part("two messages on one Reader: 8 first messages x corpus of short second payloads x side x split", int64(n), true)
	classesFromStats("message/second-on-same-reader", &st)
}

func TestKnownFindings(t *testing.T) {
	// No finding of the pinned tree belongs to C07.
}
