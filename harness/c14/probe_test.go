package c14

import (
	"fmt"
	"testing"

	"github.com/gobwas/httphead"
	"github.com/gobwas/ws/wsflate"
)

func TestProbe(t *testing.T) {
	for _, v := range []string{"7", "16", "0", "255", "8x", "x", ":", "1:", "", "18446744073709551626", "00000000000000000010", "08", "010", "\"10\"", "\":\"", "1<", "=", "?", "10 "} {
		for _, name := range []string{"server_max_window_bits", "client_max_window_bits"} {
			var o httphead.Option
			o.Name = []byte("permessage-deflate")
			o.Parameters.Set([]byte(name), []byte(v))
			var p wsflate.Parameters
			err := p.Parse(o)
			fmt.Printf("direct %s=%q -> %+v err=%v\n", name, v, p, err)
			hdr := "permessage-deflate; " + name + "=" + v
			opts, ok := httphead.ParseOptions([]byte(hdr), nil)
			if ok && len(opts) == 1 {
				err := p.Parse(opts[0])
				fmt.Printf("  wire %q -> opt %v -> %+v err=%v\n", hdr, opts[0], p, err)
			} else {
				fmt.Printf("  wire %q -> ParseOptions ok=%v n=%d\n", hdr, ok, len(opts))
			}
		}
	}
}
