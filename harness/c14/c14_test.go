// C14 — permessage-deflate negotiation answers every offer as RFC 7692 §7.1 requires.
//
// The oracle is the legality predicate of the property, implemented here on
// the harness's own reading of the answer (parameter list → model); it never
// asks the library what a legal answer is. "Declined" is always legal.
package c14

import (
	"bufio"
	"bytes"
	"fmt"
	"net/http"
	"strings"
	"testing"

	"github.com/gobwas/httphead"
	"github.com/gobwas/ws"
	"github.com/gobwas/ws/wsflate"
	"pgregory.net/rapid"

	"verif/harness/gen"
	"verif/harness/hx"
	"verif/harness/tx"
)

func TestMain(m *testing.M) { hx.Main(m, "C14") }

const (
	extName = "permessage-deflate"
	kSNCT   = "server_no_context_takeover"
	kCNCT   = "client_no_context_takeover"
	kSMWB   = "server_max_window_bits"
	kCMWB   = "client_max_window_bits"

	sigLarger   = "C14/server-max-window-bits-larger-than-offer"
	sigDupCMWB  = "C14/duplicate-valueless-client-max-window-bits"
	sigNonDigit = "C14/window-bits-nondigit-or-overflow-accepted"
	sigLeadZero = "C14/leading-zero-window-bits-accepted"
	sigLaterBad = "C14/malformed-offer-after-accepted-one-not-rejected"
)

// ---------------------------------------------------------------------------
// model of offers, configurations and answers

// kv is one extension parameter; V == "" means "no value".
type kv struct{ K, V string }

// ext is one element of a Sec-WebSocket-Extensions list.
type ext struct {
	Name   string
	Params []kv
}

func (e ext) String() string {
	s := e.Name
	for _, p := range e.Params {
		s += "; " + p.K
		if p.V != "" {
			s += "=" + p.V
		}
	}
	return s
}

// spec is a parameter set: an offer (CMWB ∈ {0 absent, 1 valueless, 8..15})
// or a server configuration (CMWB ∈ {0, 8..15}); SMWB ∈ {0 absent, 8..15}.
type spec struct {
	SNCT, CNCT bool
	SMWB, CMWB int
}

func (s spec) String() string { return ext{extName, s.params()}.String() }

// params renders the parameter list in the canonical order.
func (s spec) params() []kv {
	var ps []kv
	if s.SNCT {
		ps = append(ps, kv{kSNCT, ""})
	}
	if s.CNCT {
		ps = append(ps, kv{kCNCT, ""})
	}
	if s.SMWB != 0 {
		ps = append(ps, kv{kSMWB, fmt.Sprint(s.SMWB)})
	}
	switch {
	case s.CMWB == 1:
		ps = append(ps, kv{kCMWB, ""})
	case s.CMWB != 0:
		ps = append(ps, kv{kCMWB, fmt.Sprint(s.CMWB)})
	}
	return ps
}

// lib is the documented representation of the parameter set in the library.
func (s spec) lib() wsflate.Parameters {
	return wsflate.Parameters{
		ServerNoContextTakeover: s.SNCT,
		ClientNoContextTakeover: s.CNCT,
		ServerMaxWindowBits:     wsflate.WindowBits(s.SMWB),
		ClientMaxWindowBits:     wsflate.WindowBits(s.CMWB),
	}
}

var (
	smwbValues  = []int{0, 8, 9, 10, 11, 12, 13, 14, 15}
	cmwbOffered = []int{0, 1, 8, 9, 10, 11, 12, 13, 14, 15}
	cmwbConfig  = []int{0, 8, 9, 10, 11, 12, 13, 14, 15}
	bools       = []bool{false, true}
	allOffers   = enumerate(cmwbOffered) // 360
	allConfigs  = enumerate(cmwbConfig)  // 324
	// Extension names are case-sensitive tokens here (the negotiator and
	// ws.Dialer compare them byte for byte): a name differing from
	// permessage-deflate only in letter case is a foreign extension.
	foreignNames = []string{"x-webkit-deflate-frame", "permessage-bzip2", "permessage-deflate2", "permessage-deflat", "foo",
		"Permessage-Deflate", "PERMESSAGE-DEFLATE", "permessage-Deflate", "permessage_deflate", "x-permessage-deflate"}
)

func enumerate(cm []int) []spec {
	var out []spec
	for _, a := range bools {
		for _, b := range bools {
			for _, s := range smwbValues {
				for _, c := range cm {
					out = append(out, spec{a, b, s, c})
				}
			}
		}
	}
	return out
}

// rotate returns ps rotated by k (to vary parameter order deterministically).
func rotate(ps []kv, k int) []kv {
	if len(ps) == 0 {
		return ps
	}
	k %= len(ps)
	return append(append([]kv(nil), ps[k:]...), ps[:k]...)
}

// ---------------------------------------------------------------------------
// building what the library sees

func isTokenByte(c byte) bool {
	if c <= 32 || c >= 127 {
		return false
	}
	return !strings.ContainsRune("()<>@,;:\\\"/[]?={}", rune(c))
}

func isToken(s string) bool {
	if s == "" {
		return false
	}
	for i := 0; i < len(s); i++ {
		if !isTokenByte(s[i]) {
			return false
		}
	}
	return true
}

// renderable says whether the value can be put on the wire (as a token or a
// quoted-string without control bytes).
func renderable(v string) bool {
	for i := 0; i < len(v); i++ {
		if v[i] < 32 || v[i] >= 127 {
			return false
		}
	}
	return true
}

// render writes one list element as header text. style: 0 "; " separators,
// 1 no blanks, 2 every value as a quoted-string, 3 blanks around everything.
func render(e ext, style int) string {
	sep := "; "
	switch style {
	case 1:
		sep = ";"
	case 3:
		sep = " ; "
	}
	var b strings.Builder
	b.WriteString(e.Name)
	for _, p := range e.Params {
		b.WriteString(sep)
		b.WriteString(p.K)
		if p.V == "" {
			continue
		}
		b.WriteByte('=')
		if style == 2 || !isToken(p.V) {
			b.WriteByte('"')
			for i := 0; i < len(p.V); i++ {
				if p.V[i] == '"' || p.V[i] == '\\' {
					b.WriteByte('\\')
				}
				b.WriteByte(p.V[i])
			}
			b.WriteByte('"')
		} else {
			b.WriteString(p.V)
		}
	}
	return b.String()
}

func renderList(es []ext, style int) string {
	parts := make([]string, len(es))
	for i, e := range es {
		parts[i] = render(e, style)
	}
	if style == 1 {
		return strings.Join(parts, ",")
	}
	return strings.Join(parts, ", ")
}

// direct constructs the Option with the library's own setters.
func direct(e ext) httphead.Option {
	o := httphead.Option{Name: []byte(e.Name)}
	for _, p := range e.Params {
		var v []byte
		if p.V != "" {
			v = []byte(p.V)
		}
		o.Parameters.Set([]byte(p.K), v)
	}
	return o
}

// reprNames: how a valueless parameter is represented in the Option handed
// to the library. All three are "no value" for httphead (len(value) == 0):
// ParseOptions gives nil, httphead.NewOption(..., map{k: ""}) and
// Option.Clone()/Copy() give an empty non-nil slice.
var reprNames = []string{"nil", "empty-non-nil", "clone", "copy"}

// directR is direct with the chosen representation of valueless parameters.
func directR(e ext, repr int) httphead.Option {
	o := httphead.Option{Name: []byte(e.Name)}
	for _, p := range e.Params {
		var v []byte
		if p.V != "" {
			v = []byte(p.V)
		} else if repr%4 == 1 {
			v = []byte{}
		}
		o.Parameters.Set([]byte(p.K), v)
	}
	switch repr % 4 {
	case 2:
		return o.Clone()
	case 3:
		return o.Copy(make([]byte, o.Size()+3))
	}
	return o
}

// viaText renders the element and lets httphead parse it, as on the wire.
func viaText(e ext, style int) (httphead.Option, bool) {
	opts, ok := httphead.ParseOptions([]byte(render(e, style)), nil)
	if !ok || len(opts) != 1 {
		return httphead.Option{}, false
	}
	return opts[0], true
}

// ---------------------------------------------------------------------------
// the harness's own reader of option lists and answers

// readOption lists name and parameters of an Option in order.
func readOption(o httphead.Option) ext {
	e := ext{Name: string(o.Name)}
	o.Parameters.ForEach(func(k, v []byte) bool {
		e.Params = append(e.Params, kv{string(k), string(v)})
		return true
	})
	return e
}

// parseExtList is the harness's parser of a Sec-WebSocket-Extensions value:
// 1#( token *( OWS ";" OWS token [ "=" ( token / quoted-string ) ] ) ).
func parseExtList(s string) ([]ext, error) {
	i := 0
	ows := func() {
		for i < len(s) && (s[i] == ' ' || s[i] == '\t') {
			i++
		}
	}
	token := func() string {
		j := i
		for i < len(s) && isTokenByte(s[i]) {
			i++
		}
		return s[j:i]
	}
	var out []ext
	for {
		ows()
		name := token()
		if name == "" {
			return nil, fmt.Errorf("offset %d: extension name expected in %q", i, s)
		}
		e := ext{Name: name}
		for {
			ows()
			if i >= len(s) || s[i] != ';' {
				break
			}
			i++
			ows()
			k := token()
			if k == "" {
				return nil, fmt.Errorf("offset %d: parameter name expected in %q", i, s)
			}
			p := kv{K: k}
			if i < len(s) && s[i] == '=' {
				i++
				if i < len(s) && s[i] == '"' {
					i++
					var v []byte
					for {
						if i >= len(s) {
							return nil, fmt.Errorf("unterminated quoted-string in %q", s)
						}
						if s[i] == '"' {
							i++
							break
						}
						if s[i] == '\\' && i+1 < len(s) {
							i++
						}
						v = append(v, s[i])
						i++
					}
					p.V = string(v)
				} else {
					p.V = token()
				}
				if p.V == "" {
					return nil, fmt.Errorf("offset %d: empty parameter value in %q", i, s)
				}
			}
			e.Params = append(e.Params, p)
		}
		out = append(out, e)
		ows()
		if i >= len(s) {
			return out, nil
		}
		if s[i] != ',' {
			return nil, fmt.Errorf("offset %d: unexpected %q in %q", i, s[i], s)
		}
		i++
	}
}

// strictBits reads an RFC 7692 window value: decimal, no leading zero, 8..15.
func strictBits(v string) (int, bool) {
	switch {
	case len(v) == 1 && v[0] >= '8' && v[0] <= '9':
		return int(v[0] - '0'), true
	case len(v) == 2 && v[0] == '1' && v[1] >= '0' && v[1] <= '5':
		return 10 + int(v[1]-'0'), true
	}
	return 0, false
}

// answer is the harness's reading of a response; window fields: 0 absent.
type answer struct {
	SNCT, CNCT bool
	SMWB, CMWB int
}

// readAnswer interprets a permessage-deflate response element. It returns a
// non-empty complaint if the element is not a well-formed response at all
// (unknown / duplicated parameter, missing or out-of-range window value).
func readAnswer(e ext) (a answer, complaint string) {
	if e.Name != extName {
		return a, fmt.Sprintf("answer is named %q", e.Name)
	}
	seen := map[string]bool{}
	for _, p := range e.Params {
		if seen[p.K] {
			return a, fmt.Sprintf("answer repeats %s", p.K)
		}
		seen[p.K] = true
		switch p.K {
		case kSNCT, kCNCT:
			if p.V != "" {
				return a, fmt.Sprintf("answer gives %s the value %q", p.K, p.V)
			}
			if p.K == kSNCT {
				a.SNCT = true
			} else {
				a.CNCT = true
			}
		case kSMWB, kCMWB:
			n, ok := strictBits(p.V)
			if !ok {
				return a, fmt.Sprintf("answer has %s=%q, want a decimal in 8..15", p.K, p.V)
			}
			if p.K == kSMWB {
				a.SMWB = n
			} else {
				a.CMWB = n
			}
		default:
			return a, fmt.Sprintf("answer has unknown parameter %q", p.K)
		}
	}
	return a, ""
}

// legal is the property's predicate: is a a legal response to offer of?
func legal(of spec, a answer) string {
	if of.SMWB != 0 {
		if a.SMWB == 0 {
			return fmt.Sprintf("offer asked server_max_window_bits=%d, answer omits the parameter", of.SMWB)
		}
		if a.SMWB > of.SMWB {
			return fmt.Sprintf("offer asked server_max_window_bits=%d, answer says %d", of.SMWB, a.SMWB)
		}
	}
	if a.CMWB != 0 {
		if of.CMWB == 0 {
			return fmt.Sprintf("answer has client_max_window_bits=%d, the offer did not carry the parameter", a.CMWB)
		}
		if of.CMWB >= 8 && a.CMWB > of.CMWB {
			return fmt.Sprintf("offer had client_max_window_bits=%d, answer says %d", of.CMWB, a.CMWB)
		}
	}
	if of.SNCT && !a.SNCT {
		return "offer asked server_no_context_takeover, answer omits it"
	}
	return ""
}

// declined reports whether the returned option is the zero option, checking
// that the harness's reading and Size() (what ws.Upgrader looks at) agree.
func declined(o httphead.Option) (bool, string) {
	e := readOption(o)
	zero := e.Name == "" && len(e.Params) == 0
	if zero != (o.Size() == 0) {
		return zero, fmt.Sprintf("option %q has Size()=%d", e.String(), o.Size())
	}
	return zero, ""
}

// checkAnswer reads the option returned for offer of and applies the
// predicate. The answer is read twice: by iterating the parameters and from
// the text httphead.WriteOptions puts on the wire.
func checkAnswer(of spec, o httphead.Option) (answered bool, e ext, msg string) {
	zero, msg := declined(o)
	if msg != "" || zero {
		return false, e, msg
	}
	e = readOption(o)
	var buf bytes.Buffer
	if _, err := httphead.WriteOptions(&buf, []httphead.Option{o}); err != nil {
		return true, e, fmt.Sprintf("WriteOptions: %v", err)
	}
	es, err := parseExtList(buf.String())
	if err != nil || len(es) != 1 || es[0].String() != e.String() {
		return true, e, fmt.Sprintf("answer renders as %q, parameters iterate as %q (parse error %v)", buf.String(), e.String(), err)
	}
	a, complaint := readAnswer(e)
	if complaint != "" {
		return true, e, complaint
	}
	return true, e, legal(of, a)
}

func sameSet(a, b []kv) bool {
	if len(a) != len(b) {
		return false
	}
	m := map[kv]int{}
	for _, p := range a {
		m[p]++
	}
	for _, p := range b {
		m[p]--
		if m[p] < 0 {
			return false
		}
	}
	return true
}

// ---------------------------------------------------------------------------
// one negotiation on a fresh Extension

type gridCase struct {
	Config string `json:"config"`
	Offer  string `json:"offer"`
	Built  string `json:"built,omitempty"`
	Answer string `json:"answer,omitempty"`
}

// negotiateOnce runs offer of (as opt) against a fresh Extension configured
// with cfg and checks answer legality and Accepted(). It returns the answer
// element (Name "" when declined).
func negotiateOnce(cfg, of spec, opt httphead.Option) (e ext, msg string) {
	x := wsflate.Extension{Parameters: cfg.lib()}
	return checkOn(&x, of, opt)
}

// checkOn negotiates of on x, which must be new or just Reset.
func checkOn(x *wsflate.Extension, of spec, opt httphead.Option) (e ext, msg string) {
	cfg := x.Parameters
	if p, ok := x.Accepted(); ok || p != (wsflate.Parameters{}) {
		return e, fmt.Sprintf("new / reset Extension reports Accepted() = %+v, %v", p, ok)
	}
	ans, err := x.Negotiate(opt)
	if err != nil {
		return e, fmt.Sprintf("well-formed offer rejected: %v", err)
	}
	answered, e, msg := checkAnswer(of, ans)
	if msg != "" {
		return e, msg
	}
	p, ok := x.Accepted()
	if ok != answered {
		return e, fmt.Sprintf("answer produced = %v but Accepted() reports %v", answered, ok)
	}
	if answered && p != of.lib() {
		return e, fmt.Sprintf("Accepted() parameters %+v, the accepted offer was %+v", p, of.lib())
	}
	if x.Parameters != cfg {
		return e, fmt.Sprintf("Negotiate changed the configuration to %+v", x.Parameters)
	}
	return e, ""
}

// TestGrid: 324 configurations × 360 offers, each on a fresh Extension, the
// offer parsed from header text (every pair) and constructed directly (every
// third pair); both constructions must get the same answer.
func TestGrid(t *testing.T) {
	var n, answers, declines int64
	for ci, cfg := range allConfigs {
		if !hx.Mine(ci) {
			continue
		}
		for oi, of := range allOffers {
			n++
			el := ext{extName, rotate(of.params(), ci+oi)}
			opt, ok := viaText(el, (ci+oi)%4)
			if !ok {
				hx.Failf(t, gridCase{Config: cfg.String(), Offer: render(el, (ci+oi)%4)}, "httphead.ParseOptions rejected the offer text")
				return
			}
			if got := readOption(opt); !sameSet(got.Params, el.Params) || got.Name != extName {
				hx.Failf(t, gridCase{Config: cfg.String(), Offer: render(el, (ci+oi)%4)}, "offer text parsed as %q", got.String())
				return
			}
			e, msg := negotiateOnce(cfg, of, opt)
			if msg != "" {
				hx.Failf(t, gridCase{cfg.String(), of.String(), "text", e.String()}, "%s", msg)
				return
			}
			if (ci+oi)%3 == 0 {
				repr := (ci + oi) / 3 % 4
				e2, msg := negotiateOnce(cfg, of, directR(el, repr))
				if msg != "" {
					hx.Failf(t, gridCase{cfg.String(), of.String(), "direct/valueless=" + reprNames[repr], e2.String()}, "%s", msg)
					return
				}
				if e2.String() != e.String() {
					hx.Failf(t, gridCase{cfg.String(), of.String(), "both", e.String()}, "offer built directly is answered %q, parsed from text %q", e2.String(), e.String())
					return
				}
			}
			if e.Name == "" {
				declines++ // Accepted() parameters after a decline are left open
				continue
			}
			answers++
			if of.SNCT || of.SMWB != 0 || of.CMWB != 0 {
				cfg, of, e := cfg, of, e
				hx.NonTrivial(hx.Hash("grid", ci, oi), func() interface{} {
					return gridCase{Config: cfg.String(), Offer: of.String(), Answer: e.String()}
				})
			}
		}
	}
	hx.EvalN(int(n))
	classN("grid/answered", answers)
	classN("grid/declined", declines)
	hx.Part("grid: 324 server configurations x 360 offers, fresh Extension each", n, true)
}

// classN adds k to a class bucket.
func classN(label string, k int64) {
	for ; k > 0; k-- {
		hx.Class(label)
	}
}

// ---------------------------------------------------------------------------
// lists of offers on one Extension

// item is one element of an offer list.
type item struct {
	El        ext
	Of        *spec // nil for foreign or malformed elements
	Malformed bool
}

func pmd(of spec, rot int) item {
	o := of
	return item{El: ext{extName, rotate(of.params(), rot)}, Of: &o}
}

// soloAnswers tells whether a fresh Extension with cfg answers of.
func soloAnswers(cfg, of spec) (ext, bool, string) {
	e, msg := negotiateOnce(cfg, of, direct(ext{extName, of.params()}))
	return e, e.Name != "", msg
}

type step struct {
	e   ext
	err error
	ok  bool               // Accepted() flag after the call
	p   wsflate.Parameters // Accepted() parameters after the call
}

// feed negotiates the items in order on x and returns what happened; it stops
// after the first error.
func feed(x *wsflate.Extension, items []item, useText bool) ([]step, string) {
	var out []step
	for i, it := range items {
		opt := directR(it.El, i+len(it.El.Params))
		if useText && allRenderable(it.El) {
			var ok bool
			if opt, ok = viaText(it.El, i%4); !ok {
				return out, fmt.Sprintf("httphead.ParseOptions rejected %q", render(it.El, i%4))
			}
			if (i+len(items))%3 == 0 {
				opt = opt.Clone() // what a handler keeping the offer beyond the callback would hold
			}
		}
		ans, err := x.Negotiate(opt)
		zero, msg := declined(ans)
		if msg != "" {
			return out, msg
		}
		s := step{err: err}
		if !zero {
			s.e = readOption(ans)
		}
		s.p, s.ok = x.Accepted()
		out = append(out, s)
		if err != nil {
			break
		}
	}
	return out, ""
}

func allRenderable(e ext) bool {
	for _, p := range e.Params {
		if !renderable(p.V) || !isToken(p.K) {
			return false
		}
	}
	return isToken(e.Name)
}

// checkList is the list oracle: on one Extension at most one answer, at the
// first index whose solo negotiation (fresh Extension) answers; zero option
// and nil error for every other well-formed element; a malformed
// permessage-deflate element before that index is an error (after it: open).
func checkList(cfg spec, items []item, useText bool) string {
	x := wsflate.Extension{Parameters: cfg.lib()}
	steps, msg := feed(&x, items, useText)
	if msg != "" {
		return msg
	}
	return judgeList(cfg, items, steps)
}

func judgeList(cfg spec, items []item, steps []step) string {
	first := -1
	for i, it := range items {
		if i >= len(steps) {
			return fmt.Sprintf("negotiation stopped after %d of %d elements", len(steps), len(items))
		}
		s := steps[i]
		if it.Malformed {
			if first >= 0 {
				// "Offers with unknown, duplicated or ill-valued parameters are
				// rejected as errors" — the statement has no exception for
				// offers that follow the accepted one.
				if s.e.Name != "" {
					return fmt.Sprintf("element %d (malformed, after the accepted one) got answer %q", i, s.e.String())
				}
				if s.err != nil {
					return ""
				}
				if hx.Known(sigLaterBad) {
					hx.Exclude(sigLaterBad)
					continue
				}
				return fmt.Sprintf("element %d %q is malformed but was not rejected as an error (it follows the accepted element %d)", i, it.El.String(), first)
			}
			if s.err == nil {
				return fmt.Sprintf("element %d %q is malformed but was not rejected (answer %q)", i, it.El.String(), s.e.String())
			}
			if s.e.Name != "" || s.ok {
				return fmt.Sprintf("element %d: error %v together with answer %q / Accepted()=%v", i, s.err, s.e.String(), s.ok)
			}
			return ""
		}
		if s.err != nil {
			return fmt.Sprintf("element %d %q: unexpected error %v", i, it.El.String(), s.err)
		}
		if it.Of == nil { // foreign extension
			if s.e.Name != "" {
				return fmt.Sprintf("element %d %q (not permessage-deflate) got answer %q", i, it.El.String(), s.e.String())
			}
		} else {
			_, want, msg := soloAnswers(cfg, *it.Of)
			if msg != "" {
				return fmt.Sprintf("solo negotiation of element %d: %s", i, msg)
			}
			switch {
			case first >= 0:
				if s.e.Name != "" {
					return fmt.Sprintf("second answer %q at element %d, element %d was already answered", s.e.String(), i, first)
				}
			case want:
				if s.e.Name == "" {
					return fmt.Sprintf("element %d %q is answered when offered alone but was passed over in the list", i, it.El.String())
				}
				a, complaint := readAnswer(s.e)
				if complaint == "" {
					complaint = legal(*it.Of, a)
				}
				if complaint != "" {
					return fmt.Sprintf("element %d: %s", i, complaint)
				}
				first = i
			default:
				if s.e.Name != "" {
					return fmt.Sprintf("element %d %q is declined when offered alone but answered %q in the list", i, it.El.String(), s.e.String())
				}
			}
		}
		if s.ok != (first >= 0) {
			return fmt.Sprintf("after element %d: Accepted() flag %v, answered so far: %v", i, s.ok, first >= 0)
		}
		if first >= 0 && s.p != items[first].Of.lib() {
			return fmt.Sprintf("after element %d: Accepted() parameters %+v, the accepted offer (element %d) was %+v", i, s.p, first, items[first].Of.lib())
		}
	}
	return ""
}

func describe(items []item) []string {
	out := make([]string, len(items))
	for i, it := range items {
		out[i] = it.El.String()
	}
	return out
}

type listCase struct {
	Config string   `json:"config"`
	List   []string `json:"list"`
}

// subAlphabet picks offers: snct 2 × smwb × cmwb, cnct alternating.
func subAlphabet(sm, cm []int) []spec {
	var out []spec
	for _, a := range bools {
		for _, s := range sm {
			for _, c := range cm {
				out = append(out, spec{a, len(out)%2 == 1, s, c})
			}
		}
	}
	return out
}

func listConfigs() []spec {
	if hx.Thorough() {
		return allConfigs
	}
	return subConfigs()
}

func subConfigs() []spec {
	var out []spec
	for _, a := range bools {
		for _, s := range []int{0, 8, 11, 15} {
			for _, c := range []int{0, 8, 11, 15} {
				out = append(out, spec{a, len(out)%2 == 1, s, c})
			}
		}
	}
	return out
}

// TestListsPairs: all ordered pairs over a 40-offer sub-alphabet (and, in the
// thorough tier, all ordered triples over a 12-offer one), each pair also
// with a foreign extension in one of the three gaps.
func TestListsPairs(t *testing.T) {
	alpha := subAlphabet([]int{0, 8, 11, 15}, []int{0, 1, 8, 11, 15})
	if len(alpha) != 40 {
		t.Fatalf("sub-alphabet has %d offers", len(alpha))
	}
	foreigns := []item{
		{El: ext{"x-webkit-deflate-frame", []kv{{kSMWB, "99"}}}},
		{El: ext{"permessage-deflate2", []kv{{kCMWB, ""}}}},
		{El: ext{"permessage-deflat", nil}},
		{El: ext{"Permessage-Deflate", nil}},
		{El: ext{"PERMESSAGE-DEFLATE", []kv{{kCMWB, ""}, {"foo", "1"}}}},
		{El: ext{"permessage_deflate", []kv{{kSMWB, "10"}}}},
	}
	var n, both, one, none int64
	cfgs := listConfigs()
	for ci, cfg := range cfgs {
		if !hx.Mine(ci) {
			continue
		}
		solo := make([]bool, len(alpha))
		for i, of := range alpha {
			_, ok, msg := soloAnswers(cfg, of)
			if msg != "" {
				hx.Failf(t, listCase{cfg.String(), []string{of.String()}}, "%s", msg)
				return
			}
			solo[i] = ok
		}
		for i, a := range alpha {
			for j, b := range alpha {
				items := []item{pmd(a, i+j), pmd(b, j)}
				foreign := foreigns[(i+2*j+ci)%len(foreigns)]
				switch (i + j + ci) % 4 {
				case 0:
					items = []item{foreign, items[0], items[1]}
				case 1:
					items = []item{items[0], foreign, items[1]}
				case 2:
					items = []item{items[0], items[1], foreign}
				}
				n++
				if msg := checkList(cfg, items, (i+j)%2 == 0); msg != "" {
					hx.Failf(t, listCase{cfg.String(), describe(items)}, "%s", msg)
					return
				}
				switch {
				case solo[i] && solo[j]:
					both++
					hx.NonTrivial(hx.Hash("pair", cfg, i, j), func() interface{} {
						return listCase{cfg.String(), describe(items)}
					})
				case solo[i] || solo[j]:
					one++
					if !solo[i] {
						hx.NonTrivial(hx.Hash("pair", cfg, i, j), nil)
					}
				default:
					none++
				}
			}
		}
	}
	hx.EvalN(int(n))
	classN("pairs/both-acceptable", both)
	classN("pairs/one-acceptable", one)
	classN("pairs/none-acceptable", none)
	hx.Part(fmt.Sprintf("lists: %d configurations x all ordered pairs over a 40-offer sub-alphabet", len(cfgs)), n, true)

	if !hx.Thorough() {
		return
	}
	small := subAlphabet([]int{0, 10}, []int{0, 1, 12})
	var m int64
	for ci, cfg := range allConfigs {
		if !hx.Mine(ci) {
			continue
		}
		for i, a := range small {
			for j, b := range small {
				for k, c := range small {
					items := []item{pmd(a, i), pmd(b, j), pmd(c, k)}
					m++
					if msg := checkList(cfg, items, (i+j+k)%2 == 0); msg != "" {
						hx.Failf(t, listCase{cfg.String(), describe(items)}, "%s", msg)
						return
					}
				}
			}
		}
	}
	hx.EvalN(int(m))
	hx.Part("lists: 324 configurations x all ordered triples over a 12-offer sub-alphabet", m, true)
}

// ---------------------------------------------------------------------------
// generators

func drawSpec(t *rapid.T, label string, cm []int) spec {
	return spec{
		SNCT: rapid.Bool().Draw(t, label+".snct"),
		CNCT: rapid.Bool().Draw(t, label+".cnct"),
		SMWB: rapid.SampledFrom(smwbValues).Draw(t, label+".smwb"),
		CMWB: rapid.SampledFrom(cm).Draw(t, label+".cmwb"),
	}
}

// drawOfferFor biases the offer towards the accept/decline boundary of cfg.
func drawOfferFor(t *rapid.T, label string, cfg spec) spec {
	of := drawSpec(t, label, cmwbOffered)
	switch rapid.IntRange(0, 3).Draw(t, label+".near") {
	case 0:
		return of
	case 1: // an offer this implementation is likely to answer (generator bias only)
		if of.SMWB != 0 && (cfg.SMWB == 0 || of.SMWB < cfg.SMWB) {
			of.SMWB = 0
		}
		if cfg.CMWB != 0 && of.CMWB < cfg.CMWB {
			of.CMWB = rapid.IntRange(cfg.CMWB, 15).Draw(t, label+".cmwb3")
		}
		of.SNCT = of.SNCT && cfg.SNCT
		return of
	}
	near := func(c int, lbl string, valueless bool) int {
		lo := 0
		if valueless {
			lo = -1
		}
		switch d := rapid.IntRange(lo, 3).Draw(t, lbl); {
		case d == -1:
			return 1
		case d == 0 || c == 0:
			return 0
		default:
			v := c + d - 2 // c-1, c, c+1
			if v < 8 || v > 15 {
				return c
			}
			return v
		}
	}
	of.SMWB = near(cfg.SMWB, label+".smwb2", false)
	of.CMWB = near(cfg.CMWB, label+".cmwb2", true)
	return of
}

func shuffled(t *rapid.T, label string, ps []kv) []kv {
	if len(ps) < 2 {
		return ps
	}
	perm := rapid.Permutation(append([]kv(nil), ps...)).Draw(t, label)
	return perm
}

// badValues: every value that is not one of the literal decimals 8..15
// (RFC 7692 §7.1.2.1/2: "a decimal integer value without leading zeroes
// between 8 to 15"): out-of-range numbers, non-numbers, and leading-zero
// spellings ("08", "09", "010", "015") — about a third of the table.
var badValues = []string{"08", "09", "08", "09", "008", "009", "010", "011", "015", "0015", "0008", "00000000000000000010", "02", "000", "1", "2", "3", "6", "17", "20", "80", "99", "100", "150", "01", "001", "00", "07", "016", "099", "1.", "7", "16", "0", "255", "8x", "x", ":", "1:", "99999999999999999999", "18446744073709551626",
	"18446744073709551631", "10000000000000000008", "-8", "+8", "8.0", "1e1", "0x8", "8 ", " 8", "1 0", "15,", ";", "<", "=", ">", "?", "1?", "9:"}

// malformations builds permessage-deflate elements that §7.1 says must be
// rejected: base is a well-formed parameter list into which one defect is put.
func drawMalformed(t *rapid.T, label string) (e ext, class string) {
	base := drawSpec(t, label+".base", cmwbOffered)
	ps := base.params()
	kind := rapid.IntRange(0, 4).Draw(t, label+".kind")
	var bad []kv
	switch kind {
	case 0: // unknown parameter
		class = "unknown"
		name := rapid.SampledFrom([]string{"foo", "x", "max_window_bits", "server_max_window_bit", "client_max_window_bits_", "server_no_context_takeove", "permessage-deflate", "no_context_takeover",
			"Server_No_Context_Takeover", "CLIENT_NO_CONTEXT_TAKEOVER", "Server_max_window_bits", "CLIENT_MAX_WINDOW_BITS", "client_Max_window_bits"}).Draw(t, label+".name")
		v := rapid.SampledFrom([]string{"", "10", "x"}).Draw(t, label+".val")
		bad = []kv{{name, v}}
	case 1: // duplicate of a parameter (either already present, or added twice)
		class = "duplicate"
		k := rapid.SampledFrom([]string{kSNCT, kCNCT, kSMWB, kCMWB}).Draw(t, label+".dupkey")
		val := func(lbl string) string {
			if k == kSNCT || k == kCNCT {
				return ""
			}
			v := fmt.Sprint(rapid.IntRange(8, 15).Draw(t, lbl))
			if k == kCMWB && rapid.Bool().Draw(t, lbl+".valueless") {
				v = ""
			}
			return v
		}
		var rest []kv
		have := false
		for _, p := range ps {
			if p.K == k {
				have = true
			}
			rest = append(rest, p)
		}
		bad = []kv{{k, val(label + ".dupv1")}}
		if !have {
			bad = append(bad, kv{k, val(label + ".dupv2")})
		}
		ps = rest
		with, wo := 0, 0
		for _, p := range append(append([]kv(nil), ps...), bad...) {
			if p.K == k && p.V == "" {
				wo++
			} else if p.K == k {
				with++
			}
		}
		switch {
		case k == kSNCT || k == kCNCT:
			class = "duplicate/flag"
		case with == 0:
			class = "duplicate/valueless-twice"
		case wo == 0:
			class = "duplicate/valued-twice"
		default:
			class = "duplicate/valueless+valued"
		}
	case 2: // ill-valued window parameter
		class = "badvalue"
		k := rapid.SampledFrom([]string{kSMWB, kCMWB}).Draw(t, label+".key")
		v := rapid.SampledFrom(badValues).Draw(t, label+".badv")
		ps = without(ps, k)
		bad = []kv{{k, v}}
	case 3: // value on a flag parameter
		class = "flagvalue"
		k := rapid.SampledFrom([]string{kSNCT, kCNCT}).Draw(t, label+".key")
		v := rapid.SampledFrom([]string{"1", "true", "0", "10", "x"}).Draw(t, label+".flagv")
		ps = without(ps, k)
		bad = []kv{{k, v}}
	case 4: // server_max_window_bits without a value
		class = "smwb-valueless"
		ps = without(ps, kSMWB)
		bad = []kv{{kSMWB, ""}}
	}
	all := append(append([]kv(nil), ps...), bad...)
	return ext{extName, shuffled(t, label+".order", all)}, class
}

func without(ps []kv, k string) []kv {
	var out []kv
	for _, p := range ps {
		if p.K != k {
			out = append(out, p)
		}
	}
	return out
}

func drawForeign(t *rapid.T, label string) item {
	name := rapid.SampledFrom(foreignNames).Draw(t, label+".name")
	var ps []kv
	switch rapid.IntRange(0, 3).Draw(t, label+".params") {
	case 1:
		ps = []kv{{kSMWB, "10"}, {kCMWB, ""}}
	case 2:
		ps = []kv{{kSMWB, "99"}, {kSMWB, "3"}, {"foo", "bar"}}
	case 3:
		ps = []kv{{kSNCT, ""}}
	}
	return item{El: ext{name, ps}}
}

// drawItems draws a list of at most maxPMD permessage-deflate offers
// interleaved with foreign extensions (and, if allowed, a malformed element).
func drawItems(t *rapid.T, label string, cfg spec, maxPMD int, malformed bool) []item {
	var items []item
	n := rapid.IntRange(0, maxPMD).Draw(t, label+".n")
	for i := 0; i < n; i++ {
		l := fmt.Sprintf("%s[%d]", label, i)
		if rapid.IntRange(0, 2).Draw(t, l+".foreign") == 0 {
			items = append(items, drawForeign(t, l+".f"))
		}
		if malformed && rapid.IntRange(0, 7).Draw(t, l+".bad") == 0 {
			e, _ := drawMalformed(t, l+".m")
			if knownAccepted(e) {
				continue
			}
			items = append(items, item{El: e, Malformed: true})
			continue
		}
		of := drawOfferFor(t, l, cfg)
		items = append(items, item{El: ext{extName, shuffled(t, l+".order", of.params())}, Of: &of})
	}
	if rapid.IntRange(0, 3).Draw(t, label+".tail") == 0 {
		items = append(items, drawForeign(t, label+".tailf"))
	}
	return items
}

func listClass(cfg spec, items []item) string {
	acc, pm, bad := 0, 0, 0
	for _, it := range items {
		switch {
		case it.Malformed:
			bad++
		case it.Of != nil:
			pm++
			if _, ok, _ := soloAnswers(cfg, *it.Of); ok {
				acc++
			}
		}
	}
	return fmt.Sprintf("offers=%d/acceptable=%d/malformed=%d", pm, min(acc, 2), min(bad, 1))
}

func TestListsRandom(t *testing.T) {
	hx.Check(t, 30, func(t *rapid.T) {
		cfg := drawSpec(t, "cfg", cmwbConfig)
		items := drawItems(t, "list", cfg, hx.Pick(3, 4), true)
		useText := rapid.Bool().Draw(t, "text")
		hx.Eval()
		cl := listClass(cfg, items)
		hx.Class("list/" + cl)
		if strings.Contains(cl, "acceptable=2") || strings.Contains(cl, "malformed=1") {
			hx.NonTrivial(hx.Hash("list", cfg, describe(items)), func() interface{} {
				return listCase{cfg.String(), describe(items)}
			})
		}
		if msg := checkList(cfg, items, useText); msg != "" {
			t.Fatalf("%s\nconfig: %s\nlist: %q", msg, cfg, describe(items))
		}
	})
}

// ---------------------------------------------------------------------------
// malformed offers

// overflowClass is the input class of signature sigNonDigit: a window value
// made only of bytes 0x30..0x3F that contains a byte above '9', or is a
// digit string of 19+ digits without a leading zero.
func overflowClass(v string) bool {
	if v == "" || v[0] == '0' {
		return false
	}
	nondigit := false
	for i := 0; i < len(v); i++ {
		if v[i]&0xf0 != 0x30 {
			return false
		}
		if v[i] > '9' {
			nondigit = true
		}
	}
	return nondigit || len(v) >= 19
}

// knownAccepted: e matches the predicate of the listed finding sigNonDigit
// (a window value of that class, and the library accepts the element).
func knownAccepted(e ext) bool {
	if !hx.Known(sigNonDigit) {
		return false
	}
	hit := false
	for _, p := range e.Params {
		if (p.K == kSMWB || p.K == kCMWB) && overflowClass(p.V) {
			hit = true
		}
	}
	if !hit {
		return false
	}
	var p wsflate.Parameters
	if p.Parse(direct(e)) != nil {
		return false
	}
	hx.Exclude(sigNonDigit)
	return true
}

type badCase struct {
	Offer  string `json:"offer"`
	Built  string `json:"built"`
	Config string `json:"config,omitempty"`
}

var malformedConfigs = []spec{{}, {true, true, 15, 15}, {false, true, 8, 0}, {true, false, 0, 8}, {false, false, 12, 12}}

// mustReject checks that Parse and Negotiate (under several configurations)
// report an error for e, built directly and — when it can be written as
// header text — parsed from text.
func mustReject(e ext, style int) (built string, msg string) {
	opts := []httphead.Option{direct(e), directR(e, 1), directR(e, 2)}
	names := []string{"direct", "direct/valueless=empty-non-nil", "direct/clone"}
	if allRenderable(e) {
		o, ok := viaText(e, style)
		if !ok {
			// The tokenizer of the dependency already refuses the text: the
			// handshake fails with it; nothing reaches wsflate.
			hx.Class("malformed/refused-by-httphead")
		} else {
			if got := readOption(o); got.String() != e.String() {
				// the dependency's tokenizer changed the element; not wsflate's doing
				hx.Class("malformed/altered-by-httphead")
			} else {
				opts = append(opts, o)
				names = append(names, "text")
			}
		}
	}
	for i, o := range opts {
		p := wsflate.Parameters{ServerNoContextTakeover: true, ClientMaxWindowBits: 9}
		if err := p.Parse(o); err == nil {
			return names[i], fmt.Sprintf("Parameters.Parse accepted it as %+v", p)
		}
		for _, cfg := range malformedConfigs {
			x := wsflate.Extension{Parameters: cfg.lib()}
			ans, err := x.Negotiate(o)
			zero, m := declined(ans)
			if m != "" {
				return names[i], m
			}
			if err == nil {
				return names[i], fmt.Sprintf("Negotiate (config %s) returned no error, answer %q", cfg, readOption(ans).String())
			}
			if !zero {
				return names[i], fmt.Sprintf("Negotiate (config %s) returned error %v together with answer %q", cfg, err, readOption(ans).String())
			}
			if _, ok := x.Accepted(); ok {
				return names[i], fmt.Sprintf("Negotiate (config %s) failed with %v but Accepted() reports true", cfg, err)
			}
		}
	}
	return "", ""
}

// TestMalformedTable: the enumerated malformed offers of the design, each
// alone and embedded before / between / after well-formed parameters.
func TestMalformedTable(t *testing.T) {
	var bads [][]kv
	// unknown parameters
	// parameter names are case-sensitive tokens: a known name in other letter case is unknown
	for _, k := range []string{"foo", "x", "max_window_bits", "server_max_window_bit", "client_max_window_bits_", "permessage-deflate",
		"Server_No_Context_Takeover", "CLIENT_NO_CONTEXT_TAKEOVER", "Server_max_window_bits", "CLIENT_MAX_WINDOW_BITS", "client_Max_window_bits"} {
		bads = append(bads, []kv{{k, ""}}, []kv{{k, "10"}})
	}
	// duplicates
	for _, k := range []string{kSNCT, kCNCT} {
		bads = append(bads, []kv{{k, ""}, {k, ""}})
	}
	for _, k := range []string{kSMWB, kCMWB} {
		for _, pair := range [][2]string{{"10", "10"}, {"10", "12"}, {"15", "8"}, {"8", "8"}} {
			bads = append(bads, []kv{{k, pair[0]}, {k, pair[1]}})
		}
	}
	bads = append(bads,
		[]kv{{kCMWB, ""}, {kCMWB, ""}},
		[]kv{{kCMWB, ""}, {kCMWB, "10"}},
		[]kv{{kCMWB, "10"}, {kCMWB, ""}},
		[]kv{{kCMWB, ""}, {kCMWB, "15"}},
		[]kv{{kCMWB, "8"}, {kCMWB, ""}},
		[]kv{{kCMWB, ""}, {kCMWB, ""}, {kCMWB, ""}},
		[]kv{{kSMWB, ""}, {kSMWB, "10"}},
		[]kv{{kSMWB, "10"}, {kSMWB, ""}},
	)
	// ill-valued window parameters
	for _, k := range []string{kSMWB, kCMWB} {
		for _, v := range badValues {
			bads = append(bads, []kv{{k, v}})
		}
	}
	// value on a flag
	for _, k := range []string{kSNCT, kCNCT} {
		for _, v := range []string{"1", "true", "0", "10", "x"} {
			bads = append(bads, []kv{{k, v}})
		}
	}
	// valueless server_max_window_bits
	bads = append(bads, []kv{{kSMWB, ""}})

	contexts := [][2][]kv{
		{nil, nil},
		{{{kSNCT, ""}}, nil},
		{nil, {{kCNCT, ""}}},
		{{{kSNCT, ""}}, {{kCNCT, ""}}},
	}
	n := 0
	for bi, bad := range bads {
		if !hx.Mine(bi) {
			continue
		}
		for ci, ctx := range contexts {
			// contexts must not contain the parameter the defect is about
			ps := append([]kv(nil), without(ctx[0], bad[0].K)...)
			if len(bad) >= 2 && ci%2 == 1 {
				// separate the duplicates by another parameter
				ps = append(ps, bad[0])
				ps = append(ps, kv{pickOther(bad[0].K), otherValue(bad[0].K)})
				ps = append(ps, bad[1:]...)
			} else {
				ps = append(ps, bad...)
			}
			ps = append(ps, without(ctx[1], bad[0].K)...)
			e := ext{extName, ps}
			if knownAccepted(e) {
				continue
			}
			n++
			hx.Eval()
			hx.NonTrivial(hx.Hash("malformed", e.String()), func() interface{} { return badCase{Offer: e.String()} })
			if built, msg := mustReject(e, (bi+ci)%4); msg != "" {
				hx.Failf(t, badCase{Offer: e.String(), Built: built}, "malformed offer not rejected: %s", msg)
				return
			}
		}
	}
	hx.Part("malformed: enumerated unknown / duplicated / ill-valued parameter lists x 4 contexts", int64(n), true)

}

// pickOther returns a parameter name different from k, to put between duplicates.
func pickOther(k string) string {
	if k == kSMWB {
		return kCMWB
	}
	return kSMWB
}

func otherValue(k string) string { return "11" }

func TestMalformedRandom(t *testing.T) {
	hx.Check(t, 10, func(t *rapid.T) {
		e, class := drawMalformed(t, "bad")
		style := rapid.IntRange(0, 3).Draw(t, "style")
		if knownAccepted(e) {
			hx.Class("malformed/excluded-known")
			return
		}
		hx.Eval()
		hx.Class("malformed/" + class)
		hx.NonTrivial(hx.Hash("malformed", e.String()), func() interface{} { return badCase{Offer: e.String()} })
		if built, msg := mustReject(e, style); msg != "" {
			t.Fatalf("malformed offer %q (%s) not rejected: %s", e.String(), built, msg)
		}
	})
}

// ---------------------------------------------------------------------------
// Parse and Option are mutual inverses

func permutations(ps []kv) [][]kv {
	if len(ps) <= 1 {
		return [][]kv{append([]kv(nil), ps...)}
	}
	var out [][]kv
	for i := range ps {
		rest := append(append([]kv(nil), ps[:i]...), ps[i+1:]...)
		for _, tail := range permutations(rest) {
			out = append(out, append([]kv{ps[i]}, tail...))
		}
	}
	return out
}

type invCase struct {
	Params string `json:"params"`
	Text   string `json:"text,omitempty"`
	Got    string `json:"got,omitempty"`
}

// TestInverse: for all 360 valid Parameters p: Option() carries exactly p's
// parameter set (read by the harness), Parse(Option()) == p (receiver dirty or
// clean, Option taken directly or sent through WriteOptions/ParseOptions);
// for every ordering and value spelling of every well-formed parameter list
// o: Option(Parse(o)) has the same parameter set in canonical spelling.
func TestInverse(t *testing.T) {
	var n, m int64
	for pi, s := range allOffers {
		if !hx.Mine(pi) {
			continue
		}
		p := s.lib()
		o := p.Option()
		n++
		got := readOption(o)
		if got.Name != extName || !sameSet(got.Params, s.params()) {
			hx.Failf(t, invCase{Params: s.String(), Got: got.String()}, "Parameters%+v.Option() does not carry exactly the parameters of the value", p)
			return
		}
		var buf bytes.Buffer
		httphead.WriteOptions(&buf, []httphead.Option{o})
		es, err := parseExtList(buf.String())
		if err != nil || len(es) != 1 || es[0].Name != extName || !sameSet(es[0].Params, s.params()) {
			hx.Failf(t, invCase{Params: s.String(), Text: buf.String()}, "Option() written to the wire reads back differently (%v)", err)
			return
		}
		back, ok := httphead.ParseOptions(buf.Bytes(), nil)
		if !ok || len(back) != 1 {
			hx.Failf(t, invCase{Params: s.String(), Text: buf.String()}, "httphead cannot parse the rendered option")
			return
		}
		dirty := []wsflate.Parameters{{}, spec{true, true, 15, 1}.lib(), spec{false, true, 8, 9}.lib()}
		srcs := []httphead.Option{o, back[0], o, o.Clone(), o.Copy(make([]byte, o.Size())), back[0].Clone()}
		srcNames := []string{"Option(p)", "Option(p) written and parsed back", "Option(p)", "Option(p).Clone()", "Option(p).Copy()", "parsed back, then Clone()"}
		for di, src := range srcs {
			q := dirty[di%len(dirty)]
			if err := q.Parse(src); err != nil || q != p {
				hx.Failf(t, invCase{Params: s.String(), Text: buf.String(), Got: fmt.Sprintf("%+v err=%v", q, err)}, "Parse(%s) != p", srcNames[di])
				return
			}
		}
		if len(s.params()) > 0 {
			hx.NonTrivial(hx.Hash("inv", pi), func() interface{} { return invCase{Params: s.String(), Text: buf.String()} })
		}
		// every ordering, spelled as tokens or quoted strings, direct or via text
		for _, perm := range permutations(s.params()) {
			el := ext{extName, perm}
			for variant := 0; variant < 6; variant++ {
				var src httphead.Option
				switch variant {
				case 0:
					src = direct(el)
				case 3, 4, 5: // valueless parameters as empty non-nil slices / cloned / copied
					src = directR(el, variant-2)
				case 1, 2: // 2: quoted-string values
					style := 2
					if variant == 1 {
						style = int(m) % 2
					}
					var ok bool
					if src, ok = viaText(el, style); !ok {
						hx.Failf(t, invCase{Params: el.String(), Text: render(el, style)}, "httphead.ParseOptions rejected the text")
						return
					}
				}
				m++
				q := wsflate.Parameters{ClientNoContextTakeover: true, ServerMaxWindowBits: 13}
				if err := q.Parse(src); err != nil {
					hx.Failf(t, invCase{Params: el.String(), Text: render(el, 2)}, "well-formed parameter list rejected (variant %d): %v", variant, err)
					return
				}
				if q != p {
					hx.Failf(t, invCase{Params: el.String(), Got: fmt.Sprintf("%+v", q)}, "Parse gave %+v, the list says %+v (variant %d)", q, p, variant)
					return
				}
				canon := readOption(q.Option())
				if canon.Name != extName || !sameSet(canon.Params, perm) {
					hx.Failf(t, invCase{Params: el.String(), Got: canon.String()}, "Option(Parse(o)) is not the canonical form of o (variant %d)", variant)
					return
				}
			}
		}
	}
	hx.EvalN(int(n + m))
	hx.Part("inverse: Parse(Option(p)) == p for all 2x2x9x10 Parameters", n, true)
	hx.Part("inverse: Option(Parse(o)) canonical for every ordering x 6 spellings/representations of every well-formed list", m, true)
}

// TestWindowBits: all 256 WindowBits values. Defined() == (b != 0) as
// documented; Bytes() == 2^b for the RFC range 8..15 (nothing is promised
// outside it: called, not asserted). Parameters.Option() with a window field
// outside {0, 1, 8..15} is not documented: it may panic (the unchanged tree
// does, with an explicit message) or omit the parameter, but it must not hand
// out an option carrying a window value outside 8..15.
func TestWindowBits(t *testing.T) {
	n := 0
	for v := 0; v < 256; v++ {
		if !hx.Mine(v) {
			continue
		}
		b := wsflate.WindowBits(v)
		n++
		if b.Defined() != (v != 0) {
			hx.Failf(t, v, "WindowBits(%d).Defined() = %v", v, b.Defined())
			return
		}
		size, panicked := 0, false
		func() {
			defer func() { panicked = recover() != nil }()
			size = b.Bytes()
		}()
		if v >= 8 && v <= 15 {
			if panicked || size != 1<<uint(v) {
				hx.Failf(t, v, "WindowBits(%d).Bytes() = %d (panicked=%v), want %d", v, size, panicked, 1<<uint(v))
				return
			}
			hx.NonTrivial(hx.Hash("bits", v), func() interface{} { return map[string]int{"bits": v, "bytes": size} })
		} else {
			hx.Class("open/bytes-outside-8..15")
		}
		if v == 15 && size != wsflate.MaxLZ77WindowSize {
			hx.Failf(t, v, "WindowBits(15).Bytes() = %d, MaxLZ77WindowSize = %d", size, wsflate.MaxLZ77WindowSize)
			return
		}
		valid := v == 0 || v == 1 || (v >= 8 && v <= 15)
		for field := 0; field < 2; field++ {
			p := wsflate.Parameters{ServerNoContextTakeover: v%2 == 0}
			if field == 0 {
				if v == 1 {
					continue // valueless server_max_window_bits is no valid Parameters value
				}
				p.ServerMaxWindowBits = b
			} else {
				p.ClientMaxWindowBits = b
			}
			n++
			var e ext
			returned := false
			func() {
				defer func() { recover() }()
				e = readOption(p.Option())
				returned = true
			}()
			if valid {
				if !returned {
					hx.Failf(t, fmt.Sprintf("%+v", p), "Option() panicked on a valid Parameters value")
					return
				}
				continue // contents are checked by TestInverse
			}
			if !returned {
				hx.Class("option-out-of-range/panics")
				continue
			}
			hx.Class("option-out-of-range/returns")
			for _, q := range e.Params {
				if q.K != kSMWB && q.K != kCMWB {
					continue
				}
				if _, ok := strictBits(q.V); !ok {
					hx.Failf(t, fmt.Sprintf("%+v", p), "Option() of out-of-range window bits %d emitted %q", v, e.String())
					return
				}
			}
		}
	}
	hx.EvalN(n)
	hx.Part("window bits: all 256 WindowBits values (Defined, Bytes) and Option() with each in either window field", int64(n), true)
}

// ---------------------------------------------------------------------------
// Reset

func sameSteps(a, b []step) string {
	if len(a) != len(b) {
		return fmt.Sprintf("reset instance took %d steps, fresh one %d", len(a), len(b))
	}
	for i := range a {
		if (a[i].err == nil) != (b[i].err == nil) {
			return fmt.Sprintf("step %d: reset instance err=%v, fresh instance err=%v", i, a[i].err, b[i].err)
		}
		if a[i].e.String() != b[i].e.String() {
			return fmt.Sprintf("step %d: reset instance answers %q, fresh instance %q", i, a[i].e.String(), b[i].e.String())
		}
		if a[i].ok != b[i].ok || (a[i].err == nil && a[i].p != b[i].p) {
			return fmt.Sprintf("step %d: Accepted() = %+v,%v on the reset instance, %+v,%v on the fresh one", i, a[i].p, a[i].ok, b[i].p, b[i].ok)
		}
	}
	return ""
}

type resetCase struct {
	Config  string   `json:"config"`
	History []string `json:"history"`
	Then    []string `json:"continuation"`
}

// TestReset: arbitrary history (may end in an error) under configuration A,
// Reset, the exported Parameters field set to configuration B (drawn; equal
// to A in about a third of the cases), continuation — step by step against a
// fresh Extension{Parameters: B}; the continuation also has to satisfy the
// list oracle (legality of every answer) for B. The type is documented as
// reusable between upgrades with Reset() after each, and Parameters is an
// exported field, so reconfiguring between upgrades is legitimate use.
func TestReset(t *testing.T) {
	hx.Check(t, 20, func(t *rapid.T) {
		cfg := drawSpec(t, "cfg", cmwbConfig)
		rounds := rapid.IntRange(1, 3).Draw(t, "rounds")
		x := wsflate.Extension{Parameters: cfg.lib()}
		var hist []string
		accepted, reconfigured := false, false
		for r := 0; ; r++ {
			hist = append(hist, "<config "+cfg.String()+">")
			if r == rounds {
				break
			}
			items := drawItems(t, fmt.Sprintf("hist%d", r), cfg, 3, true)
			steps, msg := feed(&x, items, rapid.Bool().Draw(t, "text"))
			if msg != "" {
				t.Fatalf("%s", msg)
			}
			for _, s := range steps {
				accepted = accepted || s.ok
			}
			hist = append(hist, describe(items)...)
			hist = append(hist, "<Reset>")
			x.Reset()
			if p, ok := x.Accepted(); ok || p != (wsflate.Parameters{}) {
				t.Fatalf("after Reset Accepted() = %+v, %v; a new Extension reports zero parameters and false\nhistory %q", p, ok, hist)
			}
			if x.Parameters != cfg.lib() {
				t.Fatalf("Reset changed the configuration to %+v", x.Parameters)
			}
			if rapid.IntRange(0, 2).Draw(t, fmt.Sprintf("reconf%d", r)) != 0 {
				next := drawSpec(t, fmt.Sprintf("cfg%d", r+1), cmwbConfig)
				reconfigured = reconfigured || next != cfg
				cfg = next
				x.Parameters = cfg.lib()
			}
		}
		cont := drawItems(t, "cont", cfg, 3, true)
		useText := rapid.Bool().Draw(t, "text2")
		hx.Eval()
		hx.Class(fmt.Sprintf("reset/history-accepted=%v/reconfigured=%v/cont:%s", accepted, reconfigured, listClass(cfg, cont)))
		if accepted && len(cont) > 0 {
			hx.NonTrivial(hx.Hash("reset", hist, describe(cont)), func() interface{} {
				return resetCase{cfg.String(), hist, describe(cont)}
			})
		}
		got, msg := feed(&x, cont, useText)
		if msg != "" {
			t.Fatalf("%s", msg)
		}
		fresh := wsflate.Extension{Parameters: cfg.lib()}
		want, msg := feed(&fresh, cont, useText)
		if msg != "" {
			t.Fatalf("%s", msg)
		}
		if msg := sameSteps(got, want); msg != "" {
			t.Fatalf("%s\nconfig: %s\nhistory: %q\ncontinuation: %q", msg, cfg, hist, describe(cont))
		}
		if msg := judgeList(cfg, cont, got); msg != "" {
			t.Fatalf("after Reset: %s\nconfig: %s\nhistory: %q\ncontinuation: %q", msg, cfg, hist, describe(cont))
		}
	})
}

// TestReuseGrid: one Extension reused across upgrades. Under configuration A
// an offer every configuration of the grid answers is negotiated, then for
// each offer of a sub-alphabet: Reset, Parameters = B, negotiate — legality
// of the answer for B's offer, same answer and Accepted() as a fresh
// Extension{Parameters: B}. All ordered pairs (A, B) of the list
// configurations (thorough: A over all 324, B over the 32-element subset).
func TestReuseGrid(t *testing.T) {
	as := listConfigs()
	bs := subConfigs()
	alpha := subAlphabet([]int{0, 8, 11, 15}, []int{0, 1, 8, 11, 15})
	opener := spec{CMWB: 15} // answered by every configuration with ClientMaxWindowBits <= 15
	var n int64
	for ai, a := range as {
		if !hx.Mine(ai) {
			continue
		}
		for bi, b := range bs {
			x := wsflate.Extension{Parameters: a.lib()}
			e, msg := checkOn(&x, opener, direct(ext{extName, opener.params()}))
			if msg == "" && e.Name == "" {
				hx.Class("reuse/opener-declined")
			}
			if msg != "" {
				hx.Failf(t, resetCase{Config: a.String(), Then: []string{opener.String()}}, "%s", msg)
				return
			}
			for oi, of := range alpha {
				n++
				x.Reset()
				x.Parameters = b.lib()
				el := ext{extName, rotate(of.params(), ai+bi+oi)}
				got, msg := checkOn(&x, of, direct(el))
				hist := []string{"<config " + a.String() + ">", opener.String(), "<Reset>", "<config " + b.String() + ">", "... <Reset> after each offer"}
				if msg != "" {
					hx.Failf(t, resetCase{b.String(), hist, []string{el.String()}}, "reused Extension: %s (answer %q)", msg, got.String())
					return
				}
				want, msg := negotiateOnce(b, of, direct(el))
				if msg != "" {
					hx.Failf(t, resetCase{b.String(), nil, []string{el.String()}}, "fresh Extension: %s", msg)
					return
				}
				if got.String() != want.String() {
					hx.Failf(t, resetCase{b.String(), hist, []string{el.String()}}, "reused Extension answers %q, a fresh Extension with the same Parameters %q", got.String(), want.String())
					return
				}
				if got.Name != "" && a != b {
					hx.NonTrivial(hx.Hash("reuse", a, b, oi), func() interface{} {
						return resetCase{b.String(), hist, []string{el.String()}}
					})
				}
			}
		}
	}
	hx.EvalN(int(n))
	hx.Part(fmt.Sprintf("reuse: %d x %d ordered configuration pairs (A, Reset, Parameters=B) x 40 offers", len(as), len(bs)), n, true)
}

// ---------------------------------------------------------------------------
// through ws.Upgrader and the response header

func request(extHeaders []string) []byte {
	var b strings.Builder
	b.WriteString("GET /chat HTTP/1.1\r\nHost: example.com\r\nUpgrade: websocket\r\nConnection: Upgrade\r\n")
	b.WriteString("Sec-WebSocket-Key: dGhlIHNhbXBsZSBub25jZQ==\r\nSec-WebSocket-Version: 13\r\n")
	for _, h := range extHeaders {
		b.WriteString("Sec-WebSocket-Extensions: " + h + "\r\n")
	}
	b.WriteString("\r\n")
	return []byte(b.String())
}

type wireResult struct {
	err    error
	status int
	exts   []ext // parsed Sec-WebSocket-Extensions of the response
	hs     []ext // Handshake.Extensions
	raw    string
}

// legacySelector returns the deprecated Extension callback configured next
// to Negotiate (a migration leftover): 0 none, 1 approves everything, 2 only
// permessage-deflate, 3 nothing. With Negotiate set the response must carry
// the negotiator's answers only ("the returned non-zero extensions are sent
// to the client"; both upgraders consult the deprecated selector only when
// Negotiate is nil).
func legacySelector(mode int) func(httphead.Option) bool {
	switch mode {
	case 1:
		return func(httphead.Option) bool { return true }
	case 2:
		return func(o httphead.Option) bool { return string(o.Name) == extName }
	case 3:
		return func(httphead.Option) bool { return false }
	}
	return nil
}

var legacyNames = []string{"none", "all", "permessage-deflate", "nothing"}

func upgrade(x *wsflate.Extension, req []byte, chunks []int, legacy int) (wireResult, string) {
	rec := tx.NewRec()
	u := ws.Upgrader{Negotiate: x.Negotiate, Extension: legacySelector(legacy)}
	hs, err := u.Upgrade(tx.RW{Reader: tx.NewSrc(req, chunks), Writer: rec})
	return readResponse("ws.Upgrader", hs, err, rec.Bytes())
}

// upgradeHTTP sends the same request bytes through net/http's request parser
// and ws.HTTPUpgrader with a hijackable ResponseWriter.
func upgradeHTTP(x *wsflate.Extension, req []byte, legacy int) (wireResult, string) {
	hr, perr := http.ReadRequest(bufio.NewReader(bytes.NewReader(req)))
	if perr != nil {
		return wireResult{}, fmt.Sprintf("VERIF-INFRA: net/http cannot parse the harness's request: %v", perr)
	}
	rec := tx.NewRec()
	w := tx.NewHijackable(nil, rec, 0)
	u := ws.HTTPUpgrader{Negotiate: x.Negotiate, Extension: legacySelector(legacy)}
	_, _, hs, err := u.Upgrade(hr, w)
	if w.Status != 0 || w.Body.Len() > 0 {
		return wireResult{err: err}, fmt.Sprintf("ws.HTTPUpgrader answered through the ResponseWriter (status %d) instead of the hijacked connection", w.Status)
	}
	return readResponse("ws.HTTPUpgrader", hs, err, rec.Bytes())
}

func readResponse(who string, hs ws.Handshake, err error, out []byte) (wireResult, string) {
	r := wireResult{err: err, raw: string(out)}
	for _, o := range hs.Extensions {
		r.hs = append(r.hs, readOption(o))
	}
	resp, perr := http.ReadResponse(bufio.NewReader(bytes.NewReader(out)), nil)
	if perr != nil {
		return r, fmt.Sprintf("%s: response is not parseable HTTP: %v\n%q", who, perr, r.raw)
	}
	resp.Body.Close()
	r.status = resp.StatusCode
	for _, v := range resp.Header["Sec-Websocket-Extensions"] {
		es, perr := parseExtList(v)
		if perr != nil {
			return r, fmt.Sprintf("%s: response Sec-WebSocket-Extensions %q: %v", who, v, perr)
		}
		r.exts = append(r.exts, es...)
	}
	return r, ""
}

type wireCase struct {
	Config  string   `json:"config"`
	Headers []string `json:"sec_websocket_extensions"`
	Legacy  string   `json:"legacy_extension_selector,omitempty"`
	Resp    string   `json:"response_extensions,omitempty"`
}

// checkWire: the response carries exactly the answer the list oracle allows,
// and it is the same answer as negotiating the accepted offer directly.
func checkWire(cfg spec, items []item, headers []string, chunks []int, legacy int) string {
	req := request(headers)
	x := wsflate.Extension{Parameters: cfg.lib()}
	r, msg := upgrade(&x, req, chunks, legacy)
	if msg == "" {
		msg = judgeWire(cfg, items, r, &x)
	}
	if msg != "" {
		return "ws.Upgrader: " + msg
	}
	y := wsflate.Extension{Parameters: cfg.lib()}
	h, msg := upgradeHTTP(&y, req, legacy)
	if msg == "" {
		msg = judgeWire(cfg, items, h, &y)
	}
	if msg != "" {
		return "ws.HTTPUpgrader: " + msg
	}
	// the two upgraders agree on the outcome of the same request
	if (r.err == nil) != (h.err == nil) || (r.status == 101) != (h.status == 101) {
		return fmt.Sprintf("ws.Upgrader: err=%v status %d; ws.HTTPUpgrader: err=%v status %d", r.err, r.status, h.err, h.status)
	}
	if fmt.Sprint(r.exts) != fmt.Sprint(h.exts) {
		return fmt.Sprintf("ws.Upgrader answers %v, ws.HTTPUpgrader %v", r.exts, h.exts)
	}
	xp, xok := x.Accepted()
	yp, yok := y.Accepted()
	if xok != yok || (xok && xp != yp) {
		return fmt.Sprintf("Accepted() after ws.Upgrader = %+v,%v; after ws.HTTPUpgrader = %+v,%v", xp, xok, yp, yok)
	}
	return ""
}

// judgeWire applies the list oracle to the outcome of one handshake.
func judgeWire(cfg spec, items []item, r wireResult, x *wsflate.Extension) string {
	first, bad := -1, -1
	laterBad := false
	for i, it := range items {
		if it.Malformed && first >= 0 {
			laterBad = true
			continue
		}
		if it.Malformed {
			bad = i
			break
		}
		if first >= 0 {
			continue
		}
		if it.Of == nil {
			continue
		}
		_, ok, msg := soloAnswers(cfg, *it.Of)
		if msg != "" {
			return msg
		}
		if ok {
			first = i
		}
	}
	if laterBad {
		// a malformed element after the accepted one is an error as well
		if r.err != nil {
			if r.status == 101 {
				return fmt.Sprintf("Upgrade failed (%v) but answered 101", r.err)
			}
			return ""
		}
		if !hx.Known(sigLaterBad) {
			return fmt.Sprintf("a malformed permessage-deflate offer follows the accepted element %d, but the handshake succeeded (status %d)", first, r.status)
		}
		hx.Exclude(sigLaterBad)
	}
	if bad >= 0 {
		if r.err == nil || r.status == 101 {
			return fmt.Sprintf("malformed offer %q: Upgrade err=%v, status %d", items[bad].El.String(), r.err, r.status)
		}
		if p, ok := x.Accepted(); ok {
			return fmt.Sprintf("failed handshake but Accepted() = %+v, true", p)
		}
		return ""
	}
	if r.err != nil || r.status != 101 {
		return fmt.Sprintf("Upgrade failed: err=%v status=%d", r.err, r.status)
	}
	if first < 0 {
		if len(r.exts) != 0 || len(r.hs) != 0 {
			return fmt.Sprintf("no offer is acceptable alone, response has extensions %v", r.exts)
		}
		if _, ok := x.Accepted(); ok {
			return "nothing answered but Accepted() reports true"
		}
		return ""
	}
	if len(r.exts) != 1 {
		return fmt.Sprintf("response has %d extension elements %v, want exactly one answer (to element %d)", len(r.exts), r.exts, first)
	}
	of := *items[first].Of
	a, complaint := readAnswer(r.exts[0])
	if complaint == "" {
		complaint = legal(of, a)
	}
	if complaint != "" {
		return fmt.Sprintf("response %q to offer %q: %s", r.exts[0].String(), of.String(), complaint)
	}
	if len(r.hs) != 1 || r.hs[0].Name != extName || !sameSet(r.hs[0].Params, r.exts[0].Params) {
		return fmt.Sprintf("Handshake.Extensions %v differs from the response header %v", r.hs, r.exts)
	}
	solo, _, _ := soloAnswers(cfg, of)
	if !sameSet(solo.Params, r.exts[0].Params) {
		return fmt.Sprintf("response header says %q, direct negotiation of the same offer %q", r.exts[0].String(), solo.String())
	}
	if p, ok := x.Accepted(); !ok || p != of.lib() {
		return fmt.Sprintf("Accepted() = %+v, %v after answering %q", p, ok, of.String())
	}
	return ""
}

// headersFor spreads the list over one or more header lines.
func headersFor(t *rapid.T, items []item) []string {
	var hs []string
	var cur []ext
	style := rapid.IntRange(0, 3).Draw(t, "style")
	for i, it := range items {
		cur = append(cur, it.El)
		if i == len(items)-1 || rapid.IntRange(0, 3).Draw(t, fmt.Sprintf("break%d", i)) == 0 {
			hs = append(hs, renderList(cur, style))
			cur = nil
		}
	}
	return hs
}

func TestWire(t *testing.T) {
	hx.Check(t, 10, func(t *rapid.T) {
		cfg := drawSpec(t, "cfg", cmwbConfig)
		var items []item
		if rapid.Bool().Draw(t, "single") {
			of := drawOfferFor(t, "offer", cfg)
			items = []item{{El: ext{extName, shuffled(t, "order", of.params())}, Of: &of}}
		} else {
			for _, it := range drawItems(t, "list", cfg, 3, true) {
				if !allRenderable(it.El) {
					continue
				}
				if it.Malformed {
					// keep only what httphead hands on unchanged
					if o, ok := viaText(it.El, 0); !ok || readOption(o).String() != it.El.String() {
						continue
					}
				}
				items = append(items, it)
			}
		}
		headers := headersFor(t, items)
		chunks := gen.Chunks(t, "chunks")
		legacy := rapid.IntRange(0, 3).Draw(t, "legacy")
		hx.Eval()
		cl := listClass(cfg, items)
		hx.Class("wire/" + cl)
		hx.Class("wire/legacy-selector=" + legacyNames[legacy])
		if !strings.Contains(cl, "acceptable=0") {
			hx.NonTrivial(hx.Hash("wire", cfg, headers), func() interface{} {
				return wireCase{Config: cfg.String(), Headers: headers}
			})
		}
		if msg := checkWire(cfg, items, headers, chunks, legacy); msg != "" {
			t.Fatalf("%s\nconfig: %s\nlegacy Extension selector: %s\nSec-WebSocket-Extensions: %q", msg, cfg, legacyNames[legacy], headers)
		}
	})
}

// splits returns every way to cut a list of n elements into 1..3 contiguous
// non-empty groups (as group end indices).
func splits(n int) [][]int {
	var out [][]int
	for a := 1; a <= n; a++ {
		if a == n {
			out = append(out, []int{n})
			continue
		}
		for b := a + 1; b <= n; b++ {
			if b == n {
				out = append(out, []int{a, n})
			} else {
				out = append(out, []int{a, b, n})
			}
		}
	}
	return out
}

// TestWireSplits: every list of 1..3 elements over {two offers every
// configuration answers, one most decline, two malformed offers, a foreign
// extension}, distributed over 1..3 Sec-WebSocket-Extensions header lines in
// every possible way, through both upgraders.
func TestWireSplits(t *testing.T) {
	alpha := []item{
		pmd(spec{CMWB: 15}, 0),
		pmd(spec{CNCT: true, CMWB: 1, SNCT: true}, 1),
		pmd(spec{SMWB: 9, CMWB: 12}, 0),
		{El: ext{extName, []kv{{kCMWB, ""}, {kCMWB, "10"}}}, Malformed: true},
		{El: ext{extName, []kv{{kSNCT, ""}, {kSMWB, "16"}}}, Malformed: true},
		{El: ext{"permessage-deflate2", []kv{{kSMWB, "99"}}}},
		{El: ext{"Permessage-Deflate", []kv{{kCMWB, ""}, {"foo", ""}}}},
	}
	cfgs := []spec{{}, {true, true, 9, 12}, {false, true, 15, 0}, {true, false, 0, 15}, {true, false, 8, 8}, {false, false, 12, 13}}
	if hx.Thorough() {
		cfgs = subConfigs()
	}
	var lists [][]item
	for _, a := range alpha {
		lists = append(lists, []item{a})
		for _, b := range alpha {
			lists = append(lists, []item{a, b})
			for _, c := range alpha {
				lists = append(lists, []item{a, b, c})
			}
		}
	}
	n := 0
	for ci, cfg := range cfgs {
		for li, items := range lists {
			if !hx.Mine(ci*len(lists) + li) {
				continue
			}
			for si, cut := range splits(len(items)) {
				var headers []string
				start := 0
				for _, end := range cut {
					var group []ext
					for _, it := range items[start:end] {
						group = append(group, it.El)
					}
					headers = append(headers, renderList(group, (li+si)%4))
					start = end
				}
				n += 4
				cl := listClass(cfg, items)
				if len(headers) > 1 && !strings.Contains(cl, "malformed=0") {
					hx.NonTrivial(hx.Hash("wiresplit", cfg, headers), func() interface{} {
						return wireCase{Config: cfg.String(), Headers: headers}
					})
				}
				for legacy := 0; legacy < 4; legacy++ {
					if msg := checkWire(cfg, items, headers, nil, legacy); msg != "" {
						hx.Failf(t, wireCase{Config: cfg.String(), Headers: headers, Legacy: legacyNames[legacy]}, "%s", msg)
						return
					}
				}
			}
		}
	}
	hx.EvalN(n)
	hx.Part(fmt.Sprintf("wire: %d configurations x all lists of 1..3 over a 7-element alphabet x every split over 1..3 header lines x 4 legacy-selector settings, both upgraders", len(cfgs)), int64(n), true)
}

// TestWireGridSample: a deterministic slice of the grid through the Upgrader.
func TestWireGridSample(t *testing.T) {
	n := 0
	stride := hx.Pick(97, 7)
	for k := 0; k < len(allConfigs)*len(allOffers); k += stride {
		if !hx.Mine(k / stride) {
			continue
		}
		cfg, of := allConfigs[k/len(allOffers)], allOffers[k%len(allOffers)]
		it := pmd(of, k)
		n++
		legacy := (k / stride) % 4
		if msg := checkWire(cfg, []item{it}, []string{render(it.El, k%4)}, nil, legacy); msg != "" {
			hx.Failf(t, wireCase{Config: cfg.String(), Headers: []string{render(it.El, k%4)}, Legacy: legacyNames[legacy]}, "%s", msg)
			return
		}
	}
	hx.EvalN(n)
	hx.Part(fmt.Sprintf("wire: every %d-th grid point through ws.Upgrader and ws.HTTPUpgrader", stride), int64(n), true)
}

// ---------------------------------------------------------------------------
// known findings

func TestKnownFindings(t *testing.T) {
	// fixed in 309ba72
	{
		cfg, of := spec{SMWB: 12}, spec{SMWB: 10}
		x := wsflate.Extension{Parameters: cfg.lib()}
		ans, err := x.Negotiate(direct(ext{extName, of.params()}))
		present := false
		e := readOption(ans)
		if err == nil && e.Name != "" {
			a, complaint := readAnswer(e)
			present = complaint != "" || a.SMWB == 0 || a.SMWB > 10
		}
		hx.Probe(t, sigLarger, "Extension.Negotiate with Parameters.ServerMaxWindowBits=12 answered offer server_max_window_bits=10 with "+e.String(),
			present, gridCase{Config: cfg.String(), Offer: of.String(), Answer: e.String()})
	}
	// fixed in da2f532
	{
		present := false
		var hit []string
		for _, ps := range [][]kv{{{kCMWB, ""}, {kCMWB, "10"}}, {{kCMWB, ""}, {kCMWB, ""}}} {
			e := ext{extName, ps}
			for _, o := range []httphead.Option{direct(e), mustText(e)} {
				var p wsflate.Parameters
				if p.Parse(o) == nil {
					present = true
					hit = append(hit, e.String())
				}
			}
		}
		hx.Probe(t, sigDupCMWB, fmt.Sprintf("Parameters.Parse accepted duplicated client_max_window_bits %q", hit), present, badCase{Offer: strings.Join(hit, " | ")})
	}
	// present on the current tree: bitsFromASCII relies on httphead.IntFromASCII,
	// which takes bytes 0x3A..0x3F as digits 10..15 and wraps on overflow.
	{
		present := false
		var hit []string
		for _, v := range []string{"18446744073709551626", ":", "?"} {
			for _, k := range []string{kSMWB, kCMWB} {
				e := ext{extName, []kv{{k, v}}}
				var p wsflate.Parameters
				if p.Parse(mustText(e)) == nil {
					present = true
					hit = append(hit, fmt.Sprintf("%s -> %+v", render(e, 0), p))
				}
			}
		}
		hx.Probe(t, sigNonDigit, "Parameters.Parse / Extension.Negotiate accept server_max_window_bits=18446744073709551626 (read as 10) and the quoted values \":\" .. \"?\" (read as 10..15) instead of returning an error; same for client_max_window_bits",
			present, badCase{Offer: strings.Join(hit, " | ")})
	}
}

// TestKnownFindingLeadingZero: "08" / "09" are not values "without leading
// zeroes"; Parse and Negotiate must report an error for them.
func TestKnownFindingLeadingZero(t *testing.T) {
	present := false
	var hit []string
	for _, k := range []string{kSMWB, kCMWB} {
		for _, v := range []string{"08", "09"} {
			e := ext{extName, []kv{{k, v}}}
			var p wsflate.Parameters
			if p.Parse(mustText(e)) == nil {
				present = true
				hit = append(hit, fmt.Sprintf("%s -> %+v", render(e, 0), p))
			}
		}
	}
	hx.Probe(t, sigLeadZero, "Parameters.Parse / Extension.Negotiate accept window values with a leading zero (server_max_window_bits=08, client_max_window_bits=09) instead of returning an error",
		present, badCase{Offer: strings.Join(hit, " | ")})
}

// TestKnownFindingLaterMalformed: a malformed offer is an error wherever it
// stands in the list, also after the accepted offer.
func TestKnownFindingLaterMalformed(t *testing.T) {
	x := wsflate.Extension{}
	good := ext{extName, nil}
	bad := ext{extName, []kv{{kSMWB, "99"}}}
	_, err1 := x.Negotiate(mustText(good))
	_, accepted := x.Accepted()
	_, err2 := x.Negotiate(mustText(bad))
	present := err1 == nil && accepted && err2 == nil
	hx.Probe(t, sigLaterBad, "Extension.Negotiate returns no error for a malformed offer (permessage-deflate; server_max_window_bits=99) when it follows an accepted one: 'permessage-deflate, permessage-deflate; server_max_window_bits=99' is answered 101, the same offers in the other order fail the handshake",
		present, listCase{"permessage-deflate", []string{good.String(), bad.String()}})
}

// TestOpenClasses counts what the statement leaves undetermined; nothing is
// asserted here.
func TestOpenClasses(t *testing.T) {
	// Accepted() parameters after a declined offer (the statement does not
	// mention them; the doc says "parameters parsed during last negotiation").
	for ci, cfg := range allConfigs {
		if ci%9 != 0 {
			continue
		}
		for _, of := range allOffers {
			x := wsflate.Extension{Parameters: cfg.lib()}
			ans, err := x.Negotiate(direct(ext{extName, of.params()}))
			if err != nil || ans.Size() != 0 {
				continue
			}
			switch p, _ := x.Accepted(); p {
			case of.lib():
				hx.Class("open/accepted-params-after-decline=the-offer")
			case wsflate.Parameters{}:
				hx.Class("open/accepted-params-after-decline=zero")
			default:
				hx.Class("open/accepted-params-after-decline=other")
			}
		}
	}
	// Server-side ClientMaxWindowBits = 1 (the valueless marker) is outside
	// the statement's "2x2x9x9 configurations".
	for _, of := range allOffers {
		x := wsflate.Extension{Parameters: wsflate.Parameters{ClientMaxWindowBits: 1}}
		ans, err := x.Negotiate(direct(ext{extName, of.params()}))
		switch {
		case err != nil:
			hx.Class("open/server-config-cmwb=1/error")
		case ans.Size() == 0:
			hx.Class("open/server-config-cmwb=1/declined")
		default:
			valueless := false
			for _, p := range readOption(ans).Params {
				valueless = valueless || (p.K == kCMWB && p.V == "")
			}
			hx.Class(fmt.Sprintf("open/server-config-cmwb=1/answered/valueless-cmwb-in-answer=%v", valueless))
		}
	}
	// Parameters{ServerMaxWindowBits: 1} is outside the "2x2x9x10" space.
	func() {
		defer func() {
			if recover() != nil {
				hx.Class("open/option-smwb=1/panics")
			}
		}()
		e := readOption(wsflate.Parameters{ServerMaxWindowBits: 1}.Option())
		hx.Class("open/option-smwb=1/emits:" + e.String())
	}()
	// An empty quoted-string value reaches wsflate as a zero-length value,
	// which is httphead's representation of "no value".
	for _, text := range []string{`permessage-deflate; client_max_window_bits=""`, `permessage-deflate; server_no_context_takeover=""`, `permessage-deflate; server_max_window_bits=""`} {
		opts, ok := httphead.ParseOptions([]byte(text), nil)
		if !ok || len(opts) != 1 {
			hx.Class("open/empty-quoted-value/refused-by-httphead")
			continue
		}
		var p wsflate.Parameters
		if p.Parse(opts[0]) == nil {
			hx.Class("open/empty-quoted-value/accepted: " + text)
		} else {
			hx.Class("open/empty-quoted-value/rejected: " + text)
		}
	}
}

func mustText(e ext) httphead.Option {
	o, ok := viaText(e, 0)
	if !ok {
		return direct(e)
	}
	return o
}
