package c05

import (
	"testing"

	"verif/harness/ref"
)

// FuzzStream lets the coverage-guided fuzzer write the wire bytes itself: the
// input (after three configuration bytes) is parsed into whole frames with
// the reference codec, the reference rule set finds the first offending frame
// (one is appended when the stream happens to be acceptable), payloads are
// re-labelled (valid part below 0x80, offending frame and everything after it
// with the marker byte) and the scenario goes through the same entry points
// and oracles as TestRuleViolation. Unlike the rapid generator the valid part
// is not "a valid conversation cut somewhere" but whatever frame sequence the
// fuzzer finds, and the frames after the offending one are arbitrary.
func FuzzStream(f *testing.F) {
	f.Add([]byte{0, 0, 0, 0x81, 0x82, 1, 2, 3, 4, 'h', 'i', 0x83, 0x80, 0, 0, 0, 0})
	f.Add([]byte{1, 1, 1, 0x01, 0x01, 'a', 0x89, 0x00, 0x80, 0x01, 'b', 0x82, 0x00})
	f.Add([]byte{2, 2, 2, 0x02, 0x03, 1, 2, 3, 0x09, 0x00, 0x00, 0x00, 0x81, 0x00})
	f.Add([]byte{3, 0, 3, 0x01, 0x81, 9, 9, 9, 9, 'x', 0x8a, 0x80, 1, 1, 1, 1, 0x00, 0x80, 2, 2, 2, 2, 0x91, 0x80, 0, 0, 0, 0})
	f.Add([]byte{4, 4, 0, 0x81, 0x7e, 0x00, 0x7e})
	f.Add([]byte{5, 9, 1, 0xc1, 0x01, 'z', 0x80, 0x00})
	f.Add([]byte{6, 0x01, 40, 0x01, 0x01, 'a', 0x89, 0x0c, 1, 2, 3, 4, 5, 6, 7, 8, 9, 10, 11, 12, 0x80, 0x00})
	f.Add([]byte{6, 0x10, 2, 0x02, 0x81, 0, 0, 0, 0, 1, 0x89, 0x84, 1, 2, 3, 4, 5, 6, 7, 8, 0x02, 0x80, 0, 0, 0, 0})
	entries := []string{"Reader", "Reader+Discard", "ReadMessage", "ReadData", "ReadText", "ReadBinary", "Reader", "NextReader"}
	f.Fuzz(func(t *testing.T, data []byte) {
		if len(data) < 3 || len(data) > 4096 {
			return
		}
		var s scenario
		s.Entry = entries[int(data[0])%len(entries)]
		s.Side = ref.Side(data[1] % 3)
		if (s.Entry == "ReadData" || s.Entry == "ReadText" || s.Entry == "ReadBinary") && s.Side == ref.SideNone {
			s.Side = ref.SideServer
		}
		s.Extended = data[1]&0x04 != 0 && s.Entry != "ReadText" && s.Entry != "ReadBinary"
		s.AttachExt = data[1]&0x08 != 0
		s.LazyHandler = data[1]&0x10 != 0
		switch data[1] >> 5 {
		case 1:
			s.Chunks = []int{1}
		case 2:
			s.Chunks = []int{2, 1, 5}
		case 3:
			s.Chunks = []int{7}
		case 4:
			s.Chunks = []int{1, 13}
		}
		s.BufSize = []int{0, 1, 3, 64}[data[2]%4]
		fs, _, _ := ref.ParseFrames(data[3:])
		for i := range fs {
			if fs[i].H.Op == ref.OpClose {
				fs[i].H.Op = ref.OpPing // close handling is C08's business; keep the stream going
			}
		}
		if int(data[0])%len(entries) == 6 {
			s.Limit = 1 + int64(data[2]>>2) // 1..64: a frame may also offend by its size alone
		}
		first := func() (int, ref.RuleSet, bool) {
			frag := false
			for i, f := range fs {
				h := f.H
				h.Length = int64(len(f.Payload))
				broken := ref.BrokenRules(h, ref.EndState{Side: s.Side, Extended: s.Extended, Fragmented: frag})
				large := s.Limit > 0 && h.Length > s.Limit
				if !broken.Empty() || large {
					return i, broken, large
				}
				if !ref.IsControl(h.Op) {
					frag = !h.Fin
				}
			}
			return -1, 0, false
		}
		idx, broken, large := first()
		if idx < 0 {
			h := ref.Header{Fin: true, Op: 3, Masked: s.Side == ref.SideServer}
			fs = append(fs, ref.Frame{H: h, Payload: markerPayload(int(data[2] >> 2))})
			idx, broken, large = first()
		}
		if idx < 0 {
			t.Fatalf("harness: no offending frame after appending one")
		}
		for i := range fs {
			if i < idx {
				for j := range fs[i].Payload {
					fs[i].Payload[j] &= 0x7f
				}
			} else {
				fs[i].Payload = markerPayload(len(fs[i].Payload))
			}
		}
		s.Frames, s.Bad, s.Broken, s.TooLarge = fs, idx, broken, large
		if err := run(s); err != nil {
			t.Fatalf("%v\nscenario: %+v", err, s.describe())
		}
	})
}
