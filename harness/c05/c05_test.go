// C05 — the message reader rejects a protocol violation (or an over-size
// frame) at the first offending frame and delivers nothing of it or after it.
package c05

import (
	"bytes"
	"errors"
	"fmt"
	"io"
	"testing"

	"github.com/gobwas/ws"
	"github.com/gobwas/ws/wsflate"
	"github.com/gobwas/ws/wsutil"
	"pgregory.net/rapid"

	"verif/harness/gen"
	"verif/harness/hx"
	"verif/harness/ref"
	"verif/harness/tx"
)

func TestMain(m *testing.M) { hx.Main(m, "C05") }

const marker = 0xEE

var ruleOf = map[error]ref.Rule{
	ws.ErrProtocolOpCodeReserved:         ref.RuleReservedOp,
	ws.ErrProtocolControlPayloadOverflow: ref.RuleControlTooLong,
	ws.ErrProtocolControlNotFinal:        ref.RuleControlNotFinal,
	ws.ErrProtocolNonZeroRsv:             ref.RuleRsv,
	ws.ErrProtocolMaskRequired:           ref.RuleMaskRequired,
	ws.ErrProtocolMaskUnexpected:         ref.RuleMaskUnexpected,
	ws.ErrProtocolContinuationExpected:   ref.RuleContinuationExpected,
	ws.ErrProtocolContinuationUnexpected: ref.RuleContinuationUnexpected,
}

type scenario struct {
	Frames   []ref.Frame // prefix ++ offending frame ++ tail
	Bad      int         // index of the offending frame (-1: the whole stream is acceptable)
	Broken   ref.RuleSet // rules the offending frame breaks (empty for a pure size case)
	TooLarge bool        // offending frame exceeds Limit
	Limit    int64       // Reader.MaxFrameSize (0 = none)
	// SkipCheck: Reader.SkipHeaderCheck (only with streams whose sole offence is a frame's size: the
	// size limit does not depend on the header check being on).
	SkipCheck bool
	Side     ref.Side
	Extended bool
	Chunks   []int
	BufSize  int
	Entry    string
	// LazyHandler: the OnIntermediate handler reads only the first half of each control payload.
	LazyHandler bool
	// AttachExt attaches a receive extension (wsflate.MessageState) to the Reader although the
	// state does not say "extended": reserved bits must still be refused by the header check.
	AttachExt bool
	// ExactLen: the consumer of the Reader entry reads exactly Header.Length bytes of a message that is a single
	// final frame (nothing at all for an empty one) and then goes on with NextFrame - "all current message
	// bytes received" - instead of reading until io.EOF.
	ExactLen bool
	// EOFData: the transport returns its last bytes together with io.EOF.
	EOFData bool
	// Stalls: frame-start offsets (Reader entry) at which the transport reports one transient error
	// with no data before serving the frame; the caller retries. The verdict on the offending frame
	// must not depend on it.
	Stalls []int
	// Announce: when non-zero the offending frame's header announces this many payload bytes
	// although only len(Payload) follow (the reader must decide on the header alone).
	Announce int64
}

// wire renders the stream; the offending frame's header announces s.Announce bytes if set.
func (s scenario) wire() []byte {
	if s.Announce == 0 || s.Bad < 0 {
		return ref.EncodeAll(s.Frames)
	}
	b := ref.EncodeAll(s.Frames[:s.Bad])
	f := s.Frames[s.Bad]
	h := f.H
	h.Length = s.Announce
	b = append(b, ref.EncodeHeader(h)...)
	if h.Masked {
		b = append(b, ref.Mask(f.Payload, h.Mask, 0)...)
	} else {
		b = append(b, f.Payload...)
	}
	return append(b, ref.EncodeAll(s.Frames[s.Bad+1:])...)
}

func (s scenario) layout() (start, hdrEnd []int) {
	start, hdrEnd = layout(s.Frames)
	if s.Announce != 0 && s.Bad >= 0 {
		h := s.Frames[s.Bad].H
		h.Length = s.Announce
		hdrEnd[s.Bad] = start[s.Bad] + ref.HeaderLen(h)
	}
	return
}

func (s scenario) exts() []wsutil.RecvExtension {
	if s.AttachExt && !s.Extended {
		return []wsutil.RecvExtension{&wsflate.MessageState{}}
	}
	return nil
}

func (s scenario) state() ws.State {
	var st ws.State
	switch s.Side {
	case ref.SideServer:
		st = ws.StateServerSide
	case ref.SideClient:
		st = ws.StateClientSide
	}
	if s.Extended {
		st |= ws.StateExtended
	}
	return st
}

func (s scenario) describe() interface{} {
	return map[string]interface{}{
		"entry": s.Entry, "side": s.Side.String(), "extended": s.Extended, "limit": s.Limit, "bad_index": s.Bad,
		"broken": s.Broken.String(), "too_large": s.TooLarge, "skip_header_check": s.SkipCheck, "chunks": s.Chunks, "bufsize": s.BufSize, "frames": ref.Describe(s.Frames), "attach_ext": s.AttachExt, "offending_frame_announces": s.Announce, "stall_at_frame_starts": s.Stalls, "exact_len_consumer": s.ExactLen, "eof_with_data": s.EOFData,
	}
}

// checkErr validates the error reported for the offending frame.
func (s scenario) checkErr(err error) error {
	if err == nil {
		return fmt.Errorf("offending frame %d was accepted (no error)", s.Bad)
	}
	if s.TooLarge && errors.Is(err, wsutil.ErrFrameTooLarge) {
		return nil
	}
	var pe ws.ProtocolError
	if !s.Broken.Empty() && errors.As(err, &pe) {
		if r, ok := ruleOf[pe]; ok && !s.Broken.Has(r) {
			return fmt.Errorf("offending frame %d rejected with %q, but it breaks %v", s.Bad, pe, s.Broken)
		}
		return nil
	}
	return fmt.Errorf("offending frame %d (breaks %v, too large=%v) reported as %T %v, want a protocol error / the size-limit error", s.Bad, s.Broken, s.TooLarge, err, err)
}

func readUntil(r io.Reader, bufSize, maxIdle int) ([]byte, error) {
	if bufSize <= 0 {
		bufSize = 4096
	}
	buf := make([]byte, bufSize)
	var out []byte
	idle := 0
	for {
		n, err := r.Read(buf)
		out = append(out, buf[:n]...)
		if err == tx.ErrTransient && n == 0 {
			continue // nothing consumed (generated at frame starts only): the caller retries
		}
		if err != nil {
			return out, err
		}
		if n == 0 {
			if idle++; idle > maxIdle {
				return out, fmt.Errorf("harness: %d consecutive (0, nil) reads", idle)
			}
		} else {
			idle = 0
		}
	}
}

// offsets of frame starts and header ends in the encoded stream.
func layout(frames []ref.Frame) (start, hdrEnd []int) {
	pos := 0
	for _, f := range frames {
		h := f.H
		h.Length = int64(len(f.Payload))
		start = append(start, pos)
		hdrEnd = append(hdrEnd, pos+ref.HeaderLen(h))
		pos += ref.HeaderLen(h) + len(f.Payload)
	}
	return
}

// openStart returns the index of the first frame of the message left open at
// the end of the valid frames (len(valid) if none is open).
func openStart(valid []ref.Frame) int {
	start := 0
	for _, e := range ref.Events(valid) {
		if e.Kind == "msg" || !e.Intermediate {
			start = e.At + 1
		}
	}
	return start
}

// ---------------------------------------------------------------------------
// entry: wsutil.Reader

func runReader(s scenario) error {
	data := s.wire()
	src := tx.NewSrc(data, s.Chunks)
	src.EOFWithData = s.EOFData
	if len(s.Stalls) > 0 {
		src.StallAt = map[int]bool{}
		for _, off := range s.Stalls {
			src.StallAt[off] = true
		}
	}
	_, hdrEnd := s.layout()
	idle := 2*len(s.Frames) + 4
	valid := s.Frames
	if s.Bad >= 0 {
		valid = s.Frames[:s.Bad]
	}
	os := openStart(valid)
	evs := ref.Events(valid[:os])
	var ictl [][]byte
	rd := &wsutil.Reader{Source: src, State: s.state(), MaxFrameSize: s.Limit, Extensions: s.exts(), SkipHeaderCheck: s.SkipCheck}
	nextFrame := func() (ws.Header, error) {
		for tries := 0; ; tries++ {
			h, err := rd.NextFrame()
			if err == tx.ErrTransient && tries < 64 {
				continue
			}
			return h, err
		}
	}
	rd.OnIntermediate = func(h ws.Header, r io.Reader) error {
		if s.LazyHandler {
			// a handler may legally ignore (part of) the payload: the reader must skip the rest itself
			p := make([]byte, h.Length/2)
			if _, err := io.ReadFull(r, p); err != nil {
				return fmt.Errorf("harness: intermediate payload: %v", err)
			}
			ictl = append(ictl, p)
			return nil
		}
		p, err := readUntil(r, s.BufSize, idle)
		if err != io.EOF {
			return fmt.Errorf("harness: intermediate payload: %v", err)
		}
		ictl = append(ictl, p)
		return nil
	}
	var wantIctl [][]byte
	finish := func(err error) error {
		if e := s.checkErr(err); e != nil {
			return e
		}
		if s.TooLarge && errors.Is(err, wsutil.ErrFrameTooLarge) && src.Pos != hdrEnd[s.Bad] {
			return fmt.Errorf("size limit: %d bytes consumed, the offending frame's header ends at %d (payload was touched)", src.Pos, hdrEnd[s.Bad])
		}
		return nil
	}
	for _, e := range evs {
		if e.Kind == "ctl" && e.Intermediate {
			wantIctl = append(wantIctl, e.Payload)
			continue
		}
		h, err := nextFrame()
		if err != nil {
			return fmt.Errorf("NextFrame before %v (valid part of the stream): %v", e, err)
		}
		if h.OpCode != ws.OpCode(e.Op) {
			return fmt.Errorf("NextFrame opcode %v, want %#x", h.OpCode, e.Op)
		}
		if s.ExactLen && e.First == e.At && h.Fin {
			p := make([]byte, h.Length)
			if _, err := io.ReadFull(rd, p); err != nil && !(err == io.EOF && len(p) == 0) {
				return fmt.Errorf("reading exactly %d bytes of %v (valid part of the stream): %v", h.Length, e, err)
			}
			if !bytes.Equal(p, e.Payload) {
				return fmt.Errorf("%v delivered as %x", e, p)
			}
			continue
		}
		p, err := readUntil(rd, s.BufSize, idle)
		if err != io.EOF {
			return fmt.Errorf("reading %v (valid part of the stream): %v", e, err)
		}
		if !bytes.Equal(p, e.Payload) {
			return fmt.Errorf("%v delivered as %d bytes %x", e, len(p), p)
		}
	}
	if s.Bad < 0 {
		if _, err := nextFrame(); err != io.EOF {
			return fmt.Errorf("acceptable stream: NextFrame at the end returned %v", err)
		}
		return nil
	}
	// The part of the stream before the offending frame that is not a complete event:
	// an open fragmented message (with its interleaved control frames).
	open := valid[os:]
	var openPayload []byte
	for _, f := range open {
		if ref.IsControl(f.H.Op) {
			wantIctl = append(wantIctl, f.Payload)
		} else {
			openPayload = append(openPayload, f.Payload...)
		}
	}
	if len(open) == 0 {
		_, err := nextFrame()
		if e := finish(err); e != nil {
			return e
		}
	} else {
		if _, err := nextFrame(); err != nil {
			return fmt.Errorf("NextFrame for the open message: %v", err)
		}
		p, err := readUntil(rd, s.BufSize, idle)
		if e := finish(err); e != nil {
			return e
		}
		if !bytes.Equal(p, openPayload) {
			return fmt.Errorf("before the error %d bytes were delivered for the open message (%x), the valid fragments carry %d (%x)", len(p), p, len(openPayload), openPayload)
		}
	}
	// Looking again after the error must not hand out anything of the offending frame or of what follows it.
	// Only when no message was open: then Read does not fetch frames by itself (with an open message it would
	// go on parsing from wherever the refused frame left the stream, which nobody defines).
	for i := 0; i < 3 && len(open) == 0; i++ {
		buf := make([]byte, 64)
		n, _ := rd.Read(buf)
		if n < 0 || n > len(buf) {
			return fmt.Errorf("Read after the error returned n=%d for a %d-byte buffer", n, len(buf))
		}
		if bytes.IndexByte(buf[:n], marker) >= 0 {
			return fmt.Errorf("a Read after the error delivered %d bytes of the refused frame (or of what follows it): %x", n, buf[:n])
		}
	}
	if len(ictl) != len(wantIctl) {
		return fmt.Errorf("%d intermediate control frames handled, %d precede the offending frame", len(ictl), len(wantIctl))
	}
	for i := range ictl {
		if s.LazyHandler {
			wantIctl[i] = wantIctl[i][:len(wantIctl[i])/2]
		}
		if !bytes.Equal(ictl[i], wantIctl[i]) {
			return fmt.Errorf("intermediate control %d: got %x want %x", i, ictl[i], wantIctl[i])
		}
	}
	return nil
}

// ---------------------------------------------------------------------------
// entry: ReadMessage

func runReadMessage(s scenario) error {
	src := tx.NewSrc(s.wire(), s.Chunks)
	valid := s.Frames[:s.Bad]
	var want []wsutil.Message
	os := openStart(valid)
	evs := ref.Events(valid[:os])
	for _, e := range evs {
		want = append(want, wsutil.Message{OpCode: ws.OpCode(e.Op), Payload: e.Payload})
		if e.Kind == "ctl" && e.Intermediate {
			continue
		}
		out, err := wsutil.ReadMessage(src, s.state(), nil)
		if err != nil {
			return fmt.Errorf("ReadMessage in the valid part of the stream: %v", err)
		}
		if err := sameMessages(out, want, false); err != nil {
			return err
		}
		want = nil
	}
	// want now holds nothing; the open part may contain intermediate control frames.
	for _, f := range valid[os:] {
		if ref.IsControl(f.H.Op) {
			want = append(want, wsutil.Message{OpCode: ws.OpCode(f.H.Op), Payload: f.Payload})
		}
	}
	out, err := wsutil.ReadMessage(src, s.state(), nil)
	if e := s.checkErr(err); e != nil {
		return e
	}
	// Only the control frames interleaved before the offending frame may be returned.
	return sameMessages(out, want, true)
}

func sameMessages(got, want []wsutil.Message, prefixOK bool) error {
	if len(got) > len(want) || (!prefixOK && len(got) != len(want)) {
		return fmt.Errorf("ReadMessage returned %d messages, want %d: %v", len(got), len(want), got)
	}
	for i := range got {
		if got[i].OpCode != want[i].OpCode || !bytes.Equal(got[i].Payload, want[i].Payload) {
			return fmt.Errorf("ReadMessage message %d: op=%v %x, want op=%v %x", i, got[i].OpCode, got[i].Payload, want[i].OpCode, want[i].Payload)
		}
	}
	return nil
}

// ---------------------------------------------------------------------------
// entry: ReadData

func runReadData(s scenario) error {
	src := tx.NewSrc(s.wire(), s.Chunks)
	rw := tx.RW{Reader: src, Writer: tx.NewRec()}
	for _, e := range ref.Events(s.Frames[:s.Bad]) {
		if e.Kind != "msg" {
			continue
		}
		p, op, err := wsutil.ReadData(rw, s.state())
		if err != nil {
			return fmt.Errorf("ReadData in the valid part of the stream: %v", err)
		}
		if op != ws.OpCode(e.Op) || !bytes.Equal(p, e.Payload) {
			return fmt.Errorf("ReadData returned op=%v %x, want %v", op, p, e)
		}
	}
	p, _, err := wsutil.ReadData(rw, s.state())
	if e := s.checkErr(err); e != nil {
		return e
	}
	// ReadData hands back what it had read of the open message together with the
	// error; those bytes may only come from the valid fragments before the offending frame.
	var openPayload []byte
	for _, f := range s.Frames[openStart(s.Frames[:s.Bad]):s.Bad] {
		if !ref.IsControl(f.H.Op) {
			openPayload = append(openPayload, f.Payload...)
		}
	}
	if !bytes.HasPrefix(openPayload, p) {
		return fmt.Errorf("ReadData returned %x together with the error; the valid fragments of the open message carry %x", p, openPayload)
	}
	return nil
}

// ---------------------------------------------------------------------------
// entry: the type-filtering ReadData variants (unwanted messages are discarded)

func runReadFiltered(s scenario) error {
	src := tx.NewSrc(s.wire(), s.Chunks)
	rw := tx.RW{Reader: src, Writer: tx.NewRec()}
	want := ws.OpText
	if s.Entry == "ReadBinary" {
		want = ws.OpBinary
	}
	read := func() ([]byte, error) {
		switch {
		case s.Side == ref.SideServer && want == ws.OpText:
			return wsutil.ReadClientText(rw)
		case s.Side == ref.SideServer:
			return wsutil.ReadClientBinary(rw)
		case want == ws.OpText:
			return wsutil.ReadServerText(rw)
		}
		return wsutil.ReadServerBinary(rw)
	}
	valid := s.Frames[:s.Bad]
	for _, e := range ref.Events(valid) {
		if e.Kind != "msg" || ws.OpCode(e.Op) != want {
			continue
		}
		p, err := read()
		if err != nil {
			return fmt.Errorf("%s in the valid part of the stream: %v", s.Entry, err)
		}
		if !bytes.Equal(p, e.Payload) {
			return fmt.Errorf("%s returned %x, want %v", s.Entry, p, e)
		}
	}
	p, err := read()
	if e := s.checkErr(err); e != nil {
		return e
	}
	var openPayload []byte
	os := openStart(valid)
	if os < len(valid) && ws.OpCode(valid[os].H.Op) == want {
		for _, f := range valid[os:] {
			if !ref.IsControl(f.H.Op) {
				openPayload = append(openPayload, f.Payload...)
			}
		}
	}
	if !bytes.HasPrefix(openPayload, p) {
		return fmt.Errorf("%s returned %x together with the error; the valid fragments of the open wanted message carry %x", s.Entry, p, openPayload)
	}
	return nil
}

// entry: wsutil.Reader where every message is discarded (optionally after a partial read)

func runReaderDiscard(s scenario) error {
	src := tx.NewSrc(s.wire(), s.Chunks)
	rd := &wsutil.Reader{Source: src, State: s.state(), Extensions: s.exts()}
	valid := s.Frames[:s.Bad]
	os := openStart(valid)
	for _, e := range ref.Events(valid[:os]) {
		if e.Kind == "ctl" && e.Intermediate {
			continue
		}
		if _, err := rd.NextFrame(); err != nil {
			return fmt.Errorf("NextFrame before %v (valid part of the stream): %v", e, err)
		}
		if err := rd.Discard(); err != nil {
			return fmt.Errorf("Discard of %v (valid part of the stream): %v", e, err)
		}
	}
	if os == len(valid) {
		_, err := rd.NextFrame()
		return s.checkErr(err)
	}
	if _, err := rd.NextFrame(); err != nil {
		return fmt.Errorf("NextFrame for the open message: %v", err)
	}
	if s.BufSize > 0 && len(valid[os].Payload) > 0 {
		// partial read inside the first fragment before discarding
		one := make([]byte, 1)
		if n, err := rd.Read(one); err != nil || n != 1 || one[0] != valid[os].Payload[0] {
			return fmt.Errorf("partial read before Discard: n=%d err=%v byte=%x", n, err, one[0])
		}
	}
	return s.checkErr(rd.Discard())
}

// entry: wsutil.NextReader per message (a fresh Reader each time; interleaved
// control frames are dropped without notice, as documented).
func runNextReader(s scenario) error {
	src := tx.NewSrc(s.wire(), s.Chunks)
	valid := s.Frames[:s.Bad]
	os := openStart(valid)
	idle := 2*len(s.Frames) + 4
	for _, e := range ref.Events(valid[:os]) {
		if e.Kind == "ctl" && e.Intermediate {
			continue
		}
		_, r, err := wsutil.NextReader(src, s.state())
		if err != nil {
			return fmt.Errorf("NextReader before %v (valid part of the stream): %v", e, err)
		}
		p, err := readUntil(r, s.BufSize, idle)
		if err != io.EOF {
			return fmt.Errorf("NextReader: reading %v (valid part of the stream): %v", e, err)
		}
		if !bytes.Equal(p, e.Payload) {
			return fmt.Errorf("NextReader: %v delivered as %d bytes %x", e, len(p), p)
		}
	}
	_, r, err := wsutil.NextReader(src, s.state())
	if os == len(valid) {
		return s.checkErr(err)
	}
	if err != nil {
		return fmt.Errorf("NextReader for the open message: %v", err)
	}
	var want []byte
	for _, f := range valid[os:] {
		if !ref.IsControl(f.H.Op) {
			want = append(want, f.Payload...)
		}
	}
	p, err := readUntil(r, s.BufSize, idle)
	if e := s.checkErr(err); e != nil {
		return e
	}
	if !bytes.Equal(p, want) {
		return fmt.Errorf("NextReader: before the error %d bytes were delivered for the open message (%x), the valid fragments carry %d (%x)", len(p), p, len(want), want)
	}
	return nil
}

func run(s scenario) error {
	switch s.Entry {
	case "NextReader":
		return runNextReader(s)
	case "ReadText", "ReadBinary":
		return runReadFiltered(s)
	case "Reader+Discard":
		return runReaderDiscard(s)
	case "Reader":
		return runReader(s)
	case "ReadMessage":
		return runReadMessage(s)
	}
	return runReadData(s)
}

// ---------------------------------------------------------------------------
// generators

// lowBytes keeps prefix payloads below 0x80 so the marker never occurs in them.
func lowText(t *rapid.T, label string, max int) []byte {
	n := rapid.IntRange(0, max).Draw(t, label)
	p := make([]byte, n)
	for i := range p {
		p[i] = byte('a' + i%26)
	}
	return p
}

func markerPayload(n int) []byte { return bytes.Repeat([]byte{marker}, n) }

// validPrefix draws a valid conversation and cuts it after a drawn number of frames.
func validPrefix(t *rapid.T, masked bool) []ref.Frame {
	conv := gen.Conversation(t, "prefix", gen.ConvOpts{Masked: masked, MaxMsgs: 3, MaxPayload: 60, Text: lowText})
	for i := range conv {
		for j := range conv[i].Payload {
			conv[i].Payload[j] &= 0x7f
		}
	}
	return conv[:rapid.IntRange(0, len(conv)).Draw(t, "prefixLen")]
}

var dataOps = []byte{ref.OpText, ref.OpBinary, ref.OpCont}
var ctlOps = []byte{ref.OpPing, ref.OpPong, ref.OpClose}

// badFrame draws a frame that breaks at least one rule in the given state.
func badFrame(t *rapid.T, st ref.EndState, rightMask bool) (ref.Frame, ref.RuleSet) {
	for try := 0; ; try++ {
		h := ref.Header{Fin: true, Masked: rightMask}
		n := rapid.IntRange(0, 40).Draw(t, "badLen")
		switch rapid.IntRange(0, 6).Draw(t, "badKind") {
		case 0: // reserved opcode
			h.Op = rapid.SampledFrom([]byte{3, 4, 5, 6, 7, 0xb, 0xc, 0xd, 0xe, 0xf}).Draw(t, "rop")
			h.Fin = rapid.Bool().Draw(t, "fin")
		case 1: // control frame too long
			h.Op = rapid.SampledFrom(ctlOps).Draw(t, "cop")
			n = rapid.IntRange(126, 200).Draw(t, "ctlLen")
		case 2: // non-final control frame
			h.Op = rapid.SampledFrom(ctlOps).Draw(t, "cop")
			h.Fin = false
		case 3: // reserved bits
			h.Op = rapid.SampledFrom([]byte{ref.OpText, ref.OpBinary, ref.OpCont, ref.OpPing}).Draw(t, "op")
			h.Rsv = byte(rapid.IntRange(1, 7).Draw(t, "rsv"))
			h.Fin = rapid.Bool().Draw(t, "fin") || ref.IsControl(h.Op)
		case 4: // wrong mask bit
			h.Op = rapid.SampledFrom([]byte{ref.OpText, ref.OpBinary, ref.OpCont, ref.OpPing, ref.OpPong}).Draw(t, "op")
			h.Masked = !rightMask
			h.Fin = rapid.Bool().Draw(t, "fin") || ref.IsControl(h.Op)
		case 5: // new data frame while fragmented / continuation while not
			if st.Fragmented {
				h.Op = rapid.SampledFrom([]byte{ref.OpText, ref.OpBinary}).Draw(t, "op")
			} else {
				h.Op = ref.OpCont
			}
			h.Fin = rapid.Bool().Draw(t, "fin")
		case 6: // several at once
			h.Op = byte(rapid.IntRange(0, 15).Draw(t, "anyop"))
			h.Fin = rapid.Bool().Draw(t, "fin")
			h.Rsv = byte(rapid.IntRange(0, 7).Draw(t, "rsv"))
			h.Masked = rapid.Bool().Draw(t, "m")
			n = rapid.SampledFrom([]int{0, 1, 125, 126, 300}).Draw(t, "n")
		}
		if h.Masked {
			h.Mask = gen.Key(t, "badKey")
		}
		h.Length = int64(n)
		if broken := ref.BrokenRules(h, st); !broken.Empty() {
			return ref.Frame{H: h, Payload: markerPayload(n)}, broken
		}
		if try > 50 {
			t.Fatalf("harness: cannot draw an offending frame for state %+v", st)
		}
	}
}

func tailFrames(t *rapid.T, masked bool) []ref.Frame {
	var fs []ref.Frame
	for i := rapid.IntRange(0, 3).Draw(t, "tailN"); i > 0; i-- {
		h := ref.Header{Fin: true, Op: rapid.SampledFrom([]byte{ref.OpText, ref.OpBinary, ref.OpPing, ref.OpCont}).Draw(t, "tailOp"), Masked: masked}
		if masked {
			h.Mask = gen.Key(t, "tailKey")
		}
		fs = append(fs, ref.Frame{H: h, Payload: markerPayload(rapid.IntRange(0, 30).Draw(t, "tailLen"))})
	}
	return fs
}

func drawSide(t *rapid.T) (ref.Side, bool) {
	switch rapid.IntRange(0, 2).Draw(t, "side") {
	case 0:
		return ref.SideServer, true
	case 1:
		return ref.SideClient, false
	}
	return ref.SideNone, rapid.Bool().Draw(t, "masked")
}

func note(s scenario) {
	frag := s.Bad > 0 && ref.FragmentedBefore(s.Frames, s.Bad)
	near := false
	if s.Limit > 0 && s.Bad >= 0 {
		d := int64(len(s.Frames[s.Bad].Payload)) - s.Limit
		near = d >= -1 && d <= 1
	}
	hx.Class(fmt.Sprintf("%s/bad=%v/fragmented=%v/size=%v", s.Entry, s.Bad >= 0, frag, s.TooLarge))
	if (s.Bad >= 1 && frag) || near {
		hx.NonTrivial(hx.Hash(ref.Shape(s.Frames), s.Bad, s.Broken.String(), s.Entry, int(s.Side), s.Extended, s.Limit, gen.ChunkClass(s.Chunks)), s.describe)
	}
}

// TestRuleViolation: valid prefix ++ rule-breaking frame ++ tail, all three entry points.
func TestRuleViolation(t *testing.T) {
	hx.Check(t, 8, func(t *rapid.T) {
		var s scenario
		var masked bool
		s.Entry = rapid.SampledFrom([]string{"Reader", "Reader", "Reader+Discard", "ReadMessage", "ReadData", "ReadText", "ReadBinary", "NextReader"}).Draw(t, "entry")
		s.Side, masked = drawSide(t)
		if (s.Entry == "ReadData" || s.Entry == "ReadText" || s.Entry == "ReadBinary") && s.Side == ref.SideNone {
			s.Side, masked = ref.SideServer, true
		}
		s.Extended = rapid.IntRange(0, 3).Draw(t, "ext") == 0
		if s.Entry == "ReadText" || s.Entry == "ReadBinary" {
			s.Extended = false // these helpers hard-wire the plain side state
		}
		prefix := validPrefix(t, masked)
		_, _, frag := ref.Validate(prefix, s.Side, s.Extended)
		bad, broken := badFrame(t, ref.EndState{Side: s.Side, Extended: s.Extended, Fragmented: frag}, masked)
		s.Frames = append(append(append([]ref.Frame(nil), prefix...), bad), tailFrames(t, masked)...)
		s.Bad, s.Broken = len(prefix), broken
		if idx, set, _ := ref.Validate(s.Frames, s.Side, s.Extended); idx != s.Bad || set != broken {
			t.Fatalf("harness: model disagrees with itself: first offending frame %d %v, expected %d %v", idx, set, s.Bad, broken)
		}
		s.Chunks = gen.Chunks(t, "chunks")
		s.BufSize = rapid.SampledFrom([]int{0, 1, 3, 64}).Draw(t, "bufsize")
		s.AttachExt = rapid.IntRange(0, 3).Draw(t, "attachExt") == 0
		s.LazyHandler = rapid.IntRange(0, 3).Draw(t, "lazyHandler") == 0
		s.ExactLen = s.Entry == "Reader" && rapid.IntRange(0, 2).Draw(t, "exactLen") == 0
		s.EOFData = rapid.IntRange(0, 2).Draw(t, "eofWithData") == 0
		if s.EOFData && rapid.Bool().Draw(t, "noTail") {
			s.Frames = s.Frames[:s.Bad+1] // the offending frame is the last thing the transport delivers
		}
		if s.Entry == "Reader" && rapid.IntRange(0, 3).Draw(t, "stalls?") == 0 {
			pos := 0
			for i, f := range s.Frames {
				if i <= s.Bad && i > 0 && rapid.IntRange(0, 1).Draw(t, "stall") == 0 {
					s.Stalls = append(s.Stalls, pos)
				}
				pos += len(f.Encode())
			}
			hx.Class(fmt.Sprintf("Reader/stalls=%d", min(len(s.Stalls), 3)))
		}
		hx.Eval()
		note(s)
		if err := run(s); err != nil {
			t.Fatalf("%v\nscenario: %s", err, hx.JSON(s.describe()))
		}
	})
}

// TestSizeLimit: a valid conversation read with MaxFrameSize around a frame's length.
func TestSizeLimit(t *testing.T) {
	hx.Check(t, 4, func(t *rapid.T) {
		var s scenario
		var masked bool
		s.Entry = "Reader"
		s.Side, masked = drawSide(t)
		s.Frames = gen.Conversation(t, "conv", gen.ConvOpts{Masked: masked, MaxMsgs: 3, MaxPayload: 200, Big: rapid.IntRange(0, 9).Draw(t, "big") == 0})
		k := rapid.IntRange(0, len(s.Frames)-1).Draw(t, "pivot")
		n := int64(len(s.Frames[k].Payload))
		switch rapid.IntRange(0, 3).Draw(t, "limitKind") {
		case 0:
			s.Limit = n - 1
		case 1:
			s.Limit = n
		case 2:
			s.Limit = n + 1
		default:
			s.Limit = int64(rapid.IntRange(1, 300).Draw(t, "limit"))
		}
		if s.Limit <= 0 {
			s.Limit = 1
		}
		s.Bad = -1
		for i, f := range s.Frames {
			if int64(len(f.Payload)) > s.Limit {
				s.Bad, s.TooLarge = i, true
				break
			}
		}
		if s.Bad >= 0 {
			// everything from the offending frame on carries the marker
			for i := s.Bad; i < len(s.Frames); i++ {
				s.Frames[i].Payload = markerPayload(len(s.Frames[i].Payload))
			}
		}
		s.Chunks = gen.Chunks(t, "chunks")
		s.BufSize = rapid.SampledFrom([]int{0, 1, 3, 64}).Draw(t, "bufsize")
		s.SkipCheck = rapid.IntRange(0, 2).Draw(t, "skipHeaderCheck") == 0
		if s.SkipCheck {
			hx.Class("Reader/size-limit-with-SkipHeaderCheck")
		}
		hx.Eval()
		note(s)
		if err := run(s); err != nil {
			t.Fatalf("%v\nscenario: %s", err, hx.JSON(s.describe()))
		}
	})
}

// TestSmallScopeExhaustive: every valid prefix up to a bounded length over the
// small alphabet, extended by every frame of a 256-frame grid that is invalid
// after it, both sides, extended or not.
func TestSmallScopeExhaustive(t *testing.T) {
	depth := hx.Pick(2, 4)
	var n int64
	idx := 0
	failed := false
	ref.EnumeratePrefixes(depth, func(seq []ref.Letter, frag bool) {
		idx++
		if failed || !hx.Mine(idx) {
			return
		}
		for _, side := range []ref.Side{ref.SideServer, ref.SideClient} {
			masked := side == ref.SideServer
			prefix := ref.Build(seq, masked)
			for _, ext := range []bool{false, true} {
				if ext && len(seq) >= 4 {
					continue // the deepest level runs the plain state and three entry points only (time)
				}
				st := ref.EndState{Side: side, Extended: ext, Fragmented: frag}
				for op := byte(0); op < 16; op++ {
					for _, fin := range []bool{false, true} {
						for _, ln := range []int{0, 126} {
							for _, rsv := range []byte{0, 1} {
								for _, m := range []bool{false, true} {
									h := ref.Header{Fin: fin, Rsv: rsv, Op: op, Masked: m, Length: int64(ln)}
									if m {
										h.Mask = [4]byte{9, 8, 7, 6}
									}
									broken := ref.BrokenRules(h, st)
									if broken.Empty() {
										continue
									}
									frames := append(append([]ref.Frame(nil), prefix...), ref.Frame{H: h, Payload: markerPayload(ln)},
										ref.Frame{H: ref.Header{Fin: true, Op: ref.OpText, Masked: masked}, Payload: markerPayload(3)})
									for _, entry := range []string{"Reader", "Reader+Discard", "ReadMessage", "ReadData", "ReadText", "ReadBinary", "NextReader"} {
										if ext && (entry == "ReadText" || entry == "ReadBinary") {
											continue // these helpers hard-wire the plain side state
										}
										if len(seq) >= 4 && entry != "Reader" && entry != "ReadMessage" && entry != "ReadData" {
											continue
										}
										s := scenario{Frames: frames, Bad: len(prefix), Broken: broken, Side: side, Extended: ext, Entry: entry, BufSize: 2, AttachExt: rsv != 0 && !ext}
										if (int(op)+len(seq))%2 == 0 {
											s.Chunks = []int{1}
										}
										n++
										note(s)
										if err := run(s); err != nil {
											hx.Failf(t, s.describe(), "%v", err)
											failed = true
											return
										}
									}
								}
							}
						}
					}
				}
			}
		}
	})
	hx.EvalN(int(n))
	hx.Part(fmt.Sprintf("every valid prefix of length<=%d over the 24-letter alphabet x every invalid frame of opcode(16) x fin x len{0,126} x rsv{0,1} x masked, x 2 sides x extended{0,1} x 7 entry points (prefixes of length 4: plain state, 3 entry points)", depth), n, true)
}

// TestLargeScale: the offending frame arrives after a valid part the random
// generator does not reach by size: a frame beyond 1 MiB, a message of 300
// fragments still open, several hundred complete messages.
func TestLargeScale(t *testing.T) {
	const MiB = 1 << 20
	pattern := func(n, salt int) []byte {
		p := make([]byte, n)
		for i := range p {
			p[i] = byte(i*5+salt) & 0x7f
		}
		return p
	}
	type shape struct {
		name  string
		valid func(mk func(op byte, fin bool, k int, p []byte) ref.Frame) []ref.Frame
	}
	shapes := []shape{
		{"one frame of 1 MiB+1", func(mk func(byte, bool, int, []byte) ref.Frame) []ref.Frame {
			return []ref.Frame{mk(ref.OpBinary, true, 1, pattern(MiB+1, 1))}
		}},
		{"open message: 2 MiB+3 first fragment", func(mk func(byte, bool, int, []byte) ref.Frame) []ref.Frame {
			return []ref.Frame{mk(ref.OpBinary, false, 1, pattern(2*MiB+3, 2)), mk(ref.OpPing, true, 2, []byte("x"))}
		}},
		{"open message of 300 fragments with pings", func(mk func(byte, bool, int, []byte) ref.Frame) []ref.Frame {
			var fs []ref.Frame
			for i := 0; i < 300; i++ {
				op := byte(ref.OpCont)
				if i == 0 {
					op = ref.OpText
				}
				fs = append(fs, mk(op, false, i, pattern(i%130, i)))
				if i%9 == 8 {
					fs = append(fs, mk(ref.OpPing, true, i, pattern(i%126, i)))
				}
			}
			return fs
		}},
		{"400 complete messages", func(mk func(byte, bool, int, []byte) ref.Frame) []ref.Frame {
			var fs []ref.Frame
			for i := 0; i < 400; i++ {
				if i%4 == 0 {
					fs = append(fs, mk(ref.OpBinary, false, i, pattern(i%50, i)), mk(ref.OpCont, true, i, pattern(i%70, i+1)))
				} else {
					fs = append(fs, mk(ref.OpText, true, i, pattern(i%200, i)))
				}
			}
			return fs
		}},
	}
	n := 0
	for si, sh := range shapes {
		if !hx.Mine(si) {
			continue
		}
		for _, side := range []ref.Side{ref.SideServer, ref.SideClient} {
			masked := side == ref.SideServer
			mk := func(op byte, fin bool, k int, p []byte) ref.Frame {
				h := ref.Header{Fin: fin, Op: op, Masked: masked}
				if masked {
					h.Mask = [4]byte{byte(k), 0x5b, byte(k >> 8), 0x0e}
				}
				return ref.Frame{H: h, Payload: p}
			}
			valid := sh.valid(mk)
			_, _, frag := ref.Validate(valid, side, false)
			var bads []ref.Frame
			bad := func(op byte, fin bool, rsv byte, flipMask bool, nn int) {
				f := mk(op, fin, 77, markerPayload(nn))
				f.H.Rsv = rsv
				if flipMask {
					f.H.Masked = !f.H.Masked
					f.H.Mask = [4]byte{9, 9, 9, 9}
				}
				bads = append(bads, f)
			}
			if frag {
				bad(ref.OpText, true, 0, false, 10) // new data frame inside the open message
			} else {
				bad(ref.OpCont, true, 0, false, 10) // continuation of nothing
			}
			bad(ref.OpPing, true, 0, false, 126) // oversized control frame
			bad(ref.OpBinary, true, 4, false, 3)  // reserved bit
			bad(ref.OpCont, frag, 0, true, 5)     // wrong mask bit
			bad(0xb, true, 0, false, 0)           // reserved opcode
			for _, b := range bads {
				frames := append(append(append([]ref.Frame(nil), valid...), b), mk(ref.OpBinary, true, 3, markerPayload(9)))
				idx, broken, _ := ref.Validate(frames, side, false)
				if idx != len(valid) {
					t.Fatalf("harness: offending frame expected at %d, reference says %d %v (%s)", len(valid), idx, broken, sh.name)
				}
				for _, entry := range []string{"Reader", "Reader+Discard", "ReadMessage", "ReadData", "NextReader"} {
					for _, chunks := range [][]int{nil, {4093}} {
						s := scenario{Frames: frames, Bad: idx, Broken: broken, Side: side, Chunks: chunks, BufSize: 0, Entry: entry}
						n++
						hx.NonTrivial(hx.Hash("scale", sh.name, entry, int(side), broken.String(), len(chunks)), func() interface{} {
							return map[string]interface{}{"valid_part": sh.name, "entry": entry, "side": side.String(), "broken": broken.String(), "chunks": chunks}
						})
						if err := run(s); err != nil {
							hx.Failf(t, map[string]interface{}{"valid_part": sh.name, "entry": entry, "side": side.String(), "broken": broken.String(), "chunks": chunks}, "%s: %v", sh.name, err)
							return
						}
					}
				}
			}
		}
	}
	hx.EvalN(n)
	hx.Part("large scale: valid part {1 MiB+1 frame, open 2 MiB+3 fragment, open 300-fragment message, 400 messages} x 5 offending frames x 2 sides x 5 entry points x chunk{all,4093}", int64(n), true)
}

// TestAnnouncedLengths: the offending frame is offending by its ANNOUNCED length
// alone (a control frame announcing more than 125 bytes, a data frame announcing
// more than the size limit), over the whole range of the 16- and 64-bit length
// forms, with only three payload bytes actually present: the decision must be
// taken on the header.
func TestAnnouncedLengths(t *testing.T) {
	n := 0
	announces := []int64{126, 127, 65535, 65536, 1<<31 - 1, 1 << 31, 1<<32 - 1, 1 << 32, 1<<32 + 3, 2<<32 + 3, 1<<40 + 125, 1 << 62, 1<<63 - 1}
	for _, side := range []ref.Side{ref.SideServer, ref.SideClient} {
		masked := side == ref.SideServer
		mk := func(op byte, fin bool, k int, p []byte) ref.Frame {
			h := ref.Header{Fin: fin, Op: op, Masked: masked}
			if masked {
				h.Mask = [4]byte{byte(k), 0x21, 0x43, 0x65}
			}
			return ref.Frame{H: h, Payload: p}
		}
		prefixes := [][]ref.Frame{
			nil,
			{mk(ref.OpText, false, 1, []byte("ab"))},
			{mk(ref.OpBinary, true, 2, []byte("xyz")), mk(ref.OpPing, true, 3, []byte("p"))},
		}
		for pi, prefix := range prefixes {
			_, _, frag := ref.Validate(prefix, side, false)
			for _, a := range announces {
				// (1) control frames announcing more than 125 bytes
				for _, op := range []byte{ref.OpPing, ref.OpPong, ref.OpClose} {
					bad := mk(op, true, 7, markerPayload(3))
					h := bad.H
					h.Length = a
					broken := ref.BrokenRules(h, ref.EndState{Side: side, Fragmented: frag})
					frames := append(append(append([]ref.Frame(nil), prefix...), bad), mk(ref.OpBinary, true, 8, markerPayload(4)))
					for _, entry := range []string{"Reader", "Reader+Discard", "ReadMessage", "ReadData", "NextReader"} {
						for _, chunks := range [][]int{nil, {1}} {
							s := scenario{Frames: frames, Bad: len(prefix), Broken: broken, Side: side, Chunks: chunks, Entry: entry, Announce: a}
							n++
							hx.NonTrivial(hx.Hash("announce-ctl", pi, a, op, entry, int(side), len(chunks)), s.describe)
							if err := run(s); err != nil {
								hx.Failf(t, s.describe(), "control frame announcing %d bytes: %v", a, err)
								return
							}
						}
					}
				}
				// (2) data frames announcing more than the size limit
				for _, limit := range []int64{5, 1024, 65535} {
					if a <= limit {
						continue
					}
					op := byte(ref.OpBinary)
					if frag {
						op = ref.OpCont
					}
					bad := mk(op, true, 9, markerPayload(3))
					frames := append(append(append([]ref.Frame(nil), prefix...), bad), mk(ref.OpBinary, true, 8, markerPayload(4)))
					for _, chunks := range [][]int{nil, {1}} {
						s := scenario{Frames: frames, Bad: len(prefix), TooLarge: true, Limit: limit, Side: side, Chunks: chunks, Entry: "Reader", Announce: a}
						n++
						hx.NonTrivial(hx.Hash("announce-size", pi, a, limit, int(side), len(chunks)), s.describe)
						if err := run(s); err != nil {
							hx.Failf(t, s.describe(), "data frame announcing %d bytes with MaxFrameSize %d: %v", a, limit, err)
							return
						}
					}
				}
			}
		}
	}
	hx.EvalN(n)
	hx.Part("offending by announced length: 13 announced lengths up to 2^63-1 x {ping,pong,close | data frame over MaxFrameSize 5/1024/65535} x 3 prefixes x 2 sides x entry points x chunk{all,1}", int64(n), true)
}
