package c15

// Stack use must not grow with the number of frames: a fragmented message
// with thousands of control frames between two fragments (and thousands of
// empty fragments) through Reader, ReadMessage and ReadData, both sides. The
// depth oracle of the frame targets (depthSrc) compares the call-stack depth
// at the transport's Read over the whole run.

import (
	"bytes"
	"fmt"
	"testing"

	"verif/harness/hx"
	"verif/harness/ref"
)

// manyFrames builds: non-final text "a", then k times unit, then the final continuation.
func manyFrames(masked bool, k int, unit ...ref.Frame) []byte {
	key := [4]byte{9, 8, 7, 6}
	enc := func(f ref.Frame) []byte {
		f.H.Masked = masked
		if masked {
			f.H.Mask = key
		}
		return f.Encode()
	}
	var u []byte
	for _, f := range unit {
		u = append(u, enc(f)...)
	}
	return cat(enc(ref.Frame{H: ref.Header{Op: ref.OpText}, Payload: []byte("a")}), bytes.Repeat(u, k),
		enc(ref.Frame{H: ref.Header{Fin: true, Op: ref.OpCont}, Payload: []byte("z")}))
}

func TestFrameCountStack(t *testing.T) {
	ping := ref.Frame{H: ref.Header{Fin: true, Op: ref.OpPing}}
	pingP := ref.Frame{H: ref.Header{Fin: true, Op: ref.OpPing}, Payload: []byte("p")}
	pong := ref.Frame{H: ref.Header{Fin: true, Op: ref.OpPong}}
	emptyCont := ref.Frame{H: ref.Header{Op: ref.OpCont}}
	units := map[string][]ref.Frame{"empty pings": {ping}, "pings with payload": {pingP}, "pongs": {pong}, "empty fragments": {emptyCont}, "ping + empty fragment": {ping, emptyCont}}
	names := []string{"empty pings", "pings with payload", "pongs", "empty fragments", "ping + empty fragment"}
	n := 0
	for ui, name := range names {
		if !hx.Mine(ui) {
			continue
		}
		for _, masked := range []bool{false, true} {
			a := byte(1 | 4)
			if masked {
				a = 4
			}
			stream := manyFrames(masked, 3000, units[name]...)
			// Reader (512-byte and 1-byte windows; OnIntermediate default / unset / not reading), ReadMessage, ReadData
			for _, ctl := range [][]byte{{2, a, 0x00, 0}, {2, a, 0x10, 0}, {2, a, 0x40, 0}, {2, a, 0x80, 0}, {2, a | 0x80, 0x01, 0}, {3, a &^ 4, 0, 0}, {4, a &^ 4, 0, 0}} {
				n++
				data := cat(ctl, stream)
				if _, err := execFrames(data); err != nil {
					hx.Failf(t, map[string]interface{}{"stream": fmt.Sprintf("non-final text 'a', 3000 x %s, final continuation 'z' (masked=%v)", name, masked), "ctl_hex": fmt.Sprintf("%x", ctl)},
						"%v\nentry=%s", err, frameEntries[int(ctl[0])%len(frameEntries)])
					return
				}
				if n%5 == 0 {
					note("frame-count", frameEntries[int(ctl[0])%len(frameEntries)], true, data)
				}
			}
		}
	}
	hx.EvalN(n)
	hx.Part("3000 frames between two fragments: kind of frame x side x reader entry", int64(n), true)
}
