package c15

// Close frames with EVERY status code 0..65535 through the control-handling
// entry points, the close-body parsers and every exported StatusCode
// predicate. Oracle: returns, no panic (which codes are acceptable is C03's
// and C08's question).

import (
	"fmt"
	"testing"

	"github.com/gobwas/ws"

	"verif/harness/hx"
	"verif/harness/ref"
)

var statusRanges = []ws.StatusCodeRange{ws.StatusRangeNotInUse, ws.StatusRangeProtocol, ws.StatusRangeApplication, ws.StatusRangePrivate,
	{Min: 0, Max: 0}, {Min: 65535, Max: 65535}, {Min: 1016, Max: 1016}, {Min: 5000, Max: 65535}, {Min: 2, Max: 1}}

func statusPredicates(code ws.StatusCode) {
	_ = code.Empty()
	_ = code.IsNotUsed()
	_ = code.IsApplicationSpec()
	_ = code.IsPrivateSpec()
	_ = code.IsProtocolSpec()
	_ = code.IsProtocolDefined()
	_ = code.IsProtocolReserved()
	for _, r := range statusRanges {
		_ = code.In(r)
	}
}

func TestCloseCodes(t *testing.T) {
	reasons := []string{"ok", "", "\xff\xfe", "bye \xe2\x82"}
	key := [4]byte{0x5a, 0x01, 0xfe, 0x77}
	n := 0
	for code := 0; code < 1<<16; code++ {
		if !hx.Mine(code >> 8) {
			continue
		}
		dense := code <= 5100 || code >= 65000 || code%97 == 0
		for ri, reason := range reasons {
			if ri > 0 && !dense {
				break
			}
			body := append([]byte{byte(code >> 8), byte(code)}, reason...)
			// the parsers and the predicates on the body itself
			if err := guard("close-body helpers", func() error {
				c, r := ws.ParseCloseFrameData(body)
				_ = ws.CheckCloseFrameData(c, r)
				statusPredicates(c)
				c, r = ws.ParseCloseFrameDataUnsafe(body)
				_ = ws.CheckCloseFrameData(c, r)
				_ = ws.NewCloseFrameBody(c, r)
				return nil
			}); err != nil {
				hx.Failf(t, map[string]interface{}{"status_code": code, "reason_hex": fmt.Sprintf("%x", reason)}, "%v", err)
				return
			}
			n++
			plain := ref.Frame{H: ref.Header{Fin: true, Op: ref.OpClose}, Payload: body}.Encode()
			masked := ref.Frame{H: ref.Header{Fin: true, Op: ref.OpClose, Masked: true, Mask: key}, Payload: body}.Encode()
			frag := ref.Frame{H: ref.Header{Op: ref.OpText}, Payload: []byte("a")}.Encode()
			cases := [][]byte{
				cat([]byte{5, 0x01, 0x00, 0}, plain),       // ControlHandler.Handle, client side
				cat([]byte{5, 0x81, 0x00, 0}, plain),       // HandleClose directly
				cat([]byte{5, 0x00, 0x04, 0}, masked),      // ControlHandler.Handle, server side, payload already unmasked by the caller
				cat([]byte{5, 0x00, 0x00, 0}, masked),      // … unmasked by the handler
				cat([]byte{2, 0x81, 0x00, 0}, plain),       // Reader: top-level close through ControlFrameHandler
				cat([]byte{2, 0x01, 0x00, 0}, frag, plain), // Reader: close between fragments through OnIntermediate = ControlFrameHandler
				cat([]byte{4, 0x01, 0x00, 0}, plain),       // ReadData
				cat([]byte{4, 0x00, 0x00, 0}, masked),      // ReadData, server side
				cat([]byte{7, 0x00, 0x00, 0}, masked),      // ReadClientData
				cat([]byte{8, 0x01, 0x00, 0}, plain),       // ReadServerMessage + HandleControlMessage
				cat([]byte{8, 0x80, 0x00, 0}, masked),      // ReadClientMessage + HandleClientControlMessage
				cat([]byte{3, 0x01, 0x00, 0}, frag, plain), // ReadMessage, close inside a fragmented message
				cat([]byte{9, 0x00, 0x00, 0}, body),        // payload helpers entry
			}
			if !dense {
				cases = cases[:11]
			}
			for _, data := range cases {
				n++
				if _, err := execFrames(data); err != nil {
					hx.Failf(t, map[string]interface{}{"status_code": code, "reason_hex": fmt.Sprintf("%x", reason), "fuzz_input_hex": fmt.Sprintf("%x", data)},
						"%v\nentry=%s", err, frameEntries[int(data[0])%len(frameEntries)])
					return
				}
			}
			if code%4099 == 0 && ri == 0 {
				note("close-codes", "ControlHandler", true, cases[0])
			}
		}
	}
	hx.EvalN(n)
	hx.Part("close frames: every status code 0..65535 x reason x control-handling entry point", int64(n), true)
}
