package c15

// Every (decoder state, next byte) pair of the streaming UTF-8 check that a
// peer can reach, enumerated: each prefix that leads to one of the DFA's live
// states, followed by every byte value, followed by enough continuation bytes
// to walk on — as a text message in one frame, split over two fragments at
// every offset, through wsutil.Reader (1-byte and 512-byte reads),
// wsutil.ReadMessage and wsutil.ReadData. Only the crash / termination oracle
// applies (which strings are accepted is C07's question).

import (
	"bytes"
	"fmt"
	"testing"

	"verif/harness/hx"
	"verif/harness/ref"
)

func TestUTF8Table(t *testing.T) {
	prefixes := []string{"", "\xc2", "\xdf", "\xe0", "\xe1", "\xec", "\xed", "\xee", "\xf0", "\xf1", "\xf3", "\xf4",
		"\xe0\xa0", "\xe1\x80", "\xed\x80", "\xf0\x90", "\xf1\x80", "\xf4\x80", "\xf0\x90\x80", "\xf1\x80\x80", "\xf4\x8f\xbf",
		"a", "\xc2\x80", "\xe2\x82\xac", "\xf0\x9f\x98\x80"}
	suffixes := []string{"", "\x80", "\x80\x80\x80", "\xbf\xbf", "a"}
	// control bytes: entry, opts a (client side | CheckUTF8 [| top-level controls handled]), opts b (buffer size), chunk plan
	ctls := [][]byte{
		{2, 0x01 | 4, 0x00, 0}, // Reader, 512-byte reads
		{2, 0x01 | 4, 0x10, 0}, // Reader, 1-byte reads
		{2, 0x01 | 4, 0x20, 1}, // Reader, 3-byte reads, transport in 1-byte chunks
		{3, 0x01, 0x00, 0},     // ReadMessage
		{4, 0x01, 0x00, 2},     // ReadData
	}
	n := 0
	for pi, pre := range prefixes {
		if !hx.Mine(pi) {
			continue
		}
		for b := 0; b < 256; b++ {
			for _, suf := range suffixes {
				payload := []byte(pre + string([]byte{byte(b)}) + suf)
				var streams [][]byte
				streams = append(streams, ref.Frame{H: ref.Header{Fin: true, Op: ref.OpText}, Payload: payload}.Encode())
				empty := ref.Frame{H: ref.Header{Op: ref.OpCont}}.Encode()
				emptyFin := ref.Frame{H: ref.Header{Fin: true, Op: ref.OpCont}}.Encode()
				for cut := 0; cut <= len(payload); cut++ {
					head := ref.Frame{H: ref.Header{Op: ref.OpText}, Payload: payload[:cut]}.Encode()
					streams = append(streams,
						cat(head, ref.Frame{H: ref.Header{Fin: true, Op: ref.OpCont}, Payload: payload[cut:]}.Encode()),
						// an empty fragment at the split, and the message ending with an empty final fragment right there
						cat(head, empty, ref.Frame{H: ref.Header{Fin: true, Op: ref.OpCont}, Payload: payload[cut:]}.Encode()),
						cat(head, emptyFin),
						cat(head, empty, emptyFin))
				}
				for si, stream := range streams {
					for ci, ctl := range ctls {
						if si > 0 && ci >= 3 && suf != "" {
							continue // the helpers see the fragmented forms for the bare suffix only
						}
						n++
						data := cat(ctl, stream)
						if _, err := execFrames(data); err != nil {
							hx.Failf(t, map[string]interface{}{"payload_hex": fmt.Sprintf("%x", payload), "stream_hex": fmt.Sprintf("%x", stream), "ctl_hex": fmt.Sprintf("%x", ctl)},
								"%v\nentry=%s\nfuzz input: %x", err, frameEntries[int(ctl[0])%len(frameEntries)], data)
							return
						}
						if b%64 == 0 && si == 0 && ci == 0 {
							note("utf8-table", "Reader", true, data)
						}
					}
				}
			}
		}
	}
	n += utf8Edges(t)
	if t.Failed() {
		return
	}
	hx.EvalN(n)
	hx.Part("text messages: DFA-state prefix x every next byte x suffix x fragment split x reader entry", int64(n), true)
}

// utf8Edges: a first fragment of a size around the buffer sizes of io.ReadAll
// (512, then growth) that ends inside a multi-byte sequence, followed by empty
// fragments, the last of which is final (or completes the sequence). The
// reader's returned counts must stay within the caller's buffer whatever the
// earlier reads were.
func utf8Edges(t *testing.T) int {
	sizes := []int{0, 1, 63, 64, 400, 450, 500, 509, 510, 511, 512, 513, 520, 900, 1000, 1020, 1023, 1024, 1025, 1030}
	partials := []string{"", "\xc2", "\xe2", "\xe2\x82", "\xf0", "\xf0\x9f", "\xf0\x9f\x98", "\xe2\x82\xac"}
	rests := map[string]string{"\xc2": "\x80", "\xe2": "\x82\xac", "\xe2\x82": "\xac", "\xf0": "\x9f\x98\x80", "\xf0\x9f": "\x98\x80", "\xf0\x9f\x98": "\x80"}
	ctls := [][]byte{
		{2, 0x01 | 4, 0x00, 0}, // Reader, 512-byte window
		{2, 0x01 | 4, 0x30, 0}, // Reader, 64-byte window
		{2, 0x01 | 4, 0x20, 5}, // Reader, 3-byte window, transport in 5-byte chunks
		{3, 0x01, 0x00, 0},     // ReadMessage
		{4, 0x01, 0x00, 0},     // ReadData
	}
	empty := ref.Frame{H: ref.Header{Op: ref.OpCont}}.Encode()
	emptyFin := ref.Frame{H: ref.Header{Fin: true, Op: ref.OpCont}}.Encode()
	ping := ref.Frame{H: ref.Header{Fin: true, Op: ref.OpPing}, Payload: []byte("p")}.Encode()
	n := 0
	for si, size := range sizes {
		if !hx.Mine(si) {
			continue
		}
		for _, part := range partials {
			first := ref.Frame{H: ref.Header{Op: ref.OpText}, Payload: append(bytes.Repeat([]byte{'a'}, size), part...)}.Encode()
			tails := [][]byte{emptyFin, cat(empty, emptyFin), cat(empty, ping, empty, emptyFin),
				cat(empty, ref.Frame{H: ref.Header{Fin: true, Op: ref.OpCont}, Payload: []byte(rests[part])}.Encode())}
			for ti, tail := range tails {
				for _, ctl := range ctls {
					n++
					data := cat(ctl, first, tail)
					if _, err := execFrames(data); err != nil {
						hx.Failf(t, map[string]interface{}{"first_fragment": fmt.Sprintf("%d x 'a' + %x", size, part), "tail_hex": fmt.Sprintf("%x", tail), "ctl_hex": fmt.Sprintf("%x", ctl)},
							"%v\nentry=%s", err, frameEntries[int(ctl[0])%len(frameEntries)])
						return n
					}
					if ti == 0 && part == "\xe2" && ctl[0] == 2 && ctl[2] == 0 {
						note("utf8-table", "Reader/edge", true, data)
					}
				}
			}
		}
	}
	// a long-lived reader: the invalid message is followed by control frames
	// with a payload and by further messages, and the caller goes on after
	// ErrInvalidUTF8 (control byte 0 = entry + contBit: continue mode)
	after := cat(
		ref.Frame{H: ref.Header{Fin: true, Op: ref.OpPing}, Payload: []byte("0123456789")}.Encode(),
		ref.Frame{H: ref.Header{Fin: true, Op: ref.OpPong}, Payload: []byte("abc")}.Encode(),
		ref.Frame{H: ref.Header{Fin: true, Op: ref.OpText}, Payload: []byte("ok \xe2\x82\xac")}.Encode(),
		ref.Frame{H: ref.Header{Op: ref.OpText}, Payload: []byte("fr")}.Encode(), ping,
		ref.Frame{H: ref.Header{Fin: true, Op: ref.OpCont}, Payload: []byte("ag")}.Encode(),
		ref.Frame{H: ref.Header{Fin: true, Op: ref.OpClose}, Payload: []byte("\x03\xe8bye")}.Encode())
	contCtls := [][]byte{
		{2 + contBit, 0x01 | 4 | 0x80, 0x00, 0}, // top-level control frames through ControlFrameHandler
		{2 + contBit, 0x01 | 4, 0x00, 0},        // … read by the harness, 512-byte window
		{2 + contBit, 0x01 | 4, 0x10, 0},        // … 1-byte window
		{2 + contBit, 0x01 | 4, 0x20, 3},        // … 3-byte window, transport in 3-byte chunks
		{2 + contBit, 0x01 | 4, 0x01, 0},        // messages discarded
	}
	for si, size := range sizes {
		if !hx.Mine(si) {
			continue
		}
		for _, part := range partials[1:] {
			first := append(bytes.Repeat([]byte{'a'}, size), part...)
			heads := [][]byte{
				ref.Frame{H: ref.Header{Fin: true, Op: ref.OpText}, Payload: first}.Encode(),
				cat(ref.Frame{H: ref.Header{Op: ref.OpText}, Payload: first}.Encode(), emptyFin),
			}
			for _, head := range heads {
				for _, ctl := range contCtls {
					n++
					data := cat(ctl, head, after)
					if _, err := execFrames(data); err != nil {
						hx.Failf(t, map[string]interface{}{"first_message": fmt.Sprintf("%d x 'a' + %x", size, part), "then_hex": fmt.Sprintf("%x", after), "ctl_hex": fmt.Sprintf("%x", ctl)},
							"%v\nentry=%s (continue after message-level errors)", err, frameEntries[int(ctl[0])%len(frameEntries)])
						return n
					}
				}
			}
		}
	}
	return n
}
