// C15 — no input from the peer can make the library panic, hang or overrun a
// size limit.
//
// The package is built around five target functions of type
// func(data []byte) error (targetFrames, targetRequest, targetResponse,
// targetOptions, targetDeflate). Each decodes the fuzz bytes into structured
// arguments (a few control bytes select entry point / side / options / chunk
// plan, the rest is what the peer sends) and contains the oracle:
//
//  1. no panic (recovered, reported with the input);
//  2. termination, judged by counters and never by the clock: transports are
//     finite tx.Src values that flag Runaway when read implausibly often,
//     destinations refuse an implausible number of writes, the source handed
//     to the deflate decompressor is counted the same way, and a message
//     reader that keeps returning (0, nil) without touching the transport is
//     reported;
//  3. (in extreme_test.go, deterministic, child process) header decoding
//     allocates < 4 KiB whatever length is announced;
//  4. with Reader.MaxFrameSize set, not one byte past the header of the first
//     frame announcing a larger payload is consumed.
//
// The same functions are driven by rapid structure-aware mutation
// (mutate_test.go), by the committed regression inputs under testdata/fuzz
// and by native fuzzing (fuzz_test.go).
package c15

import (
	"bufio"
	"bytes"
	"compress/flate"
	"context"
	"errors"
	"fmt"
	"io"
	"net"
	"net/http"
	"net/url"
	"runtime"
	"runtime/debug"
	"runtime/metrics"
	"strings"
	"testing"
	"time"

	"github.com/gobwas/httphead"
	"github.com/gobwas/ws"
	"github.com/gobwas/ws/wsflate"
	"github.com/gobwas/ws/wsutil"

	"verif/harness/c10/respgen"
	"verif/harness/hx"
	"verif/harness/ref"
	"verif/harness/tx"
)

func TestMain(m *testing.M) { hx.Main(m, "C15") }

// sigF7 is the known-findings signature of "ReadFrame / ReadMessage allocate
// the announced length" (DESIGN.md §5, F7).
const sigF7 = "C15/readframe-readmessage-allocate-announced-length"

// sigUnchecked: ControlHandler sizes buffers by the Length of a header it was
// handed without the (documented as optional) ws.CheckHeader.
const sigUnchecked = "C15/controlhandler-unchecked-header-allocates-announced-length"

// capLen is the largest announced length let through to the entry points
// that allocate by announced length while the finding is present.
const capLen = 1 << 20

// maxOut bounds what the harness reads out of a decompressor.
const maxOut = 8 << 20

// ---------------------------------------------------------------------------
// plumbing

// guard runs fn and turns a panic into an error that carries the stack.
func guard(what string, fn func() error) (err error) {
	defer func() {
		if r := recover(); r != nil {
			err = fmt.Errorf("%s: PANIC: %v\n%s", what, r, shortStack(debug.Stack()))
		}
	}()
	return fn()
}

// shortStack keeps the frames between the panic and the harness.
func shortStack(b []byte) string {
	lines := strings.Split(string(b), "\n")
	var out []string
	seenPanic := false
	for i := 0; i < len(lines); i++ {
		l := lines[i]
		if strings.HasPrefix(l, "panic(") {
			seenPanic = true
			i++ // its file line
			continue
		}
		if !seenPanic {
			continue
		}
		out = append(out, l)
		if len(out) >= 16 {
			break
		}
	}
	if len(out) == 0 {
		if len(lines) > 24 {
			lines = lines[:24]
		}
		return strings.Join(lines, "\n")
	}
	return strings.Join(out, "\n")
}

// errWouldBlock is what a live transport answers when it is asked for bytes
// the peer has not sent: on a real connection that Read would block.
var errWouldBlock = errors.New("harness: the peer has sent nothing more — this Read would block on a live connection")

// liveSrc is a transport that does not end: after its data it records every
// further Read as "would block" and fails it.
type liveSrc struct {
	*tx.Src
	blocked int
}

func (l *liveSrc) Read(p []byte) (int, error) {
	if l.Src.Pos == len(l.Src.Data) && len(p) > 0 {
		l.blocked++
		l.Src.Reads++
		return 0, errWouldBlock
	}
	return l.Src.Read(p)
}

// completeHead returns the length of the handshake head b begins with (lines
// end in LF with one optional CR before it; the head ends with the first
// empty line) and whether b holds a complete one.
func completeHead(b []byte) (int, bool) {
	lines, end, complete := respgen.SplitLines(b)
	// a blank first line is not a head: a recipient may as well keep waiting for one
	if complete && (len(lines) < 2 || lines[0] == "") {
		return end, false
	}
	return end, complete
}

// announcesBody: the head carries a Content-Length or Transfer-Encoding line.
func announcesBody(head []byte) bool {
	l := bytes.ToLower(head)
	return bytes.Contains(l, []byte("content-length")) || bytes.Contains(l, []byte("transfer-encoding"))
}

// capRec is a recording destination that refuses an implausible number of
// Write calls (a reply loop that never ends).
type capRec struct {
	*tx.Rec
	Limit   int
	Runaway bool
}

func newRec(inputLen int) *capRec {
	return &capRec{Rec: tx.NewRec(), Limit: 10000 + 4*inputLen}
}

func (c *capRec) Write(p []byte) (int, error) {
	if len(c.Rec.Calls) >= c.Limit {
		c.Runaway = true
		return 0, tx.ErrRunaway
	}
	return c.Rec.Write(p)
}

// chunkPlan turns one control byte into a chunk plan for tx.Src.
func chunkPlan(b byte) []int {
	switch {
	case b == 0:
		return nil
	case b < 8:
		return []int{int(b)}
	}
	return []int{1 + int(b&7), 1 + int(b>>3&7), 1 + int(b>>6)*13}
}

func hexHead(b []byte, n int) string {
	if len(b) <= n {
		return fmt.Sprintf("%x", b)
	}
	return fmt.Sprintf("%x…(+%d bytes)", b[:n], len(b)-n)
}

// note records a case for the evidence file: class histogram plus, when the
// case is non-trivial, the distinct-input set and the sample reservoir.
// quiet suppresses note (bulk deterministic loops record their own evidence).
var quiet bool

func quietly(fn func() error) error {
	quiet = true
	defer func() { quiet = false }()
	return fn()
}

func note(target, entry string, nontrivial bool, data []byte) {
	if quiet {
		return
	}
	if nontrivial {
		hx.Class(target + "/" + entry + "/deep")
		hx.NonTrivial(hx.Hash(target, data), func() interface{} {
			return map[string]interface{}{"target": target, "entry": entry, "len": len(data), "input_hex": hexHead(data, 96)}
		})
		return
	}
	hx.Class(target + "/" + entry + "/shallow")
}

// ---------------------------------------------------------------------------
// the F7 gate

// withholdBig reports whether announced lengths above capLen have to be kept
// away from ReadFrame / ReadMessage: while the finding is listed as known, or
// — so that an unlisted defect is reported once by its probe instead of
// killing the process from inside the search — while the probe still sees it.
func withholdBig() bool {
	return hx.Known(sigF7) || f7Present()
}

// ---------------------------------------------------------------------------
// frame streams

type frameOpts struct {
	entry      int
	state      ws.State
	utf8       bool
	ext        bool
	inflate    bool
	max        int64
	eofData    bool
	handle     bool // top-level control frames go to the control handler (else their payload is read/discarded)
	discard    bool // data messages are discarded instead of read
	skip       bool // SkipHeaderCheck (never combined with the control handler)
	noCipher   bool // ControlHandler.DisableSrcCiphering
	inter      int  // what Reader.OnIntermediate is (inter* constants)
	onCont     bool // Reader.OnContinuation installed (reads a few bytes of the fragment)
	manyFrames bool // the stream holds enough frames for the stack-depth oracle to be meaningful
	cont       bool // Reader entry: go on with NextFrame after a message-level error that left the transport at a frame start
	chunks     []int
	bufSize    int
}

// What the Reader entry installs as OnIntermediate.
const (
	interDefault = iota // ControlFrameHandler (with SkipHeaderCheck: a handler that reads the payload out)
	interNil            // nothing installed: the reader drops the payload itself
	interNone           // a handler that returns without reading
	interPartial        // a handler that reads a few bytes and returns
)

// inProcCap is the largest announced length the in-process search lets
// through to the payload entry points: large enough that an allocation sized
// by it stands out against allocBudget, small enough that such an allocation
// does not kill the worker. Larger announcements are the business of the
// child-process table in extreme_test.go.
const inProcCap = 64 << 20

var frameEntries = []string{"ReadHeader", "ReadFrame", "Reader", "ReadMessage", "ReadData", "ControlHandler",
	"NextReader", "ReadSideData", "ReadSideMessage+HandleControlMessage", "PayloadHelpers"}

// contBit added to the entry byte switches the Reader entry to continue mode.
var contBit = byte(len(frameEntries))

const frameCtl = 4

func decodeFrameOpts(data []byte) (o frameOpts, stream []byte) {
	o.entry = int(data[0]) % len(frameEntries)
	o.cont = int(data[0])/len(frameEntries)&1 == 1
	a, b := data[1], data[2]
	switch a & 3 {
	case 0:
		o.state = ws.StateServerSide
	case 1:
		o.state = ws.StateClientSide
	case 2:
		o.state = 0
	default:
		o.state = ws.StateServerSide
	}
	o.utf8 = a&4 != 0
	o.ext = a&8 != 0
	if o.ext {
		o.state |= ws.StateExtended
	}
	switch a >> 4 & 3 {
	case 1:
		o.max = 16
	case 2:
		o.max = 125
	case 3:
		o.max = 1000
	}
	o.eofData = a&0x40 != 0
	o.handle = a&0x80 != 0
	o.discard = b&1 != 0
	o.skip = b&2 != 0
	o.noCipher = b&4 != 0
	o.inflate = b&8 != 0
	o.bufSize = []int{512, 1, 3, 64}[b>>4&3]
	o.inter = int(b >> 6)
	o.onCont = o.noCipher // the bit means DisableSrcCiphering for the ControlHandler entry only
	o.chunks = chunkPlan(data[3])
	return o, data[frameCtl:]
}

// walked is the reference walk over a byte stream: consecutive frame headers,
// payloads skipped by their announced length.
type walked struct {
	start, hdrEnd int
	h             ref.Header
}

func walk(stream []byte) []walked {
	var out []walked
	pos := 0
	for pos < len(stream) {
		v, h, n := ref.DecodeHeader(stream[pos:])
		if v == ref.Incomplete || v == ref.MSB {
			break
		}
		out = append(out, walked{pos, pos + n, h})
		if h.Length > int64(len(stream)-pos-n) {
			break
		}
		pos += n + int(h.Length)
	}
	return out
}

func toWS(h ref.Header) ws.Header {
	return ws.Header{Fin: h.Fin, Rsv: h.Rsv, OpCode: ws.OpCode(h.Op), Masked: h.Masked, Mask: h.Mask, Length: h.Length}
}

// peek decodes the header at the start of b the way the reference does.
func peek(b []byte) (ref.Header, bool) {
	v, h, _ := ref.DecodeHeader(b)
	return h, v == ref.OK || v == ref.NonMinimal
}

func srcOracle(what string, src *tx.Src, rec *capRec) error {
	if src != nil && src.Runaway {
		return fmt.Errorf("%s: the transport was read %d times for %d bytes of input: the library loops without consuming input", what, src.Reads, len(src.Data))
	}
	if rec != nil && rec.Runaway {
		return fmt.Errorf("%s: more than %d writes to the peer for the given input: the library loops writing", what, rec.Limit)
	}
	return nil
}

// targetFrames feeds a byte stream to one of the frame-level entry points.
func targetFrames(data []byte) error {
	if len(data) < frameCtl {
		return nil
	}
	deep, err := execFrames(data)
	o, stream := decodeFrameOpts(data)
	entry := frameEntries[o.entry]
	note("frames", entry, deep, data)
	if err != nil {
		return fmt.Errorf("%v\nentry=%s state=%#x utf8=%v ext=%v inflate=%v max=%d skip=%v onIntermediate=%d onContinuation=%v continueAfterError=%v handle=%v discard=%v chunks=%v eofWithData=%v\nstream=%x",
			err, entry, uint8(o.state), o.utf8, o.ext, o.inflate, o.max, o.skip, o.inter, o.onCont, o.cont, o.handle, o.discard, o.chunks, o.eofData, stream)
	}
	return nil
}

// execFrames is targetFrames without the evidence bookkeeping.
func execFrames(data []byte) (deep bool, err error) {
	o, stream := decodeFrameOpts(data)
	wk := walk(stream)
	if e := frameEntries[o.entry]; e != "ReadHeader" && e != "PayloadHelpers" && !(e == "ControlHandler" && !uncheckedPresent()) {
		for _, w := range wk {
			if w.h.Length > inProcCap {
				hx.Class("frames/" + frameEntries[o.entry] + "/announced>64MiB-left-to-child-table")
				return false, nil
			}
		}
	}
	o.manyFrames = len(wk) > depthSlack/2
	before := heapAllocs()
	err = guard(frameEntries[o.entry], func() error {
		var e error
		deep, e = runFrames(o, stream)
		return e
	})
	if err == nil && !o.inflate {
		if got, budget := heapAllocs()-before, allocBudget(len(stream), len(wk)); got > budget {
			err = fmt.Errorf("%s allocated %d bytes while decoding a stream of %d bytes in %d frames (budget %d = 8 MiB + 32 x bytes + 128 KiB x frames; the largest announced length is %d): allocation follows what the peer announces, not what it sent",
				frameEntries[o.entry], got, len(stream), len(wk), budget, maxAnnounced(wk))
		}
	}
	return deep, err
}

func maxAnnounced(ws []walked) (m int64) {
	for _, w := range ws {
		if w.h.Length > m {
			m = w.h.Length
		}
	}
	return m
}

// allocBudget is what decoding n bytes of peer input in the given number of
// frames (or header lines) may allocate in total: a constant that covers the
// library's fixed first buffers (1 MiB payload pre-allocation, bufio buffers),
// a multiple of the input for buffers grown by doubling or by io.ReadAll, and
// a per-frame allowance for the fixed allocations of the helpers (the control
// handler's io.Copy alone takes a 32 KiB buffer per answered ping, and some entries make two passes).
func allocBudget(n, frames int) uint64 {
	return 8<<20 + 32*uint64(n) + 128<<10*uint64(frames)
}

// heapAllocs is the cumulative number of bytes allocated on the heap by this
// process (runtime/metrics: no stop-the-world; large allocations are counted
// when they are made).
func heapAllocs() uint64 {
	s := [1]metrics.Sample{{Name: "/gc/heap/allocs:bytes"}}
	metrics.Read(s[:])
	if s[0].Value.Kind() != metrics.KindUint64 {
		return 0
	}
	return s[0].Value.Uint64()
}

// depthSrc hands a tx.Src to the library and records, at every Read, how many
// call frames are on the goroutine's stack. The library reaches its transport
// through a handful of fixed call paths, so the spread between the shallowest
// and the deepest Read of one run is a small constant; a spread that grows
// with the NUMBER of frames the peer sends is recursion driven by peer input
// (stack exhaustion is not recoverable).
type depthSrc struct {
	*tx.Src
	on       bool // recording costs a stack walk per Read: only for streams with enough frames to matter
	min, max int
}

// depthPCs is scratch space for runtime.Callers (the targets are synchronous
// and run one at a time in a process).
var depthPCs [1024]uintptr

// depthSlack is far above the spread of the unchanged tree (the deepest path,
// control handler inside an inflating reader, is some 25 frames above the
// shallowest).
const depthSlack = 96

func (d *depthSrc) Read(p []byte) (int, error) {
	if !d.on {
		return d.Src.Read(p)
	}
	n := runtime.Callers(0, depthPCs[:])
	if d.min == 0 || n < d.min {
		d.min = n
	}
	if n > d.max {
		d.max = n
	}
	return d.Src.Read(p)
}

func (d *depthSrc) oracle(what string) error {
	if d.max-d.min > depthSlack {
		return fmt.Errorf("%s: the call stack at the transport's Read was between %d and %d frames deep while decoding %d bytes: stack use grows with the number of frames the peer sends (recursion)", what, d.min, d.max, len(d.Src.Data))
	}
	return nil
}

func runFrames(o frameOpts, stream []byte) (deep bool, err error) {
	src := tx.NewSrc(stream, o.chunks)
	src.EOFWithData = o.eofData
	ds := &depthSrc{Src: src, on: o.manyFrames}
	rec := newRec(len(stream))
	what := frameEntries[o.entry]
	switch what {
	case "ReadHeader":
		n := 0
		for {
			h, e := ws.ReadHeader(src)
			if e != nil {
				break
			}
			n++
			// header-level helpers on whatever header the peer sent
			_ = ws.CheckHeader(h, o.state)
			_, _, _ = wsflate.UnsetBit(h)
			_, _ = wsflate.IsCompressed(h)
			_ = ws.HeaderSize(h)
			skip := h.Length
			if rem := int64(len(src.Data) - src.Pos); skip > rem {
				skip = rem
			}
			src.Pos += int(skip)
		}
		deep = n > 0

	case "ReadFrame":
		n := 0
		for {
			if h, ok := peek(src.Remaining()); ok && h.Length > capLen && withholdBig() {
				hx.Exclude(sigF7)
				break
			}
			if _, e := ws.ReadFrame(src); e != nil {
				break
			}
			n++
		}
		deep = n > 0

	case "ReadMessage":
		if err := preCheck(o, stream, what); err != nil {
			return true, err
		}
		n := 0
		var msgs []wsutil.Message
		for {
			if h, ok := peek(src.Remaining()); ok && h.Fin && h.Length > capLen && ws.CheckHeader(toWS(h), o.state) == nil && withholdBig() {
				hx.Exclude(sigF7)
				break
			}
			var e error
			msgs, e = wsutil.ReadMessage(ds, o.state, msgs[:0])
			if e != nil {
				break
			}
			n++
		}
		deep = n > 0

	case "ReadData":
		if err := preCheck(o, stream, what); err != nil {
			return true, err
		}
		n := 0
		for {
			if _, _, e := wsutil.ReadData(tx.RW{Reader: ds, Writer: rec}, o.state); e != nil {
				break
			}
			n++
		}
		deep = n > 0 || rec.Len() > 0

	case "Reader":
		deep, err = runReader(o, src, rec)
		if err != nil {
			return deep, err
		}

	case "NextReader":
		// one reader per message, as the helper is meant to be used
		var viol error
		n := 0
		for {
			_, r, e := wsutil.NextReader(ds, o.state)
			if e != nil {
				break
			}
			n++
			_, e = drain(r, src, o.bufSize, maxOut, &viol)
			if viol != nil {
				return true, fmt.Errorf("reader returned by NextReader: %v", viol)
			}
			if e == errStall {
				return true, fmt.Errorf("reader returned by NextReader: Read returned (0, nil) more than 64 times in a row without reading the transport")
			}
			if e != io.EOF {
				break
			}
		}
		deep = n > 0

	case "ReadSideData":
		// the side-specific shortcuts, including the ones that want one kind of message and discard the other
		if err := preCheck(o, stream, what); err != nil {
			return true, err
		}
		rw := tx.RW{Reader: ds, Writer: rec}
		n := 0
		for {
			var e error
			switch {
			case o.state.ServerSide() && o.discard:
				_, e = wsutil.ReadClientText(rw)
			case o.state.ServerSide() && o.handle:
				_, e = wsutil.ReadClientBinary(rw)
			case o.state.ServerSide():
				_, _, e = wsutil.ReadClientData(rw)
			case o.state.ClientSide() && o.discard:
				_, e = wsutil.ReadServerText(rw)
			case o.state.ClientSide() && o.handle:
				_, e = wsutil.ReadServerBinary(rw)
			case o.state.ClientSide():
				_, _, e = wsutil.ReadServerData(rw)
			default:
				_, _, e = wsutil.ReadData(rw, o.state)
			}
			if e != nil {
				break
			}
			n++
		}
		deep = n > 0 || rec.Len() > 0

	case "ReadSideMessage+HandleControlMessage":
		// ReadClientMessage / ReadServerMessage, every control message they
		// return handed to HandleControlMessage and its shortcuts (their
		// documented use: payload unmasked, header checked by the reader)
		if err := preCheck(o, stream, what); err != nil {
			return true, err
		}
		n := 0
		for {
			if h, ok := peek(src.Remaining()); ok && h.Fin && h.Length > capLen && ws.CheckHeader(toWS(h), o.state) == nil && withholdBig() {
				hx.Exclude(sigF7)
				break
			}
			var msgs []wsutil.Message
			var e error
			switch {
			case o.state.ServerSide():
				msgs, e = wsutil.ReadClientMessage(ds, nil)
			case o.state.ClientSide():
				msgs, e = wsutil.ReadServerMessage(ds, nil)
			default:
				msgs, e = wsutil.ReadMessage(ds, o.state, nil)
			}
			stop := e != nil
			for _, m := range msgs {
				if !m.OpCode.IsControl() {
					continue
				}
				var he error
				switch {
				case o.state.ServerSide() && o.handle:
					he = wsutil.HandleClientControlMessage(rec, m)
				case o.state.ClientSide() && o.handle:
					he = wsutil.HandleServerControlMessage(rec, m)
				default:
					he = wsutil.HandleControlMessage(rec, o.state, m)
				}
				if he != nil {
					stop = true
				}
			}
			if stop {
				break
			}
			n++
		}
		deep = n > 0 || rec.Len() > 0

	case "PayloadHelpers":
		// the bytes are a payload, not a stream: close-frame body parsers,
		// the cipher and the streaming UTF-8 / cipher readers over it
		code, reason := ws.ParseCloseFrameData(stream)
		_ = ws.CheckCloseFrameData(code, reason)
		code, reason = ws.ParseCloseFrameDataUnsafe(stream)
		_ = ws.CheckCloseFrameData(code, reason)
		mask := [4]byte{0x1f, 0x2e, 0x3d, 0x4c}
		if len(stream) >= 4 {
			copy(mask[:], stream)
		}
		cp := append([]byte(nil), stream...)
		ws.Cipher(cp, mask, len(stream)%7)
		f := ws.UnmaskFrame(ws.MaskFrameWith(ws.NewFrame(ws.OpBinary, true, cp), mask))
		_ = ws.UnmaskFrameInPlace(f)
		var viol error
		u := wsutil.NewUTF8Reader(ds)
		_, e := drain(u, src, o.bufSize, 0, &viol)
		_, _ = u.Valid(), u.Accepted()
		if viol == nil && e != errStall {
			src2 := tx.NewSrc(stream, o.chunks)
			u.Reset(src2)
			_, e = drain(u, src2, 7, 0, &viol)
			_, _ = u.Valid(), u.Accepted()
		}
		if viol == nil && e != errStall {
			src3 := tx.NewSrc(stream, o.chunks)
			src3.EOFWithData = o.eofData
			c := wsutil.NewCipherReader(src3, mask)
			_, e = drain(c, src3, o.bufSize, 0, &viol)
			src3.Pos = 0
			c.Reset(src3, [4]byte{})
			if viol == nil && e != errStall {
				_, e = drain(c, src3, 3, 0, &viol)
			}
		}
		if viol != nil {
			return true, fmt.Errorf("UTF8Reader / CipherReader: %v", viol)
		}
		if e == errStall {
			return true, fmt.Errorf("UTF8Reader / CipherReader: Read returned (0, nil) more than 64 times in a row without reading its source")
		}
		deep = len(stream) > 0

	case "ControlHandler":
		for _, w := range walk(stream) {
			h := toWS(w.h)
			// o.skip: the header goes to the handler as it came off the wire,
			// without ws.CheckHeader (which the type's doc calls optional) —
			// any opcode, any announced length; otherwise only control
			// headers that pass the check for this side.
			if !o.skip && (!h.OpCode.IsControl() || ws.CheckHeader(h, o.state) != nil) {
				continue
			}
			if o.skip {
				hx.Class("frames/ControlHandler/unchecked-header")
			}
			end := len(stream)
			if h.Length < int64(len(stream)-w.hdrEnd) {
				end = w.hdrEnd + int(h.Length)
			}
			psrc := tx.NewSrc(stream[w.hdrEnd:end], o.chunks)
			psrc.EOFWithData = o.eofData
			ch := wsutil.ControlHandler{Src: psrc, Dst: rec, State: o.state, DisableSrcCiphering: o.noCipher}
			if o.handle {
				// callers that dispatch on the opcode themselves call the three exported methods directly
				switch {
				case h.OpCode == ws.OpPing || (!h.OpCode.IsControl() && h.OpCode%3 == 0):
					_ = ch.HandlePing(h)
				case h.OpCode == ws.OpPong || (!h.OpCode.IsControl() && h.OpCode%3 == 1):
					_ = ch.HandlePong(h)
				default:
					_ = ch.HandleClose(h)
				}
			} else {
				_ = ch.Handle(h)
			}
			deep = true
			if e := srcOracle(what, psrc, rec); e != nil {
				return deep, e
			}
		}
	}
	if e := ds.oracle(what); e != nil {
		return true, e
	}
	return deep, srcOracle(what, src, rec)
}

// preCheck drives a wsutil.Reader configured the way ReadMessage / ReadData
// configure theirs with the harness's own read loop, which notices a Read
// that keeps returning (0, nil) without touching the transport. Those helpers
// read with io.ReadAll-style loops of their own, where the same defect is an
// endless spin that no counter of the harness can see; an input that stalls
// here is reported and never handed to them.
func preCheck(o frameOpts, stream []byte, entry string) error {
	return preCheckWith(frameOpts{state: o.state, utf8: true, handle: true, bufSize: 512, chunks: o.chunks, eofData: o.eofData}, stream, entry)
}

func preCheckWith(p frameOpts, stream []byte, entry string) error {
	p.manyFrames = len(stream) > depthSlack
	src := tx.NewSrc(stream, p.chunks)
	src.EOFWithData = p.eofData
	if _, err := runReader(p, src, newRec(len(stream))); err != nil {
		return fmt.Errorf("%v (seen with a wsutil.Reader configured as %s configures it; %s itself was not called with this input)", err, entry, entry)
	}
	return nil
}

// errStall is returned by the harness's read loops.
var errStall = errors.New("harness: reader returns (0, nil) without touching the transport")

// errContract marks a Read that broke 0 <= n <= len(p).
type errContract struct{ msg string }

func (e *errContract) Error() string { return e.msg }

// drain reads r to its end the way io.ReadAll walks its buffer: each Read
// gets the unfilled rest of a bufSize window (so the lengths handed to Read
// vary), and every call is held to the io.Reader contract 0 <= n <= len(p).
// It also reports a reader that keeps returning (0, nil) while the transport
// is not read. The first contract violation is kept in *viol as well, because
// some callers sit behind library code that swallows the returned error.
func drain(r io.Reader, src *tx.Src, bufSize int, limit int64, viol *error) (int64, error) {
	buf := make([]byte, bufSize)
	fill := 0
	var total int64
	stall := 0
	for {
		reads := src.Reads
		p := buf[fill:]
		n, err := r.Read(p)
		if n < 0 || n > len(p) {
			e := &errContract{fmt.Sprintf("Read(p) with len(p)=%d returned n=%d (err=%v) after %d bytes: the io.Reader contract 0 <= n <= len(p) is broken; a caller like io.ReadAll slices its buffer by n and panics", len(p), n, err, total)}
			if viol != nil && *viol == nil {
				*viol = e
			}
			return total, e
		}
		total += int64(n)
		fill += n
		if fill == len(buf) {
			fill = 0
		}
		if err != nil {
			return total, err
		}
		if n == 0 && src.Reads == reads {
			stall++
			if stall > 64 {
				return total, errStall
			}
		} else {
			stall = 0
		}
		if limit > 0 && total >= limit {
			return total, nil
		}
	}
}

func drainOnly(src *tx.Src, bufSize int, viol *error) wsutil.FrameHandlerFunc {
	return func(h ws.Header, r io.Reader) error {
		_, err := drain(r, src, bufSize, 0, viol)
		if err == io.EOF {
			return nil
		}
		return err
	}
}

// sip is a frame handler that reads a few bytes of the frame and returns.
func sip(viol *error) wsutil.FrameHandlerFunc {
	return func(h ws.Header, r io.Reader) error {
		var p [7]byte
		n, err := r.Read(p[:])
		if (n < 0 || n > len(p)) && *viol == nil {
			*viol = &errContract{fmt.Sprintf("Read(p) with len(p)=%d on the frame handed to a frame handler returned n=%d (err=%v)", len(p), n, err)}
		}
		return nil
	}
}

// runReader drives a wsutil.Reader to the end of the stream.
func runReader(o frameOpts, src *tx.Src, rec *capRec) (deep bool, err error) {
	var ms wsflate.MessageState
	ds := &depthSrc{Src: src, on: o.manyFrames}
	rd := &wsutil.Reader{Source: ds, State: o.state, CheckUTF8: o.utf8, MaxFrameSize: o.max, SkipHeaderCheck: o.skip}
	if o.ext {
		rd.Extensions = []wsutil.RecvExtension{&ms}
	}
	var viol error // first io.Reader contract violation seen by a harness read loop
	handler := wsutil.ControlFrameHandler(rec, o.state)
	if o.skip {
		// ControlHandler requires checked headers; with SkipHeaderCheck the
		// payload of control frames is only read out.
		handler = drainOnly(src, o.bufSize, &viol)
	}
	switch o.inter {
	case interDefault:
		rd.OnIntermediate = handler
	case interNil:
	case interNone:
		rd.OnIntermediate = func(ws.Header, io.Reader) error { return nil }
	default:
		rd.OnIntermediate = sip(&viol)
	}
	if o.onCont {
		rd.OnContinuation = sip(&viol)
	}
	var fr *wsflate.Reader
	var lastCnt *cntReader
	frames := 0
	// Continue mode: a long-lived reader whose caller answers a message-level
	// error (invalid UTF-8 at the end of a text message, an error of the
	// control handler, a refused frame without payload, …) by going on with
	// NextFrame. Only when the transport stands exactly at the start of a
	// frame (so "the next frame" is well defined) and only if the failed step
	// consumed input (so the walk ends).
	starts := map[int]bool{}
	if o.cont {
		for _, w := range walk(src.Data) {
			starts[w.start] = true
		}
	}
	msgs := 0
	lastErrPos := -1
	goOn := func() bool {
		if !o.cont || !starts[src.Pos] || src.Pos <= lastErrPos {
			return false
		}
		lastErrPos = src.Pos
		hx.Class("frames/Reader/continued-after-error")
		return true
	}
	for {
		wasFrag := rd.State.Fragmented()
		h, e := rd.NextFrame()
		if e != nil {
			if viol == nil && goOn() {
				continue
			}
			break
		}
		frames++
		if wasFrag && h.OpCode.IsControl() {
			continue // handled by OnIntermediate
		}
		var r io.Reader = rd
		inflated := false
		switch {
		case h.OpCode.IsControl() && (o.handle || o.skip):
			e = handler(h, rd)
		case o.discard:
			e = rd.Discard()
		case o.ext && o.inflate && !h.OpCode.IsControl() && ms.IsCompressed():
			// (MessageState keeps the flag of the last data message: control frames are never inflated)
			inflated = true
			ctor := func(in io.Reader) wsflate.Decompressor {
				lastCnt = newCnt(in, len(src.Data))
				return flate.NewReader(lastCnt.iface())
			}
			if fr == nil {
				fr = wsflate.NewReader(rd, ctor)
			} else {
				fr.Reset(rd)
			}
			r = fr
			fallthrough
		default:
			// every other message is read through a much smaller window, so
			// that a count carried over from an earlier, larger read shows
			win := o.bufSize
			if msgs%2 == 1 {
				win = (o.bufSize + 63) / 64
			}
			msgs++
			_, e = drain(r, src, win, maxOut, &viol)
			if e == nil {
				// output bound reached: stop here, a decompression bomb is not in the statement
				hx.Class("frames/Reader/output-bound")
				e = io.ErrShortBuffer
			}
			if e == io.EOF {
				e = nil
				if inflated {
					// the decompressor may see the end of its stream before the
					// message ends: the rest of the message has to be dropped
					// before NextFrame may be called again (Reader's contract)
					e = rd.Discard()
				}
			}
		}
		if viol != nil {
			return true, fmt.Errorf("message reader: %v", viol)
		}
		if e == errStall {
			return true, fmt.Errorf("Reader.Read returned (0, nil) more than 64 times in a row without reading the transport (position %d of %d): a caller like io.ReadAll would spin forever", src.Pos, len(src.Data))
		}
		if lastCnt != nil && lastCnt.runaway {
			return true, fmt.Errorf("wsflate.Reader over wsutil.Reader: the decompressor read its source %d times for %d bytes of input", lastCnt.n, len(src.Data))
		}
		if e != nil && !goOn() {
			break // the reader reported an error: stop using it
		}
	}
	deep = frames > 0
	if viol != nil {
		return true, fmt.Errorf("message reader: %v", viol)
	}
	if e := ds.oracle("wsutil.Reader"); e != nil {
		return true, e
	}
	if o.max > 0 {
		for _, w := range walk(src.Data) {
			if w.h.Length > o.max {
				if src.Pos > w.hdrEnd {
					return deep, fmt.Errorf("MaxFrameSize=%d: the frame at offset %d announces %d bytes and its header ends at %d, but %d bytes of the stream were consumed",
						o.max, w.start, w.h.Length, w.hdrEnd, src.Pos)
				}
				hx.Class("frames/Reader/oversized-frame-present")
				break
			}
		}
	}
	return deep, nil
}

// ---------------------------------------------------------------------------
// counted decompressor source

// cntReader counts the reads a decompressor issues on the source wsflate
// hands it and refuses an implausible number of them.
type cntReader struct {
	r       io.Reader
	n       int
	limit   int
	runaway bool
}

func newCnt(r io.Reader, inputLen int) *cntReader {
	return &cntReader{r: r, limit: 100000 + 16*inputLen}
}

func (c *cntReader) tick() bool {
	c.n++
	if c.n > c.limit {
		c.runaway = true
		return false
	}
	return true
}

func (c *cntReader) Read(p []byte) (int, error) {
	if !c.tick() {
		return 0, tx.ErrRunaway
	}
	return c.r.Read(p)
}

type cntByteReader struct {
	*cntReader
	br io.ByteReader
}

func (c cntByteReader) ReadByte() (byte, error) {
	if !c.tick() {
		return 0, tx.ErrRunaway
	}
	return c.br.ReadByte()
}

// iface keeps the io.ByteReader-ness of the wrapped reader, which decides
// whether compress/flate adds its own buffering.
func (c *cntReader) iface() io.Reader {
	if br, ok := c.r.(io.ByteReader); ok {
		return cntByteReader{c, br}
	}
	return c
}

// ---------------------------------------------------------------------------
// handshake requests

var offeredProtocols = []string{"chat", "superchat", "v1.json", "mqtt"}

func acceptProtocol(p string) bool {
	switch p {
	case "chat", "v1.json", "mqtt", "x":
		return true
	}
	return false
}

type reqOpts struct {
	live     bool // the transport delivers exactly the request head and then does not end (further Reads "would block")
	debug    bool // raw upgrader wrapped in wsutil.DebugUpgrader with both callbacks set
	selector int  // HTTP upgrader: 0 harness predicate, 1 ws.SelectFromSlice (short list), 2 ws.SelectFromSlice (map form), 3 ws.SelectEqual
	http     bool
	extMode  int // 0 none, 1 Extension selector, 2 Negotiate = wsflate, 3 custom parsers
	rbuf     int
	wbuf     int
	eofData  bool
	chunks   []int
}

const reqCtl = 3

func decodeReqOpts(data []byte) (o reqOpts, req []byte) {
	a, b := data[0], data[1]
	o.http = a&1 != 0
	o.extMode = int(a >> 1 & 3)
	o.rbuf = []int{0, 16, 64, 512}[a>>3&3]
	o.wbuf = []int{0, 16, 64, 4096}[a>>5&3]
	o.eofData = a&0x80 != 0
	o.chunks = chunkPlan(b)
	// data[2]: low nibble = wsflate configuration, 0x10 = through wsutil.DebugUpgrader (raw upgrader),
	// 0x60 = which subprotocol selector the HTTP upgrader gets
	o.debug = data[2]&0x10 != 0
	o.selector = int(data[2] >> 5 & 3)
	o.live = data[2]&0x80 != 0
	return o, data[reqCtl:]
}

func deflateExt(k byte) *wsflate.Extension {
	p := wsflate.Parameters{}
	if k&1 != 0 {
		p.ServerNoContextTakeover = true
	}
	if k&2 != 0 {
		p.ClientNoContextTakeover = true
	}
	if k&4 != 0 {
		p.ServerMaxWindowBits = 12
	}
	if k&8 != 0 {
		p.ClientMaxWindowBits = 10
	}
	return &wsflate.Extension{Parameters: p}
}

// rawUpgrader installs every callback of ws.Upgrader, all accepting.
func rawUpgrader(o reqOpts, k byte, calls *int) ws.Upgrader {
	u := ws.Upgrader{
		ReadBufferSize:  o.rbuf,
		WriteBufferSize: o.wbuf,
		Protocol:        func(p []byte) bool { *calls++; return acceptProtocol(string(p)) },
		Header:          ws.HandshakeHeaderString("X-C15: always\r\n"),
		OnRequest:       func(uri []byte) error { *calls += 1 + len(string(uri)); return nil },
		OnHost:          func(host []byte) error { *calls += 1 + len(string(host)); return nil },
		OnHeader:        func(key, value []byte) error { *calls += 1 + len(string(key)) + len(string(value)); return nil },
		OnBeforeUpgrade: func() (ws.HandshakeHeader, error) {
			*calls++
			if o.selector == 3 { // (the selector bits pick the subprotocol selector of the HTTP upgrader only)
				return nil, ws.RejectConnectionError(ws.RejectionStatus(403), ws.RejectionReason("c15 says no"))
			}
			return ws.HandshakeHeaderString("X-C15-Before: yes\r\n"), nil
		},
	}
	switch o.extMode {
	case 1:
		u.Extension = func(opt httphead.Option) bool {
			*calls++
			_ = opt.Parameters.Size()
			return len(opt.Name) > 0 && opt.Name[0] != 'n'
		}
	case 2:
		u.Negotiate = deflateExt(k).Negotiate
	case 3:
		u.ProtocolCustom = func(v []byte) (string, bool) {
			*calls++
			var sel string
			ok := httphead.ScanTokens(v, func(tok []byte) bool {
				if acceptProtocol(string(tok)) {
					sel = string(tok)
					return false
				}
				return true
			})
			return sel, ok
		}
		u.ExtensionCustom = func(v []byte, dst []httphead.Option) ([]httphead.Option, bool) {
			*calls++
			return httphead.ParseOptions(v, dst)
		}
	}
	return u
}

func httpUpgrader(o reqOpts, k byte, calls *int) ws.HTTPUpgrader {
	u := ws.HTTPUpgrader{
		Protocol: func(p string) bool { *calls++; return acceptProtocol(p) },
		Header:   http.Header{"X-C15": []string{"always"}},
	}
	switch o.selector {
	case 1:
		u.Protocol = ws.SelectFromSlice([]string{"chat", "v1.json", "mqtt", "x"})
	case 2:
		u.Protocol = ws.SelectFromSlice([]string{"a", "b", "c", "d", "e", "f", "g", "h", "i", "j", "k", "l", "m", "n", "o", "p", "chat", "q", "mqtt"})
	case 3:
		u.Protocol = ws.SelectEqual("chat")
	}
	switch o.extMode {
	case 1, 3:
		u.Extension = func(opt httphead.Option) bool {
			*calls++
			return len(opt.Name) > 0 && opt.Name[0] != 'n'
		}
	case 2:
		u.Negotiate = deflateExt(k).Negotiate
	}
	return u
}

// requestShape is the harness-side notion of "got past the request line".
func requestShape(req []byte) bool {
	i := bytes.IndexByte(req, '\n')
	if i < 0 {
		return false
	}
	parts := strings.Split(strings.TrimRight(string(req[:i]), "\r"), " ")
	return len(parts) == 3 && strings.HasPrefix(parts[2], "HTTP/1.") && parts[2] != "HTTP/1.0"
}

// targetRequest feeds request bytes to ws.Upgrader.Upgrade or to
// http.ReadRequest + ws.HTTPUpgrader.Upgrade.
func targetRequest(data []byte) error {
	if len(data) < reqCtl {
		return nil
	}
	o, req := decodeReqOpts(data)
	entry := "Upgrader"
	if o.http {
		entry = "HTTPUpgrader"
	}
	err := guard(entry, func() error { return runRequest(o, data[2], req) })
	note("request", entry, requestShape(req), data)
	if err != nil {
		return fmt.Errorf("%v\nentry=%s extMode=%d rbuf=%d wbuf=%d chunks=%v eofWithData=%v\nrequest=%q", err, entry, o.extMode, o.rbuf, o.wbuf, o.chunks, o.eofData, req)
	}
	return nil
}

func runRequest(o reqOpts, k byte, req []byte) error {
	if o.live {
		return runRequestLive(o, k, req)
	}
	src := tx.NewSrc(req, o.chunks)
	src.EOFWithData = o.eofData
	rec := newRec(len(req))
	calls := 0
	if !o.http && o.debug {
		seen := 0
		du := wsutil.DebugUpgrader{
			Upgrader:   rawUpgrader(o, k, &calls),
			OnRequest:  func(p []byte) { seen += len(string(p)) },
			OnResponse: func(p []byte) { seen += len(string(p)) },
		}
		_, _ = du.Upgrade(tx.RW{Reader: src, Writer: rec})
		return srcOracle("DebugUpgrader.Upgrade", src, rec)
	}
	if !o.http {
		u := rawUpgrader(o, k, &calls)
		_, _ = u.Upgrade(tx.RW{Reader: src, Writer: rec})
		return srcOracle("Upgrader.Upgrade", src, rec)
	}
	r, err := http.ReadRequest(bufio.NewReader(src))
	if err != nil {
		hx.Class("request/HTTPUpgrader/refused-by-net-http")
		return nil
	}
	u := httpUpgrader(o, k, &calls)
	w := tx.NewHijackable(src, rec, o.wbuf)
	_, _, _, _ = u.Upgrade(r, w)
	return srcOracle("HTTPUpgrader.Upgrade", src, rec)
}

// runRequestLive: the peer has sent a request head and now waits for the
// answer on a connection that stays open. Whatever the outcome, once the head
// is complete the upgrader must not ask the transport for more: that Read
// would block forever (the peer sends nothing before it has the answer).
func runRequestLive(o reqOpts, k byte, req []byte) error {
	end, complete := completeHead(req)
	if complete {
		req = req[:end]
	}
	src := &liveSrc{Src: tx.NewSrc(req, o.chunks)}
	rec := newRec(len(req))
	calls := 0
	what := "Upgrader.Upgrade"
	switch {
	case o.http:
		what = "HTTPUpgrader.Upgrade"
		r, err := http.ReadRequest(bufio.NewReader(src))
		if err != nil {
			hx.Class("request/HTTPUpgrader/refused-by-net-http")
			return nil
		}
		src.blocked = 0 // net/http's own reading is not the subject
		u := httpUpgrader(o, k, &calls)
		_, _, _, _ = u.Upgrade(r, tx.NewHijackable(src, rec, o.wbuf))
	case o.debug:
		what = "DebugUpgrader.Upgrade"
		seen := 0
		du := wsutil.DebugUpgrader{
			Upgrader:   rawUpgrader(o, k, &calls),
			OnRequest:  func(p []byte) { seen += len(string(p)) },
			OnResponse: func(p []byte) { seen += len(string(p)) },
		}
		_, _ = du.Upgrade(tx.RW{Reader: src, Writer: rec})
		if announcesBody(req) {
			// the wrapper reads the body the head announces (net/http semantics): waiting for it is not a defect
			hx.Class("request/live/open-debug-wrapper-awaits-announced-body")
			complete = false
		}
	default:
		u := rawUpgrader(o, k, &calls)
		_, _ = u.Upgrade(tx.RW{Reader: src, Writer: rec})
	}
	if complete {
		hx.Class("request/live/complete-head")
		if src.blocked > 0 {
			return fmt.Errorf("%s asked the transport for more bytes %d time(s) after the complete request head (%d bytes) had been delivered: on a live connection it blocks forever (response written so far: %q)", what, src.blocked, len(req), rec.Bytes())
		}
	}
	return srcOracle(what, src.Src, rec)
}

// ---------------------------------------------------------------------------
// handshake responses

// acceptMark is replaced, in the bytes the fake server sends, by the right
// Sec-WebSocket-Accept value for the key the dialer wrote (the nonce is
// random, so a literal value in the input could never match).
const acceptMark = "$ACCEPT$"

type dialCfg struct {
	protocols  []string
	extensions func() []httphead.Option
}

func opt(name string, kv ...string) httphead.Option {
	o := httphead.Option{Name: []byte(name)}
	for i := 0; i+1 < len(kv); i += 2 {
		var v []byte
		if kv[i+1] != "" {
			v = []byte(kv[i+1])
		}
		o.Parameters.Set([]byte(kv[i]), v)
	}
	return o
}

var dialCfgs = []dialCfg{
	{nil, func() []httphead.Option { return nil }},
	{offeredProtocols, func() []httphead.Option {
		return []httphead.Option{opt("permessage-deflate", "client_max_window_bits", "", "server_no_context_takeover", ""), opt("x-a"), opt("x-b", "mode", "1")}
	}},
	{[]string{"chat"}, func() []httphead.Option {
		return []httphead.Option{wsflate.Parameters{ClientNoContextTakeover: true, ServerMaxWindowBits: 10}.Option()}
	}},
	{[]string{"a", "b", "c", "d", "e", "f", "g", "h", "i", "j", "k", "l", "m", "n", "o", "p", "chat", "q"}, func() []httphead.Option {
		return []httphead.Option{opt("x-a"), opt("x-a", "p", "1"), opt("permessage-deflate"), opt("permessage-deflate", "server_max_window_bits", "15")}
	}},
}

// RespConfig is the respgen view of dialCfgs[1], used to draw seeds.
var respSeedCfg = respgen.Config{
	Protocols: offeredProtocols,
	Extensions: []respgen.Ext{
		{Name: "permessage-deflate", Params: []respgen.Param{{Key: "client_max_window_bits"}, {Key: "server_no_context_takeover"}}},
		{Name: "x-a"},
		{Name: "x-b", Params: []respgen.Param{{Key: "mode", Value: "1"}}},
	},
}

// lazyPeer is the fake server: it records what the dialer writes and renders
// its answer at the first Read.
type lazyPeer struct {
	answer  func(request []byte) []byte
	sizes   []int
	eofData bool
	written []byte
	writes  int
	wlimit  int
	wrun    bool
	src     *tx.Src

	live         bool // deliver exactly the head, then stay silent
	liveSrc      *liveSrc
	headComplete bool
}

func (p *lazyPeer) Write(b []byte) (int, error) {
	p.writes++
	if p.writes > p.wlimit {
		p.wrun = true
		return 0, tx.ErrRunaway
	}
	p.written = append(p.written, b...)
	return len(b), nil
}

func (p *lazyPeer) Read(b []byte) (int, error) {
	if p.src == nil {
		p.src = tx.NewSrc(p.answer(p.written), p.sizes)
		p.src.EOFWithData = p.eofData
		if p.live {
			if end, ok := completeHead(p.src.Data); ok {
				p.src.Data = p.src.Data[:end]
				p.headComplete = true
			}
			p.liveSrc = &liveSrc{Src: p.src}
		}
	}
	if p.liveSrc != nil {
		return p.liveSrc.Read(b)
	}
	return p.src.Read(b)
}

// peerConn makes the fake server a net.Conn for Dialer.Dial.
type peerConn struct{ *lazyPeer }

type peerAddr struct{}

func (peerAddr) Network() string { return "tcp" }
func (peerAddr) String() string  { return "c15-peer" }

func (peerConn) Close() error                     { return nil }
func (peerConn) LocalAddr() net.Addr              { return peerAddr{} }
func (peerConn) RemoteAddr() net.Addr             { return peerAddr{} }
func (peerConn) SetDeadline(time.Time) error      { return nil }
func (peerConn) SetReadDeadline(time.Time) error  { return nil }
func (peerConn) SetWriteDeadline(time.Time) error { return nil }

func (p *lazyPeer) oracle(what string) error {
	if p.wrun {
		return fmt.Errorf("%s: more than %d writes of the request: the library loops writing", what, p.wlimit)
	}
	if p.src != nil && p.src.Runaway {
		return fmt.Errorf("%s: the transport was read %d times for %d bytes of input: the library loops without consuming input", what, p.src.Reads, len(p.src.Data))
	}
	return nil
}

type respOpts struct {
	live    bool // the fake server delivers exactly the response head and then stays silent (further Reads "would block")
	dial    bool // through ws.Dialer.Dial (NetDial returns the fake server) instead of Dialer.Upgrade
	debug   bool // through wsutil.DebugDialer.Dial with both callbacks set
	cfg     int
	rbuf    int
	eofData bool
	status  bool // install OnStatusError
	chunks  []int
}

const respCtl = 2

func decodeRespOpts(data []byte) (o respOpts, resp []byte) {
	a := data[0]
	o.cfg = int(a & 3)
	o.rbuf = []int{0, 16, 64, 512}[a>>2&3]
	o.eofData = a&0x10 != 0
	o.status = a&0x20 == 0
	o.dial = a&0x40 != 0
	o.debug = a&0x80 != 0
	// both bits set (EOF-with-data and "no OnStatusError", neither of which
	// means anything on a transport that does not end) select the live mode
	o.live = a&0x30 == 0x30
	if o.live {
		o.eofData = false
	}
	o.chunks = chunkPlan(data[1])
	return o, data[respCtl:]
}

func responseShape(resp []byte) bool {
	i := bytes.IndexByte(resp, '\n')
	if i < 0 {
		return false
	}
	parts := strings.SplitN(strings.TrimRight(string(resp[:i]), "\r"), " ", 3)
	return len(parts) >= 2 && strings.HasPrefix(parts[0], "HTTP/1.") && parts[0] != "HTTP/1.0" && parts[1] == "101"
}

var dialURL = func() *url.URL {
	u, err := url.Parse("ws://example.com:8080/c15/path?q=1")
	if err != nil {
		panic(err)
	}
	return u
}()

// targetResponse feeds response bytes to ws.Dialer.Upgrade.
func targetResponse(data []byte) error {
	if len(data) < respCtl {
		return nil
	}
	o, resp := decodeRespOpts(data)
	err := guard("Dialer.Upgrade", func() error { return runResponse(o, resp) })
	note("response", "Dialer", responseShape(resp), data)
	if err != nil {
		return fmt.Errorf("%v\ncfg=%d rbuf=%d chunks=%v eofWithData=%v onStatusError=%v\nresponse=%q", err, o.cfg, o.rbuf, o.chunks, o.eofData, o.status, resp)
	}
	return nil
}

func runResponse(o respOpts, resp []byte) error {
	cfg := dialCfgs[o.cfg]
	peer := &lazyPeer{sizes: o.chunks, eofData: o.eofData, wlimit: 10000, live: o.live}
	peer.answer = func(req []byte) []byte {
		if !bytes.Contains(resp, []byte(acceptMark)) {
			return resp
		}
		key, _ := respgen.KeyFromRequest(req)
		return bytes.Replace(resp, []byte(acceptMark), []byte(respgen.Accept(key)), -1)
	}
	calls := 0
	d := ws.Dialer{
		ReadBufferSize: o.rbuf,
		Protocols:      cfg.protocols,
		Extensions:     cfg.extensions(),
		Header:         ws.HandshakeHeaderString("X-C15: client\r\n"),
		OnHeader:       func(key, value []byte) error { calls += 1 + len(string(key)) + len(string(value)); return nil },
	}
	if o.status {
		d.OnStatusError = func(status int, reason []byte, r io.Reader) {
			calls++
			_, _ = io.Copy(io.Discard, io.LimitReader(r, 1<<16))
		}
	}
	if o.dial || o.debug {
		d.NetDial = func(ctx context.Context, network, addr string) (net.Conn, error) { return peerConn{peer}, nil }
		var br *bufio.Reader
		what := "Dialer.Dial"
		if o.debug {
			what = "DebugDialer.Dial"
			seen := 0
			dd := wsutil.DebugDialer{Dialer: d,
				OnRequest:  func(p []byte) { seen += len(string(p)) },
				OnResponse: func(p []byte) { seen += len(string(p)) },
			}
			_, br, _, _ = dd.Dial(context.Background(), dialURL.String())
		} else {
			_, br, _, _ = d.Dial(context.Background(), dialURL.String())
		}
		if e := liveOracle(o, peer, what, resp); e != nil {
			return e
		}
		if br != nil && !o.live {
			// what the server sent right after its head has to be readable from the returned buffer
			_, _ = io.Copy(io.Discard, io.LimitReader(br, 1<<20))
			if !o.debug {
				ws.PutReader(br)
			}
		}
		return peer.oracle(what)
	}
	br, _, _ := d.Upgrade(peer, dialURL)
	if br != nil {
		ws.PutReader(br)
	}
	if e := liveOracle(o, peer, "Dialer.Upgrade", resp); e != nil {
		return e
	}
	return peer.oracle("Dialer.Upgrade")
}

// liveOracle: the server has sent a complete response head and now waits; the
// dialer must not read on, whatever it makes of the head.
func liveOracle(o respOpts, peer *lazyPeer, what string, resp []byte) error {
	if !o.live || peer.liveSrc == nil || !peer.headComplete {
		return nil
	}
	if o.debug && (!responseShape(resp) || announcesBody(resp)) {
		// the debug wrapper parses the response with net/http and reads the
		// body a non-101 response has (to its announced length or to the end
		// of the connection): waiting for it is HTTP semantics, not a defect
		hx.Class("response/live/open-debug-wrapper-awaits-body")
		return nil
	}
	hx.Class("response/live/complete-head")
	if peer.liveSrc.blocked > 0 {
		return fmt.Errorf("%s asked the transport for more bytes %d time(s) after the complete response head (%d bytes) had been delivered: on a live connection it blocks forever", what, peer.liveSrc.blocked, len(peer.src.Data))
	}
	return nil
}

// ---------------------------------------------------------------------------
// header values

const optCtl = 1

const validKey = "dGhlIHNhbXBsZSBub25jZQ=="

func oneLine(v []byte) []byte {
	out := append([]byte(nil), v...)
	for i, c := range out {
		if c == '\n' {
			out[i] = ' '
		}
	}
	return out
}

func requestWith(name string, value []byte) []byte {
	var b bytes.Buffer
	b.WriteString("GET /c15 HTTP/1.1\r\nHost: example.com\r\nUpgrade: websocket\r\nConnection: Upgrade\r\nSec-WebSocket-Version: 13\r\nSec-WebSocket-Key: " + validKey + "\r\n")
	b.WriteString(name + ": ")
	b.Write(oneLine(value))
	b.WriteString("\r\n\r\n")
	return b.Bytes()
}

func responseWith(name string, value []byte) []byte {
	var b bytes.Buffer
	b.WriteString("HTTP/1.1 101 Switching Protocols\r\nUpgrade: websocket\r\nConnection: Upgrade\r\nSec-WebSocket-Accept: " + acceptMark + "\r\n")
	b.WriteString(name + ": ")
	b.Write(oneLine(value))
	b.WriteString("\r\n\r\n")
	return b.Bytes()
}

var optEntries = []string{"ParseOptions+Parse+Negotiate", "Upgrader/Protocol", "Upgrader/Extensions", "HTTPUpgrader/Protocol", "HTTPUpgrader/Extensions", "Dialer/Extensions", "Dialer/Protocol"}

// targetOptions feeds bytes as an extension / subprotocol header value to the
// option parsers and to the handshake code that selects from them.
func targetOptions(data []byte) error {
	if len(data) < optCtl {
		return nil
	}
	a := data[0]
	entry := int(a) % len(optEntries)
	k := a >> 4
	value := data[optCtl:]
	var deep bool
	err := guard(optEntries[entry], func() error {
		var e error
		deep, e = runOptions(entry, k, value)
		return e
	})
	note("options", optEntries[entry], deep, data)
	if err != nil {
		return fmt.Errorf("%v\nentry=%s k=%d\nvalue=%q", err, optEntries[entry], k, value)
	}
	return nil
}

func runOptions(entry int, k byte, value []byte) (deep bool, err error) {
	switch entry {
	case 0:
		opts, ok := httphead.ParseOptions(value, nil)
		x := deflateExt(k)
		for _, op := range opts {
			var p wsflate.Parameters
			_ = p.Parse(op)
			_, _ = x.Negotiate(op)
		}
		if len(opts) > 0 {
			x.Reset()
			_, _ = x.Negotiate(opts[len(opts)-1])
		}
		return ok && len(opts) > 0, nil
	case 1, 2, 3, 4:
		name := "Sec-WebSocket-Protocol"
		if entry == 2 || entry == 4 {
			name = "Sec-WebSocket-Extensions"
		}
		o := reqOpts{http: entry >= 3, extMode: 1 + int(k&1)}
		if k&2 != 0 && !o.http {
			o.extMode = 3
		}
		req := requestWith(name, value)
		return len(value) > 0, runRequest(o, k>>2, req)
	default:
		name := "Sec-WebSocket-Extensions"
		if entry == 6 {
			name = "Sec-WebSocket-Protocol"
		}
		o := respOpts{cfg: 1 + int(k)%3, status: true}
		return len(value) > 0, runResponse(o, responseWith(name, value))
	}
}

// ---------------------------------------------------------------------------
// compressed payloads

const defCtl = 2

var defEntries = []string{"Helper.DecompressFrame(counted)", "wsflate.Reader", "wsflate.Reader(ByteReader)", "DecompressFrame", "wsflate.Reader(reused)", "Helper.DecompressTo+Decompress"}

// partSep separates the compressed payloads of the reused-reader entry.
var partSep = []byte{0xde, 0xad, 0xbe, 0xef}

// boundedBuf is a wsflate.Buffer that stops accepting after maxOut bytes.
type boundedBuf struct {
	bytes.Buffer
	full bool
}

var errOutputBound = errors.New("harness: output bound reached")

func (b *boundedBuf) Write(p []byte) (int, error) {
	if b.Len()+len(p) > maxOut {
		b.full = true
		return 0, errOutputBound
	}
	return b.Buffer.Write(p)
}

// targetDeflate feeds bytes as a compressed message payload to the
// decompression entry points.
func targetDeflate(data []byte) error {
	if len(data) < defCtl {
		return nil
	}
	a := data[0]
	entry := int(a) % len(defEntries)
	rsv1 := a&0x10 == 0
	reuse := a&0x20 != 0
	eofData := a&0x40 != 0
	chunks := chunkPlan(data[1])
	payload := data[defCtl:]
	var out int64
	err := guard(defEntries[entry], func() error {
		var e error
		out, e = runDeflate(entry, rsv1, reuse, eofData, data[1], payload)
		return e
	})
	note("deflate", defEntries[entry], out > 0, data)
	if err != nil {
		return fmt.Errorf("%v\nentry=%s rsv1=%v reuse=%v chunks=%v eofWithData=%v\npayload=%x", err, defEntries[entry], rsv1, reuse, chunks, eofData, payload)
	}
	return nil
}

func runDeflate(entry int, rsv1, reuse, eofData bool, planByte byte, payload []byte) (out int64, err error) {
	chunks := chunkPlan(planByte)
	frame := func() ws.Frame {
		f := ws.NewFrame(ws.OpBinary, true, append([]byte(nil), payload...))
		if rsv1 {
			f.Header.Rsv = ws.Rsv(true, false, false)
		}
		return f
	}
	var cnts []*cntReader
	ctor := func(in io.Reader) wsflate.Decompressor {
		c := newCnt(in, len(payload))
		cnts = append(cnts, c)
		return flate.NewReader(c.iface())
	}
	runaway := func(what string) error {
		for _, c := range cnts {
			if c.runaway {
				return fmt.Errorf("%s: the decompressor read the source wsflate gave it %d times for %d bytes of input: wsflate's reader does not end", what, c.n, len(payload))
			}
		}
		return nil
	}
	switch entry {
	case 0:
		h := wsflate.Helper{Decompressor: ctor}
		var buf boundedBuf
		f, e := h.DecompressFrameBuffer(&buf, frame())
		if e == nil {
			out = int64(len(f.Payload))
		} else {
			out = int64(buf.Len())
		}
		if buf.full {
			hx.Class("deflate/output-bound")
		}
		return out, runaway("Helper.DecompressFrameBuffer")

	case 1, 2:
		src := tx.NewSrc(payload, chunks)
		src.EOFWithData = eofData
		var in io.Reader = src
		if entry == 2 {
			in = tx.ByteSrc{Src: src}
		}
		r := wsflate.NewReader(in, ctor)
		n, e := drain(r, src, 4096, maxOut, nil)
		out = n
		if _, bad := e.(*errContract); bad {
			return out, fmt.Errorf("wsflate.Reader: %v", e)
		}
		if e == errStall {
			return out, fmt.Errorf("wsflate.Reader.Read returned (0, nil) more than 64 times in a row without reading its source")
		}
		_ = r.Close()
		if e := runaway("wsflate.Reader"); e != nil {
			return out, e
		}
		if e := srcOracle("wsflate.Reader", src, nil); e != nil {
			return out, e
		}
		if reuse {
			src2 := tx.NewSrc(payload, chunks)
			var in2 io.Reader = src2
			if entry == 2 {
				in2 = tx.ByteSrc{Src: src2}
			}
			r.Reset(in2)
			n2, e2 := drain(r, src2, 512, maxOut, nil)
			out += n2
			if _, bad := e2.(*errContract); bad {
				return out, fmt.Errorf("wsflate.Reader after Reset: %v", e2)
			}
			if e2 == errStall {
				return out, fmt.Errorf("wsflate.Reader.Read after Reset returned (0, nil) more than 64 times in a row without reading its source")
			}
			if e := runaway("wsflate.Reader after Reset"); e != nil {
				return out, e
			}
			return out, srcOracle("wsflate.Reader after Reset", src2, nil)
		}
		return out, nil

	case 5:
		// the byte-slice helpers: bounded first (counted decompressor source),
		// the unbounded ones only with what stayed below the bound
		h := wsflate.Helper{Decompressor: ctor}
		var buf boundedBuf
		_ = h.DecompressTo(&buf, payload)
		if e := runaway("Helper.DecompressTo"); e != nil {
			return 0, e
		}
		out = int64(buf.Len())
		if buf.full || len(payload) > 4096 {
			hx.Class("deflate/Decompress/skipped-unbounded")
			return out, nil
		}
		_, _ = h.Decompress(payload)
		if e := runaway("Helper.Decompress"); e != nil {
			return out, e
		}
		_, _ = wsflate.DefaultHelper.Decompress(payload)
		return out, nil

	case 4:
		// One wsflate.Reader reused over up to three payloads (the input is
		// split at partSep), with the kind of source (io.ByteReader or not)
		// and the amount read (to the end / one small read / nothing) varying
		// from part to part, as a connection handler that pools its reader
		// and meets corrupt or abandoned messages does.
		parts := bytes.SplitN(payload, partSep, 3)
		plan := planByte // the chunk byte is the per-part plan here
		if rsv1 {
			plan ^= 0x55
		}
		if eofData {
			plan ^= 0xa6
		}
		var r *wsflate.Reader
		for i, part := range parts {
			src := tx.NewSrc(part, nil)
			var in io.Reader
			switch (int(plan>>(2*uint(i))) + i) % 3 {
			case 0:
				in = bytes.NewReader(part) // io.ByteReader, reads never reach src
			case 1:
				in = src
			default:
				in = tx.ByteSrc{Src: src}
			}
			if r == nil {
				r = wsflate.NewReader(in, ctor)
			} else {
				r.Reset(in)
			}
			what := fmt.Sprintf("reused wsflate.Reader, payload %d of %d", i+1, len(parts))
			amount := (int(plan>>6) + 2*i + int(plan&1)) % 3
			if reuse && i == len(parts)-1 {
				amount = 0
			}
			switch amount {
			case 0: // to the end
				n, e := drain(r, src, 1024, maxOut, nil)
				out += n
				if _, bad := e.(*errContract); bad {
					return out, fmt.Errorf("%s: %v", what, e)
				}
				if e == errStall && in != io.Reader(src) {
					e = nil // src is not what this reader reads from; the counters below judge termination
				}
				if e == errStall {
					return out, fmt.Errorf("%s: Read returned (0, nil) more than 64 times in a row without reading its source", what)
				}
			case 1: // one small read, then the message is abandoned
				var small [16]byte
				n, _ := r.Read(small[:])
				if n < 0 || n > len(small) {
					return out, fmt.Errorf("%s: Read(p) with len(p)=16 returned n=%d", what, n)
				}
				out += int64(n)
			default: // nothing read
			}
			if e := runaway(what); e != nil {
				return out, e
			}
			if e := srcOracle(what, src, nil); e != nil {
				return out, e
			}
		}
		return out, nil

	default:
		// Counted first: a reader that does not end is caught there and the
		// uncounted library default is never entered with such an input.
		h := wsflate.Helper{Decompressor: ctor}
		var buf boundedBuf
		_, _ = h.DecompressFrameBuffer(&buf, frame())
		if e := runaway("Helper.DecompressFrameBuffer"); e != nil {
			return 0, e
		}
		if buf.full || len(payload) > 4096 {
			// DecompressFrame has no output bound; inputs that inflate past
			// the harness bound are not given to it.
			hx.Class("deflate/DecompressFrame/skipped-unbounded")
			return int64(buf.Len()), nil
		}
		f, e := wsflate.DecompressFrame(frame())
		if e == nil {
			out = int64(len(f.Payload))
		}
		return out, nil
	}
}
