package c15

// Native fuzz targets (thorough tier: `go test -fuzz`, registered in
// props.json) over the same target functions, and the replay of the committed
// regression inputs in testdata/fuzz/<FuzzName>/ (every tier; the driver runs
// the test binary outside the package directory, so the files are located
// through VERIF_HARNESS and parsed here).

import (
	"bytes"
	"fmt"
	"os"
	"path/filepath"
	"sort"
	"strconv"
	"strings"
	"testing"

	"verif/harness/hx"
	"verif/harness/ref"
)

type fuzzTarget struct {
	name  string
	fn    func([]byte) error
	seeds func() [][]byte
	quiet func([]byte) error // fn without the evidence bookkeeping
}

var fuzzTargets = []fuzzTarget{
	{"FuzzFrames", targetFrames, framesSeeds, func(d []byte) error { return quietly(func() error { return targetFrames(d) }) }},
	{"FuzzRequest", targetRequest, requestSeeds, func(d []byte) error { return quietly(func() error { return targetRequest(d) }) }},
	{"FuzzResponse", targetResponse, responseSeeds, func(d []byte) error { return quietly(func() error { return targetResponse(d) }) }},
	{"FuzzOptions", targetOptions, optionsSeeds, func(d []byte) error { return quietly(func() error { return targetOptions(d) }) }},
	{"FuzzDeflate", targetDeflate, deflateSeeds, func(d []byte) error { return quietly(func() error { return targetDeflate(d) }) }},
}

func cat(parts ...[]byte) []byte { return bytes.Join(parts, nil) }

// framesSeeds: valid streams for both sides and the hostile constants, each
// for a few entry points.
func framesSeeds() [][]byte {
	key := [4]byte{0x37, 0xfa, 0x21, 0x3d}
	fr := func(op byte, fin, masked bool, rsv byte, p string) []byte {
		h := ref.Header{Fin: fin, Rsv: rsv, Op: op, Masked: masked}
		if masked {
			h.Mask = key
		}
		return ref.Frame{H: h, Payload: []byte(p)}.Encode()
	}
	conv := func(masked bool) []byte {
		return cat(
			fr(ref.OpText, true, masked, 0, "Hello"),
			fr(ref.OpPing, true, masked, 0, "ping-1"),
			fr(ref.OpText, false, masked, 0, "frag"),
			fr(ref.OpPing, true, masked, 0, ""),
			fr(ref.OpCont, false, masked, 0, "men"),
			fr(ref.OpCont, true, masked, 0, "ted \xe2\x82\xac"),
			fr(ref.OpBinary, true, masked, 0, strings.Repeat("\x00\x01\x02", 60)),
			fr(ref.OpPong, true, masked, 0, "x"),
			fr(ref.OpClose, true, masked, 0, "\x03\xe8bye"),
		)
	}
	compressed := func(masked bool) []byte {
		return cat(
			fr(ref.OpText, true, masked, 4, string(deflateRaw([]byte("Hello Hello Hello"), 6))),
			fr(ref.OpText, false, masked, 4, string(deflateRaw([]byte("fragmented compressed"), 6)[:5])),
			fr(ref.OpPing, true, masked, 0, "p"),
			fr(ref.OpCont, true, masked, 0, string(deflateRaw([]byte("fragmented compressed"), 6)[5:])),
		)
	}
	var out [][]byte
	for e := range frameEntries {
		// server side reads masked frames (opts a=0), client side unmasked (a=1)
		out = append(out, cat([]byte{byte(e), 0x80, 0x00, 0}, conv(true)))
		out = append(out, cat([]byte{byte(e), 0x81 | 4, 0x00, 3}, conv(false)))
	}
	out = append(out,
		cat([]byte{2, 0x08, 0x08, 0}, compressed(true)),
		cat([]byte{2, 0x09, 0x08, 1}, compressed(false)),
		cat([]byte{2, 0x10 | 4, 0x00, 0}, conv(true)),  // MaxFrameSize 16
		cat([]byte{2, 0x21 | 4, 0x01, 0}, conv(false)), // MaxFrameSize 125, discard
		cat([]byte{2, 0x02, 0x02, 0}, conv(true)),      // SkipHeaderCheck
	)
	// Reader with SkipHeaderCheck and every OnIntermediate / OnContinuation arrangement over a fragmented
	// message with an interleaved control frame that announces more than a control frame may
	for _, masked := range []bool{false, true} {
		a := byte(1)
		if masked {
			a = 0
		}
		for _, l := range []hostileLen{{126, 126}, {126, 1000}, {127, 1 << 16}, {127, inProcCap}} {
			stream := cat(fr(ref.OpText, false, masked, 0, "frag"), hostileHeader(0x89, masked, l), bytes.Repeat([]byte("p"), 300), fr(ref.OpCont, true, masked, 0, "end"))
			for inter := byte(0); inter < 4; inter++ {
				for _, b := range []byte{0x02, 0x02 | 0x04, 0x02 | 0x01, 0x00} {
					out = append(out, cat([]byte{2, a, b | inter<<6, 0}, stream))
				}
			}
		}
		for _, l := range []hostileLen{{127, 1<<24 + 1}, {127, inProcCap}} {
			for e := byte(1); e <= 4; e++ {
				out = append(out, cat([]byte{e, a, 0, 0}, hostileHeader(0x02, masked, l), []byte("non-final first frame")),
					cat([]byte{e, a, 0, 0}, fr(ref.OpText, false, masked, 0, "a"), hostileHeader(0x00, masked, l), []byte("non-final continuation")))
			}
		}
	}
	// continue mode (entry byte + contBit): a text message ending inside a multi-byte sequence, then control
	// frames with a payload and further messages, the caller going on after ErrInvalidUTF8
	for _, masked := range []bool{false, true} {
		a := byte(1 | 4)
		if masked {
			a = 4
		}
		stream := cat(fr(ref.OpText, true, masked, 0, strings.Repeat("a", 300)+"\xe2\x82"), fr(ref.OpPing, true, masked, 0, "0123456789"),
			fr(ref.OpText, true, masked, 0, "ok"), fr(ref.OpClose, true, masked, 0, "\x03\xe8"))
		for _, ab := range [][2]byte{{a | 0x80, 0x00}, {a, 0x00}, {a, 0x10}, {a, 0x01}} {
			out = append(out, cat([]byte{2 + contBit, ab[0], ab[1], 0}, stream))
		}
	}
	// many control frames / empty fragments between two fragments (stack use must not follow their number)
	for _, masked := range []bool{false, true} {
		a := byte(1 | 4)
		if masked {
			a = 4
		}
		stream := manyFrames(masked, 300, ref.Frame{H: ref.Header{Fin: true, Op: ref.OpPing}})
		for _, e := range []byte{2, 3, 4} {
			out = append(out, cat([]byte{e, a, 0, 0}, stream))
		}
	}
	// close frames with boundary status codes through the control-handling entries
	for _, code := range boundaryCloseCodes {
		body := string([]byte{byte(code >> 8), byte(code)}) + "x"
		out = append(out, cat([]byte{4, 0x01, 0, 0}, fr(ref.OpClose, true, false, 0, body)), cat([]byte{5, 0x00, 0, 0}, fr(ref.OpClose, true, true, 0, body)),
			cat([]byte{2, 0x81, 0, 0}, fr(ref.OpText, false, false, 0, "a"), fr(ref.OpClose, true, false, 0, body)))
	}
	// unchecked control headers handed to HandlePing / HandlePong / HandleClose directly
	for _, b0 := range []byte{0x89, 0x8a, 0x88} {
		for _, l := range []hostileLen{{126, 126}, {127, 1 << 16}, {127, 1<<24 + 1}, {127, inProcCap}} {
			out = append(out, cat([]byte{5, 0x81, 0x02, 0}, hostileHeader(b0, false, l), []byte("payload")), cat([]byte{5, 0x01, 0x02, 0}, hostileHeader(b0, false, l), []byte("payload")))
		}
	}
	for _, l := range hostileLens {
		for _, masked := range []bool{false, true} {
			a := byte(1)
			if masked {
				a = 0
			}
			stream := append(hostileHeader(0x82, masked, l), "some payload bytes"...)
			for _, e := range []byte{0, 1, 2, 3, 4} {
				out = append(out, cat([]byte{e, a, 0, 0}, stream))
			}
			out = append(out, cat([]byte{2, a | 0x30, 0, 0}, fr(ref.OpText, false, masked, 0, "a"), hostileHeader(0x80, masked, l), []byte("tail")))
			out = append(out, cat([]byte{5, a, 0, 0}, hostileHeader(0x89, masked, l), []byte("tail")))
		}
	}
	return out
}

// keyClasses: Sec-WebSocket-Key values of exactly 24 characters, one per class.
var keyClasses = []struct{ name, key string }{
	{"valid base64 of 16 bytes", validKey},
	{"16 zero bytes", "AAAAAAAAAAAAAAAAAAAAAA=="},
	{"base64 alphabet, no padding (decodes to 18 bytes)", "AAAAAAAAAAAAAAAAAAAAAAAA"},
	{"no padding, mixed alphabet", "dGhlIHNhbXBsZSBub25jZQ+/"},
	{"one = (decodes to 17 bytes)", "dGhlIHNhbXBsZSBub25jZQA="},
	{"three =", "dGhlIHNhbXBsZSBub25jZ==="},
	{"four =", "dGhlIHNhbXBsZSBub25j===="},
	{"all =", "========================"},
	{"non-alphabet bytes", "dGhlIHNhbXBsZSBub25jZ!=="},
	{"non-alphabet, no padding", "!!!!!!!!!!!!!!!!!!!!!!!!"},
	{"high bytes", "\xff\xfe\x80\x81AAAAAAAAAAAAAAAAAA=="},
	{"= in the middle", "dGhlIHNhbXBs=SBub25jZQ=="},
	{"= at the front", "=GhlIHNhbXBsZSBub25jZQ=="},
	{"url-safe alphabet", "dGhlIHNhbXBsZSBub25jZ-_="},
	{"blank inside", "dGhlIHNhbXBsZ Bub25jZQ=="},
	{"non-canonical trailing bits", "dGhlIHNhbXBsZSBub25jZR=="},
}

// keySeeds: a compliant request with each key class, through the raw upgrader,
// the debug wrapper and the net/http upgrader.
func keySeeds() [][]byte {
	var out [][]byte
	for _, kc := range keyClasses {
		req := strings.Replace(requestSeedsText[0], validKey, kc.key, 1)
		out = append(out, cat([]byte{0x02, 0, 0}, []byte(req)), cat([]byte{0x02, 0, 0x10}, []byte(req)), cat([]byte{0x03, 0, 0}, []byte(req)))
	}
	return out
}

func requestSeeds() [][]byte {
	out := keySeeds()
	for i, s := range requestSeedsText {
		for _, ctl := range [][]byte{{0x00, 0, 0}, {0x02, 0, 1}, {0x04, 3, 15}, {0x06, 0, 0}, {0x01, 0, 0}, {0x05, 7, 5}} {
			if i > 0 && ctl[0] == 0x06 {
				continue
			}
			out = append(out, cat(ctl, []byte(s)))
		}
	}
	hostile := []string{
		"GET /\r\n\r\n", "GET\r\n", "\r\n", " \r\n", "  \r\n", "GET  HTTP/1.1\r\n\r\n", "GET / HTTP/1.1\r\n:\r\n\r\n", "GET / HTTP/1.1\r\n : \r\n\r\n", "GET / HTTP/1.1\r\nHost:\r\n\r\n",
		"GET / HTTP/18446744073709551616.1\r\n\r\n", "GET / HTTP/1.18446744073709551616\r\n\r\n", "GET / HTTP/1.:\r\n\r\n", "GET / HTTP/.\r\n\r\n",
		strings.Replace(requestSeedsText[0], "\r\n\r\n", "\r\nSec-WebSocket-Extensions: ;\r\nSec-WebSocket-Protocol: ,\r\n\r\n", 1),
		strings.Replace(requestSeedsText[0], "\r\n\r\n", "\r\nSec-WebSocket-Extensions: x-a; b=\"\\\r\nSec-WebSocket-Protocol: \"\r\n\r\n", 1),
		strings.Replace(requestSeedsText[0], "\r\n\r\n", "\r\nX-Long: "+longToken+"\r\n\r\n", 1),
		strings.Replace(requestSeedsText[0], "Connection: Upgrade", "Connection: "+strings.Repeat(",", 500), 1),
		"GET /" + longToken + " HTTP/1.1\r\nHost: h\r\n\r\n",
	}
	for _, s := range hostile {
		out = append(out, cat([]byte{0x02, 0, 0}, []byte(s)), cat([]byte{0x0c, 1, 0}, []byte(s)), cat([]byte{0x03, 0, 0}, []byte(s)))
	}
	// live transport: complete heads (accepted, and rejected after the blank line was read), no more bytes
	for _, s := range []string{requestSeedsText[0], strings.Replace(requestSeedsText[0], "Host: server.example.com\r\n", "", 1), strings.Replace(requestSeedsText[0], "Sec-WebSocket-Version: 13\r\n", "", 1)} {
		out = append(out, cat([]byte{0x02, 0, 0x80}, []byte(s)), cat([]byte{0x02, 1, 0x90}, []byte(s)), cat([]byte{0x03, 0, 0x80}, []byte(s)), cat([]byte{0x00, 0, 0xe0}, []byte(s)))
	}
	// line ends at the end of a small read buffer (the 512 and 4096 byte sizes are in TestAlignment)
	for _, sz := range alignSizes[:2] {
		k := 0
		alignedRequests(sz.size, 0, func(what string, req []byte) {
			if k%3 == 0 {
				out = append(out, cat([]byte{0x02 | sz.idx<<3, 0, 0}, req))
			}
			k++
		})
	}
	return out
}

func responseSeeds() [][]byte {
	var out [][]byte
	for _, s := range responseSeedsText {
		for _, ctl := range [][]byte{{0x01, 0}, {0x00, 1}, {0x06, 3}, {0x03, 9}} {
			out = append(out, cat(ctl, []byte(s)))
		}
	}
	ok := responseSeedsText[0]
	hostile := []string{
		"HTTP/1.1 101\r\n\r\n", "HTTP/1.1\r\n", "\r\n", " \r\n", "  \r\n", "HTTP/1.1  \r\n", "HTTP/18446744073709551616.1 101 x\r\n\r\n", "HTTP/1.1 18446744073709551717 x\r\n\r\n", "HTTP/1.1 0:1 x\r\n\r\n",
		"HTTP/1.1 101 x\r\n:\r\n\r\n", "HTTP/1.1 101 x\r\n : \r\n\r\n", "HTTP/1.1 500 " + longToken + "\r\n" + longToken,
		strings.Replace(ok, "\r\n\r\n", "\r\nSec-WebSocket-Extensions: ;\r\n\r\n", 1),
		strings.Replace(ok, "\r\n\r\n", "\r\nSec-WebSocket-Extensions: ;x-a\r\n\r\n", 1),
		strings.Replace(ok, "\r\n\r\n", "\r\nSec-WebSocket-Extensions: ,x-a; b=\"\\\r\n\r\n", 1),
		strings.Replace(ok, "\r\n\r\n", "\r\nSec-WebSocket-Extensions: x-a, x-a, x-b; mode=1; mode=2, permessage-deflate; client_max_window_bits=99999999999999999999\r\n\r\n", 1),
		strings.Replace(ok, "\r\n\r\n", "\r\nSec-WebSocket-Protocol: \r\nSec-WebSocket-Protocol: chat\r\n\r\n", 1),
		strings.Replace(ok, "\r\n\r\n", "\r\nX-Long: "+longToken+"\r\n\r\n", 1),
	}
	for _, s := range hostile {
		out = append(out, cat([]byte{0x01, 0}, []byte(s)), cat([]byte{0x0b, 1}, []byte(s)))
	}
	for _, s := range []string{responseSeedsText[0], responseSeedsText[2], strings.Replace(responseSeedsText[0], "Connection: Upgrade\r\n", "", 1)} {
		out = append(out, cat([]byte{0x31, 0}, []byte(s)), cat([]byte{0x71, 1}, []byte(s)), cat([]byte{0xb1, 0}, []byte(s)))
	}
	for _, sz := range alignSizes[:2] {
		k := 0
		alignedResponses(sz.size, 0, func(what string, resp []byte) {
			if k%3 == 0 {
				out = append(out, cat([]byte{0x01 | sz.idx<<2, 0}, resp))
			}
			k++
		})
	}
	return out
}

func optionsSeeds() [][]byte {
	var out [][]byte
	hostile := []string{";", ",", "=", "\"", "\\", ";a", "a;", "a;;b", "a=b", "a;b=", "a;b=\"", "a;b=\"\\", "a;b=\"\\\"", "(", "(a", "a(b)", "a, ,b", " ", "", "a;b=\"c\"d", "\r\n a", "a\x00b",
		"permessage-deflate; client_max_window_bits=99999999999999999999", "permessage-deflate; server_max_window_bits", "permessage-deflate; client_max_window_bits; client_max_window_bits",
		"permessage-deflate; server_max_window_bits=1:", "permessage-deflate; x=" + longToken, strings.Repeat("a;", 300), strings.Repeat("a,", 300), strings.Repeat(";a=b", 300), strings.Repeat("\"", 201)}
	for e := range optEntries {
		for _, s := range optionSeedsText {
			out = append(out, cat([]byte{byte(e)}, []byte(s)), cat([]byte{byte(e) + 7*9}, []byte(s)))
		}
		for _, s := range hostile {
			out = append(out, cat([]byte{byte(e)}, []byte(s)))
		}
	}
	return out
}

// defCtl0 returns a first control byte that selects entry e (data[0] % number
// of entries) and has exactly the given flag bits (0x10 no RSV1, 0x20 reuse,
// 0x40 EOF with data) among bits 4..6.
func defCtl0(e int, flags byte) byte {
	for b := 0; b < 256; b++ {
		if b%len(defEntries) == e && byte(b)&0x70 == flags {
			return byte(b)
		}
	}
	panic("no such control byte")
}

func deflateSeeds() [][]byte {
	msgs := [][]byte{
		deflateRaw([]byte("Hello"), 6), deflateRaw([]byte(strings.Repeat("hello ", 500)), 9), deflateRaw(nil, 6), deflateRaw([]byte("stored"), 0),
		append(deflateRaw([]byte("tail kept"), 6), 0, 0, 0xff, 0xff), deflateRaw(bytes.Repeat([]byte{0}, 100000), 9),
	}
	msgs = append(msgs, deflateConsts()...)
	var out [][]byte
	for _, e := range []int{0, 1, 2, 3, 5} {
		for _, m := range msgs {
			out = append(out, cat([]byte{defCtl0(e, 0), 0}, m), cat([]byte{defCtl0(e, 0x20), 3}, m))
		}
	}
	// reused reader: valid / corrupt / cut payloads in every order, every plan of source kinds and read amounts
	good, big := deflateRaw([]byte("Hello Hello Hello"), 6), deflateRaw([]byte(strings.Repeat("hello ", 500)), 9)
	corrupt := []byte{0xff, 0xff, 0xff, 0xff, 0x00, 0x12}
	cut := big[:len(big)/2]
	seqs := [][][]byte{{good, good}, {big, good, good}, {corrupt, good}, {cut, good, big}, {good, corrupt, good}, {big, cut}, {nil, good}, {good, nil, corrupt}}
	for _, seq := range seqs {
		body := bytes.Join(seq, partSep)
		for plan := 0; plan < 256; plan += 5 {
			out = append(out, cat([]byte{defCtl0(4, byte(plan)&0x70), byte(plan)}, body))
		}
	}
	return out
}

func fuzzWith(f *testing.F, ft fuzzTarget) {
	for _, s := range ft.seeds() {
		f.Add(s)
	}
	f.Fuzz(func(t *testing.T, data []byte) {
		if len(data) > maxInput {
			return
		}
		if err := ft.fn(data); err != nil {
			t.Fatalf("%v\nfuzz input (%d bytes): %x", err, len(data), data)
		}
	})
}

func FuzzFrames(f *testing.F)   { fuzzWith(f, fuzzTargets[0]) }
func FuzzRequest(f *testing.F)  { fuzzWith(f, fuzzTargets[1]) }
func FuzzResponse(f *testing.F) { fuzzWith(f, fuzzTargets[2]) }
func FuzzOptions(f *testing.F)  { fuzzWith(f, fuzzTargets[3]) }
func FuzzDeflate(f *testing.F)  { fuzzWith(f, fuzzTargets[4]) }

// ---------------------------------------------------------------------------
// committed regression inputs

func corpusRoot() string {
	if h := os.Getenv("VERIF_HARNESS"); h != "" {
		return filepath.Join(h, "c15", "testdata", "fuzz")
	}
	return filepath.Join("testdata", "fuzz")
}

// parseCorpusFile reads a "go test fuzz v1" file holding one []byte value.
func parseCorpusFile(path string) ([]byte, error) {
	raw, err := os.ReadFile(path)
	if err != nil {
		return nil, err
	}
	lines := strings.Split(strings.TrimRight(string(raw), "\n"), "\n")
	if len(lines) != 2 || strings.TrimSpace(lines[0]) != "go test fuzz v1" {
		return nil, fmt.Errorf("%s: not a one-value 'go test fuzz v1' file", path)
	}
	l := strings.TrimSpace(lines[1])
	if !strings.HasPrefix(l, "[]byte(") || !strings.HasSuffix(l, ")") {
		return nil, fmt.Errorf("%s: value is not []byte(...)", path)
	}
	s, err := strconv.Unquote(l[len("[]byte(") : len(l)-1])
	if err != nil {
		return nil, fmt.Errorf("%s: %v", path, err)
	}
	return []byte(s), nil
}

// TestCorpus replays every committed input of every target, and the built-in
// seed lists.
func TestCorpus(t *testing.T) {
	root := corpusRoot()
	total, idx, prefixes := 0, 0, 0
	for _, ft := range fuzzTargets {
		files, _ := filepath.Glob(filepath.Join(root, ft.name, "*"))
		sort.Strings(files)
		if len(files) == 0 {
			t.Errorf("VERIF-INFRA: no committed inputs found for %s under %s", ft.name, root)
			continue
		}
		for _, p := range files {
			idx++
			if !hx.Mine(idx) {
				continue
			}
			data, err := parseCorpusFile(p)
			if err != nil {
				t.Errorf("VERIF-INFRA: %v", err)
				continue
			}
			hx.Eval()
			total++
			if err := ft.fn(data); err != nil {
				hx.Failf(t, map[string]interface{}{"target": ft.name, "file": p, "input_hex": fmt.Sprintf("%x", data)}, "%s on committed input %s: %v", ft.name, filepath.Base(p), err)
				return
			}
			if k, err := runPrefixes(ft, data); err != nil {
				hx.Failf(t, map[string]interface{}{"target": ft.name, "file": p, "prefix_len": k, "input_hex": fmt.Sprintf("%x", data[:k])}, "%s on the first %d bytes of committed input %s: %v", ft.name, k, filepath.Base(p), err)
				return
			} else {
				prefixes += k
			}
		}
		for i, data := range ft.seeds() {
			idx++
			if !hx.Mine(idx) {
				continue
			}
			hx.Eval()
			total++
			if err := ft.fn(data); err != nil {
				hx.Failf(t, map[string]interface{}{"target": ft.name, "seed": i, "input_hex": fmt.Sprintf("%x", data)}, "%s on built-in seed %d: %v", ft.name, i, err)
				return
			}
			if k, err := runPrefixes(ft, data); err != nil {
				hx.Failf(t, map[string]interface{}{"target": ft.name, "seed": i, "prefix_len": k, "input_hex": fmt.Sprintf("%x", data[:k])}, "%s on the first %d bytes of built-in seed %d: %v", ft.name, k, i, err)
				return
			} else {
				prefixes += k
			}
		}
	}
	hx.EvalN(prefixes)
	hx.Part("committed regression inputs + built-in seeds", int64(total), true)
	hx.Part("proper prefixes of those inputs (streams that end anywhere, the empty input included)", int64(prefixes), true)
}

// TestWriteSeedFiles (re)creates the committed seed files from the built-in
// lists. It only runs when C15_WRITE_SEEDS=1 (maintenance, never in a check).
func TestWriteSeedFiles(t *testing.T) {
	if os.Getenv("C15_WRITE_SEEDS") != "1" {
		t.Skip("maintenance only")
	}
	for _, ft := range fuzzTargets {
		dir := filepath.Join("testdata", "fuzz", ft.name)
		if err := os.MkdirAll(dir, 0o755); err != nil {
			t.Fatal(err)
		}
		seeds := ft.seeds()
		step := 1
		if len(seeds) > 14 {
			step = len(seeds)/14 + 1
		}
		n := 0
		for i := 0; i < len(seeds); i += step {
			if len(seeds[i]) > 2048 {
				i -= step - 1 // take the next small one instead
				continue
			}
			body := "go test fuzz v1\n[]byte(" + strconv.Quote(string(seeds[i])) + ")\n"
			if err := os.WriteFile(filepath.Join(dir, fmt.Sprintf("seed-%03d", i)), []byte(body), 0o644); err != nil {
				t.Fatal(err)
			}
			n++
		}
		if ft.name == "FuzzRequest" {
			for i, kc := range keyClasses {
				req := strings.Replace(requestSeedsText[0], validKey, kc.key, 1)
				body := "go test fuzz v1\n[]byte(" + strconv.Quote(string(cat([]byte{0x02, 0, 0}, []byte(req)))) + ")\n"
				if err := os.WriteFile(filepath.Join(dir, fmt.Sprintf("key-%02d", i)), []byte(body), 0o644); err != nil {
					t.Fatal(err)
				}
				n++
			}
		}
		t.Logf("%s: %d files", ft.name, n)
	}
}

// runPrefixes runs the target on the proper prefixes of data — a stream may
// end anywhere, also before its first byte. All of them in the thorough tier
// and for inputs up to 192 bytes; for longer inputs in the quick tier the
// first 96, the last 48 and every 13th in between. Without the evidence
// bookkeeping of the full inputs. It returns the number of prefixes run, or
// the length of the failing prefix and the error.
func runPrefixes(ft fuzzTarget, data []byte) (int, error) {
	n := 0
	for k := 0; k < len(data); k++ {
		if !hx.Thorough() && len(data) > 192 && k >= 96 && k < len(data)-48 && k%13 != 0 {
			continue
		}
		if err := ft.quiet(data[:k]); err != nil {
			return k, err
		}
		n++
	}
	return n, nil
}
