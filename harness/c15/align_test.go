package c15

// Alignment of line ends with the end of the handshake read buffer. The
// handshake parsers work on slices of the bufio buffer; a token at the very
// end of a full buffer has no slack capacity behind it, so reslicing beyond
// its length — harmless anywhere else — panics exactly there. The table pads
// the request target / the reason phrase / a header value so that the end of
// the first line, of a header line and of the whole head falls at buffer size
// -2 … +2 for every configured ReadBufferSize (16, 64, 512 and the 4096
// default), combined with short and odd last tokens and both line terminators.
// Oracle unchanged: no panic, termination.

import (
	"bytes"
	"fmt"
	"strings"
	"testing"

	"pgregory.net/rapid"

	"verif/harness/hx"
)

var alignSizes = []struct {
	idx  byte // index into the rbuf table of decodeReqOpts / decodeRespOpts
	size int
}{{1, 16}, {2, 64}, {3, 512}, {0, 4096}}

var alignDeltas = []int{-2, -1, 0, 1, 2}

// padTo inserts filler at offset at so that offset end (an offset behind at)
// moves to want. It returns nil if the line is already too long.
func padTo(b []byte, at, end, want int, fill byte) []byte {
	if want < end {
		return nil
	}
	return insertAt(b, at, bytes.Repeat([]byte{fill}, want-end))
}

// alignedRequests yields requests whose first line / k-th header line / head
// ends at size+delta.
func alignedRequests(size, delta int, emit func(what string, req []byte)) {
	rest := "Host: h\r\nUpgrade: websocket\r\nConnection: Upgrade\r\nSec-WebSocket-Version: 13\r\nSec-WebSocket-Key: " + validKey + "\r\n\r\n"
	for _, eol := range []string{"\n", "\r\n"} {
		// request line ending in a short / odd last token
		for _, tok := range []string{"HTTP/1.1", "HTTP/1.", "HTTP/.1", "1.1", ".", "1.", "H.1", ".1", "", "H", "HTTP", "HTTP/", "1"} {
			line := "GET / " + tok + eol
			if b := padTo([]byte(line+rest), len("GET /"), len(line), size+delta, 'a'); b != nil {
				emit("request-line/"+tok, b)
			}
			// two-part and one-part request lines
			line = "GET /" + tok + eol
			if b := padTo([]byte(line+rest), len("GET /"), len(line), size+delta, 'a'); b != nil {
				emit("request-line-2-parts/"+tok, b)
			}
		}
		// a header line (short values, colon at the very end, no colon) ending there
		head := "GET / HTTP/1.1" + eol + "Host: h" + eol
		for _, hl := range []string{"X-Pad: v", "X-Pad:", "X-Pad: ", "X-Pad", "Sec-WebSocket-Protocol: chat,", "Sec-WebSocket-Extensions: x-a;", "Connection: Upgrade,", "Upgrade: websocket", "Sec-WebSocket-Key: " + validKey, "Sec-WebSocket-Version: 13"} {
			all := head + hl + eol + strings.Replace(rest, "\r\n", eol, -1)
			if b := padTo([]byte(all), len("GET /"), len(head)+len(hl)+len(eol), size+delta, 'a'); b != nil {
				emit("header-line/"+hl, b)
			}
			// padding inside the header line itself (its name)
			if b := padTo([]byte(all), len(head)+1, len(head)+len(hl)+len(eol), size+delta, 'p'); b != nil {
				emit("header-line-padded-name/"+hl, b)
			}
		}
		// the end of the whole head
		all := "GET / HTTP/1.1" + eol + strings.Replace(rest, "\r\n", eol, -1)
		if b := padTo([]byte(all), len("GET /"), len(all), size+delta, 'a'); b != nil {
			emit("head-end", b)
		}
		if b := padTo([]byte(all), len("GET /"), len(all)-len(eol), size+delta, 'a'); b != nil {
			emit("last-header-end", b)
		}
	}
}

func alignedResponses(size, delta int, emit func(what string, resp []byte)) {
	for _, eol := range []string{"\n", "\r\n"} {
		rest := "Upgrade: websocket" + eol + "Connection: Upgrade" + eol + "Sec-WebSocket-Accept: " + acceptMark + eol + eol
		for _, sl := range []string{"HTTP/1.1 101 ", "HTTP/1.1 101", "HTTP/1.1 1", "HTTP/1.1 ", "HTTP/1.1", "1.1 101 x", ". 101 x", "H.1 101 x", "1. 101", " 101", " ", "", "HTTP/1.1 101 x", "HTTP/1. 101 x", "HTTP/1.1 500 x"} {
			// padding in front of the last token of the status line (inside the reason, or the version)
			line := sl + eol
			at := strings.LastIndex(sl, " ") + 1
			if strings.Count(sl, " ") >= 2 {
				at = len(sl) // reason phrase: pad at its end
			}
			if b := padTo([]byte(line+rest), at, len(line), size+delta, 'r'); b != nil {
				emit("status-line/"+sl, b)
			}
			if b := padTo([]byte(line+rest), 0, len(line), size+delta, 'V'); b != nil {
				emit("status-line-padded-front/"+sl, b)
			}
		}
		head := "HTTP/1.1 101 Switching Protocols" + eol
		for _, hl := range []string{"X-Pad: v", "X-Pad:", "X-Pad", "Sec-WebSocket-Protocol: chat", "Sec-WebSocket-Extensions: x-a;", "Sec-WebSocket-Extensions: x-b; mode=1", "Connection: Upgrade", "Upgrade: websocket"} {
			all := head + hl + eol + rest
			if b := padTo([]byte(all), len("HTTP/1.1 101 S"), len(head)+len(hl)+len(eol), size+delta, 'w'); b != nil {
				emit("header-line/"+hl, b)
			}
		}
		all := head + rest
		if b := padTo([]byte(all), len("HTTP/1.1 101 S"), len(all), size+delta, 'w'); b != nil {
			emit("head-end", b)
		}
	}
}

func TestAlignment(t *testing.T) {
	n, idx := 0, 0
	for _, sz := range alignSizes {
		for _, d := range alignDeltas {
			idx++
			if !hx.Mine(idx) {
				continue
			}
			var fail error
			var failWhat string
			alignedRequests(sz.size, d, func(what string, req []byte) {
				// raw Upgrader (selector / Negotiate / custom parsers) and HTTPUpgrader, transport unchunked, in 1-byte and in mixed chunks
				for _, ctl := range [][]byte{{0x02, 0, 0}, {0x04, 0, 5}, {0x06, 0, 0}, {0x02, 1, 0}, {0x02, 77, 0}, {0x82, 0, 0}, {0x03, 0, 0}} {
					if fail != nil {
						return
					}
					c := append([]byte(nil), ctl...)
					c[0] |= sz.idx << 3
					n++
					data := cat(c, req)
					if err := guard("Upgrader", func() error { o, r := decodeReqOpts(data); return runRequest(o, data[2], r) }); err != nil {
						fail, failWhat = fmt.Errorf("%v\nfuzz input (%d bytes): %x", err, len(data), data), what
					}
					if n%97 == 0 {
						note("alignment", "request", true, data)
					}
				}
			})
			alignedResponses(sz.size, d, func(what string, resp []byte) {
				for _, ctl := range [][]byte{{0x01, 0}, {0x01, 1}, {0x01, 77}, {0x11, 0}, {0x02, 0}} {
					if fail != nil {
						return
					}
					c := append([]byte(nil), ctl...)
					c[0] |= sz.idx << 2
					n++
					data := cat(c, resp)
					if err := guard("Dialer.Upgrade", func() error { o, r := decodeRespOpts(data); return runResponse(o, r) }); err != nil {
						fail, failWhat = fmt.Errorf("%v\nfuzz input (%d bytes): %x", err, len(data), data), what
					}
					if n%97 == 0 {
						note("alignment", "response", true, data)
					}
				}
			})
			if fail != nil {
				hx.Failf(t, map[string]interface{}{"read_buffer_size": sz.size, "line_end_at": sz.size + d, "what": failWhat}, "%v", fail)
				return
			}
		}
	}
	hx.EvalN(n)
	hx.Part("line / head end at read-buffer size -2..+2 x buffer size x short tokens x terminator x entry point", int64(n), true)
}

// alignHTTP pads a drawn (possibly mutated) head so that the end of one of
// its lines falls next to the end of a read buffer of a drawn size, and
// returns that size's index in the rbuf table.
func alignHTTP(t *rapid.T, b []byte) ([]byte, byte) {
	sz := rapid.SampledFrom(alignSizes).Draw(t, "align.size")
	d := rapid.SampledFrom(alignDeltas).Draw(t, "align.delta")
	// line ends
	var ends []int
	for i, c := range b {
		if c == '\n' {
			ends = append(ends, i+1)
		}
	}
	if len(ends) == 0 {
		ends = []int{len(b)}
	}
	k := rapid.IntRange(0, len(ends)-1).Draw(t, "align.line")
	if rapid.Bool().Draw(t, "align.first") {
		k = 0
	}
	start := 0
	if k > 0 {
		start = ends[k-1]
	}
	// pad inside the chosen line: behind its first blank or colon, else at its start
	at := start
	if i := bytes.IndexAny(b[start:ends[k]], " :"); i >= 0 {
		at = start + i + 1
	}
	if rapid.IntRange(0, 3).Draw(t, "align.inFirstLine") == 0 {
		if i := bytes.IndexByte(b[:ends[0]], ' '); i >= 0 {
			at = i + 1
		}
	}
	if p := padTo(b, at, ends[k], sz.size+d, 'a'); p != nil {
		return p, sz.idx
	}
	return b, sz.idx
}
