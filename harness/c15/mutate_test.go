package c15

// Quick-tier search: rapid-driven structure-aware mutation. Per target a valid
// seed of that kind is drawn (from the shared generators of C04/C09/C10 or
// built here), 0–4 mutations are applied (truncation, byte flips, splices of
// two seeds, hostile constants, hostile length fields, duplicated / oversized
// header lines, very long tokens), the control bytes are drawn, and the
// assembled input goes through the same target function native fuzzing uses.

import (
	"bytes"
	"compress/flate"
	"encoding/binary"
	"fmt"
	"strings"
	"testing"

	"pgregory.net/rapid"

	"verif/harness/c09/reqgen"
	"verif/harness/c10/respgen"
	"verif/harness/gen"
	"verif/harness/hx"
	"verif/harness/ref"
)

const maxInput = 1 << 17

// ---------------------------------------------------------------------------
// generic mutations

type mutator struct {
	consts  [][]byte
	special func(t *rapid.T, b []byte) []byte
}

var interesting = []byte{0, 1, 0x7e, 0x7f, 0x80, 0x81, 0xfe, 0xff, ' ', '\t', '\r', '\n', ';', ',', '"', '=', ':', '\\', '(', ')', '/', '.', '0', '9', ':'}

func clampInput(b []byte) []byte {
	if len(b) > maxInput {
		return b[:maxInput]
	}
	return b
}

func insertAt(b []byte, pos int, ins []byte) []byte {
	out := make([]byte, 0, len(b)+len(ins))
	out = append(out, b[:pos]...)
	out = append(out, ins...)
	return append(out, b[pos:]...)
}

// mutate applies 0–4 drawn mutations to a copy of b.
func mutate(t *rapid.T, b []byte, other func() []byte, m mutator) ([]byte, int) {
	b = append([]byte(nil), b...)
	n := rapid.IntRange(0, 4).Draw(t, "mutations")
	for i := 0; i < n; i++ {
		switch op := rapid.IntRange(0, 8).Draw(t, "op"); op {
		case 0: // truncation
			if len(b) > 0 {
				b = b[:rapid.IntRange(0, len(b)-1).Draw(t, "cut")]
			}
		case 1: // byte flips
			for k := rapid.IntRange(1, 4).Draw(t, "flips"); k > 0 && len(b) > 0; k-- {
				b[rapid.IntRange(0, len(b)-1).Draw(t, "at")] ^= byte(rapid.IntRange(1, 255).Draw(t, "xor"))
			}
		case 2: // interesting byte
			if len(b) > 0 {
				b[rapid.IntRange(0, len(b)-1).Draw(t, "at")] = rapid.SampledFrom(interesting).Draw(t, "byte")
			}
		case 3: // splice of two seeds
			o := other()
			i := rapid.IntRange(0, len(b)).Draw(t, "splice.i")
			j := rapid.IntRange(0, len(o)).Draw(t, "splice.j")
			b = append(b[:i:i], o[j:]...)
		case 4, 5: // hostile constant
			c := rapid.SampledFrom(m.consts).Draw(t, "const")
			b = insertAt(b, rapid.IntRange(0, len(b)).Draw(t, "at"), c)
		case 6: // delete a range
			if len(b) > 0 {
				i := rapid.IntRange(0, len(b)-1).Draw(t, "del.i")
				j := rapid.IntRange(i, len(b)).Draw(t, "del.j")
				b = append(b[:i:i], b[j:]...)
			}
		case 7: // repeat a range
			if len(b) > 0 {
				i := rapid.IntRange(0, len(b)-1).Draw(t, "rep.i")
				j := i + rapid.IntRange(1, 64).Draw(t, "rep.len")
				if j > len(b) {
					j = len(b)
				}
				k := rapid.IntRange(1, 300).Draw(t, "rep.k")
				b = insertAt(b, j, bytes.Repeat(b[i:j], k))
			}
		default:
			if m.special != nil {
				b = m.special(t, b)
			}
		}
		b = clampInput(b)
	}
	return b, n
}

func runCase(t *rapid.T, target func([]byte) error, ctl []byte, body []byte) {
	hx.Eval()
	data := append(append([]byte(nil), ctl...), body...)
	if err := target(data); err != nil {
		t.Fatalf("%v\nfuzz input (%d bytes): %x", err, len(data), data)
	}
}

func drawCtl(t *rapid.T, n int) []byte {
	ctl := make([]byte, n)
	for i := range ctl {
		ctl[i] = rapid.Byte().Draw(t, fmt.Sprintf("ctl%d", i))
	}
	return ctl
}

// ---------------------------------------------------------------------------
// frame streams

// hostileLen is a (length form, value) pair written over a frame's length field.
type hostileLen struct {
	form  byte // 126 or 127
	value uint64
}

var hostileLens = []hostileLen{
	{127, 1 << 16}, {127, 1<<31 - 1}, {127, 1 << 31}, {127, 1 << 32}, {127, 1 << 47}, {127, 1 << 62}, {127, 1<<63 - 1}, {127, 1 << 63},
	{127, ^uint64(0)}, {127, 0}, {127, 125}, {127, 0xFFFF}, {127, capLen}, {127, capLen + 1},
	// large but below inProcCap: an allocation sized by them is survivable and stands out against the per-case budget
	{127, 1<<24 + 1}, {127, 48 << 20}, {127, inProcCap}, {127, 1 << 28},
	{126, 0}, {126, 125}, {126, 126}, {126, 0xFFFF}, {126, 1000},
}

// hostileHeader renders a header with first byte b0, the mask bit, and the
// given length form.
func hostileHeader(b0 byte, masked bool, l hostileLen) []byte {
	b1 := l.form
	if masked {
		b1 |= 0x80
	}
	out := []byte{b0, b1}
	if l.form == 126 {
		out = binary.BigEndian.AppendUint16(out, uint16(l.value))
	} else {
		out = binary.BigEndian.AppendUint64(out, l.value)
	}
	if masked {
		out = append(out, 0x11, 0x22, 0x33, 0x44)
	}
	return out
}

func frameConsts() [][]byte {
	var cs [][]byte
	for _, l := range hostileLens {
		for _, b0 := range []byte{0x82, 0x81, 0x02, 0x80, 0x89, 0x88, 0xC1} {
			cs = append(cs, hostileHeader(b0, false, l), hostileHeader(b0, true, l))
		}
	}
	cs = append(cs,
		[]byte{0x89, 0x00}, []byte{0x89, 0x80, 1, 2, 3, 4}, []byte{0x8A, 0x00}, []byte{0x88, 0x00}, []byte{0x88, 0x80, 0, 0, 0, 0},
		[]byte{0x88, 0x01, 0x03}, []byte{0x88, 0x02, 0x03, 0xe8}, []byte{0x88, 0x02, 0x00, 0x00}, []byte{0x88, 0x02, 0x03, 0xed}, []byte{0x88, 0x04, 0x03, 0xe8, 0xff, 0xfe},
		[]byte{0x01, 0x00}, []byte{0x00, 0x00}, []byte{0x80, 0x00}, []byte{0x81, 0x01, 0xc0}, []byte{0x81, 0x02, 0xed, 0xa0}, []byte{0x81, 0x04, 0xf4, 0x90, 0x80, 0x80},
		[]byte{0x83, 0x00}, []byte{0x8B, 0x00}, []byte{0xF1, 0x00}, []byte{0xC1, 0x01, 0x00}, []byte{0x41, 0x00}, []byte{0xC9, 0x00}, []byte{0xC0, 0x00},
		[]byte{0x09, 0x00}, []byte{0x89, 0x7e, 0x00, 0x7e}, bytes.Repeat([]byte{0xff}, 14), bytes.Repeat([]byte{0x89, 0x00}, 200), bytes.Repeat([]byte{0x01, 0x00, 0x89, 0x00}, 100),
		bytes.Repeat([]byte{0x00, 0x00}, 300),
	)
	return cs
}

// overwriteLength replaces the length field of one frame of the stream.
func overwriteLength(t *rapid.T, b []byte) []byte {
	ws := walk(b)
	if len(ws) == 0 {
		return b
	}
	w := ws[rapid.IntRange(0, len(ws)-1).Draw(t, "len.frame")]
	l := rapid.SampledFrom(hostileLens).Draw(t, "len.value")
	hdr := hostileHeader(b[w.start], w.h.Masked, l)
	if w.h.Masked {
		copy(hdr[len(hdr)-4:], w.h.Mask[:])
	}
	out := append([]byte(nil), b[:w.start]...)
	out = append(out, hdr...)
	return append(out, b[w.hdrEnd:]...)
}

// deflateRaw is the RFC 7692 §7.2.1 transformation done with compress/flate:
// sync flush, last four bytes removed.
func deflateRaw(p []byte, level int) []byte {
	var buf bytes.Buffer
	w, _ := flate.NewWriter(&buf, level)
	w.Write(p)
	w.Flush()
	b := buf.Bytes()
	if len(b) >= 4 {
		b = b[:len(b)-4]
	}
	return append([]byte(nil), b...)
}

// seedFrames draws a valid conversation for the given side (masked = sent by
// a client); with compressed, every data message is a single compressed frame
// with RSV1 set.
func seedFrames(t *rapid.T, label string, masked, compressed bool) []byte {
	if !compressed && rapid.IntRange(0, 5).Draw(t, label+".edge") == 0 {
		return utf8EdgeStream(t, label+".edge", masked)
	}
	fs := gen.Conversation(t, label, gen.ConvOpts{Masked: masked, MaxMsgs: 3, MaxPayload: 200, Close: true,
		Big: rapid.IntRange(0, 15).Draw(t, label+".big") == 0})
	if compressed {
		var out []ref.Frame
		var msg []byte
		var first *ref.Frame
		for i := range fs {
			f := fs[i]
			if ref.IsControl(f.H.Op) {
				out = append(out, f)
				continue
			}
			if f.H.Op != ref.OpCont {
				c := f
				first, msg = &c, nil
			}
			msg = append(msg, f.Payload...)
			if f.H.Fin && first != nil {
				first.H.Fin = true
				first.H.Rsv = 4
				first.Payload = deflateRaw(msg, 6)
				out = append(out, *first)
				first = nil
			}
		}
		fs = out
	}
	return ref.EncodeAll(fs)
}

func TestMutFrames(t *testing.T) {
	consts := frameConsts()
	m := mutator{consts: consts, special: func(t *rapid.T, b []byte) []byte {
		if rapid.IntRange(0, 2).Draw(t, "special") == 0 {
			return setCloseCode(t, b)
		}
		return overwriteLength(t, b)
	}}
	hx.Check(t, 8, func(t *rapid.T) {
		ctl := drawCtl(t, frameCtl)
		ctl[0] = byte(rapid.IntRange(0, len(frameEntries)-1).Draw(t, "entry"))
		if rapid.Bool().Draw(t, "continueAfterError") {
			ctl[0] += byte(len(frameEntries))
		}
		// three cases out of four: the stream is built for the side that reads it
		masked := rapid.Bool().Draw(t, "masked")
		if rapid.IntRange(0, 3).Draw(t, "matchSide") > 0 {
			ctl[1] &^= 3
			if !masked {
				ctl[1] |= 1
			}
		}
		compressed := rapid.IntRange(0, 3).Draw(t, "compressed") == 0
		if compressed {
			ctl[1] |= 8  // extensions
			ctl[2] &^= 2 // header check on
			if rapid.Bool().Draw(t, "inflate") {
				ctl[2] |= 8
				ctl[2] &^= 1
			}
		}
		seed := []byte(nil)
		if !compressed && rapid.IntRange(0, 7).Draw(t, "longLived") == 0 {
			// a long-lived checking reader that goes on after message-level
			// errors, over a stream with a text message that may end inside a
			// multi-byte sequence and is followed by control frames and messages
			ctl[0] = 2 + byte(len(frameEntries))
			ctl[1] = ctl[1]&0x80 | 4 // UTF-8 check on, no extension, no size limit; top-level controls handled or read
			if !masked {
				ctl[1] |= 1
			}
			ctl[2] &= 0x30 // window size only: header check on, default OnIntermediate, messages read
			seed = utf8EdgeStream(t, "seed.longLived", masked)
		} else {
			seed = seedFrames(t, "seed", masked, compressed)
		}
		body, n := mutate(t, seed, func() []byte { return seedFrames(t, "other", masked, compressed) }, m)
		hx.Class(fmt.Sprintf("frames/mutations=%d", n))
		runCase(t, targetFrames, ctl, body)
	})
}

// ---------------------------------------------------------------------------
// HTTP heads

var longToken = strings.Repeat("a", 5000)

func httpConsts() [][]byte {
	s := []string{
		"\r\n", "\n", "\r", "\r\n\r\n", "\n\n", ":", " ", "\t", ": ", " :", ";", ",", "=", "\"", "\\", "\\\"", "(", ")", "\x00", "\x7f", "\x80", "\xff",
		" \r\n", ":\r\n", " : \r\n", "X:\r\n", "X: \t \r\n", ": v\r\n", "\t\r\n", "  \r\n",
		"GET", "GET ", "GET /", " HTTP/1.1", "HTTP/1.1", "HTTP/1.", "HTTP/.1", "HTTP/1.1 ", "HTTP/18446744073709551616.1", "HTTP/1.18446744073709551616", "HTTP/1.:", "HTTP/",
		"101", " 101 ", "0101", "18446744073709551717", "-101", "1e2",
		"Host: a\r\n", "Host:\r\n", "Upgrade: websocket\r\n", "Connection: Upgrade\r\n", "Connection: keep-alive, Upgrade\r\n", "Connection: ,\r\n", "Connection: \"\r\n",
		"Sec-WebSocket-Version: 13\r\n", "Sec-WebSocket-Key: " + validKey + "\r\n", "Sec-WebSocket-Key: \r\n", "Sec-WebSocket-Accept: " + acceptMark + "\r\n",
		"Sec-WebSocket-Protocol: chat\r\n", "Sec-WebSocket-Protocol: ,\r\n", "Sec-WebSocket-Protocol: \"chat\r\n", "Sec-WebSocket-Protocol: a b\r\n", "Sec-WebSocket-Protocol: chat, superchat,,\r\n",
		"Sec-WebSocket-Extensions: permessage-deflate\r\n", "Sec-WebSocket-Extensions: ;\r\n", "Sec-WebSocket-Extensions: ;a\r\n", "Sec-WebSocket-Extensions: ,\r\n", "Sec-WebSocket-Extensions: =\r\n",
		"Sec-WebSocket-Extensions: x-a;\r\n", "Sec-WebSocket-Extensions: x-a; b=\"\r\n", "Sec-WebSocket-Extensions: x-a; b=\"\\\r\n", "Sec-WebSocket-Extensions: x-a; b=\"\\\"\r\n",
		"Sec-WebSocket-Extensions: permessage-deflate; client_max_window_bits=99999999999999999999\r\n", "Sec-WebSocket-Extensions: permessage-deflate; server_max_window_bits\r\n",
		"Sec-WebSocket-Extensions: x-a, x-b; mode=1, permessage-deflate; client_max_window_bits\r\n", "Sec-WebSocket-Extensions: (\r\n", "Sec-WebSocket-Extensions: (a\\)\r\n",
		"Sec-WebSocket-Extensions: permessage-deflate; client_max_window_bits; client_max_window_bits\r\n",
		"sec-websocket-extensions:x-a;p;p;p;p;p;p;p;p;p;p;p;p;p;p;p;p;p;p;p\r\n",
		"X-Long: " + longToken + "\r\n", longToken, strings.Repeat("a", 4096), strings.Repeat("a", 4095), strings.Repeat(" ", 4097), strings.Repeat("X: y\r\n", 300),
		strings.Repeat(",", 600), strings.Repeat(";", 600), strings.Repeat("a;", 400), strings.Repeat("a,", 400), strings.Repeat("\"", 301), strings.Repeat("(", 300), strings.Repeat("\\", 300),
		strings.Repeat("a=b;", 300),
	}
	out := make([][]byte, len(s))
	for i := range s {
		out[i] = []byte(s[i])
	}
	return out
}

// lineOp is the structural mutation of an HTTP head: duplicate a line, blow a
// line up, or replace a value by a very long token.
func lineOp(t *rapid.T, b []byte) []byte {
	lines := bytes.SplitAfter(b, []byte("\n"))
	if len(lines) == 0 {
		return b
	}
	i := rapid.IntRange(0, len(lines)-1).Draw(t, "line")
	switch rapid.IntRange(0, 3).Draw(t, "lineop") {
	case 0: // duplicate
		k := rapid.SampledFrom([]int{1, 2, 50, 400}).Draw(t, "dups")
		dup := bytes.Repeat(lines[i], k)
		lines[i] = append(append([]byte(nil), lines[i]...), dup...)
	case 1: // oversized value
		n := rapid.SampledFrom([]int{500, 4090, 4096, 4097, 8192, 20000}).Draw(t, "long")
		l := lines[i]
		if c := bytes.IndexByte(l, ':'); c >= 0 {
			lines[i] = append(append(append([]byte(nil), l[:c+1]...), bytes.Repeat([]byte{'v'}, n)...), l[c+1:]...)
		} else {
			lines[i] = append(bytes.Repeat([]byte{'v'}, n), l...)
		}
	case 2: // oversized name
		n := rapid.SampledFrom([]int{300, 4096, 9000}).Draw(t, "longname")
		lines[i] = append(bytes.Repeat([]byte{'N'}, n), lines[i]...)
	default: // drop the line
		lines[i] = nil
	}
	return bytes.Join(lines, nil)
}

var requestSeedsText = []string{
	"GET /chat HTTP/1.1\r\nHost: server.example.com\r\nUpgrade: websocket\r\nConnection: Upgrade\r\nSec-WebSocket-Key: " + validKey + "\r\nSec-WebSocket-Version: 13\r\n\r\n",
	"GET /chat HTTP/1.1\r\nHost: server.example.com\r\nUpgrade: WebSocket\r\nConnection: keep-alive, Upgrade\r\nSec-WebSocket-Key: " + validKey + "\r\nOrigin: http://example.com\r\nSec-WebSocket-Protocol: chat, superchat\r\nSec-WebSocket-Version: 13\r\nSec-WebSocket-Extensions: permessage-deflate; client_max_window_bits, x-a; b=\"q\"\r\n\r\n",
	"GET / HTTP/1.1\nhost:h\nupgrade:websocket\nconnection:upgrade\nsec-websocket-version:13\nsec-websocket-key:" + validKey + "\nsec-websocket-extensions:permessage-deflate;server_no_context_takeover;client_max_window_bits=10\nsec-websocket-extensions:x-b\n\n",
}

func seedRequest(t *rapid.T, label string) []byte {
	if rapid.IntRange(0, 5).Draw(t, label+".hand") == 0 {
		return []byte(rapid.SampledFrom(requestSeedsText).Draw(t, label+".text"))
	}
	plan := reqgen.GenPlan(t, label+".plan", reqgen.Raw)
	return reqgen.GenRequest(t, label, plan).Render()
}

func TestMutRequest(t *testing.T) {
	m := mutator{consts: httpConsts(), special: lineOp}
	hx.Check(t, 5, func(t *rapid.T) {
		ctl := drawCtl(t, reqCtl)
		seed := seedRequest(t, "seed")
		body, n := mutate(t, seed, func() []byte { return seedRequest(t, "other") }, m)
		if rapid.IntRange(0, 3).Draw(t, "keyClass") == 0 {
			// a Sec-WebSocket-Key of exactly 24 characters from one of the classes (or a drawn one)
			key := rapid.SampledFrom(keyClasses).Draw(t, "key").key
			if rapid.IntRange(0, 3).Draw(t, "keyDrawn") == 0 {
				const alphabet = "ABCDEFGHIJKLMNOPQRSTUVWXYZabcdefghijklmnopqrstuvwxyz0123456789+/=-_! "
				b := make([]byte, 24)
				for i := range b {
					b[i] = alphabet[rapid.IntRange(0, len(alphabet)-1).Draw(t, "keyChar")]
				}
				key = string(b)
			}
			body = setHeaderValue(body, "sec-websocket-key", key)
			hx.Class("request/key-class")
		}
		if rapid.IntRange(0, 3).Draw(t, "align") == 0 {
			// a line end next to the end of the read buffer, often after a short last token
			if rapid.Bool().Draw(t, "shortVersion") {
				if i := bytes.IndexByte(body, '\n'); i >= 0 {
					if j := bytes.LastIndexByte(body[:i], ' '); j >= 0 {
						tok := rapid.SampledFrom([]string{"1.1", ".", "1.", "H.1", "", "HTTP/1.", ".1"}).Draw(t, "versionToken")
						body = append(append(append([]byte(nil), body[:j+1]...), tok...), body[i:]...)
						if !rapid.Bool().Draw(t, "bareLF") {
							body = insertAt(body, j+1+len(tok), []byte{'\r'})
						}
					}
				}
			}
			var idx byte
			body, idx = alignHTTP(t, body)
			ctl[0] = ctl[0]&^0x18 | idx<<3
			if rapid.Bool().Draw(t, "unchunked") {
				ctl[1] = 0
			}
			hx.Class("request/aligned")
		}
		hx.Class(fmt.Sprintf("request/mutations=%d", n))
		runCase(t, targetRequest, ctl, body)
	})
}

var responseSeedsText = []string{
	"HTTP/1.1 101 Switching Protocols\r\nUpgrade: websocket\r\nConnection: Upgrade\r\nSec-WebSocket-Accept: " + acceptMark + "\r\n\r\n",
	"HTTP/1.1 101 Switching Protocols\r\nUpgrade: websocket\r\nConnection: Upgrade\r\nSec-WebSocket-Accept: " + acceptMark + "\r\nSec-WebSocket-Protocol: chat\r\nSec-WebSocket-Extensions: permessage-deflate; server_no_context_takeover, x-a\r\nServer: c15\r\n\r\n\x81\x02hi",
	"HTTP/1.1 101 \nupgrade:WebSocket\nconnection:upgrade\nsec-websocket-accept:" + acceptMark + "\nsec-websocket-extensions:x-b;mode=1\n\n",
	"HTTP/1.1 400 Bad Request\r\nContent-Length: 3\r\n\r\nbad",
}

const seedKey = "AAAAAAAAAAAAAAAAAAAAAA=="

func seedResponse(t *rapid.T, label string) []byte {
	if rapid.IntRange(0, 5).Draw(t, label+".hand") == 0 {
		return []byte(rapid.SampledFrom(responseSeedsText).Draw(t, label+".text"))
	}
	r := respgen.Gen(t, label, respSeedCfg, respgen.Opts{MaxTrailing: 40, LongLines: rapid.IntRange(0, 9).Draw(t, label+".long") == 0})
	b := r.Render(seedKey)
	return bytes.Replace(b, []byte(respgen.Accept(seedKey)), []byte(acceptMark), -1)
}

func TestMutResponse(t *testing.T) {
	m := mutator{consts: httpConsts(), special: lineOp}
	hx.Check(t, 5, func(t *rapid.T) {
		ctl := drawCtl(t, respCtl)
		if rapid.IntRange(0, 3).Draw(t, "matchCfg") > 0 {
			ctl[0] = ctl[0]&^3 | 1 // the configuration the seeds were drawn for
		}
		seed := seedResponse(t, "seed")
		body, n := mutate(t, seed, func() []byte { return seedResponse(t, "other") }, m)
		if rapid.IntRange(0, 3).Draw(t, "align") == 0 {
			var idx byte
			body, idx = alignHTTP(t, body)
			ctl[0] = ctl[0]&^0x0c | idx<<2
			if rapid.Bool().Draw(t, "unchunked") {
				ctl[1] = 0
			}
			hx.Class("response/aligned")
		}
		hx.Class(fmt.Sprintf("response/mutations=%d", n))
		runCase(t, targetResponse, ctl, body)
	})
}

// ---------------------------------------------------------------------------
// header values

var optionSeedsText = []string{
	"permessage-deflate",
	"permessage-deflate; client_max_window_bits",
	"permessage-deflate; client_max_window_bits=10; server_no_context_takeover",
	"permessage-deflate; server_max_window_bits=12; client_max_window_bits=15; client_no_context_takeover; server_no_context_takeover",
	"permessage-deflate; client_max_window_bits, permessage-deflate",
	"permessage-deflate; server_max_window_bits=\"10\"",
	"x-a, x-b; mode=1, permessage-deflate; client_max_window_bits",
	"x-a; b=\"quoted \\\"string\\\"\"; c=d",
	"chat, superchat",
	"chat",
	"v1.json,mqtt , x",
	"foo;bar=1;baz, qux ; a = b",
}

func optionConsts() [][]byte {
	s := []string{
		";", ",", "=", "\"", "\\", "\\\"", "(", ")", " ", "\t", "\r\n ", "\r\n\t", "\r\n", "\r", "\x00", "\x7f", "\x80", "\xff", "/", "@", "[", "]", "{", "}", "?", ":",
		"; ", ", ", ";;", ",,", ";=", "=;", "=,", ";,", ",;", "\"\"", "=\"", "=\"\"", "=\"\\", "=\"\\\"", "\\\\", "(a)", "(a(b)c)", "(\\)", "(\\",
		"permessage-deflate", "client_max_window_bits", "server_max_window_bits", "client_no_context_takeover", "server_no_context_takeover",
		"client_max_window_bits=", "server_max_window_bits=", "=8", "=15", "=16", "=7", "=0", "=08", "=015", "=1:", "=99999999999999999999", "=18446744073709551624", "=-8", "=+8", "=8 ", "=\"8\"",
		"chat", "superchat", "x-a", "x-b; mode=1",
		longToken, strings.Repeat("a;", 300), strings.Repeat("a,", 300), strings.Repeat(";a=b", 300), strings.Repeat("\"", 201), strings.Repeat("(", 200), strings.Repeat("\\", 201),
		strings.Repeat("x-a; p, ", 200), strings.Repeat(" ", 500),
	}
	out := make([][]byte, len(s))
	for i := range s {
		out[i] = []byte(s[i])
	}
	return out
}

var optNames = []string{"permessage-deflate", "x-a", "x-b", "chat", "superchat", "Permessage-Deflate", "n", "a"}
var optParams = []string{"client_max_window_bits", "server_max_window_bits", "client_no_context_takeover", "server_no_context_takeover", "mode", "p", "q"}
var optValues = []string{"", "", "8", "10", "15", "16", "7", "0", "1", "abc", "\"10\"", "\"a b\"", "\"a\\\"b\"", "99999999999", "08"}

func seedOptions(t *rapid.T, label string) []byte {
	if rapid.IntRange(0, 2).Draw(t, label+".hand") == 0 {
		return []byte(rapid.SampledFrom(optionSeedsText).Draw(t, label+".text"))
	}
	var b strings.Builder
	n := rapid.IntRange(1, 4).Draw(t, label+".n")
	for i := 0; i < n; i++ {
		if i > 0 {
			b.WriteString(rapid.SampledFrom([]string{", ", ",", " , "}).Draw(t, label+".sep"))
		}
		b.WriteString(rapid.SampledFrom(optNames).Draw(t, label+".name"))
		for k := rapid.IntRange(0, 4).Draw(t, label+".np"); k > 0; k-- {
			b.WriteString(rapid.SampledFrom([]string{"; ", ";", " ; "}).Draw(t, label+".psep"))
			b.WriteString(rapid.SampledFrom(optParams).Draw(t, label+".param"))
			if v := rapid.SampledFrom(optValues).Draw(t, label+".value"); v != "" {
				b.WriteString("=" + v)
			}
		}
	}
	return []byte(b.String())
}

func TestMutOptions(t *testing.T) {
	m := mutator{consts: optionConsts()}
	hx.Check(t, 8, func(t *rapid.T) {
		ctl := drawCtl(t, optCtl)
		e := rapid.IntRange(0, len(optEntries)-1).Draw(t, "entry")
		// the entry is data[0] % len(optEntries); keep the high nibble drawn
		for int(ctl[0])%len(optEntries) != e {
			ctl[0]++
		}
		seed := seedOptions(t, "seed")
		body, n := mutate(t, seed, func() []byte { return seedOptions(t, "other") }, m)
		hx.Class(fmt.Sprintf("options/mutations=%d", n))
		runCase(t, targetOptions, ctl, body)
	})
}

// ---------------------------------------------------------------------------
// compressed payloads

func deflateConsts() [][]byte {
	return [][]byte{
		{0x00, 0x00, 0xff, 0xff}, {0x01, 0x00, 0x00, 0xff, 0xff}, {0x00}, {0x01}, {0x02}, {0x03}, {0x04}, {0x05}, {0x06}, {0x07}, {0xff},
		{0x00, 0x00, 0x00, 0xff, 0xff}, {0x00, 0xff, 0xff, 0x00, 0x00}, {0x01, 0x01, 0x00, 0xfe, 0xff, 0x41},
		{0x00, 0x05, 0x00, 0xfa, 0xff, 'h', 'e', 'l', 'l', 'o'}, {0x00, 0xff, 0xff, 0x00, 0x00},
		{0xed, 0xc1, 0x01, 0x0d, 0x00, 0x00, 0x00, 0xc2, 0xa0, 0xf7, 0x4f, 0x6d, 0x0f}, // long zero run, dynamic block
		bytes.Repeat([]byte{0xff}, 64), bytes.Repeat([]byte{0x00}, 64), bytes.Repeat([]byte{0x00, 0x00, 0xff, 0xff}, 50),
		{0xf2, 0x48, 0xcd, 0xc9, 0xc9, 0x07, 0x00}, {0xf2, 0x48, 0xcd, 0xc9, 0xc9, 0x07, 0x00, 0x00, 0x00, 0xff, 0xff},
	}
}

// seedDeflate draws a compressed message payload: deflate of a drawn text,
// RFC 7692 tail removed (or deliberately kept, or final-block form).
func seedDeflate(t *rapid.T, label string) []byte {
	var p []byte
	switch rapid.IntRange(0, 3).Draw(t, label+".kind") {
	case 0:
		p = gen.ValidText(t, label+".text", 200)
	case 1:
		p = bytes.Repeat([]byte(rapid.SampledFrom([]string{"a", "ab", "hello ", "\x00"}).Draw(t, label+".unit")), rapid.IntRange(0, 5000).Draw(t, label+".rep"))
	case 2:
		p = gen.Bytes(t, label+".bytes", 300)
	default:
		p = nil
	}
	level := rapid.SampledFrom([]int{flate.NoCompression, flate.BestSpeed, flate.DefaultCompression, flate.BestCompression, flate.HuffmanOnly}).Draw(t, label+".level")
	switch rapid.IntRange(0, 5).Draw(t, label+".tail") {
	case 0: // tail kept
		return append(deflateRaw(p, level), 0x00, 0x00, 0xff, 0xff)
	case 1: // stream closed with a final block
		var buf bytes.Buffer
		w, _ := flate.NewWriter(&buf, level)
		w.Write(p)
		w.Close()
		return buf.Bytes()
	}
	return deflateRaw(p, level)
}

func deflateSpecial(t *rapid.T, b []byte) []byte {
	if len(b) == 0 {
		return b
	}
	switch rapid.IntRange(0, 2).Draw(t, "dspecial") {
	case 0: // block header bits
		b[0] = b[0]&^7 | byte(rapid.IntRange(0, 7).Draw(t, "bits"))
	case 1: // two messages back to back
		b = append(b, b...)
	default: // stored block with hostile LEN/NLEN
		n := uint16(rapid.SampledFrom([]int{0, 1, 0x7fff, 0xffff}).Draw(t, "len"))
		blk := []byte{0x00, byte(n), byte(n >> 8), byte(^n), byte(^n >> 8)}
		b = append(blk, b...)
	}
	return b
}

func TestMutDeflate(t *testing.T) {
	m := mutator{consts: append(deflateConsts(), partSep), special: deflateSpecial}
	hx.Check(t, 2, func(t *rapid.T) {
		ctl := drawCtl(t, defCtl)
		e := rapid.IntRange(0, len(defEntries)-1).Draw(t, "entry")
		ctl[0] = ctl[0]&0xf0 | byte(e) // entry = low nibble (mod 5 of a value < 5), flags = high nibble
		for int(ctl[0])%len(defEntries) != e {
			ctl[0] += 0x10
		}
		seed := seedDeflate(t, "seed")
		body, n := mutate(t, seed, func() []byte { return seedDeflate(t, "other") }, m)
		if e == 4 {
			// reused reader: two or three payloads, each valid, mutated or cut short
			parts := [][]byte{body}
			for k := rapid.IntRange(1, 2).Draw(t, "moreParts"); k > 0; k-- {
				p := seedDeflate(t, "part")
				switch rapid.IntRange(0, 3).Draw(t, "partKind") {
				case 0:
					p, _ = mutate(t, p, func() []byte { return seedDeflate(t, "partOther") }, m)
				case 1:
					if len(p) > 0 {
						p = p[:rapid.IntRange(0, len(p)-1).Draw(t, "partCut")]
					}
				}
				if rapid.Bool().Draw(t, "front") {
					parts = append([][]byte{p}, parts...)
				} else {
					parts = append(parts, p)
				}
			}
			body = bytes.Join(parts, partSep)
		}
		hx.Class(fmt.Sprintf("deflate/mutations=%d", n))
		runCase(t, targetDeflate, ctl, body)
	})
}

// utf8EdgeStream draws a fragmented text message whose first fragment has a
// size around the caller-buffer sizes (io.ReadAll: 512, then growth) and may
// end inside a multi-byte sequence, followed by empty fragments (with control
// frames in between) and a final fragment that is empty or carries the rest.
func utf8EdgeStream(t *rapid.T, label string, masked bool) []byte {
	var size int
	switch rapid.IntRange(0, 3).Draw(t, label+".sizekind") {
	case 0:
		size = rapid.IntRange(0, 8).Draw(t, label+".size")
	case 1:
		size = rapid.IntRange(400, 520).Draw(t, label+".size")
	case 2:
		size = rapid.IntRange(900, 1030).Draw(t, label+".size")
	default:
		size = rapid.IntRange(0, 2100).Draw(t, label+".size")
	}
	seq := rapid.SampledFrom([]string{"\xc2\x80", "\xe2\x82\xac", "\xf0\x9f\x98\x80", "\xed\x9f\xbf", "\xf4\x8f\xbf\xbf"}).Draw(t, label+".seq")
	cut := rapid.IntRange(0, len(seq)).Draw(t, label+".cut")
	mk := func(op byte, fin bool, p []byte) ref.Frame {
		h := ref.Header{Fin: fin, Op: op, Masked: masked}
		if masked {
			h.Mask = gen.Key(t, label+".key")
		}
		return ref.Frame{H: h, Payload: p}
	}
	single := rapid.IntRange(0, 2).Draw(t, label+".single") == 0 // the whole message in one final frame
	fs := []ref.Frame{mk(ref.OpText, single, append(bytes.Repeat([]byte{'a'}, size), seq[:cut]...))}
	for k := rapid.IntRange(0, 3).Draw(t, label+".empties"); k > 0 && !single; k-- {
		fs = append(fs, mk(ref.OpCont, false, nil))
		if rapid.IntRange(0, 3).Draw(t, label+".ctl") == 0 {
			fs = append(fs, gen.CtlFrame(t, label+".ictl", masked))
		}
	}
	switch fin := rapid.IntRange(0, 2).Draw(t, label+".final"); {
	case single:
	case fin == 0:
		fs = append(fs, mk(ref.OpCont, true, nil))
	case fin == 1:
		fs = append(fs, mk(ref.OpCont, true, []byte(seq[cut:])))
	default: // a final fragment that again stops inside the sequence
		fs = append(fs, mk(ref.OpCont, true, []byte("bb"+seq[:rapid.IntRange(0, len(seq)-1).Draw(t, label+".cut2")])))
	}
	for k := rapid.IntRange(0, 2).Draw(t, label+".after"); k > 0; k-- {
		// what a long-lived reader meets next: control frames with a payload, more messages
		switch rapid.IntRange(0, 2).Draw(t, label+".afterKind") {
		case 0:
			fs = append(fs, gen.CtlFrame(t, label+".actl", masked))
		case 1:
			fs = append(fs, mk(ref.OpText, true, []byte("next")))
		default:
			fs = append(fs, mk(ref.OpPing, true, []byte("0123456789")))
		}
	}
	return ref.EncodeAll(fs)
}

// setHeaderValue replaces the value of the first header line with that name
// (ASCII case-insensitive) or, if there is none, inserts the line after the
// first line.
func setHeaderValue(head []byte, lowerName, value string) []byte {
	lines := bytes.SplitAfter(head, []byte("\n"))
	for i, l := range lines {
		c := bytes.IndexByte(l, ':')
		if i == 0 || c < 0 || strings.ToLower(strings.TrimSpace(string(l[:c]))) != lowerName {
			continue
		}
		eol := "\n"
		if bytes.HasSuffix(l, []byte("\r\n")) {
			eol = "\r\n"
		} else if !bytes.HasSuffix(l, []byte("\n")) {
			eol = ""
		}
		lines[i] = []byte(string(l[:c+1]) + " " + value + eol)
		return bytes.Join(lines, nil)
	}
	if len(lines) < 2 {
		return head
	}
	ins := []byte("Sec-WebSocket-Key: " + value + "\r\n")
	out := append([]byte(nil), lines[0]...)
	out = append(out, ins...)
	return append(out, bytes.Join(lines[1:], nil)...)
}

var boundaryCloseCodes = []int{0, 1, 999, 1000, 1003, 1004, 1005, 1006, 1007, 1011, 1012, 1013, 1014, 1015, 1016, 1017, 1023, 1024, 1999, 2000, 2999, 3000, 3999, 4000, 4999, 5000, 32767, 32768, 65534, 65535}

// setCloseCode gives a close frame of the stream (or, if it has none, one
// appended to it) a boundary status code.
func setCloseCode(t *rapid.T, b []byte) []byte {
	code := rapid.SampledFrom(boundaryCloseCodes).Draw(t, "closeCode")
	ws := walk(b)
	for _, w := range ws {
		if w.h.Op != ref.OpClose || w.h.Length < 2 || w.hdrEnd+2 > len(b) {
			continue
		}
		out := append([]byte(nil), b...)
		hi, lo := byte(code>>8), byte(code)
		if w.h.Masked {
			hi, lo = hi^w.h.Mask[0], lo^w.h.Mask[1]
		}
		out[w.hdrEnd], out[w.hdrEnd+1] = hi, lo
		return out
	}
	masked := len(ws) > 0 && ws[0].h.Masked
	h := ref.Header{Fin: true, Op: ref.OpClose, Masked: masked}
	if masked {
		h.Mask = [4]byte{0x21, 0x43, 0x65, 0x87}
	}
	reason := rapid.SampledFrom([]string{"", "bye", "\xff"}).Draw(t, "closeReason")
	f := ref.Frame{H: h, Payload: append([]byte{byte(code >> 8), byte(code)}, reason...)}
	// at a frame boundary if the walk found one, else at the end
	at := len(b)
	if len(ws) > 0 {
		k := rapid.IntRange(0, len(ws)-1).Draw(t, "closeAt")
		at = ws[k].start
	}
	return insertAt(b, at, f.Encode())
}
