package c15

// Extreme announced lengths (2^31-1 … 2^63-1) at every frame entry point, and
// the allocation bound of header decoding. Every call that might allocate by
// announced length runs in a CHILD PROCESS with a lowered address-space limit,
// because on a defective tree the symptom is an unrecoverable
// "fatal error: out of memory" (or a makeslice panic). The parent maps "child
// died / panicked / allocated far more than the stream holds while decoding
// input X" to a violation with X as the case.

import (
	"encoding/json"
	"fmt"
	"io"
	"os"
	"os/exec"
	"regexp"
	"runtime"
	"runtime/debug"
	"strconv"
	"strings"
	"sync"
	"syscall"
	"testing"

	"github.com/gobwas/ws"
	"github.com/gobwas/ws/wsutil"

	"verif/harness/gen"
	"verif/harness/hx"
	"verif/harness/ref"
	"verif/harness/tx"
)

const (
	childEnv      = "C15_CHILD"
	childMarker   = "C15-CHILD-RESULT "
	childHeadroom = 768 << 20 // address space a child may add to what it has mapped at start
	allocBound    = 64 << 20  // what a decoder of a 50-byte stream may never allocate
	headerBound   = 64 << 10  // absolute cap on what header decoding may allocate
	headerSlack   = 1024      // header decoding of a huge announced length may allocate this much more than of length 0
	tailBytes     = 32        // payload bytes actually present after the header
)

// deliveredTable: payload bytes delivered after an extreme header, around the
// sizes at which a receive buffer is first grown.
var deliveredTable = []int{1<<20 - 1, 1 << 20, 1<<20 + 1, 2<<20 + 1, 4<<20 + 1}

var lengthTable = []int64{1<<31 - 1, 1 << 31, 1 << 32, 1 << 40, 1 << 47, 1 << 62, 1<<63 - 1}

type xcase struct {
	Entry  string `json:"entry"`
	Length int64  `json:"announced_length"`
	Masked bool   `json:"masked"`
	Op     byte   `json:"opcode"`         // opcode of the frame announcing Length (final frame)
	Frag   bool   `json:"after_fragment"` // preceded by a non-final one-byte text frame
	// Delivered is the number of payload bytes actually sent after the header
	// before the stream ends (0 = tailBytes).
	Delivered int `json:"delivered,omitempty"`
	// NonFin: the frame announcing Length is itself non-final.
	NonFin bool `json:"non_final,omitempty"`
}

func (c xcase) key() string {
	return fmt.Sprintf("%s:%d:%v:%d:%v:%d:%v", c.Entry, c.Length, c.Masked, c.Op, c.Frag, c.Delivered, c.NonFin)
}

func parseCase(s string) (c xcase, err error) {
	p := strings.Split(s, ":")
	if len(p) != 7 {
		return c, fmt.Errorf("bad case %q", s)
	}
	c.Entry = p[0]
	if c.Length, err = strconv.ParseInt(p[1], 10, 64); err != nil {
		return c, err
	}
	c.Masked = p[2] == "true"
	op, err := strconv.Atoi(p[3])
	if err != nil {
		return c, err
	}
	c.Op = byte(op)
	c.Frag = p[4] == "true"
	c.Delivered, err = strconv.Atoi(p[5])
	c.NonFin = p[6] == "true"
	return c, err
}

// stream is (after an optional non-final text frame "a") a final frame with
// opcode c.Op announcing c.Length, followed by tailBytes bytes of payload and
// the end of the stream.
func (c xcase) stream() []byte {
	h := ref.Header{Fin: !c.NonFin, Op: c.Op, Masked: c.Masked, Length: c.Length}
	if c.Masked {
		h.Mask = [4]byte{1, 2, 3, 4}
	}
	var b []byte
	if c.Frag {
		b = ref.Frame{H: ref.Header{Op: ref.OpText, Masked: c.Masked, Mask: h.Mask}, Payload: []byte("a")}.Encode()
	}
	b = append(b, ref.EncodeHeader(h)...)
	n := int64(tailBytes)
	if c.Delivered > 0 {
		n = int64(c.Delivered)
	}
	if c.Length < n {
		n = c.Length
	}
	if c.Delivered > 0 {
		return append(b, gen.Filled(int(n), 'a')...)
	}
	for i := int64(0); i < n; i++ {
		b = append(b, byte('a'+i%26))
	}
	return b
}

// delivered is the number of payload bytes present after the header.
func (c xcase) delivered() int {
	if c.Delivered > 0 {
		return c.Delivered
	}
	return tailBytes
}

// allocLimit is what decoding the stream may allocate: a small multiple of
// what was delivered plus a constant, never the announced length.
func (c xcase) allocLimit() uint64 {
	return 4*uint64(c.delivered()) + allocBound
}

// inputDesc renders the stream for messages (long payloads abbreviated).
func (c xcase) inputDesc() string {
	b := c.stream()
	if len(b) <= 64 {
		return fmt.Sprintf("%x", b)
	}
	hl := len(b) - c.delivered()
	return fmt.Sprintf("%x followed by %d payload bytes (pattern 61 62 63 …, gen.Filled)", b[:hl], c.delivered())
}

func (c xcase) headerLen() int {
	return ref.HeaderLen(ref.Header{Masked: c.Masked, Length: c.Length})
}

func (c xcase) opName() string {
	n := map[byte]string{ref.OpCont: "continuation", ref.OpBinary: "binary", ref.OpPing: "ping", ref.OpPong: "pong", ref.OpClose: "close"}[c.Op]
	if c.NonFin {
		n += "-nonfinal"
	}
	if c.Frag {
		n += "-after-fragment"
	}
	return n
}

func (c xcase) state() ws.State {
	if c.Masked {
		return ws.StateServerSide
	}
	return ws.StateClientSide
}

type xresult struct {
	Case  string `json:"case"`
	Panic string `json:"panic,omitempty"`
	Stall string `json:"stall,omitempty"`
	Err   string `json:"err,omitempty"`
	Alloc uint64 `json:"alloc"`  // TotalAlloc delta around the call
	Sys   uint64 `json:"sys"`    // Sys delta around the call
	Pos   int    `json:"pos"`    // bytes of the stream consumed
	Reads int    `json:"reads"`  // Read calls on the transport
	Got   int    `json:"result"` // bytes of payload handed to the caller
}

// call runs one entry point over src.
func (c xcase) call(src *tx.Src) (got int, err error) {
	st := c.state()
	switch c.Entry {
	case "ReadHeader":
		_, err = ws.ReadHeader(src)
	case "NextFrame":
		rd := &wsutil.Reader{Source: src, State: st}
		_, err = rd.NextFrame()
	case "NextFrame+Max":
		rd := &wsutil.Reader{Source: src, State: st, MaxFrameSize: capLen}
		_, err = rd.NextFrame()
	case "ReadFrame":
		for err == nil {
			var f ws.Frame
			f, err = ws.ReadFrame(src)
			got += len(f.Payload)
		}
	case "ReadMessage":
		var m []wsutil.Message
		m, err = wsutil.ReadMessage(src, st, nil)
		for _, x := range m {
			got += len(x.Payload)
		}
	case "ReadData":
		var p []byte
		p, _, err = wsutil.ReadData(tx.RW{Reader: src, Writer: tx.NewRec()}, st)
		got = len(p)
	case "Reader+ReadAll":
		handler := wsutil.ControlFrameHandler(tx.NewRec(), st)
		rd := &wsutil.Reader{Source: src, State: st, CheckUTF8: true, OnIntermediate: handler}
		var h ws.Header
		if h, err = rd.NextFrame(); err == nil {
			if h.OpCode.IsControl() {
				err = handler(h, rd)
			} else {
				var p []byte
				p, err = io.ReadAll(rd)
				got = len(p)
			}
		}
	case "ControlHandler(unchecked)", "HandleMethods(unchecked)":
		// ControlHandler's doc calls checking the header optional ("optionally
		// check its validity via ws.CheckHeader()"): here it is not checked.
		// The handler gets the payload bytes that follow the header.
		hl := len(src.Data) - c.delivered()
		if c.Length < int64(c.delivered()) {
			hl = len(src.Data) - int(c.Length)
		}
		v, h, _ := ref.DecodeHeader(src.Data[hl-c.headerLen():])
		if v != ref.OK && v != ref.NonMinimal {
			return 0, fmt.Errorf("harness: cannot decode own header")
		}
		psrc := tx.NewSrc(src.Data[hl:], nil)
		ch := wsutil.ControlHandler{Src: psrc, Dst: tx.NewRec(), State: st}
		switch {
		case c.Entry == "ControlHandler(unchecked)":
			err = ch.Handle(toWS(h))
		case c.Op == ref.OpPing:
			err = ch.HandlePing(toWS(h))
		case c.Op == ref.OpPong:
			err = ch.HandlePong(toWS(h))
		default:
			err = ch.HandleClose(toWS(h))
		}
		src.Pos, src.Reads = psrc.Pos, psrc.Reads
	case "SkipCheck+ReadAll", "SkipCheck+Discard":
		// SkipHeaderCheck is a documented option: nothing vets the headers,
		// the reader still has to stream (OnIntermediate unset: the reader
		// itself drops the payload of interleaved control frames)
		rd := &wsutil.Reader{Source: src, State: st, SkipHeaderCheck: true}
		if _, err = rd.NextFrame(); err == nil {
			if c.Entry == "SkipCheck+Discard" {
				err = rd.Discard()
			} else {
				var p []byte
				p, err = io.ReadAll(rd)
				got = len(p)
			}
		}
	default:
		err = fmt.Errorf("harness: unknown entry %q", c.Entry)
	}
	return got, err
}

// vmSize is the size of the address space of this process (0 if unknown).
func vmSize() uint64 {
	b, err := os.ReadFile("/proc/self/statm")
	if err != nil {
		return 2 << 30
	}
	f := strings.Fields(string(b))
	if len(f) == 0 {
		return 2 << 30
	}
	pages, err := strconv.ParseUint(f[0], 10, 64)
	if err != nil {
		return 2 << 30
	}
	return pages * uint64(os.Getpagesize())
}

// TestExtremeChild is the child side. It does nothing unless C15_CHILD names
// the cases to run.
func TestExtremeChild(t *testing.T) {
	spec := os.Getenv(childEnv)
	if spec == "" {
		t.Skip("child process only")
	}
	// Address-space limit: what the process has mapped now plus childHeadroom.
	// Every length of the table is far above the headroom, so an allocation
	// by announced length cannot succeed; a fixed limit would sit too close
	// to the runtime's own reservations (thread stacks then fail to map).
	var lim syscall.Rlimit
	if err := syscall.Getrlimit(syscall.RLIMIT_AS, &lim); err == nil {
		want := vmSize() + childHeadroom
		if lim.Max < want {
			want = lim.Max
		}
		lim.Cur = want
		_ = syscall.Setrlimit(syscall.RLIMIT_AS, &lim)
	}
	debug.SetGCPercent(-1)
	if os.Getenv("C15_DEBUG") != "" {
		defer func() {
			b, _ := os.ReadFile("/proc/self/status")
			for _, l := range strings.Split(string(b), "\n") {
				if strings.HasPrefix(l, "Vm") || strings.HasPrefix(l, "Threads") {
					fmt.Println("C15-DEBUG", l)
				}
			}
		}()
	}
	for _, s := range strings.Split(spec, ",") {
		c, err := parseCase(s)
		if err != nil {
			fmt.Fprintf(os.Stdout, "VERIF-INFRA: %v\n", err)
			os.Exit(3)
		}
		// warm path: the same entry point over a small complete frame
		warm := xcase{Entry: c.Entry, Length: 5, Masked: c.Masked, Op: ref.OpBinary}
		for i := 0; i < 2; i++ {
			_, _ = warm.call(tx.NewSrc(warm.stream(), nil))
		}
		src := tx.NewSrc(c.stream(), nil)
		res := xresult{Case: c.key()}
		switch c.Entry {
		case "ReadMessage", "ReadData", "Reader+ReadAll":
			// these read with io.ReadAll-style loops: make sure the message
			// reader does not stall on this stream before entering them
			if err := preCheck(frameOpts{state: c.state()}, c.stream(), c.Entry); err != nil {
				res.Stall = err.Error()
				b, _ := json.Marshal(res)
				fmt.Fprintf(os.Stdout, "%s%s\n", childMarker, b)
				continue
			}
		case "SkipCheck+ReadAll":
			if err := preCheckWith(frameOpts{state: c.state(), skip: true, inter: interNil, bufSize: 512}, c.stream(), c.Entry); err != nil {
				res.Stall = err.Error()
				b, _ := json.Marshal(res)
				fmt.Fprintf(os.Stdout, "%s%s\n", childMarker, b)
				continue
			}
		}
		// Header decoding is measured several times and the smallest delta
		// kept: TotalAlloc is process-wide and the runtime's own goroutines
		// allocate now and then.
		reps := 1
		if strings.HasPrefix(c.Entry, "ReadHeader") || strings.HasPrefix(c.Entry, "NextFrame") {
			reps = 7
		}
		for rep := 0; rep < reps; rep++ {
			if rep > 0 {
				src = tx.NewSrc(c.stream(), nil)
			}
			one := measure(c, src)
			if rep == 0 || one.Alloc < res.Alloc {
				one.Case = res.Case
				res = one
			}
		}
		b, _ := json.Marshal(res)
		fmt.Fprintf(os.Stdout, "%s%s\n", childMarker, b)
	}
}

// measure runs one call with the memory statistics read right around it.
func measure(c xcase, src *tx.Src) (res xresult) {
	{
		runtime.GC()
		var m0, m1 runtime.MemStats
		runtime.ReadMemStats(&m0)
		func() {
			defer func() {
				if r := recover(); r != nil {
					res.Panic = fmt.Sprint(r)
				}
			}()
			got, err := c.call(src)
			res.Got = got
			if err != nil {
				res.Err = err.Error()
			}
		}()
		runtime.ReadMemStats(&m1)
		res.Alloc = m1.TotalAlloc - m0.TotalAlloc
		if m1.Sys > m0.Sys {
			res.Sys = m1.Sys - m0.Sys
		}
		res.Pos, res.Reads = src.Pos, src.Reads
	}
	return res
}

// runChild executes the cases in one child process. A case without a result
// made the child die; tail is the end of the child's output.
func runChild(cases []xcase) (results map[string]xresult, tail string, err error) {
	for attempt := 0; ; attempt++ {
		results, tail, err = runChildOnce(cases)
		if err == nil && len(results) < len(cases) && !attributable(tail) && attempt < 3 {
			continue // died for a reason that has nothing to do with the input (thread / process limits under load): again
		}
		if err == nil && len(results) < len(cases) && !attributable(tail) {
			err = fmt.Errorf("child died %d times without a reason attributable to its input", attempt+1)
		}
		return results, tail, err
	}
}

var bigBlock = regexp.MustCompile(`cannot allocate (\d+)-byte block`)

// attributable says whether the text a dead child left behind blames the
// input: the runtime could not allocate a block far larger than the stream,
// a Go panic, or a stack overflow.
func attributable(tail string) bool {
	if m := bigBlock.FindStringSubmatch(tail); m != nil {
		n, err := strconv.ParseUint(m[1], 10, 64)
		return err != nil || n >= allocBound
	}
	return strings.Contains(tail, "panic:") || strings.Contains(tail, "stack overflow") || strings.Contains(tail, "goroutine stack exceeds")
}

func runChildOnce(cases []xcase) (results map[string]xresult, tail string, err error) {
	keys := make([]string, len(cases))
	for i, c := range cases {
		keys[i] = c.key()
	}
	cmd := exec.Command(os.Args[0], "-test.run=^TestExtremeChild$", "-test.timeout=120s")
	for _, kv := range os.Environ() {
		if strings.HasPrefix(kv, "VERIF_EVIDENCE=") || strings.HasPrefix(kv, childEnv+"=") {
			continue
		}
		cmd.Env = append(cmd.Env, kv)
	}
	cmd.Env = append(cmd.Env, childEnv+"="+strings.Join(keys, ","), "GOMAXPROCS=2")
	out, runErr := cmd.CombinedOutput()
	results = map[string]xresult{}
	for _, l := range strings.Split(string(out), "\n") {
		if i := strings.Index(l, childMarker); i >= 0 {
			var r xresult
			if json.Unmarshal([]byte(l[i+len(childMarker):]), &r) == nil {
				results[r.Case] = r
			}
		}
	}
	if len(results) == len(cases) {
		return results, "", nil
	}
	text := string(out)
	if strings.Contains(text, "VERIF-INFRA:") || (runErr != nil && len(out) == 0) {
		return results, text, fmt.Errorf("child could not run: %v", runErr)
	}
	// keep the crash headline, drop the goroutine dump
	var keep []string
	for _, l := range strings.Split(text, "\n") {
		if strings.HasPrefix(l, childMarker) {
			continue
		}
		if strings.HasPrefix(l, "goroutine ") && len(keep) > 0 {
			break
		}
		if s := strings.TrimSpace(l); s != "" {
			keep = append(keep, s)
		}
		if len(keep) >= 6 {
			break
		}
	}
	return results, strings.Join(keep, " | "), nil
}

// verdict of one payload-entry case.
type xverdict struct {
	bad     bool
	symptom string
	res     xresult
}

func judge(c xcase, results map[string]xresult, tail string) xverdict {
	r, ok := results[c.key()]
	switch {
	case !ok:
		return xverdict{true, "the process died: VERIF-ATTRIBUTED (out-of-memory / crash text relayed from the child that decoded this input) " + tail, r}
	case r.Panic != "":
		return xverdict{true, "panic: " + r.Panic, r}
	case r.Stall != "":
		return xverdict{true, r.Stall, r}
	case r.Alloc > c.allocLimit() || r.Sys > c.allocLimit():
		return xverdict{true, fmt.Sprintf("allocated %d bytes (address space +%d) for a stream that delivers %d payload bytes (bound %d)", r.Alloc, r.Sys, c.delivered(), c.allocLimit()), r}
	}
	return xverdict{false, "", r}
}

// runBatches runs the cases size at a time in one child each; the cases of a
// batch in which a child died are run again one per child, so that the death
// is attributed to a single input.
func runBatches(t *testing.T, cases []xcase, size int) map[string]xverdict {
	out := map[string]xverdict{}
	var again []xcase
	var mu sync.Mutex
	var wg sync.WaitGroup
	sem := make(chan struct{}, 8)
	for i := 0; i < len(cases); i += size {
		j := i + size
		if j > len(cases) {
			j = len(cases)
		}
		batch := cases[i:j]
		wg.Add(1)
		sem <- struct{}{}
		go func() {
			defer wg.Done()
			defer func() { <-sem }()
			results, _, err := runChildOnce(batch)
			mu.Lock()
			defer mu.Unlock()
			if err != nil || len(results) < len(batch) {
				again = append(again, batch...)
				return
			}
			for _, c := range batch {
				out[c.key()] = judge(c, results, "")
			}
		}()
	}
	wg.Wait()
	for k, v := range runEach(t, again) {
		out[k] = v
	}
	return out
}

func runEach(t *testing.T, cases []xcase) map[string]xverdict {
	out := map[string]xverdict{}
	var mu sync.Mutex
	var wg sync.WaitGroup
	sem := make(chan struct{}, 8)
	for _, c := range cases {
		c := c
		wg.Add(1)
		sem <- struct{}{}
		go func() {
			defer wg.Done()
			defer func() { <-sem }()
			results, tail, err := runChild([]xcase{c})
			mu.Lock()
			defer mu.Unlock()
			if err != nil {
				if t != nil {
					t.Errorf("VERIF-INFRA: %v\n%s", err, tail)
				}
				return
			}
			out[c.key()] = judge(c, results, tail)
		}()
	}
	wg.Wait()
	return out
}

// F7 cases: the entry points that size an allocation by the announced length.
func f7Cases() []xcase {
	var cs []xcase
	for _, e := range []string{"ReadFrame", "ReadMessage"} {
		for _, n := range lengthTable {
			for _, m := range []bool{false, true} {
				cs = append(cs, xcase{Entry: e, Length: n, Masked: m, Op: ref.OpBinary})
			}
		}
	}
	return cs
}

var (
	f7Once     sync.Once
	f7Verdicts map[string]xverdict
	f7Bad      []xcase
	f7Infra    string
)

func f7Probe() {
	f7Once.Do(func() {
		if os.Getenv(childEnv) != "" {
			return
		}
		cs := f7Cases()
		f7Verdicts = map[string]xverdict{}
		var mu sync.Mutex
		var wg sync.WaitGroup
		sem := make(chan struct{}, 8)
		for _, c := range cs {
			c := c
			wg.Add(1)
			sem <- struct{}{}
			go func() {
				defer wg.Done()
				defer func() { <-sem }()
				results, tail, err := runChild([]xcase{c})
				mu.Lock()
				defer mu.Unlock()
				if err != nil {
					f7Infra = fmt.Sprintf("%v: %s", err, tail)
					return
				}
				f7Verdicts[c.key()] = judge(c, results, tail)
			}()
		}
		wg.Wait()
		for _, c := range cs {
			if f7Verdicts[c.key()].bad {
				f7Bad = append(f7Bad, c)
			}
		}
	})
}

// f7Present reports whether ReadFrame / ReadMessage still size an allocation
// by the announced length on the tree under test.
func f7Present() bool {
	f7Probe()
	return len(f7Bad) > 0 || f7Infra != ""
}

func noteExtreme(c xcase, v xverdict) {
	hx.Eval()
	label := "held"
	switch {
	case v.bad:
		label = "defect"
	case v.res.Err == "":
		label = "open/success-on-truncated-stream"
	}
	dl := ""
	if c.Delivered > 0 {
		dl = "/delivered>=1MiB-1"
	}
	hx.Class("extreme/" + c.Entry + "/" + c.opName() + dl + "/" + label)
	hx.NonTrivial(hx.Hash("extreme", c.key()), func() interface{} {
		return map[string]interface{}{"target": "extreme", "case": c, "input_hex": c.inputDesc(), "outcome": label, "err": v.res.Err, "alloc": v.res.Alloc}
	})
}

func uncheckedCases() []xcase {
	var cs []xcase
	for _, op := range []byte{ref.OpPing, ref.OpPong, ref.OpClose} {
		for _, l := range append([]int64{126, 65536, capLen + 1, 1 << 26}, lengthTable...) {
			for _, m := range []bool{false, true} {
				cs = append(cs, xcase{Entry: "ControlHandler(unchecked)", Length: l, Masked: m, Op: op},
					xcase{Entry: "HandleMethods(unchecked)", Length: l, Masked: m, Op: op}) // HandlePing / HandlePong / HandleClose called directly
			}
		}
	}
	return cs
}

var (
	uncheckedOnce     sync.Once
	uncheckedVerdicts map[string]xverdict
	uncheckedBad      bool
)

// uncheckedProbe runs ControlHandler.Handle over unchecked control headers of
// every table length in child processes (once per process).
func uncheckedProbe() {
	uncheckedOnce.Do(func() {
		if os.Getenv(childEnv) != "" {
			return
		}
		uncheckedVerdicts = runBatches(nil, uncheckedCases(), 20)
		for _, c := range uncheckedCases() {
			v, ok := uncheckedVerdicts[c.key()]
			if !ok || v.bad {
				uncheckedBad = true
			}
			// announced > 125 has to be refused, not read: at most the handler's small fixed allocations
			if ok && !v.bad && v.res.Alloc > 1<<16 {
				v.bad, v.symptom = true, fmt.Sprintf("allocated %d bytes for a control frame announcing %d bytes (the payload limit is 125)", v.res.Alloc, c.Length)
				uncheckedVerdicts[c.key()] = v
				uncheckedBad = true
			}
		}
	})
}

// uncheckedPresent reports whether ControlHandler still sizes an allocation
// by the Length of an unchecked header; the in-process search then keeps
// announcements above inProcCap away from it (the probe reports the defect).
func uncheckedPresent() bool {
	uncheckedProbe()
	return uncheckedBad
}

// TestKnownFindings probes the listed signatures on the tree under test.
func TestKnownFindings(t *testing.T) {
	f7Probe()
	if f7Infra != "" {
		t.Fatalf("VERIF-INFRA: the extreme-length probe could not run: %s", f7Infra)
	}
	type desc struct {
		Case     xcase  `json:"case"`
		InputHex string `json:"input_hex"`
		Symptom  string `json:"symptom"`
	}
	var ds []desc
	for _, c := range f7Bad {
		v := f7Verdicts[c.key()]
		ds = append(ds, desc{c, fmt.Sprintf("%x", c.stream()), v.symptom})
		if len(ds) <= 2 || c.Length == 1<<63-1 {
			t.Logf("%s announced=%d masked=%v: %s", c.Entry, c.Length, c.Masked, v.symptom)
		}
	}
	what := "ws.ReadFrame and wsutil.ReadMessage allocate the announced payload length before reading: the 10-byte header 82 7f 7f ff ff ff ff ff ff ff (announcing 2^63-1) panics with 'makeslice: len out of range', announced 2^31..2^62 exhaust memory (fatal error: out of memory)"
	if len(ds) > 0 {
		what += fmt.Sprintf("; %d of %d (entry point x length x masked) cases affected, first: %s announced=%d: %s", len(ds), len(f7Cases()), ds[0].Case.Entry, ds[0].Case.Length, ds[0].Symptom)
	}
	hx.Probe(t, sigF7, what, len(ds) > 0, ds)

	// ControlHandler.Handle with a header that was not run through ws.CheckHeader
	uncheckedProbe()
	cs, vs := uncheckedCases(), uncheckedVerdicts
	var us []desc
	for _, c := range cs {
		hx.Eval()
		hx.Class("extreme/" + c.Entry + "/" + c.opName())
		if v, ok := vs[c.key()]; !ok {
			t.Errorf("VERIF-INFRA: no verdict for %s", c.key())
		} else if v.bad {
			us = append(us, desc{c, c.inputDesc(), v.symptom})
			if len(us) <= 2 {
				t.Logf("%s op=%#x announced=%d masked=%v: %s", c.Entry, c.Op, c.Length, c.Masked, v.symptom)
			}
		}
	}
	whatU := "wsutil.ControlHandler.Handle (HandlePing / HandlePong / HandleClose) sizes its buffer by the header's Length: given a control frame header that was not run through ws.CheckHeader (the type's doc calls the check optional) and announces 2^62 or 2^63-1 it panics ('makeslice: len out of range' / pbytes 'argument is too large'), 2^31..2^47 exhaust memory; e.g. header 89 7f 7f ff ff ff ff ff ff ff read with ws.ReadHeader and handed to Handle"
	if len(us) > 0 {
		whatU += fmt.Sprintf("; %d of %d (opcode x length x masked) cases affected, first: %s", len(us), len(cs), us[0].Symptom)
	}
	hx.Probe(t, sigUnchecked, whatU, len(us) > 0, us)
}

// TestExtremeLengths: every payload entry point × every extreme announced
// length (× masked), one child process each. The ReadFrame / ReadMessage part
// is the probe of the known finding and is reported through TestKnownFindings
// only.
func TestExtremeLengths(t *testing.T) {
	f7Probe()
	if f7Infra != "" {
		t.Fatalf("VERIF-INFRA: the extreme-length probe could not run: %s", f7Infra)
	}
	n, bad, mine := 0, 0, 0
	for _, c := range f7Cases() {
		v := f7Verdicts[c.key()]
		if hx.Mine(n) {
			noteExtreme(c, v)
			mine++
		}
		n++
		if v.bad {
			bad++
		}
	}
	if bad > 0 {
		t.Logf("%d ReadFrame/ReadMessage cases show %s (reported through TestKnownFindings)", bad, sigF7)
	}
	// the entry points that must not be affected: data frames through the
	// streaming readers, control frames (refused by the header check before
	// the control handler sizes its buffer) everywhere, and the same after a
	// non-final fragment (continuation / intermediate control frame)
	var small, rest []xcase
	type shapeT struct {
		op     byte
		frag   bool
		nonFin bool
	}
	var shapes []shapeT
	for _, op := range []byte{ref.OpBinary, ref.OpText, ref.OpCont, ref.OpPing, ref.OpPong, ref.OpClose} {
		for _, frag := range []bool{false, true} {
			for _, nonFin := range []bool{false, true} {
				shapes = append(shapes, shapeT{op, frag, nonFin})
			}
		}
	}
	tableLens := lengthTable
	if !hx.Thorough() {
		tableLens = []int64{1 << 31, 1 << 40, 1<<63 - 1}
	}
	for _, e := range []string{"ReadFrame", "ReadMessage", "ReadData", "Reader+ReadAll", "SkipCheck+ReadAll", "SkipCheck+Discard"} {
		for _, sh := range shapes {
			if (e == "ReadMessage" || e == "ReadFrame") && sh.op == ref.OpBinary && !sh.frag && !sh.nonFin {
				continue // the F7 cases above
			}
			for _, l := range tableLens {
				for _, m := range []bool{false, true} {
					if hx.Mine(n) {
						small = append(small, xcase{Entry: e, Length: l, Masked: m, Op: sh.op, Frag: sh.frag, NonFin: sh.nonFin})
					}
					n++
				}
			}
		}
	}
	// the same with a substantial part of the payload actually delivered
	// before the stream ends: growth of the receive buffer has to follow what
	// arrived, not what was announced (around and above the first 1 MiB)
	lens := lengthTable
	if !hx.Thorough() {
		lens = []int64{1 << 31, 1 << 40, 1<<63 - 1}
	}
	for _, e := range []string{"ReadFrame", "ReadMessage", "ReadData", "Reader+ReadAll"} {
		for _, d := range deliveredTable {
			for _, l := range lens {
				for _, m := range []bool{false, true} {
					if hx.Mine(n) {
						rest = append(rest, xcase{Entry: e, Length: l, Masked: m, Op: ref.OpBinary, Delivered: d})
					}
					n++
				}
			}
		}
	}
	vs := runEach(t, rest)
	for k, v := range runBatches(t, small, 24) {
		vs[k] = v
	}
	rest = append(small, rest...)
	for _, c := range rest {
		v, ok := vs[c.key()]
		if !ok {
			continue
		}
		noteExtreme(c, v)
		if v.bad {
			hx.Failf(t, map[string]interface{}{"case": c, "input_hex": c.inputDesc()},
				"%s over a stream announcing %d payload bytes and delivering %d: %s", c.Entry, c.Length, c.delivered(), v.symptom)
			return
		}
	}
	hx.Part("extreme announced lengths: entry point x length table x masked (child processes)", int64(mine+len(rest)), true)
}

// TestHeaderAlloc: header decoding does not allocate in proportion to the
// announced length (at most 1 KiB more than for a header announcing 0 bytes,
// and never 64 KiB), and with MaxFrameSize set an oversized frame is refused with the
// transport positioned right after its header. One child runs the whole table
// (TotalAlloc delta around each call, warm path, GC off).
func TestHeaderAlloc(t *testing.T) {
	lens := append([]int64{0, 1, 125, 126, 65535, 65536, capLen, capLen + 1}, lengthTable...)
	var cases []xcase
	var all []struct{}
	for _, e := range []string{"ReadHeader", "NextFrame", "NextFrame+Max"} {
		for _, l := range lens {
			for _, m := range []bool{false, true} {
				if hx.Mine(len(all)) {
					cases = append(cases, xcase{Entry: e, Length: l, Masked: m, Op: ref.OpBinary})
				}
				all = append(all, struct{}{})
			}
		}
	}
	if len(cases) == 0 {
		return
	}
	// every shard also measures the length-0 baseline of the (entry, masked) pairs it holds:
	// "does not allocate in proportion to the announced length" is judged against it
	run := append([]xcase(nil), cases...)
	have := map[string]bool{}
	for _, c := range cases {
		have[c.key()] = true
	}
	for _, c := range cases {
		b := xcase{Entry: c.Entry, Length: 0, Masked: c.Masked, Op: ref.OpBinary}
		if !have[b.key()] {
			have[b.key()] = true
			run = append(run, b)
		}
	}
	results, tail, err := runChild(run)
	if err != nil {
		t.Fatalf("VERIF-INFRA: %v\n%s", err, tail)
	}
	for _, c := range cases {
		hx.Eval()
		r, ok := results[c.key()]
		cd := map[string]interface{}{"case": c, "input_hex": c.inputDesc()}
		if !ok {
			hx.Failf(t, cd, "header decoding by %s of a header announcing %d bytes: the process died: VERIF-ATTRIBUTED (crash text relayed from the child that decoded this input) %s", c.Entry, c.Length, tail)
			return
		}
		if r.Panic != "" {
			hx.Failf(t, cd, "header decoding by %s of a header announcing %d bytes panicked: %s", c.Entry, c.Length, r.Panic)
			return
		}
		base, okb := results[xcase{Entry: c.Entry, Length: 0, Masked: c.Masked, Op: ref.OpBinary}.key()]
		if r.Alloc >= headerBound || (okb && base.Panic == "" && r.Alloc > base.Alloc+headerSlack) {
			hx.Failf(t, cd, "header decoding by %s of a header announcing %d bytes allocated %d bytes (a header announcing 0 bytes: %d; slack %d, absolute cap %d)", c.Entry, c.Length, r.Alloc, base.Alloc, headerSlack, headerBound)
			return
		}
		if c.Entry == "NextFrame+Max" && c.Length > capLen {
			if r.Err != wsutil.ErrFrameTooLarge.Error() {
				hx.Failf(t, cd, "Reader{MaxFrameSize: %d}.NextFrame on a frame announcing %d bytes: err=%q, want %q", capLen, c.Length, r.Err, wsutil.ErrFrameTooLarge)
				return
			}
			if r.Pos != c.headerLen() {
				hx.Failf(t, cd, "Reader{MaxFrameSize: %d}.NextFrame refused a frame announcing %d bytes but consumed %d bytes; its header is %d bytes", capLen, c.Length, r.Pos, c.headerLen())
				return
			}
		}
		hx.Class("header-alloc/" + c.Entry)
		if c.Length > capLen {
			hx.NonTrivial(hx.Hash("header-alloc", c.key()), func() interface{} {
				return map[string]interface{}{"target": "header-alloc", "case": c, "input_hex": c.inputDesc(), "alloc": r.Alloc}
			})
		}
	}
	hx.Part("header decoding allocation: entry point x announced length x masked", int64(len(cases)), true)
}
