package c15

// A handshake on a connection that stays open: the peer sends a complete head
// and waits. Whatever the outcome (accept, reject for any reason, callback
// error) the upgrader / dialer must not ask the transport for more bytes
// after the head — that Read would block forever. The live mode of the
// request and response targets (liveSrc) counts such Reads; this table runs
// it over one request / response per outcome.

import (
	"fmt"
	"strings"
	"testing"

	"verif/harness/hx"
)

func TestNoReadPastHead(t *testing.T) {
	base := requestSeedsText[1] // all five headers, protocols and extensions offered
	drop := func(s, name string) string {
		var out []string
		for _, l := range strings.SplitAfter(s, "\r\n") {
			if !strings.HasPrefix(strings.ToLower(l), strings.ToLower(name)+":") {
				out = append(out, l)
			}
		}
		return strings.Join(out, "")
	}
	reqs := map[string]string{
		"valid":                     base,
		"valid, LF only":            requestSeedsText[2],
		"valid, minimal":            requestSeedsText[0],
		"no Host":                   drop(base, "Host"),
		"no Upgrade":                drop(base, "Upgrade"),
		"no Connection":             drop(base, "Connection"),
		"no Sec-WebSocket-Version":  drop(base, "Sec-WebSocket-Version"),
		"no Sec-WebSocket-Key":      drop(base, "Sec-WebSocket-Key"),
		"no headers at all":         "GET / HTTP/1.1\r\n\r\n",
		"bad Upgrade value":         strings.Replace(base, "Upgrade: WebSocket", "Upgrade: h2c", 1),
		"bad version":               strings.Replace(base, "Version: 13", "Version: 12", 1),
		"bad key":                   strings.Replace(base, validKey, "short", 1),
		"bad method":                strings.Replace(base, "GET ", "POST ", 1),
		"HTTP/1.0":                  strings.Replace(base, "HTTP/1.1", "HTTP/1.0", 1),
		"malformed request line":    strings.Replace(base, "GET /chat HTTP/1.1", "GET /chat", 1),
		"header line without colon": strings.Replace(base, "Origin: http://example.com", "Origin http://example.com", 1),
		"malformed extensions":      strings.Replace(base, "permessage-deflate; client_max_window_bits", "permessage-deflate; =", 1),
		"malformed protocols":       strings.Replace(base, "chat, superchat", "chat, \"", 1),
		"Content-Length announced":  strings.Replace(base, "\r\n\r\n", "\r\nContent-Length: 5\r\n\r\n", 1),
		"chunked body announced":    strings.Replace(base, "\r\n\r\n", "\r\nTransfer-Encoding: chunked\r\n\r\n", 1),
		"empty first line":          "\r\n" + base,
	}
	names := make([]string, 0, len(reqs))
	for k := range reqs {
		names = append(names, k)
	}
	sortStrings(names)
	n := 0
	for _, name := range names {
		req := reqs[name]
		for _, a := range []byte{0x00, 0x02, 0x04, 0x06, 0x03, 0x05, 0x0a, 0x12} { // raw with each extension mode, HTTP, small read buffers
			for _, chunk := range []byte{0, 1, 5, 77} {
				for _, c2 := range []byte{0x80, 0x80 | 0x10, 0x80 | 0x60, 0x80 | 0x10 | 0x60} { // live; +debug wrapper; +OnBeforeUpgrade rejecting
					n++
					data := cat([]byte{a, chunk, c2}, []byte(req))
					if err := quietly(func() error { return targetRequest(data) }); err != nil {
						hx.Failf(t, map[string]interface{}{"request": name, "ctl_hex": fmt.Sprintf("%x", data[:3])}, "%v", err)
						return
					}
				}
			}
		}
	}
	ok := responseSeedsText[0]
	resps := map[string]string{
		"valid":                              ok,
		"valid with protocol and extensions": responseSeedsText[1][:strings.Index(responseSeedsText[1], "\r\n\r\n")+4],
		"valid, LF only":                     responseSeedsText[2],
		"400 with body announced":            responseSeedsText[3],
		"200 without length":                 "HTTP/1.1 200 OK\r\nServer: x\r\n\r\n",
		"HTTP/1.0":                           strings.Replace(ok, "HTTP/1.1", "HTTP/1.0", 1),
		"malformed status line":              "HTTP/1.1\r\n\r\n",
		"no Upgrade":                         strings.Replace(ok, "Upgrade: websocket\r\n", "", 1),
		"no Connection":                      strings.Replace(ok, "Connection: Upgrade\r\n", "", 1),
		"no accept":                          strings.Replace(ok, "Sec-WebSocket-Accept: "+acceptMark+"\r\n", "", 1),
		"wrong accept":                       strings.Replace(ok, acceptMark, "AAAAAAAAAAAAAAAAAAAAAAAAAAA=", 1),
		"bad Upgrade value":                  strings.Replace(ok, "websocket", "h2c", 1),
		"unrequested protocol":               strings.Replace(ok, "\r\n\r\n", "\r\nSec-WebSocket-Protocol: nope\r\n\r\n", 1),
		"unrequested extension":              strings.Replace(ok, "\r\n\r\n", "\r\nSec-WebSocket-Extensions: nope\r\n\r\n", 1),
		"malformed extensions":               strings.Replace(ok, "\r\n\r\n", "\r\nSec-WebSocket-Extensions: ;\r\n\r\n", 1),
		"header line without colon":          strings.Replace(ok, "\r\n\r\n", "\r\nNoColon\r\n\r\n", 1),
		"101 with Content-Length":            strings.Replace(ok, "\r\n\r\n", "\r\nContent-Length: 5\r\n\r\n", 1),
	}
	names = names[:0]
	for k := range resps {
		names = append(names, k)
	}
	sortStrings(names)
	for _, name := range names {
		resp := resps[name]
		for _, a := range []byte{0x30, 0x31, 0x32, 0x35, 0x39, 0x30 | 0x40, 0x31 | 0x40, 0x30 | 0x80, 0x31 | 0x80, 0x31 | 0xc0} { // live; configurations; read buffers; Dial; DebugDialer
			for _, chunk := range []byte{0, 1, 5, 77} {
				n++
				data := cat([]byte{a, chunk}, []byte(resp))
				if err := quietly(func() error { return targetResponse(data) }); err != nil {
					hx.Failf(t, map[string]interface{}{"response": name, "ctl_hex": fmt.Sprintf("%x", data[:2])}, "%v", err)
					return
				}
			}
		}
	}
	hx.EvalN(n)
	hx.Part("complete handshake head on a live transport: outcome x entry point x configuration x chunking", int64(n), true)
}

func sortStrings(s []string) {
	for i := 1; i < len(s); i++ {
		for j := i; j > 0 && s[j-1] > s[j]; j-- {
			s[j-1], s[j] = s[j], s[j-1]
		}
	}
}
