package c06

import (
	"fmt"
	"math/rand"
	"testing"

	"github.com/gobwas/ws"
	"github.com/gobwas/ws/wsutil"

	"verif/harness/gen"
	"verif/harness/hx"
	"verif/harness/ref"
	"verif/harness/tx"
)

// TestSizedWriterFitsN: for the *sized* constructors the buffer size is the
// caller's n ("output frames payload length could be up to n"): a message of
// up to n bytes written with plain Writes fits the buffer, so nothing is sent
// before Flush and Flush sends it as exactly one final frame. (GetWriter and
// NewWriterBufferSize take the raw buffer size including the header
// reservation, so they make no such promise.) Swept over every n around the
// 125/126 and 65535/65536 header-reservation thresholds, both sides.
func TestSizedWriterFitsN(t *testing.T) {
	var sizes []int
	for n := 1; n <= 140; n++ {
		sizes = append(sizes, n)
	}
	for n := 65520; n <= 65560; n++ {
		sizes = append(sizes, n)
	}
	sizes = append(sizes, 200, 255, 256, 257, 1000, 4096, 70000, 131072)
	cases := 0
	for i, n := range sizes {
		if !hx.Mine(i) {
			continue
		}
		for _, client := range []bool{false, true} {
			for _, ctor := range []string{"NewWriterSize"} {
				for _, pieces := range []int{1, 3} {
					rand.Seed(int64(n))
					state := ws.StateServerSide
					if client {
						state = ws.StateClientSide
					}
					rec := tx.NewRec()
					var w *wsutil.Writer
					if ctor == "NewWriterSize" {
						w = wsutil.NewWriterSize(rec, state, ws.OpBinary, n)
					} else {
						w = wsutil.GetWriter(rec, state, ws.OpBinary, n)
					}
					desc := map[string]interface{}{"ctor": ctor, "n": n, "client": client, "writes": pieces}
					cases++
					hx.NonTrivial(hx.Hash("sized", ctor, n, client, pieces), func() interface{} { return desc })
					if w.Size() < n {
						hx.Failf(t, desc, "%s(n=%d).Size() = %d: the buffer does not hold the n payload bytes it was sized for", ctor, n, w.Size())
						return
					}
					payload := gen.Filled(n, byte(n))
					off := 0
					for k := 0; k < pieces; k++ {
						end := n * (k + 1) / pieces
						if m, err := w.Write(payload[off:end]); err != nil || m != end-off {
							hx.Failf(t, desc, "Write(%d bytes) = (%d, %v)", end-off, m, err)
							return
						}
						off = end
					}
					if rec.Len() != 0 {
						hx.Failf(t, desc, "%s(n=%d): %d bytes were sent before Flush although the %d bytes written fit the buffer", ctor, n, rec.Len(), n)
						return
					}
					if err := w.Flush(); err != nil {
						hx.Failf(t, desc, "Flush: %v", err)
						return
					}
					fs, rest, err := ref.ParseFrames(rec.Bytes())
					if err != nil || len(rest) != 0 {
						hx.Failf(t, desc, "destination bytes are not whole frames: %v", err)
						return
					}
					if len(fs) != 1 || !fs[0].H.Fin || fs[0].H.Op != ref.OpBinary || fs[0].H.Masked != client || string(fs[0].Payload) != string(payload) {
						hx.Failf(t, desc, "%s(n=%d): a message of n bytes left as %d frame(s) %v, want one final binary frame with the %d bytes", ctor, n, len(fs), ref.Describe(fs), n)
						return
					}
					if ctor == "GetWriter" {
						wsutil.PutWriter(w)
					}
				}
			}
		}
	}
	hx.EvalN(cases)
	hx.Part(fmt.Sprintf("sized constructors: %d sizes around the header-reservation thresholds x side x NewWriterSize x {1, 3} writes", len(sizes)), int64(cases), true)
}
