// C06 — the fragmenting writer emits one well-formed message per final flush
// and loses no byte.
package c06

import (
	"bytes"
	"fmt"
	"io"
	"math/rand"
	"strings"
	"testing"

	"github.com/gobwas/ws"
	"github.com/gobwas/ws/wsutil"
	"pgregory.net/rapid"

	"verif/harness/c06/wh"
	"verif/harness/hx"
	"verif/harness/ref"
	"verif/harness/tx"
)

func TestMain(m *testing.M) { hx.Main(m, "C06") }

type caseDesc struct {
	Cfg   wh.Config `json:"cfg"`
	Seed  int64     `json:"seed"`
	Steps []string  `json:"steps"`
}

// run is one writer with its executor and validator.
type run struct {
	cfg    wh.Config
	seed   int64
	rec    *tx.Rec
	ex     *wh.Exec
	ck     *wh.Checker
	shape  []string
	// bytes of the destination attributed to (and validated with) a call
	attributed int
	excluded   int   // ExcludedExactFit already reported to hx
	ctorErr    error // the constructed writer does not have the documented buffer
}

func newRun(cfg wh.Config, seed int64) *run {
	rand.Seed(seed) // masks are taken from math/rand's global source
	rec := tx.NewRec()
	w := wh.New(cfg, rec)
	ck := wh.NewChecker(cfg)
	ck.SkipKnown = hx.Known(wh.SigFlushNoopAfterReadFromError)
	ck.Keys = &keys
	ck.SkipExactFit = hx.Known(wh.SigReadFromExactFit)
	r := &run{cfg: cfg, seed: seed, rec: rec, ex: wh.NewExec(w, rec), ck: ck}
	if lo, hi, ok := wh.SizeBounds(cfg); ok {
		// "any buffer size (default, sized, caller-supplied)": the buffer is the
		// documented one — RawLen bytes minus a 2..14 byte header reservation.
		if lo > 0 {
			ck.MinSize = lo
		}
		if s := w.Size(); s < lo || s > hi {
			r.ctorErr = fmt.Errorf("constructed writer has Size()=%d; the documented buffer of %d bytes (wsutil.DefaultWriteBuffer=%d while constructing) minus a %d..%d byte header reservation gives %d..%d",
				s, wh.RawLen(cfg), defaultDuring(cfg), ws.MinHeaderSize, ws.MaxHeaderSize, lo, hi)
		}
	}
	return r
}

func defaultDuring(c wh.Config) int {
	if c.Default > 0 {
		return c.Default
	}
	return wsutil.DefaultWriteBuffer
}

// keys collects the masking keys of all client-side frames one test function
// sees; checkKeys evaluates the statistical clause at the end of the function.
var keys wh.KeyStats

func checkKeys(t *testing.T) {
	t.Helper()
	vs, counts := keys.Check(50)
	keys.Reset()
	for route, n := range counts {
		if n >= 50 {
			hx.Class("keys/checked/" + route)
		}
	}
	for _, v := range vs {
		hx.Failf(t, map[string]interface{}{"frames_per_route": counts}, "%s", v)
	}
}

// fault gives the run's destination a fault plan: its failAt-th Write call
// (counted from now) accepts only short bytes and fails; with transient only
// that call fails.
func (r *run) fault(failAt, short int, transient bool) {
	r.rec.FailAt, r.rec.Short, r.rec.Transient = len(r.rec.Calls)+failAt, short, transient
	r.ck.Faults = true
}

// known reports (and counts) a case that matches the listed known finding; the
// history cannot be continued behind it.
func known(err error) bool {
	if err == wh.ErrKnownFinding {
		hx.Exclude(wh.SigFlushNoopAfterReadFromError)
		return true
	}
	return false
}

func (r *run) do(a wh.Action) error {
	if r.ctorErr != nil {
		return r.ctorErr
	}
	defer func() {
		for ; r.excluded < r.ck.ExcludedExactFit; r.excluded++ {
			hx.Exclude(wh.SigReadFromExactFit)
		}
	}()
	r.shape = append(r.shape, a.Shape(r.ex.View()))
	res := r.ex.Do(a)
	r.attributed += len(res.Out)
	return r.ck.Step(a, res)
}

func (r *run) desc() caseDesc {
	return caseDesc{r.cfg, r.seed, wh.Describe(r.ex.Log)}
}

// whole re-parses the complete destination stream independently of the
// per-call bookkeeping: whole frames only, as many as the validator counted.
func (r *run) whole() error {
	if r.ck.Failed {
		return nil // the stream was cut by the destination fault
	}
	fs, rest, err := ref.ParseFrames(r.rec.Bytes())
	if len(rest) > 0 {
		return fmt.Errorf("destination stream does not end at a frame boundary: %v", err)
	}
	if len(fs) != r.ck.Frames {
		return fmt.Errorf("destination stream holds %d frames, per-call parsing saw %d", len(fs), r.ck.Frames)
	}
	return nil
}

func (r *run) note() {
	c := r.ck
	hx.Class(fmt.Sprintf("cfg/%s/client=%v/noflush=%v", r.cfg.Ctor, r.cfg.Client, r.cfg.NoFlush))
	hx.Class(fmt.Sprintf("cfg/ext=%d", r.cfg.Ext))
	if r.cfg.Spare > 0 {
		hx.Class("cfg/buffer-with-spare-capacity")
	}
	if r.cfg.Default > 0 {
		hx.Class(fmt.Sprintf("cfg/default-write-buffer-changed/%s", r.cfg.Ctor))
	}
	if r.cfg.Reuse != "" {
		hx.Class(fmt.Sprintf("cfg/second-life/%s/side-changed=%v", r.cfg.Reuse, r.cfg.Client != r.cfg.PrevClient))
	}
	switch s := r.ex.W.Size(); {
	case s <= 125:
		hx.Class("size/<=125")
	case s <= 65535:
		hx.Class("size/<=65535")
	default:
		hx.Class("size/>65535")
	}
	mark := func(label string, n int) {
		if n > 0 {
			hx.Class(label)
		}
	}
	mark("saw/fragmented-message", c.Fragmented)
	mark("saw/single-frame-claim", c.SingleClaims)
	mark("saw/noflush-one-frame-claim", c.NoFlushOne)
	mark("saw/flush-with-nothing-written", c.EmptyFlushes)
	mark("saw/flush-after-readfrom-failed-with-zero-bytes", c.FailedEmpty)
	mark("saw/write-through", c.Throughs)
	mark("saw/write-through-refused", c.Refused)
	mark("saw/grow-with-buffered-bytes", c.GrowBuffered)
	if c.Faults {
		hx.Class(fmt.Sprintf("fault/planned/happened=%v", c.Failed))
	}
	mark("saw/readfrom-source-error-or-stall", c.ReadFromErrs)
	mark("open/zero-bytes-dirty", c.OpenEmpty)
	mark("open/zero-bytes-dirty/nothing-sent", c.OpenNothing)
	if c.NonTrivial() {
		hx.NonTrivial(hx.Hash(r.cfg.Ctor, r.cfg.Client, r.cfg.Ext, r.cfg.NoFlush, r.ex.W.Size() > 125, strings.Join(r.shape, " ")), func() interface{} {
			return map[string]interface{}{"cfg": r.cfg, "steps": wh.Describe(r.ex.Log), "messages": c.Messages, "fragmented": c.Fragmented}
		})
	}
}

// TestStateMachine: random long call histories (rapid state machine) with the
// wire validator as invariant after every call.
func TestStateMachine(t *testing.T) {
	keys.Reset()
	hx.Check(t, 10, func(t *rapid.T) {
		cfg := wh.DrawConfig(t, "cfg", true)
		r := newRun(cfg, rapid.Int64Range(1, 1<<40).Draw(t, "seed"))
		hx.Eval()
		if rapid.IntRange(0, 4).Draw(t, "fault?") == 4 {
			// destination-fault dimension: byte accounting during and after the fault
			r.fault(rapid.IntRange(0, 12).Draw(t, "fault.at"), rapid.SampledFrom([]int{0, 0, 1, 2, 5, 1 << 20}).Draw(t, "fault.short"), rapid.Bool().Draw(t, "fault.transient"))
		}
		var bad error
		dead := false
		step := func(t *rapid.T, a wh.Action) {
			if dead {
				return
			}
			if err := r.do(a); err != nil {
				if known(err) {
					dead = true
					return
				}
				bad = err
				t.Fatalf("%v\ncase: %s", err, hx.JSON(r.desc()))
			}
		}
		o := wh.Opts{SrcErr: true} // sources may also end with a non-EOF error or stall (io.ErrNoProgress)
		acts := map[string]func(*rapid.T){
			"write":    func(t *rapid.T) { step(t, wh.DrawWrite(t, r.ex.View(), r.ex.Pos, o)) },
			"write2":   func(t *rapid.T) { step(t, wh.DrawWrite(t, r.ex.View(), r.ex.Pos, o)) },
			"write3":   func(t *rapid.T) { step(t, wh.DrawWrite(t, r.ex.View(), r.ex.Pos, o)) },
			"readfrom": func(t *rapid.T) { step(t, wh.DrawReadFrom(t, r.ex.View(), r.ex.Pos, o)) },
			"readfro2": func(t *rapid.T) { step(t, wh.DrawReadFrom(t, r.ex.View(), r.ex.Pos, o)) },
			"through":  func(t *rapid.T) { step(t, wh.DrawThrough(t, r.ex.View(), r.ex.Pos, o)) },
			"through2": func(t *rapid.T) { step(t, wh.DrawThrough(t, r.ex.View(), r.ex.Pos, o)) },
			"fragment": func(t *rapid.T) { step(t, wh.Action{Kind: wh.KFragment}) },
			"flush":    func(t *rapid.T) { step(t, wh.Action{Kind: wh.KFlush}) },
			"flush2":   func(t *rapid.T) { step(t, wh.Action{Kind: wh.KFlush}) },
			"grow":     func(t *rapid.T) { step(t, wh.DrawGrow(t, r.ex.View())) },
			// invariant: everything the destination holds has been attributed to
			// a call and validated as whole frames.
			"": func(t *rapid.T) {
				if bad != nil {
					t.Fatalf("%v", bad)
				}
				if r.rec.Len() != r.attributed {
					t.Fatalf("destination holds %d bytes, %d were validated call by call", r.rec.Len(), r.attributed)
				}
			},
		}
		t.Repeat(acts)
		step(t, wh.Action{Kind: wh.KFlush})
		if dead {
			hx.Class("excluded/known-finding")
			return
		}
		if err := r.whole(); err != nil {
			t.Fatalf("%v\ncase: %s", err, hx.JSON(r.desc()))
		}
		r.note()
	})
	if !t.Failed() {
		checkKeys(t)
	}
	keys.Reset()
}

// exhaustive configurations: the buffer sizes whose header reservation is at
// its limits (raw 3/7: one payload byte; raw 127/131: largest buffer with a
// 2-byte length; raw 128/132: smallest with a 16-bit length), either side,
// flushing enabled/disabled, one configuration with both extensions.
func exhaustiveConfigs() []wh.Config {
	var cs []wh.Config
	for _, client := range []bool{false, true} {
		m := 0
		if client {
			m = 4
		}
		for _, raw := range []int{3 + m, 127 + m, 128 + m} {
			for _, nf := range []bool{false, true} {
				cs = append(cs, wh.Config{Ctor: "bufsize", N: raw, Client: client, Op: 1, NoFlush: nf})
			}
		}
		cs = append(cs, wh.Config{Ctor: "buffer", N: 128 + m, Client: client, Op: 2, Ext: wh.ExtCompressed | wh.ExtRsv2})
		// second life: the buffer was laid out for the other side (other opcode,
		// extensions, a non-final frame out and flushing disabled) before Reset,
		// resp. went through PutWriter/GetWriter
		cs = append(cs, wh.Config{Ctor: "bufsize", N: 131, Client: client, Op: 1, Reuse: "reset", PrevClient: !client, PrevOp: 2, PrevUse: 3})
		cs = append(cs, wh.Config{Ctor: "buffer", N: 7, Client: client, Op: 2, Reuse: "reset", PrevClient: !client, PrevOp: 9, PrevUse: 2 | 4})
		cs = append(cs, wh.Config{Ctor: "get", N: 128, Client: client, Op: 1, Reuse: "pool", PrevClient: !client, PrevOp: 2, PrevUse: 1})
		// caller-supplied slice with spare capacity behind it: two growth steps
		// (Write 1, Grow a+1) take it across the 125/126 reservation threshold
		// inside the caller's array
		cs = append(cs, wh.Config{Ctor: "buffer", N: 100 + 7*m, Spare: 300, Client: client, Op: 2})
		// default-size constructor with the application's own wsutil.DefaultWriteBuffer
		cs = append(cs, wh.Config{Ctor: "new", Client: client, Op: 1, Default: 127 + m})
	}
	return cs
}

// TestExhaustiveSmallDepth: every action sequence up to depth 3 (quick) / 4
// (thorough) over the boundary sizes relative to the buffer, each followed by
// a final flush.
func TestExhaustiveSmallDepth(t *testing.T) {
	keys.Reset()
	alpha := wh.Alphabet()
	depth := hx.Pick(3, 4)
	cfgs := exhaustiveConfigs()
	var total int64
	seq := make([]int, depth)
	idx := 0
	for ci, cfg := range cfgs {
		for d := 1; d <= depth; d++ {
			for i := range seq[:d] {
				seq[i] = 0
			}
			for {
				mine := hx.Mine(idx)
				idx++
				if mine {
					total++
					r := newRun(cfg, int64(ci*1000003+idx))
					var err error
					for _, li := range seq[:d] {
						if err = r.do(alpha[li].Resolve(r.ex.View(), r.ex.Pos)); err != nil {
							break
						}
					}
					if err == nil {
						err = r.do(wh.Action{Kind: wh.KFlush})
					}
					if err == nil {
						err = r.whole()
					}
					if err != nil && !known(err) {
						hx.Failf(t, r.desc(), "%v", err)
						return
					}
					if err == nil && r.ck.NonTrivial() && d <= 2 {
						hx.NonTrivial(hx.Hash("exh", cfg.N, cfg.Client, cfg.NoFlush, cfg.Ext, strings.Join(r.shape, " ")), func() interface{} {
							return map[string]interface{}{"cfg": cfg, "steps": wh.Describe(r.ex.Log), "exhaustive": true}
						})
					}
				}
				// next sequence
				k := d - 1
				for k >= 0 {
					seq[k]++
					if seq[k] < len(alpha) {
						break
					}
					seq[k] = 0
					k--
				}
				if k < 0 {
					break
				}
			}
		}
	}
	hx.EvalN(int(total))
	checkKeys(t)
	hx.Part(fmt.Sprintf("action sequences of depth 1..%d over %d letters x %d configurations (raw 3/127/128 server, 7/131/132 client, flush on/off, extensions, second life after Reset / pool)", depth, len(alpha), len(cfgs)), total, true)
}

// TestThresholdSweep: for every raw buffer length around the reservation
// thresholds and either side, a fixed set of histories that fill the buffer
// exactly, overflow it by one and grow it — deterministic complement of the
// random test for the 64 KiB sizes, which are too costly to enumerate deeply.
func TestThresholdSweep(t *testing.T) {
	keys.Reset()
	var raws []int
	for r := 3; r <= 20; r++ {
		raws = append(raws, r)
	}
	for r := 120; r <= 140; r++ {
		raws = append(raws, r)
	}
	for r := 65530; r <= 65556; r++ {
		raws = append(raws, r)
	}
	scripts := [][]wh.Letter{
		{{Kind: wh.KWrite, Rel: "a"}},
		{{Kind: wh.KWrite, Rel: "a+1"}},
		{{Kind: wh.KWrite, Rel: "1"}, {Kind: wh.KWrite, Rel: "a"}},
		{{Kind: wh.KWrite, Rel: "1"}, {Kind: wh.KWrite, Rel: "a+1"}, {Kind: wh.KWrite, Rel: "a"}},
		{{Kind: wh.KReadFrom, Rel: "a-1"}},
		{{Kind: wh.KReadFrom, Rel: "a"}},
		{{Kind: wh.KReadFrom, Rel: "2s+3"}},
		{{Kind: wh.KWrite, Rel: "1"}, {Kind: wh.KGrow, Rel: "a+1"}, {Kind: wh.KWrite, Rel: "a"}},
		{{Kind: wh.KWrite, Rel: "a"}, {Kind: wh.KGrow, Rel: "1"}, {Kind: wh.KWrite, Rel: "a"}, {Kind: wh.KFragment}, {Kind: wh.KWrite, Rel: "a"}},
		{{Kind: wh.KThrough, Rel: "s+1"}, {Kind: wh.KWrite, Rel: "a"}},
		// sources that fail with a non-EOF error / stall after k bytes
		{{Kind: wh.KReadFrom, Rel: "0", Src: 2}},
		{{Kind: wh.KReadFrom, Rel: "1", Src: 2}},
		{{Kind: wh.KReadFrom, Rel: "a-1", Src: 2}},
		{{Kind: wh.KReadFrom, Rel: "a", Src: 2}},
		{{Kind: wh.KReadFrom, Rel: "2s+3", Src: 2}},
		{{Kind: wh.KReadFrom, Rel: "a-1", Src: 3}},
		{{Kind: wh.KReadFrom, Rel: "a", Src: 3}},
		{{Kind: wh.KReadFrom, Rel: "1", Src: 2}, {Kind: wh.KFlush}, {Kind: wh.KWrite, Rel: "1"}},
		{{Kind: wh.KWrite, Rel: "1"}, {Kind: wh.KReadFrom, Rel: "a", Src: 2}},
		// the read that fills the buffer exactly carries the end of the source
		{{Kind: wh.KReadFrom, Rel: "a", Src: 1}},
		{{Kind: wh.KReadFrom, Rel: "a", Src: 4}},
		{{Kind: wh.KWrite, Rel: "1"}, {Kind: wh.KReadFrom, Rel: "a", Src: 1}},
		{{Kind: wh.KWrite, Rel: "1"}, {Kind: wh.KReadFrom, Rel: "a", Src: 4}, {Kind: wh.KFlush}, {Kind: wh.KReadFrom, Rel: "a+1", Src: 4}},
	}
	n := 0
	for i, raw := range raws {
		if !hx.Mine(i) {
			continue
		}
		for _, client := range []bool{false, true} {
			if raw < wh.MinRaw(client) {
				continue
			}
			for _, v := range []int{0, 1, 2, 3} { // flush on / flush off / flush on in a second life after use on the other side / flush on, spare capacity behind the slice
				nf, reuse := v == 1, v == 2
				if reuse && raw < 7 {
					continue
				}
				for si, sc := range scripts {
					cfg := wh.Config{Ctor: "buffer", N: raw, Client: client, Op: 2, NoFlush: nf}
					if v == 3 {
						cfg.Spare = raw + 100
					}
					if reuse {
						cfg.Reuse, cfg.PrevClient, cfg.PrevOp, cfg.PrevUse = "reset", !client, 1, si%4
					}
					r := newRun(cfg, int64(raw*31+si))
					n++
					var err error
					for _, l := range sc {
						if err = r.do(l.Resolve(r.ex.View(), r.ex.Pos)); err != nil {
							break
						}
					}
					if err == nil {
						err = r.do(wh.Action{Kind: wh.KFlush})
					}
					if err == nil {
						err = r.whole()
					}
					if err != nil && !known(err) {
						hx.Failf(t, r.desc(), "%v", err)
						return
					}
				}
			}
		}
	}
	hx.EvalN(n)
	checkKeys(t)
	hx.Part("threshold sweep: raw 3..20, 120..140, 65530..65556 x side x {flush on, flush off, second life after Reset from the other side, spare capacity} x 23 boundary scripts", int64(n), true)
}

// TestWriteMessage: WriteMessage and its six variants send exactly one final
// frame with the given opcode and payload, masked iff client side.
func TestWriteMessage(t *testing.T) {
	keys.Reset()
	type variant struct {
		name   string
		client bool
		op     byte // 0 = drawn
		call   func(w io.Writer, s ws.State, op ws.OpCode, p []byte) error
	}
	variants := []variant{
		{"WriteMessage", false, 0, func(w io.Writer, s ws.State, op ws.OpCode, p []byte) error { return wsutil.WriteMessage(w, s, op, p) }},
		{"WriteMessage", true, 0, func(w io.Writer, s ws.State, op ws.OpCode, p []byte) error { return wsutil.WriteMessage(w, s, op, p) }},
		{"WriteServerMessage", false, 0, func(w io.Writer, _ ws.State, op ws.OpCode, p []byte) error {
			return wsutil.WriteServerMessage(w, op, p)
		}},
		{"WriteServerText", false, 1, func(w io.Writer, _ ws.State, _ ws.OpCode, p []byte) error { return wsutil.WriteServerText(w, p) }},
		{"WriteServerBinary", false, 2, func(w io.Writer, _ ws.State, _ ws.OpCode, p []byte) error { return wsutil.WriteServerBinary(w, p) }},
		{"WriteClientMessage", true, 0, func(w io.Writer, _ ws.State, op ws.OpCode, p []byte) error {
			return wsutil.WriteClientMessage(w, op, p)
		}},
		{"WriteClientText", true, 1, func(w io.Writer, _ ws.State, _ ws.OpCode, p []byte) error { return wsutil.WriteClientText(w, p) }},
		{"WriteClientBinary", true, 2, func(w io.Writer, _ ws.State, _ ws.OpCode, p []byte) error { return wsutil.WriteClientBinary(w, p) }},
	}
	sizes := []int{0, 1, 124, 125, 126, 127, 65535, 65536, 65537}
	hx.Check(t, 3, func(t *rapid.T) {
		v := variants[rapid.IntRange(0, len(variants)-1).Draw(t, "variant")]
		op := v.op
		if op == 0 {
			op = rapid.SampledFrom([]byte{1, 2, 9, 10}).Draw(t, "op")
		}
		var n int
		if rapid.IntRange(0, 3).Draw(t, "edge") == 0 {
			n = rapid.SampledFrom(sizes).Draw(t, "n")
		} else {
			n = rapid.IntRange(0, 400).Draw(t, "nrnd")
		}
		rand.Seed(rapid.Int64Range(1, 1<<40).Draw(t, "seed"))
		count := rapid.IntRange(1, 3).Draw(t, "count")
		state := ws.StateServerSide
		if v.client {
			state = ws.StateClientSide
		}
		hx.Eval()
		hx.Class("writemessage/" + v.name + fmt.Sprintf("/client=%v", v.client))
		rec := tx.NewRec()
		var want [][]byte
		for i := 0; i < count; i++ {
			p := wh.Fill(i*n, n)
			want = append(want, p)
			if err := v.call(rec, state, ws.OpCode(op), p); err != nil {
				t.Fatalf("%s returned %v on a destination that never fails", v.name, err)
			}
			fs, rest, perr := ref.ParseFrames(rec.Bytes())
			if len(rest) > 0 {
				t.Fatalf("%s: output is not whole frames: %v", v.name, perr)
			}
			if len(fs) != i+1 {
				t.Fatalf("%s: %d calls produced %d frames", v.name, i+1, len(fs))
			}
			f := fs[i]
			if f.H.Masked {
				keys.Add("WriteMessage", f.H.Mask)
			}
			if !f.H.Fin || f.H.Op != op || f.H.Rsv != 0 || f.H.Masked != v.client {
				t.Fatalf("%s(op=%#x, %d bytes): frame header %v; want fin, op %#x, rsv 0, masked=%v", v.name, op, n, f.H, op, v.client)
			}
			if !bytes.Equal(f.Payload, want[i]) {
				t.Fatalf("%s: payload differs from the message (%d vs %d bytes)", v.name, len(f.Payload), n)
			}
		}
		if n > 125 || v.client {
			hx.NonTrivial(hx.Hash("wm", v.name, v.client, op, ref.LengthForm(int64(n)), count), func() interface{} {
				return map[string]interface{}{"fn": v.name, "client": v.client, "op": op, "len": n, "calls": count}
			})
		}
	})
	if !t.Failed() {
		checkKeys(t)
	}
	keys.Reset()
}

// TestKnownFindings holds the dedicated probe of the listed finding.
func TestKnownFindings(t *testing.T) {
	what := "wsutil.Writer: ReadFrom of a source that delivers exactly Size() bytes and then fails with a non-EOF error reports them accepted and sends a non-final frame; the following Flush returns nil and sends nothing, so the message is never finished and the next message is sent as its continuation"
	rec := tx.NewRec()
	w := wsutil.NewWriterBufferSize(rec, ws.StateServerSide, ws.OpText, 10) // Size() == 8
	src := &wh.Source{Data: []byte("12345678"), End: wh.ErrSource}
	n, rerr := w.ReadFrom(src)
	ferr := w.Flush()
	fs1, _, _ := ref.ParseFrames(rec.Bytes())
	w.Write([]byte("x"))
	w.Flush()
	fs, rest, _ := ref.ParseFrames(rec.Bytes())
	hx.Eval()
	if w.Size() != 8 || n != 8 || rerr != wh.ErrSource || len(rest) != 0 {
		hx.Failf(t, nil, "probe set-up: Size()=%d ReadFrom=(%d, %v), %d stray bytes", w.Size(), n, rerr, len(rest))
		return
	}
	// expected: "12345678" leaves as one message ending in a FIN frame before "x" starts a new text message
	present := ferr == nil && (len(fs1) == 0 || !fs1[len(fs1)-1].H.Fin)
	if !present {
		// the defect is gone: then the two messages must be well formed
		ok := len(fs) >= 2 && fs[len(fs)-1].H.Op == ref.OpText && fs[len(fs)-1].H.Fin && string(fs[len(fs)-1].Payload) == "x"
		if ferr == nil && !ok {
			present = true
		}
	}
	probeExactFit(t)
	hx.Probe(t, wh.SigFlushNoopAfterReadFromError, what, present, map[string]interface{}{
		"writer": "NewWriterBufferSize(server, text, 10)", "source": "8 bytes, then a non-EOF error", "readfrom_n": n, "flush_err": fmt.Sprint(ferr),
		"frames_after_flush": ref.Describe(fs1), "frames_after_next_message": ref.Describe(fs)})
}

// TestDestinationFault: deterministic complement of the fault dimension of the
// state machine — for small writers, every position of the failing destination
// call in a few scripts, then more calls on the failed writer: returned counts
// stay within what was offered, a failed writer accepts nothing more, and what
// reached the destination is a prefix of what was accepted / offered.
func TestDestinationFault(t *testing.T) {
	scripts := [][]wh.Letter{
		{{Kind: wh.KWrite, Rel: "1"}, {Kind: wh.KWrite, Rel: "2s+3"}, {Kind: wh.KWrite, Rel: "a+1"}, {Kind: wh.KFlush}},
		{{Kind: wh.KWrite, Rel: "2s+3"}, {Kind: wh.KWrite, Rel: "a"}, {Kind: wh.KFlush}},
		{{Kind: wh.KWrite, Rel: "a-1"}, {Kind: wh.KReadFrom, Rel: "2s+3"}, {Kind: wh.KFlush}},
		{{Kind: wh.KThrough, Rel: "s+1"}, {Kind: wh.KWrite, Rel: "1"}, {Kind: wh.KFragment}, {Kind: wh.KWrite, Rel: "a+1"}, {Kind: wh.KFlush}},
		{{Kind: wh.KWrite, Rel: "a"}, {Kind: wh.KFlush}, {Kind: wh.KWrite, Rel: "1"}, {Kind: wh.KFlush}},
	}
	tail := []wh.Letter{{Kind: wh.KWrite, Rel: "1"}, {Kind: wh.KWrite, Rel: "2s+3"}, {Kind: wh.KThrough, Rel: "1"}, {Kind: wh.KReadFrom, Rel: "1"}, {Kind: wh.KWrite, Rel: "a"}, {Kind: wh.KFlush}}
	n, happened := 0, 0
	for _, client := range []bool{false, true} {
		for _, raw := range []int{12, 131, 132} {
			for _, nf := range []bool{false, true} {
				for si, sc := range scripts {
					for failAt := 0; failAt < 8; failAt++ {
						for _, short := range []int{0, 1, 4, 1 << 20} {
							for _, transient := range []bool{false, true} {
								cfg := wh.Config{Ctor: "bufsize", N: raw, Client: client, Op: 2, NoFlush: nf}
								r := newRun(cfg, int64(raw*131+si*17+failAt))
								r.fault(failAt, short, transient)
								n++
								var err error
								for _, l := range append(append([]wh.Letter{}, sc...), tail...) {
									if err = r.do(l.Resolve(r.ex.View(), r.ex.Pos)); err != nil {
										break
									}
								}
								if err != nil && !known(err) {
									hx.Failf(t, map[string]interface{}{"case": r.desc(), "fail_at_dest_call": failAt, "short": short, "transient": transient}, "%v", err)
									return
								}
								if r.ck.Failed {
									happened++
								}
							}
						}
					}
				}
			}
		}
	}
	hx.EvalN(n)
	hx.Class(fmt.Sprintf("fault/deterministic/fault-happened=%d-of-%d", happened, n))
	hx.Part("destination fault: 3 buffer sizes x side x flush mode x 5 scripts x failing call 0..7 x short write 0/1/4/all x transient", int64(n), true)
}

// Eight bytes copied from a reader into an 8-byte buffer fit it: one final frame.
func probeExactFit(t *testing.T) {
	rec := tx.NewRec()
	w := wsutil.NewWriterBufferSize(rec, ws.StateServerSide, ws.OpText, 10) // Size() == 8
	n, err := w.ReadFrom(bytes.NewReader([]byte("12345678")))
	ferr := w.Flush()
	fs, rest, _ := ref.ParseFrames(rec.Bytes())
	hx.Eval()
	if w.Size() != 8 || n != 8 || err != nil || ferr != nil || len(rest) != 0 {
		hx.Failf(t, nil, "probe set-up: Size()=%d ReadFrom=(%d, %v) Flush=%v", w.Size(), n, err, ferr)
		return
	}
	hx.Probe(t, wh.SigReadFromExactFit, "wsutil.Writer (Size()==8): ReadFrom of an 8-byte reader followed by Flush sends a non-final 8-byte frame plus an empty final continuation (01 08 ... 80 00) instead of the single frame 81 08 ...: data that fits the buffer does not leave as a single frame", len(fs) != 1,
		map[string]interface{}{"writer": "NewWriterBufferSize(server, text, 10)", "source": "bytes.NewReader(8 bytes)", "sent": fmt.Sprintf("%x", rec.Bytes()), "frames": ref.Describe(fs), "want": "81 08 3132333435363738"})
}
