// Package wh ("writer histories") holds the reusable pieces of the
// wsutil.Writer checks: the construction/configuration value, the concrete
// action type, its rapid generator, the executor that applies actions to a
// *wsutil.Writer recording what every call returned and sent, and the wire
// validator (Checker) built on ref.ParseFrames.
//
// C06 uses all of it; C18 uses Config/Action/Exec/Draw for its differential
// against a fresh twin.
package wh

import (
	"errors"
	"fmt"
	"io"

	"github.com/gobwas/ws"
	"github.com/gobwas/ws/wsflate"
	"github.com/gobwas/ws/wsutil"

	"verif/harness/tx"
)

// ---------------------------------------------------------------------------
// configuration

// Config says how a writer is built and configured.
type Config struct {
	Ctor    string `json:"ctor"`              // new | size | bufsize | buffer | get
	N       int    `json:"n"`                 // constructor size argument (ignored by "new")
	Client  bool   `json:"client"`            // client side (frames masked)
	Op      byte   `json:"op"`                // configured opcode
	Ext     int    `json:"ext,omitempty"`     // ExtCompressed | ExtRsv2 | ExtPlainState bits
	NoFlush bool   `json:"noflush,omitempty"` // DisableFlush() called after construction
	// Extended adds ws.StateExtended to the writer's state (the state an endpoint has
	// after negotiating an extension); masking must depend on the side bit only.
	Extended bool `json:"extended,omitempty"`
	// Reuse gives the writer a previous life before the history runs:
	//   ""      freshly constructed;
	//   "reset" constructed per Ctor/N for the side PrevClient with opcode PrevOp,
	//           extensions attached and (PrevUse&4) flushing disabled, used per
	//           PrevUse on a throw-away destination, then Reset(dest, State(), Op);
	//   "pool"  (Ctor "get") the previous life is handed to PutWriter and the
	//           writer under test comes from GetWriter(dest, State(), Op, N); for
	//           N a power of two the previous life is built with NewWriterSize(N),
	//           whose Size() is the pool class N, so that the pool can hand the
	//           same object back (nothing is assumed about identity).
	// Everything else is as for a fresh writer: Reset discards buffered data,
	// clears the error and options and re-lays the buffer out for the new side.
	Reuse      string `json:"reuse,omitempty"`
	PrevClient bool   `json:"prev_client,omitempty"`
	PrevOp     byte   `json:"prev_op,omitempty"`
	// PrevUse&3: 0 unused, 1 one byte written and flushed, 2 one byte left
	// buffered, 3 a write larger than the buffer (a non-final frame is out) and
	// no final flush. PrevUse&4: DisableFlush() in the previous life.
	PrevUse int `json:"prev_use,omitempty"`
	// Default, if > 0, is the value of the exported variable
	// wsutil.DefaultWriteBuffer while the writer is constructed (an application
	// may change the documented default buffer size); it matters for the
	// constructors that fall back to the default: "new", and "size" / "bufsize" /
	// "get" with an N that selects it.
	Default int `json:"default_write_buffer,omitempty"`
	// Spare ("buffer" ctor): the caller's slice has cap = len + Spare, i.e. it is
	// the head of a larger (pooled / re-sliced) array whose tail holds other
	// bytes (0xEE here). The writer may only use what it was given or allocates.
	Spare int `json:"spare_cap,omitempty"`
}

// Extension bits of Config.Ext.
const (
	ExtCompressed = 1 // wsflate.MessageState with SetCompressed(true): RSV1 on the first frame of a data message
	ExtRsv2       = 2 // test SendExtensionFunc: RSV2 on every frame
	ExtPlainState = 4 // wsflate.MessageState left uncompressed: sets nothing
)

// State is the ws.State of the configured side.
func (c Config) State() ws.State {
	st := ws.StateServerSide
	if c.Client {
		st = ws.StateClientSide
	}
	if c.Extended {
		st |= ws.StateExtended
	}
	return st
}

func ceilPow2(n int) int {
	p := 1
	for p < n {
		p <<= 1
	}
	return p
}

// hdrLen is the size of a frame header for the given payload length (RFC 6455 §5.2).
func hdrLen(client bool, n int) int {
	h := 2
	switch {
	case n > 0xFFFF:
		h = 10
	case n > 125:
		h = 4
	}
	if client {
		h += 4
	}
	return h
}

// RawLen is the length of the backing buffer the documented constructor
// rules give for c (NewWriterSize: n + header size for n; NewWriterBufferSize:
// n, or the default when n <= ws.MinHeaderSize; GetWriter: n ceiled to the
// pool's power-of-two class when there is one). It is only used to keep
// generated configurations inside the constructors' documented domain.
func RawLen(c Config) int {
	if c.Reuse != "" {
		// the backing buffer is the one the previous life allocated
		p := c
		p.Reuse, p.Client = "", c.PrevClient
		if c.Reuse == "pool" && poolClass(c.N) {
			p.Ctor = "size"
		}
		return RawLen(p)
	}
	def := wsutil.DefaultWriteBuffer
	if c.Default > 0 {
		def = c.Default
	}
	switch c.Ctor {
	case "new":
		return def
	case "size":
		if c.N <= 0 {
			return def
		}
		return c.N + hdrLen(c.Client, c.N)
	case "bufsize":
		if c.N <= ws.MinHeaderSize {
			return def
		}
		return c.N
	case "buffer":
		return c.N
	case "get":
		n := c.N
		if n > 0 {
			if p := ceilPow2(n); p >= 128 && p <= 65536 {
				n = p
			}
		}
		if n <= ws.MinHeaderSize {
			return def
		}
		return n
	}
	panic("wh: unknown ctor " + c.Ctor)
}

// UsesDefault reports whether c's constructor falls back to the default buffer size.
func UsesDefault(c Config) bool {
	switch c.Ctor {
	case "new":
		return true
	case "size":
		return c.N <= 0
	case "bufsize", "get":
		return c.N <= ws.MinHeaderSize
	}
	return false
}

// SizeBounds are the documented limits of Size() for a freshly constructed
// writer (not from the pool, no previous life): the backing buffer of RawLen(c)
// bytes minus a header reservation of ws.MinHeaderSize..ws.MaxHeaderSize bytes.
// ok is false when the documentation does not pin the buffer (pooled writers,
// second lives).
func SizeBounds(c Config) (lo, hi int, ok bool) {
	if c.Reuse != "" || (c.Ctor == "get" && !UsesDefault(c)) {
		return 0, 0, false
	}
	raw := RawLen(c)
	return raw - ws.MaxHeaderSize, raw - ws.MinHeaderSize, true
}

// MinRaw is the smallest backing buffer that fits a header and one payload
// byte: the constructors (and Reset) panic by contract below it.
func MinRaw(client bool) int {
	if client {
		return 7
	}
	return 3
}

// Legal reports whether the constructor accepts c (does not panic by contract).
func Legal(c Config) bool {
	if c.Reuse != "" && RawLen(c) < MinRaw(c.PrevClient) {
		return false
	}
	if c.Reuse == "pool" {
		// the pool may hand back the old object or GetWriter builds a new one
		f := c
		f.Reuse = ""
		if RawLen(f) < MinRaw(c.Client) {
			return false
		}
	}
	return RawLen(c) >= MinRaw(c.Client)
}

// poolClass reports whether n is one of the writer pool's size classes.
func poolClass(n int) bool { return n >= 128 && n <= 65536 && n&(n-1) == 0 }

// Extensions builds fresh extension objects for the Ext bits.
func Extensions(ext int) []wsutil.SendExtension {
	var xs []wsutil.SendExtension
	if ext&ExtCompressed != 0 {
		s := new(wsflate.MessageState)
		s.SetCompressed(true)
		xs = append(xs, s)
	}
	if ext&ExtPlainState != 0 {
		xs = append(xs, new(wsflate.MessageState))
	}
	if ext&ExtRsv2 != 0 {
		xs = append(xs, wsutil.SendExtensionFunc(func(h ws.Header) (ws.Header, error) {
			r1, _, r3 := ws.RsvBits(h.Rsv)
			h.Rsv = ws.Rsv(r1, true, r3)
			return h, nil
		}))
	}
	return xs
}

// ExpectRsv is the RSV value the configured extensions dictate for a frame:
// RSV1 (value 4) on the first frame of a text/binary message when the
// compression state says "compressed", RSV2 (value 2) on every frame with the
// test extension, otherwise 0.
func ExpectRsv(ext int, op byte, first bool) byte {
	var r byte
	if ext&ExtCompressed != 0 && first && (op == 1 || op == 2) {
		r |= 4
	}
	if ext&ExtRsv2 != 0 {
		r |= 2
	}
	return r
}

// New constructs and configures a writer per c. c must be Legal.
func New(c Config, dest io.Writer) *wsutil.Writer {
	var w *wsutil.Writer
	if c.Default > 0 {
		// the package's tests run sequentially; the variable is restored right
		// after construction (it is only read by the constructors)
		saved := wsutil.DefaultWriteBuffer
		wsutil.DefaultWriteBuffer = c.Default
		defer func() { wsutil.DefaultWriteBuffer = saved }()
	}
	if c.Reuse == "" {
		w = construct(c.Ctor, c.N, c.Spare, dest, c.State(), ws.OpCode(c.Op))
	} else {
		w = secondLife(c, dest)
	}
	Configure(w, c)
	return w
}

func construct(ctor string, n, spare int, dest io.Writer, st ws.State, op ws.OpCode) *wsutil.Writer {
	switch ctor {
	case "new":
		return wsutil.NewWriter(dest, st, op)
	case "size":
		return wsutil.NewWriterSize(dest, st, op, n)
	case "bufsize":
		return wsutil.NewWriterBufferSize(dest, st, op, n)
	case "buffer":
		arr := make([]byte, n+spare)
		for i := range arr {
			arr[i] = 0xEE
		}
		return wsutil.NewWriterBuffer(dest, st, op, arr[:n])
	case "get":
		return wsutil.GetWriter(dest, st, op, n)
	}
	panic("wh: unknown ctor " + ctor)
}

// secondLife builds the writer's previous life, uses it and hands it over by
// Reset or through the pool.
func secondLife(c Config, dest io.Writer) *wsutil.Writer {
	pst := ws.StateServerSide
	if c.PrevClient {
		pst = ws.StateClientSide
	}
	pop := ws.OpCode(c.PrevOp)
	trash := tx.NewRec()
	ctor := c.Ctor
	if c.Reuse == "pool" && poolClass(c.N) {
		ctor = "size"
	}
	w := construct(ctor, c.N, c.Spare, trash, pst, pop)
	w.SetExtensions(Extensions(ExtCompressed | ExtRsv2)...)
	if c.PrevUse&4 != 0 {
		w.DisableFlush()
	}
	switch c.PrevUse & 3 {
	case 1:
		w.Write([]byte{0xAA})
		w.Flush()
	case 2:
		w.Write([]byte{0xBB})
	case 3:
		w.Write(Fill(7, w.Size()+1))
	}
	if c.Reuse == "pool" {
		wsutil.PutWriter(w)
		return wsutil.GetWriter(dest, c.State(), ws.OpCode(c.Op), c.N)
	}
	w.Reset(dest, c.State(), ws.OpCode(c.Op))
	return w
}

// Configure applies the post-construction options of c (extensions, flush mode).
func Configure(w *wsutil.Writer, c Config) {
	if c.Ext != 0 {
		w.SetExtensions(Extensions(c.Ext)...)
	}
	if c.NoFlush {
		w.DisableFlush()
	}
}

// Twins returns the configurations of freshly constructed writers whose
// Size() equals size on the given side. Usually there is exactly one; for the
// few sizes just below a header-reservation threshold (124, 125, 65530..65535)
// two backing-buffer lengths give the same Size(). prefer, if it is among the
// candidates' buffer lengths, is put first. The caller must still verify
// Size() equality on the constructed writer.
func Twins(size int, client bool, op byte, ext int, noFlush bool, prefer int) []Config {
	m := 0
	if client {
		m = 4
	}
	var out []Config
	// raw = size + reserved header; the reservation is a function of raw.
	for _, off := range []int{2, 4, 10} {
		raw := size + off + m
		var want int
		switch {
		case raw <= 125+m+2:
			want = 2
		case raw <= 0xFFFF+m+4:
			want = 4
		default:
			want = 10
		}
		if want == off && raw > ws.MinHeaderSize {
			c := Config{Ctor: "bufsize", N: raw, Client: client, Op: op, Ext: ext, NoFlush: noFlush}
			if raw == prefer {
				out = append([]Config{c}, out...)
			} else {
				out = append(out, c)
			}
		}
	}
	return out
}

// ---------------------------------------------------------------------------
// actions

// Action kinds.
const (
	KWrite    = "write"
	KReadFrom = "readfrom"
	KThrough  = "through"
	KFragment = "fragment"
	KFlush    = "flush"
	KGrow     = "grow"
)

// Action is one concrete call on a writer.
type Action struct {
	Kind  string `json:"k"`
	Len   int    `json:"len,omitempty"`   // write / through / readfrom: number of bytes offered
	Start int    `json:"start,omitempty"` // content position of the first offered byte (see Fill)
	Nil   bool   `json:"nil,omitempty"`   // write/through: pass a nil slice (Len must be 0)
	// readfrom: the source
	Chunks      []int `json:"chunks,omitempty"` // chunk plan (cycled); empty = as much as asked
	Zeros       []int `json:"zeros,omitempty"`  // number of (0,nil) reads before each data read (cycled)
	EOFWithData bool  `json:"eofwithdata,omitempty"`
	SrcErr      bool  `json:"srcerr,omitempty"` // the source ends with ErrSource instead of io.EOF
	Stall       bool  `json:"stall,omitempty"`  // after its data the source only returns (0, nil): ReadFrom gives up with io.ErrNoProgress
	// grow
	N int `json:"n,omitempty"`
}

// Fill returns n recognisable bytes for content position start: a byte
// function of the absolute position with a long period, so that lost,
// duplicated or reordered bytes change the reassembled payload.
func Fill(start, n int) []byte {
	p := make([]byte, n)
	for i := range p {
		x := uint32(start + i)
		p[i] = byte(x*131 + (x>>8)*29 + (x>>16)*7 + 1)
	}
	return p
}

// Data is the byte string the action offers.
func (a Action) Data() []byte {
	if a.Nil {
		return nil
	}
	return Fill(a.Start, a.Len)
}

// Shape renders the action for shape hashing: kind plus a length class
// relative to the buffer.
func (a Action) Shape(v View) string {
	cls := func(n int) string {
		switch {
		case n == 0:
			return "0"
		case n < v.Available:
			return "<a"
		case n == v.Available:
			return "=a"
		case n <= v.Size:
			return "<=s"
		}
		return ">s"
	}
	switch a.Kind {
	case KWrite, KThrough:
		return a.Kind[:1] + cls(a.Len)
	case KReadFrom:
		switch {
		case a.Stall:
			return "rS" + cls(a.Len)
		case a.SrcErr:
			return "rE" + cls(a.Len)
		}
		return "r" + cls(a.Len)
	case KGrow:
		return "g" + cls(a.N)
	case KFragment:
		return "F"
	}
	return "L"
}

// ErrSource is the error a ReadFrom source ends with when Action.SrcErr is set.
var ErrSource = errors.New("wh: injected source error")

// Source is the io.Reader handed to ReadFrom: it serves Data in chunks, with a
// planned number of empty (0, nil) reads before each data read (the behaviour
// ReadFrom documents tolerance for), optionally returning the last chunk
// together with the end error.
type Source struct {
	Data        []byte
	Chunks      []int
	Zeros       []int
	EOFWithData bool
	Stall       bool // after the data: (0, nil) for ever
	End         error
	Pos         int
	Reads       int
	ci, zi      int
	zleft       int
	armed       bool
	ended       bool // the end error has been returned once
	stalled     int  // consecutive (0, nil) reads after the data of a stalling source
	Runaway     bool // the reader kept reading a stalling source (see ErrRunaway)
}

// ErrRunaway ends a stalling source after runawayReads consecutive empty
// reads: the code under test is reading for ever instead of giving up (a hang
// of the code under test must be a failure, not a time-out of the harness).
var ErrRunaway = errors.New("wh: reader did not give up on a source that only returns (0, nil)")

const runawayReads = 10000

func (s *Source) Read(p []byte) (int, error) {
	s.Reads++
	if len(p) == 0 {
		return 0, nil
	}
	if !s.armed {
		s.armed = true
		if len(s.Zeros) > 0 {
			s.zleft = s.Zeros[s.zi%len(s.Zeros)]
			s.zi++
		}
	}
	if s.zleft > 0 {
		s.zleft--
		return 0, nil
	}
	s.armed = false
	end := s.End
	if end == nil {
		end = io.EOF
	}
	if s.ended {
		// The source reported its end (or failure) once; a reader that keeps
		// reading afterwards only sees a plain end of stream.
		return 0, io.EOF
	}
	rem := len(s.Data) - s.Pos
	if rem == 0 {
		if s.Stall {
			if s.stalled++; s.stalled > runawayReads {
				s.Runaway = true
				return 0, ErrRunaway
			}
			return 0, nil
		}
		s.ended = true
		return 0, end
	}
	n := len(p)
	if len(s.Chunks) > 0 {
		c := s.Chunks[s.ci%len(s.Chunks)]
		s.ci++
		if c > 0 && c < n {
			n = c
		}
	}
	if n > rem {
		n = rem
	}
	copy(p, s.Data[s.Pos:s.Pos+n])
	s.Pos += n
	if s.Pos == len(s.Data) && s.EOFWithData && !s.Stall {
		s.ended = true
		return n, end
	}
	return n, nil
}

// ---------------------------------------------------------------------------
// executor

// View is what the writer reports about its buffer.
type View struct {
	Size      int `json:"size"`
	Buffered  int `json:"buffered"`
	Available int `json:"available"`
}

// ViewOf reads the view of w.
func ViewOf(w *wsutil.Writer) View { return View{w.Size(), w.Buffered(), w.Available()} }

// Result is what one call returned and what it sent to the destination.
type Result struct {
	N       int64  `json:"n"`             // reported accepted bytes (write / through / readfrom)
	Err     string `json:"err,omitempty"` // error class, "" for nil
	Out     []byte `json:"-"`             // bytes the destination accepted during the call
	Calls   int    `json:"calls"`         // destination Write calls during the call
	SrcLeft int    `json:"srcleft,omitempty"`
	DestFailed bool `json:"dest_failed,omitempty"` // the destination's planned fault has happened (during this call or before)
	Runaway bool   `json:"runaway,omitempty"` // ReadFrom kept reading a stalling source until the harness stopped it
	Before  View   `json:"before"`
	After   View   `json:"after"`
}

// ErrClass maps an error to a comparable class.
func ErrClass(err error) string {
	switch {
	case err == nil:
		return ""
	case err == wsutil.ErrNotEmpty:
		return "notempty"
	case errors.Is(err, tx.ErrInjected):
		return "injected"
	case err == ErrSource:
		return "source"
	case err == io.ErrNoProgress:
		return "noprogress"
	}
	return "other: " + err.Error()
}

// Step is one executed action with its result.
type Step struct {
	A Action `json:"a"`
	R Result `json:"r"`
}

// Exec applies actions to a writer and records per-call results. Rec is the
// destination the writer currently writes to.
type Exec struct {
	W    *wsutil.Writer
	Rec  *tx.Rec
	Pos  int // content position: total bytes offered so far
	Log  []Step
	mark int // Rec.Calls already attributed
}

// NewExec wraps a writer whose destination is rec.
func NewExec(w *wsutil.Writer, rec *tx.Rec) *Exec {
	return &Exec{W: w, Rec: rec, mark: len(rec.Calls)}
}

// Retarget tells the executor that the writer now writes to rec (after a Reset).
func (e *Exec) Retarget(w *wsutil.Writer, rec *tx.Rec) {
	e.W, e.Rec, e.mark = w, rec, len(rec.Calls)
}

// View is the current view of the writer.
func (e *Exec) View() View { return ViewOf(e.W) }

// Do applies a to the writer.
func (e *Exec) Do(a Action) Result {
	var r Result
	r.Before = ViewOf(e.W)
	switch a.Kind {
	case KWrite:
		n, err := e.W.Write(a.Data())
		r.N, r.Err = int64(n), ErrClass(err)
	case KThrough:
		n, err := e.W.WriteThrough(a.Data())
		r.N, r.Err = int64(n), ErrClass(err)
	case KReadFrom:
		src := &Source{Data: Fill(a.Start, a.Len), Chunks: a.Chunks, Zeros: a.Zeros, EOFWithData: a.EOFWithData, Stall: a.Stall}
		if a.SrcErr {
			src.End = ErrSource
		}
		n, err := e.W.ReadFrom(src)
		r.N, r.Err, r.SrcLeft, r.Runaway = n, ErrClass(err), len(src.Data)-src.Pos, src.Runaway
	case KFragment:
		r.Err = ErrClass(e.W.FlushFragment())
	case KFlush:
		r.Err = ErrClass(e.W.Flush())
	case KGrow:
		e.W.Grow(a.N)
	default:
		panic("wh: unknown action " + a.Kind)
	}
	r.After = ViewOf(e.W)
	r.DestFailed = e.Rec.Failed
	for _, c := range e.Rec.Calls[e.mark:] {
		r.Out = append(r.Out, c...)
	}
	r.Calls = len(e.Rec.Calls) - e.mark
	e.mark = len(e.Rec.Calls)
	if a.Kind == KWrite || a.Kind == KThrough || a.Kind == KReadFrom {
		if a.Start+a.Len > e.Pos {
			e.Pos = a.Start + a.Len
		}
	}
	e.Log = append(e.Log, Step{a, r})
	return r
}

// Describe renders a step list for failure messages.
func Describe(steps []Step) []string {
	out := make([]string, len(steps))
	for i, s := range steps {
		a := s.A
		var d string
		switch a.Kind {
		case KWrite, KThrough:
			d = fmt.Sprintf("%s(len=%d nil=%v)", a.Kind, a.Len, a.Nil)
		case KReadFrom:
			d = fmt.Sprintf("readfrom(len=%d chunks=%v zeros=%v eofWithData=%v srcErr=%v stall=%v)", a.Len, a.Chunks, a.Zeros, a.EOFWithData, a.SrcErr, a.Stall)
		case KGrow:
			d = fmt.Sprintf("grow(%d)", a.N)
		default:
			d = a.Kind + "()"
		}
		out[i] = fmt.Sprintf("%s -> n=%d err=%q sent=%dB/%d calls size=%d buffered %d->%d", d, s.R.N, s.R.Err, len(s.R.Out), s.R.Calls, s.R.After.Size, s.R.Before.Buffered, s.R.After.Buffered)
	}
	return out
}
