package wh

import (
	"fmt"

	"pgregory.net/rapid"
)

// Opcodes a writer is configured with: text and binary mostly; ping/pong
// occasionally (the Writer itself does not restrict the opcode).
var ops = []byte{1, 2, 1, 2, 1, 2, 9, 10}

var rawSizes = []int{3, 4, 5, 7, 8, 9, 16, 126, 127, 128, 129, 130, 131, 132, 133, 256, 4096}
var rawBig = []int{65535, 65536, 65537, 65538, 65539, 65540, 65541, 65542, 65543, 65544, 65545, 65546, 65547, 65548, 65550, 65552}
var payloadSizes = []int{1, 2, 3, 124, 125, 126, 127, 128, 129, 512}
var payloadBig = []int{65534, 65535, 65536, 65537}
var getSizes = []int{0, 1, 3, 7, 16, 64, 65, 100, 127, 128, 129, 200, 256, 1000, 4096}
var getBig = []int{65536, 65537, 70000}

// DrawConfig draws a legal construction: every constructor, sizes around each
// header-reservation threshold, either side, optional extensions, flush mode.
// big controls whether the ~64 KiB threshold sizes may be drawn.
func DrawConfig(t *rapid.T, label string, big bool) Config {
	c := Config{
		Client:   rapid.Bool().Draw(t, label+".client"),
		Extended: rapid.IntRange(0, 2).Draw(t, label+".extended") == 0,
		Op:       rapid.SampledFrom(ops).Draw(t, label+".op"),
	}
	c.Ctor = rapid.SampledFrom([]string{"bufsize", "bufsize", "buffer", "buffer", "size", "size", "get", "new"}).Draw(t, label+".ctor")
	useBig := big && rapid.IntRange(0, 9).Draw(t, label+".big") == 0
	pick := func(small, large []int, lo, hi int) int {
		if useBig {
			return rapid.SampledFrom(large).Draw(t, label+".nbig")
		}
		if rapid.IntRange(0, 3).Draw(t, label+".rnd") == 0 {
			return rapid.IntRange(lo, hi).Draw(t, label+".nrnd")
		}
		return rapid.SampledFrom(small).Draw(t, label+".n")
	}
	switch c.Ctor {
	case "bufsize":
		c.N = pick(append([]int{0, 2}, rawSizes...), rawBig, 3, 300)
	case "buffer":
		c.N = pick(rawSizes, rawBig, 3, 300)
		// spare capacity behind the slice: growth that still fits the caller's
		// array, in particular across a header-reservation threshold (buffers
		// well below 128 / 65536 bytes growing to the next power of two)
		switch rapid.IntRange(0, 5).Draw(t, label+".spare") {
		case 1:
			c.Spare = 1
		case 2:
			c.Spare = 50
		case 3:
			c.Spare = c.N
		case 4, 5:
			c.Spare = 70000
			if useBig {
				c.N = rapid.SampledFrom([]int{33000, 50000, 65000, 65530}).Draw(t, label+".sparebig")
			} else if rapid.Bool().Draw(t, label+".sparesmall") {
				c.N = rapid.SampledFrom([]int{20, 50, 66, 70, 100, 110, 120, 128, 130}).Draw(t, label+".sparen")
			}
		}
	case "size":
		c.N = pick(append([]int{0}, payloadSizes...), payloadBig, 1, 300)
	case "get":
		c.N = pick(getSizes, getBig, 0, 300)
	}
	if UsesDefault(c) {
		// the application may have changed the documented default buffer size
		c.Default = rapid.SampledFrom([]int{0, 0, 7, 64, 131, 132, 1000, 16384}).Draw(t, label+".default")
	}
	// second life: the writer was used before, typically on the other side
	switch rapid.IntRange(0, 3).Draw(t, label+".reuse") {
	case 2:
		c.Reuse = "reset"
	case 3:
		c.Reuse = "reset"
		if c.Ctor == "get" {
			c.Reuse = "pool"
			if rapid.IntRange(0, 2).Draw(t, label+".poolclass") > 0 {
				c.N = rapid.SampledFrom([]int{128, 256, 1024, 4096}).Draw(t, label+".pooln")
			}
		}
	}
	if c.Reuse != "" {
		c.PrevClient = c.Client != (rapid.IntRange(0, 3).Draw(t, label+".prevside") > 0) // mostly the other side
		c.PrevOp = rapid.SampledFrom([]byte{1, 2, 9}).Draw(t, label+".prevop")
		c.PrevUse = rapid.IntRange(0, 7).Draw(t, label+".prevuse")
	}
	if !Legal(c) {
		// Too small for a client-side header: the constructors (and Reset to
		// the client side) panic by contract. Use the smallest legal buffer.
		c.N = MinRaw(c.Client || (c.Reuse != "" && c.PrevClient))
		if c.Ctor == "size" {
			c.N = 1
			if c.Reuse != "" && c.Client && !c.PrevClient {
				c.N = 5 // server-side NewWriterSize(5) allocates 7 bytes: the least a client-side Reset accepts
			}
		}
	}
	switch rapid.IntRange(0, 7).Draw(t, label+".ext") {
	case 0:
		c.Ext = ExtCompressed
	case 1:
		c.Ext = ExtRsv2
	case 2:
		c.Ext = ExtCompressed | ExtRsv2
	case 3:
		c.Ext = ExtPlainState
	}
	c.NoFlush = rapid.IntRange(0, 3).Draw(t, label+".noflush") == 0
	return c
}

// Opts tunes DrawAction.
type Opts struct {
	SrcErr bool // ReadFrom sources may end with a non-EOF error, or stall into io.ErrNoProgress, after their data
	MaxLen int  // cap for "random" lengths (default 600)
}

func nonneg(n int) int {
	if n < 0 {
		return 0
	}
	return n
}

// drawLen draws a length relative to the buffer state: the boundary values
// around Available() and Size(), 2*Size()+3, small values, or a random one.
func drawLen(t *rapid.T, label string, v View, o Opts) int {
	return capLen(drawLen0(t, label, v, o), v)
}

// capLen keeps buffer-relative sizes from compounding: with flushing disabled
// (or Grow) the buffer grows with every oversized write, and sizes drawn
// relative to it would grow exponentially over a history.
func capLen(n int, v View) int {
	if v.Size > 200000 && n > 600 {
		return 600
	}
	if n > 140000 {
		return 140000
	}
	return n
}

func drawLen0(t *rapid.T, label string, v View, o Opts) int {
	max := o.MaxLen
	if max == 0 {
		max = 600
	}
	switch rapid.IntRange(0, 11).Draw(t, label+".rel") {
	case 0:
		return 0
	case 1:
		return 1
	case 2:
		return nonneg(v.Available - 1)
	case 3:
		return v.Available
	case 4:
		return v.Available + 1
	case 5:
		return v.Size
	case 6:
		return v.Size + 1
	case 7:
		return 2*v.Size + 3
	case 8:
		return rapid.IntRange(0, 8).Draw(t, label+".small")
	case 9:
		return nonneg(v.Size - 1)
	}
	return rapid.IntRange(0, max).Draw(t, label+".rnd")
}

// DrawWrite draws a Write call; pos is the content position (Exec.Pos).
func DrawWrite(t *rapid.T, v View, pos int, o Opts) Action {
	a := Action{Kind: KWrite, Start: pos, Len: drawLen(t, "write", v, o)}
	if a.Len == 0 {
		a.Nil = rapid.Bool().Draw(t, "write.nil")
	}
	return a
}

// DrawThrough draws a WriteThrough call.
func DrawThrough(t *rapid.T, v View, pos int, o Opts) Action {
	a := Action{Kind: KThrough, Start: pos}
	switch rapid.IntRange(0, 6).Draw(t, "through.rel") {
	case 0:
		a.Len = 0
		a.Nil = rapid.Bool().Draw(t, "through.nil")
	case 1:
		a.Len = 1
	case 2:
		a.Len = v.Size + 1
	case 3:
		a.Len = rapid.SampledFrom([]int{125, 126, 127}).Draw(t, "through.edge")
	case 4:
		if v.Size > 60000 {
			a.Len = rapid.SampledFrom([]int{65535, 65536}).Draw(t, "through.edge64")
		} else {
			a.Len = rapid.IntRange(0, 300).Draw(t, "through.rnd")
		}
	default:
		a.Len = rapid.IntRange(0, 300).Draw(t, "through.rnd")
	}
	a.Len = capLen(a.Len, v)
	return a
}

// DrawReadFrom draws a ReadFrom call with its source behaviour.
func DrawReadFrom(t *rapid.T, v View, pos int, o Opts) Action {
	a := Action{Kind: KReadFrom, Start: pos, Len: drawLen(t, "readfrom", v, o)}
	switch rapid.IntRange(0, 4).Draw(t, "readfrom.chunks") {
	case 0:
	case 1:
		if a.Len <= 3000 {
			a.Chunks = []int{rapid.IntRange(1, 3).Draw(t, "readfrom.c")}
		} else {
			a.Chunks = []int{rapid.IntRange(500, 5000).Draw(t, "readfrom.cbig")}
		}
	case 2:
		// chunks that end exactly at the buffer boundary
		if v.Available > 0 {
			a.Chunks = []int{v.Available}
		}
	default:
		lo := 1
		if a.Len > 3000 {
			lo = 200
		}
		a.Chunks = rapid.SliceOfN(rapid.IntRange(lo, lo+nonneg(v.Size)+40), 1, 6).Draw(t, "readfrom.cs")
	}
	if a.Len <= 3000 && rapid.IntRange(0, 2).Draw(t, "readfrom.zero?") == 0 {
		a.Zeros = rapid.SliceOfN(rapid.IntRange(0, 3), 1, 4).Draw(t, "readfrom.zeros")
	}
	a.EOFWithData = rapid.Bool().Draw(t, "readfrom.eofwithdata")
	if v.Available > 0 && rapid.IntRange(0, 5).Draw(t, "readfrom.exactend") == 0 {
		// the coincidence: the chunk that fills the buffer exactly (or misses it
		// by one) is the one that carries the end of the source
		a.Len = nonneg(v.Available + rapid.SampledFrom([]int{0, 0, -1, 1}).Draw(t, "readfrom.exactend.delta"))
		a.EOFWithData = true
		if rapid.Bool().Draw(t, "readfrom.exactend.onechunk") {
			a.Chunks = nil
		}
	}
	if o.SrcErr {
		switch rapid.IntRange(0, 7).Draw(t, "readfrom.end") {
		case 6:
			a.SrcErr = true
		case 7:
			a.Stall = true
		}
	}
	return a
}

// DrawGrow draws a Grow call.
func DrawGrow(t *rapid.T, v View) Action {
	a := Action{Kind: KGrow}
	switch rapid.IntRange(0, 7).Draw(t, "grow.rel") {
	case 0:
		a.N = 0
	case 1:
		a.N = 1
	case 2:
		a.N = v.Available
	case 3:
		a.N = v.Available + 1
	case 4:
		a.N = v.Size
	case 5:
		a.N = 2 * v.Size
	case 6:
		a.N = rapid.SampledFrom([]int{120, 121, 122, 123, 124, 125, 126, 127, 128, 65530, 65536}).Draw(t, "grow.edge")
	default:
		a.N = rapid.IntRange(0, 2000).Draw(t, "grow.rnd")
	}
	a.N = capLen(a.N, v)
	return a
}

// DrawAction draws any action for a writer in state v.
func DrawAction(t *rapid.T, v View, pos int, o Opts) Action {
	switch rapid.IntRange(0, 12).Draw(t, "kind") {
	case 0, 1, 2, 3:
		return DrawWrite(t, v, pos, o)
	case 4, 5, 6:
		return DrawReadFrom(t, v, pos, o)
	case 7, 8:
		return DrawThrough(t, v, pos, o)
	case 9:
		return Action{Kind: KFragment}
	case 10, 11:
		return Action{Kind: KFlush}
	}
	return DrawGrow(t, v)
}

// ---------------------------------------------------------------------------
// abstract letters for the exhaustive small-depth enumeration

// Letter is an action whose size is given relative to the writer's state at
// the moment it is applied.
type Letter struct {
	Kind string
	Rel  string // "0" "nil" "1" "a-1" "a" "a+1" "2s+3" "s+1"
	Src  int    // readfrom: 0 plain source, 1 one-byte chunks + (0,nil) reads + data with EOF, 2 non-EOF error after the data, 3 stall (io.ErrNoProgress) after the data, 4 non-EOF error returned together with the last bytes
}

func (l Letter) String() string {
	s := l.Kind + ":" + l.Rel
	if l.Src != 0 {
		s += fmt.Sprintf("/src%d", l.Src)
	}
	return s
}

// Alphabet is the letter set of the exhaustive part: every action kind over
// the boundary sizes relative to the buffer.
func Alphabet() []Letter {
	var a []Letter
	for _, r := range []string{"nil", "0", "1", "a-1", "a", "a+1", "2s+3"} {
		a = append(a, Letter{Kind: KWrite, Rel: r})
	}
	for _, r := range []string{"0", "1", "a-1", "a", "a+1", "2s+3"} {
		a = append(a, Letter{Kind: KReadFrom, Rel: r})
	}
	a = append(a, Letter{Kind: KReadFrom, Rel: "a", Src: 1})
	for _, r := range []string{"0", "1", "a-1", "a", "a+1", "2s+3"} {
		a = append(a, Letter{Kind: KReadFrom, Rel: r, Src: 2})
	}
	a = append(a, Letter{Kind: KReadFrom, Rel: "1", Src: 3}, Letter{Kind: KReadFrom, Rel: "a", Src: 3})
	a = append(a, Letter{Kind: KReadFrom, Rel: "a", Src: 4}, Letter{Kind: KReadFrom, Rel: "a+1", Src: 4})
	for _, r := range []string{"0", "1", "s+1"} {
		a = append(a, Letter{Kind: KThrough, Rel: r})
	}
	a = append(a, Letter{Kind: KGrow, Rel: "1"}, Letter{Kind: KGrow, Rel: "a+1"})
	a = append(a, Letter{Kind: KFragment}, Letter{Kind: KFlush})
	return a
}

// Resolve makes the letter concrete for a writer in state v.
func (l Letter) Resolve(v View, pos int) Action {
	n := 0
	switch l.Rel {
	case "1":
		n = 1
	case "a-1":
		n = nonneg(v.Available - 1)
	case "a":
		n = v.Available
	case "a+1":
		n = v.Available + 1
	case "2s+3":
		n = 2*v.Size + 3
	case "s+1":
		n = v.Size + 1
	}
	a := Action{Kind: l.Kind}
	switch l.Kind {
	case KWrite, KThrough:
		a.Start, a.Len, a.Nil = pos, n, l.Rel == "nil"
	case KReadFrom:
		a.Start, a.Len = pos, n
		switch l.Src {
		case 1:
			a.Chunks, a.Zeros, a.EOFWithData = []int{1}, []int{1, 0, 2}, true
		case 2:
			a.SrcErr = true
		case 3:
			a.Stall = true
		case 4:
			a.SrcErr, a.EOFWithData = true, true
		}
	case KGrow:
		a.N = n
	}
	return a
}
