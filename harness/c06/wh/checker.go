package wh

import (
	"bytes"
	"errors"
	"fmt"

	"verif/harness/ref"
)

// Checker is the wire validator of property C06 for a writer whose
// destination never fails. Feed it every executed step in order; it keeps the
// frames and the accepted bytes of the message that is open between two final
// flushes.
//
// What it asserts (and nothing beyond):
//
//	(1) the bytes a call sent parse into whole frames (ref.ParseFrames), no remainder;
//	(2) per frame: configured opcode on the first frame of a message and
//	    continuation afterwards, FIN only on the last frame sent by Flush, RSV as the
//	    attached extensions dictate, masked iff client side (the payload is unmasked
//	    with the frame's own key by the reference parser);
//	(3) at every call boundary the payloads sent so far are a prefix of the bytes
//	    reported as accepted so far, and at a final flush they are equal;
//	(4) WriteThrough on a non-empty buffer returns ErrNotEmpty and sends nothing;
//	(5) a final flush with no write-type call since the previous one sends nothing;
//	    plain Writes totalling <= Size() (ReadFrom: < Size()) leave as exactly one
//	    frame; with flushing disabled Write/ReadFrom send nothing and the final flush
//	    sends one frame with everything.
//
// A ReadFrom whose source ends with a non-EOF error (or stalls into
// io.ErrNoProgress) still counts: the n it returned are accepted bytes and
// have to leave with the message.
//
// Open: a message whose write-type calls SUCCEEDED with zero bytes (Write(nil),
// Write(empty), ReadFrom of an empty source) — "nothing written" can mean no
// byte or no call. Calls that accepted zero bytes and returned an error have
// written nothing.
// Formerly: a message whose write-type calls accepted zero bytes and sent no
// fragment may end in one empty final frame or in nothing.
type Checker struct {
	Cfg Config
	// SkipKnown makes Step return ErrKnownFinding instead of a violation for
	// cases matching SigFlushNoopAfterReadFromError.
	SkipKnown bool
	// SkipExactFit excludes (and counts in ExcludedExactFit) the cases of the
	// listed finding SigReadFromExactFit.
	SkipExactFit     bool
	ExcludedExactFit int
	// Keys, if set, collects the masking keys of the client-side frames by the
	// route that produced them (see KeyStats).
	Keys *KeyStats
	// Faults must be set when the destination has a fault plan (tx.Rec.FailAt):
	// the checker then keeps the whole wire and accepted-byte streams and, from
	// the call during which the destination fails, checks the accounting that
	// still makes sense (see faultStep) instead of the frame discipline, which
	// is C16's subject.
	Faults bool
	// Failed is set once the destination fault has happened.
	Failed bool
	wire        []byte // everything the destination accepted (Faults only)
	done        []byte // accepted bytes of the completed messages (Faults only)
	allowed     []byte // accepted before the failing call ++ what the failing call offered
	errReported bool   // an earlier call returned a destination error
	// MinSize, if > 0, is a payload capacity the configuration guarantees (the
	// documented buffer size minus the largest header): data up to it "fits the
	// buffer" whatever Size() reports. Buffers never shrink, so it holds for the
	// whole run.
	MinSize int

	msg      []ref.Frame // frames of the open message
	sent     int         // payload bytes of msg
	acc      []byte      // bytes reported accepted in the open message
	wcalls   int         // write-type calls since the previous final flush
	plain    bool        // only Write/ReadFrom/Grow (and silent FlushFragment) since the previous final flush
	fits     bool        // every Write so far kept the total <= Size() (ReadFrom: < Size())
	grewFull bool        // a Grow happened with buffered bytes
	exactFit bool        // a ReadFrom found / left the buffer exactly full without learning that its source had ended
	setters  int         // calls of this message that succeeded as Write / accepted WriteThrough / ReadFrom to EOF
	rfErrs   int         // ReadFrom calls of this message whose source ended with an error / stalled

	// statistics of the whole run
	Messages     int // completed messages (final flushes that sent a frame)
	Fragmented   int // completed messages with >= 1 non-final frame
	SingleClaims int // messages the single-frame claim applied to
	NoFlushOne   int // messages the disabled-flush claim applied to
	FailedEmpty  int // ... of which after ReadFrom calls that failed with zero bytes
	EmptyFlushes int // final flushes with no write-type call (sent nothing)
	OpenEmpty    int // open class: zero bytes accepted, dirty
	OpenNothing  int // ... of which nothing was sent
	Throughs     int // accepted write-throughs
	Refused      int // write-throughs refused with ErrNotEmpty
	GrowBuffered int // Grow calls with buffered bytes that enlarged the buffer
	Frames       int
	ReadFromErrs int // ReadFrom calls that ended with a source error or io.ErrNoProgress
	LastMsg      []ref.Frame // frames of the most recently completed message
}

// SigFlushNoopAfterReadFromError is the signature of a known defect of the tree:
// when every write-type call of a message was a ReadFrom whose source ended
// with a non-EOF error (so nothing marked the writer dirty) and the buffer is
// empty at the final flush because the accepted bytes already left as
// non-final fragment(s), Flush does nothing: the message stays open and the
// next one continues it.
const SigFlushNoopAfterReadFromError = "C06/flush-noop-after-failed-readfrom-with-empty-buffer"

// SigReadFromExactFit: ReadFrom flushes a fragment as soon as the buffer is
// full, before it knows whether the source has more: data of exactly Size()
// bytes (in total, plain Writes before included) leaves as a non-final frame
// plus an empty final one instead of a single frame.
const SigReadFromExactFit = "C06/readfrom-exact-fit-leaves-as-two-frames"

// ErrKnownFinding is returned by Step for a case matching
// SigFlushNoopAfterReadFromError when Checker.SkipKnown is set; the history
// must not be continued.
var ErrKnownFinding = errors.New("wh: case matches " + SigFlushNoopAfterReadFromError)

// NewChecker starts with no open message.
func NewChecker(cfg Config) *Checker {
	return &Checker{Cfg: cfg, plain: true, fits: true}
}

// NonTrivial reports whether the run so far meets the C06 non-triviality rule.
func (c *Checker) NonTrivial() bool {
	return c.Fragmented > 0 || c.GrowBuffered > 0 || c.Throughs > 0
}

// Step validates one executed step. It returns a description of the
// violation, or nil.
func (c *Checker) Step(a Action, r Result) error {
	if c.Faults {
		c.wire = append(c.wire, r.Out...)
		if r.DestFailed || c.Failed {
			return c.faultStep(a, r)
		}
	}
	frames, rest, perr := ref.ParseFrames(r.Out)
	if len(rest) > 0 {
		return fmt.Errorf("%s: the %d bytes sent during the call are not whole frames: %v (after %d frames, %d bytes left over)", a.Kind, len(r.Out), perr, len(frames), len(rest))
	}
	for i, f := range frames {
		idx := len(c.msg)
		wantOp := c.Cfg.Op
		if idx > 0 {
			wantOp = ref.OpCont
		}
		if f.H.Op != wantOp {
			return fmt.Errorf("%s: frame %d of the message has opcode %#x, want %#x", a.Kind, idx, f.H.Op, wantOp)
		}
		if f.H.Masked != c.Cfg.Client {
			return fmt.Errorf("%s: frame %d masked=%v on a writer with client=%v", a.Kind, idx, f.H.Masked, c.Cfg.Client)
		}
		if want := ExpectRsv(c.Cfg.Ext, c.Cfg.Op, idx == 0); f.H.Rsv != want {
			return fmt.Errorf("%s: frame %d has rsv=%d, extensions dictate %d", a.Kind, idx, f.H.Rsv, want)
		}
		if f.H.Fin && (a.Kind != KFlush || i != len(frames)-1) {
			return fmt.Errorf("%s: frame %d (number %d of %d sent by this call) has FIN set; only the last frame of a final flush may", a.Kind, idx, i+1, len(frames))
		}
		if c.Keys != nil && f.H.Masked {
			c.Keys.Add(keyRoute(a.Kind), f.H.Mask)
		}
		c.msg = append(c.msg, f)
		c.sent += len(f.Payload)
		c.Frames++
	}
	if r.Runaway {
		return fmt.Errorf("readfrom did not stop on a source that returns (0, nil) for ever: still reading after %d consecutive empty reads (it documents giving up after 100 with io.ErrNoProgress)", runawayReads)
	}
	srcEnd := a.Kind == KReadFrom && ((a.SrcErr && r.Err == "source") || (a.Stall && r.Err == "noprogress"))
	if r.Err != "" && !(a.Kind == KThrough && r.Err == "notempty") && !srcEnd {
		return fmt.Errorf("%s returned error %q although the destination never fails", a.Kind, r.Err)
	}
	switch a.Kind {
	case KWrite:
		if r.N != int64(a.Len) {
			return fmt.Errorf("write of %d bytes returned n=%d without an error", a.Len, r.N)
		}
		c.acc = append(c.acc, a.Data()...)
		c.wcalls++
		c.setters++
		if len(c.acc) > r.Before.Size && len(c.acc) > c.MinSize {
			c.fits = false
		}
		if c.Cfg.NoFlush && len(frames) > 0 {
			return fmt.Errorf("write sent %d frame(s) although flushing is disabled", len(frames))
		}
	case KReadFrom:
		if a.SrcErr && r.Err != "source" {
			// io.ReaderFrom: any error except EOF encountered during the read is returned
			return fmt.Errorf("readfrom returned err=%q although the source failed with a non-EOF error after %d bytes", r.Err, a.Len-r.SrcLeft)
		}
		if srcEnd {
			// The source failed after handing out a.Len-SrcLeft bytes: all of
			// them, and no more, are what ReadFrom may report as accepted.
			if r.N != int64(a.Len-r.SrcLeft) {
				return fmt.Errorf("readfrom consumed %d source bytes before the source failed (%s) but reported n=%d", a.Len-r.SrcLeft, r.Err, r.N)
			}
			c.rfErrs++
			c.ReadFromErrs++
		} else {
			if r.N != int64(a.Len) || r.SrcLeft != 0 {
				return fmt.Errorf("readfrom of a %d-byte source returned n=%d, nil and left %d source bytes unread", a.Len, r.N, r.SrcLeft)
			}
			c.setters++
		}
		c.acc = append(c.acc, a.Data()[:r.N]...)
		c.wcalls++
		// "data that fits the buffer leaves as a single frame": up to Size() bytes
		// fit, however the source hands them over. exactFit marks the sub-case of
		// SigReadFromExactFit: the buffer is exactly full and the source has not
		// announced its end together with its last bytes.
		endKnown := a.EOFWithData && !a.Stall && a.Len > 0
		over := len(c.acc) - r.Before.Size
		if over > 0 && len(c.acc) > c.MinSize {
			c.fits = false
		}
		if over == 0 && !endKnown {
			c.exactFit = true
		}
		if c.Cfg.NoFlush && len(frames) > 0 {
			return fmt.Errorf("readfrom sent %d frame(s) although flushing is disabled", len(frames))
		}
	case KThrough:
		if r.Before.Buffered > 0 {
			if r.Err != "notempty" || r.N != 0 || len(r.Out) > 0 {
				return fmt.Errorf("write-through with %d buffered bytes returned n=%d err=%q and sent %d bytes; want 0, ErrNotEmpty, nothing", r.Before.Buffered, r.N, r.Err, len(r.Out))
			}
			c.Refused++
			break
		}
		if r.Err != "" || r.N != int64(a.Len) {
			return fmt.Errorf("write-through of %d bytes on an empty buffer returned n=%d err=%q", a.Len, r.N, r.Err)
		}
		c.acc = append(c.acc, a.Data()...)
		c.wcalls++
		c.setters++
		c.plain = false
		c.Throughs++
	case KFragment:
		if len(frames) > 0 {
			c.plain = false
		}
	case KGrow:
		if len(r.Out) > 0 {
			return fmt.Errorf("grow sent %d bytes", len(r.Out))
		}
		if r.Before.Buffered > 0 && r.After.Size > r.Before.Size {
			c.GrowBuffered++
		}
	case KFlush:
		return c.finish(r)
	}
	return c.prefix(a.Kind)
}

func (c *Checker) payloads() []byte {
	b := make([]byte, 0, c.sent)
	for _, f := range c.msg {
		b = append(b, f.Payload...)
	}
	return b
}

func (c *Checker) prefix(kind string) error {
	if c.sent > len(c.acc) {
		return fmt.Errorf("%s: %d payload bytes sent in this message, only %d reported accepted", kind, c.sent, len(c.acc))
	}
	if got := c.payloads(); !bytes.Equal(got, c.acc[:len(got)]) {
		return fmt.Errorf("%s: payloads sent so far differ from the accepted bytes (first difference at byte %d of %d)", kind, firstDiff(got, c.acc), len(got))
	}
	return nil
}

func firstDiff(a, b []byte) int {
	for i := range a {
		if i >= len(b) || a[i] != b[i] {
			return i
		}
	}
	return len(a)
}

func (c *Checker) finish(r Result) error {
	defer func() {
		if c.Faults {
			c.done = append(c.done, c.acc...)
		}
		c.msg, c.sent, c.acc, c.wcalls, c.plain, c.fits = nil, 0, nil, 0, true, true
		c.setters, c.rfErrs, c.exactFit = 0, 0, false
	}()
	n := len(c.msg)
	switch {
	case c.wcalls == 0:
		if n != 0 {
			return fmt.Errorf("final flush with no write since the previous one sent %d frame(s)", n)
		}
		c.EmptyFlushes++
		return nil
	case c.setters == 0 && len(c.acc) == 0:
		// Every write-type call of this message accepted zero bytes AND
		// returned an error (ReadFrom whose source failed before its first
		// byte): nothing was written, so "a final flush with nothing written
		// emits nothing" decides it.
		if n != 0 {
			return fmt.Errorf("final flush sent %d frame(s) although nothing was written: the only calls since the previous flush were %d ReadFrom(s) whose source failed before delivering a byte", n, c.rfErrs)
		}
		c.EmptyFlushes++
		c.FailedEmpty++
		return nil
	case n == 0:
		if len(c.acc) != 0 {
			return fmt.Errorf("final flush sent nothing although %d bytes were accepted", len(c.acc))
		}
		c.OpenEmpty++
		c.OpenNothing++
		return nil
	}
	if !c.msg[n-1].H.Fin && c.SkipKnown && c.setters == 0 && c.rfErrs > 0 && r.Before.Buffered == 0 && len(r.Out) == 0 {
		return ErrKnownFinding
	}
	if !c.msg[n-1].H.Fin {
		return fmt.Errorf("final flush left the message open: last of %d frames has FIN clear (flush sent %d bytes)", n, len(r.Out))
	}
	if got := c.payloads(); !bytes.Equal(got, c.acc) {
		return fmt.Errorf("message of %d frames carries %d payload bytes, %d were accepted (first difference at byte %d)", n, len(got), len(c.acc), firstDiff(got, c.acc))
	}
	if len(c.acc) == 0 && n == 1 {
		c.OpenEmpty++
	}
	if c.plain && c.fits {
		c.SingleClaims++
		if n != 1 && c.exactFit && c.SkipExactFit {
			c.ExcludedExactFit++
		} else if n != 1 {
			return fmt.Errorf("%d accepted bytes fit the buffer (Size() %d) but left as %d frames", len(c.acc), r.Before.Size, n)
		}
	}
	if c.Cfg.NoFlush && c.plain {
		c.NoFlushOne++
		if n != 1 {
			return fmt.Errorf("flushing disabled: the message left as %d frames instead of one", n)
		}
	}
	c.Messages++
	if n > 1 {
		c.Fragmented++
	}
	c.LastMsg = c.msg
	return nil
}

// keyRoute names the code path a frame of the given action kind came from:
// Flush, FlushFragment and ReadFrom only ever send the writer's own buffer;
// WriteThrough sends the caller's bytes; Write may do either.
func keyRoute(kind string) string {
	switch kind {
	case KFlush, KFragment, KReadFrom:
		return "buffered flush"
	case KThrough:
		return "write-through"
	}
	return "write (buffered or direct)"
}

// KeyStats is the statistical clause on masking keys (RFC 6455 §5.3: a fresh,
// unpredictable key per frame): over the many client-side frames one test
// function observes per route, the keys must not all be equal (in particular
// not all zero, which would put the payload on the wire in clear). For an
// implementation drawing 32 random bits per frame the chance of n equal keys
// is 2^-32(n-1); the harness pins math/rand per case, so a run is
// deterministic anyway.
type KeyStats struct {
	routes map[string]*keyRoute1
}

type keyRoute1 struct {
	n        int
	first    [4]byte
	distinct bool
}

// Add records one observed key.
func (k *KeyStats) Add(route string, key [4]byte) {
	if k.routes == nil {
		k.routes = map[string]*keyRoute1{}
	}
	r := k.routes[route]
	if r == nil {
		r = &keyRoute1{first: key}
		k.routes[route] = r
	}
	r.n++
	if key != r.first {
		r.distinct = true
	}
}

// Check returns a violation for every route with at least min observed frames
// whose keys were all identical, and the per-route frame counts.
func (k *KeyStats) Check(min int) (violations []string, counts map[string]int) {
	counts = map[string]int{}
	for _, name := range []string{"buffered flush", "write-through", "write (buffered or direct)", "WriteMessage"} {
		r := k.routes[name]
		if r == nil {
			continue
		}
		counts[name] = r.n
		if r.n >= min && !r.distinct {
			violations = append(violations, fmt.Sprintf("all %d client-side frames sent by the %s route carry the same masking key %x: the key is not drawn per frame (RFC 6455 §5.3)", r.n, name, r.first))
		}
	}
	return violations, counts
}

// Reset forgets everything observed.
func (k *KeyStats) Reset() { k.routes = nil }

// faultStep checks a call during or after the destination's fault. What still
// has to hold:
//
//	(a) a returned byte count is between 0 and the number of bytes offered;
//	(b) once a call has returned the destination's error the writer accepts no
//	    more data: Write and WriteThrough return 0 and an error ("no more data
//	    will be accepted and all subsequent writes will return the error") and
//	    Buffered() does not grow;
//	(c) the payload bytes that reached the destination (whole frames, and the
//	    part of a frame cut by the fault, unmasked with its key) are a prefix of
//	    the bytes reported accepted before the failing call followed by the
//	    bytes that call offered, and nothing more is sent afterwards.
//
// What the failing call itself returns beyond (a) is left open (the unchanged
// writer counts bytes it had copied into the buffer before the failed flush,
// and reports 0 for a failed direct write).
func (c *Checker) faultStep(a Action, r Result) error {
	first := !c.Failed
	c.Failed = true
	offers := a.Kind == KWrite || a.Kind == KThrough || a.Kind == KReadFrom
	if offers && (r.N < 0 || r.N > int64(a.Len)) {
		return fmt.Errorf("%s of %d bytes returned n=%d", a.Kind, a.Len, r.N)
	}
	if c.errReported && (a.Kind == KWrite || a.Kind == KThrough) {
		if r.N != 0 || r.Err == "" {
			return fmt.Errorf("%s of %d bytes on a writer that had already returned a destination error returned n=%d err=%q; want 0 and the error", a.Kind, a.Len, r.N, r.Err)
		}
		if r.After.Buffered > r.Before.Buffered {
			return fmt.Errorf("%s on a writer that had already returned a destination error buffered %d more bytes (Buffered() %d -> %d)", a.Kind, r.After.Buffered-r.Before.Buffered, r.Before.Buffered, r.After.Buffered)
		}
	}
	if first {
		c.allowed = append(append(append([]byte(nil), c.done...), c.acc...), a.Data()...)
	} else if len(r.Out) > 0 && c.errReported {
		return fmt.Errorf("%s sent %d more bytes although the writer had already returned a destination error", a.Kind, len(r.Out))
	}
	switch r.Err {
	case "", "notempty", "source", "noprogress":
	default:
		c.errReported = true
	}
	// (c)
	frames, rest, _ := ref.ParseFrames(c.wire)
	var sent []byte
	for _, f := range frames {
		sent = append(sent, f.Payload...)
	}
	if v, h, n := ref.DecodeHeader(rest); v == ref.OK && len(rest) > n {
		part := rest[n:]
		if h.Masked {
			part = ref.Mask(part, h.Mask, 0)
		}
		sent = append(sent, part...)
	}
	if len(sent) > len(c.allowed) || !bytes.Equal(sent, c.allowed[:len(sent)]) {
		return fmt.Errorf("%s: the %d payload bytes that reached the destination are not a prefix of the %d bytes accepted before / offered by the failing call (first difference at byte %d)", a.Kind, len(sent), len(c.allowed), firstDiff(sent, c.allowed))
	}
	return nil
}
