// C11 — the handshake outcome is shared by both peers, independent of
// transport chunking and buffer sizes, and the debug wrappers are faithful.
package c11

import (
	"bufio"
	"bytes"
	"context"
	"crypto/sha1"
	"encoding/base64"
	"errors"
	"fmt"
	"io"
	"math/rand"
	"net"
	"net/http"
	"net/url"
	"sort"
	"strings"
	"testing"
	"time"

	"github.com/gobwas/httphead"
	"github.com/gobwas/ws"
	"github.com/gobwas/ws/wsflate"
	"github.com/gobwas/ws/wsutil"
	"pgregory.net/rapid"

	"verif/harness/gen"
	"verif/harness/hx"
	"verif/harness/tx"
)

func TestMain(m *testing.M) { hx.Main(m, "C11") }

const guid = "258EAFA5-E914-47DA-95CA-C5AB0DC85B11"

func acceptFor(key string) string {
	h := sha1.Sum([]byte(key + guid))
	return base64.StdEncoding.EncodeToString(h[:])
}

var bufSizes = []int{0, 1, 16, 17, 64, 300, 4096}

// ---------------------------------------------------------------------------
// rendering handshake results canonically

func renderOption(o httphead.Option) string {
	var ps []string
	o.Parameters.ForEach(func(k, v []byte) bool {
		ps = append(ps, string(k)+"="+string(v))
		return true
	})
	sort.Strings(ps)
	return string(o.Name) + "{" + strings.Join(ps, ";") + "}"
}

func renderHS(hs ws.Handshake) string {
	var xs []string
	for _, o := range hs.Extensions {
		xs = append(xs, renderOption(o))
	}
	return "proto=" + hs.Protocol + " ext=[" + strings.Join(xs, ", ") + "]"
}

// ---------------------------------------------------------------------------
// configurations

var tokenPool = []string{"chat", "superchat", "v1.json", "v2.json", "mqtt", "x", "graphql-ws", "soap", "Chat", "CHAT", "V1.JSON", "X", "MQTT"}

type offer struct {
	Name   string
	Params [][2]string // value "" = flag parameter
}

func (o offer) option() httphead.Option {
	opt := httphead.Option{Name: []byte(o.Name)}
	for _, p := range o.Params {
		var v []byte
		if p[1] != "" {
			v = []byte(p[1])
		}
		opt.Parameters.Set([]byte(p[0]), v)
	}
	return opt
}

type config struct {
	Protocols  []string // client's list (unique tokens)
	Accept     []string // server accepts these
	NoProtoSel bool     // server has no Protocol selector
	// ProtoCustom: the server also sets ProtocolCustom (documented to be used instead of Protocol); the
	// hook picks the first token of a header value that is in CustomAccept.
	ProtoCustom  bool
	CustomAccept []string
	// ExtraProto: a second Sec-WebSocket-Protocol line written by the dialer's Header writer.
	ExtraProto []string
	// HTTPServer: the server side is ws.HTTPUpgrader (request parsed by net/http, response written to the
	// hijacked connection) instead of ws.Upgrader. No ProtocolCustom, no buffer sizes there.
	HTTPServer bool
	// Reject: the server's OnRequest hook refuses the handshake: "status" = rejection error with status 403,
	// "nostatus" = rejection error without a status (documented default 500), "plain" = an ordinary error (500).
	Reject string
	// RejectCode: the status of Reject == "status": any 4xx/5xx code, with or without a registered reason phrase.
	RejectCode int
	// Warm: the measured DebugDialer.Dial is preceded by this many dials through the SAME DebugDialer
	// value (its own peers): a reused DebugDialer must behave like a new one.
	Warm int
	Offers     []offer
	ExtMode    string   // none | selector | wsflate | custom | custom-error
	ExtAccept  []string // names the selector/custom negotiator accepts
	Flate      wsflate.Parameters
	CliHeader  [][2]string
	SrvHeader  [][2]string
	CRB, CWB   int // client read/write buffer
	SRB, SWB   int // server read/write buffer
	Seed       int64
	Path       string
}

func drawOffer(t *rapid.T) offer {
	name := rapid.SampledFrom([]string{"permessage-deflate", "permessage-deflate", "x-a", "x-b"}).Draw(t, "ename")
	var o offer
	o.Name = name
	if name == "permessage-deflate" {
		if rapid.Bool().Draw(t, "snct") {
			o.Params = append(o.Params, [2]string{"server_no_context_takeover", ""})
		}
		if rapid.Bool().Draw(t, "cnct") {
			o.Params = append(o.Params, [2]string{"client_no_context_takeover", ""})
		}
		switch rapid.IntRange(0, 2).Draw(t, "cmwb") {
		case 1:
			o.Params = append(o.Params, [2]string{"client_max_window_bits", ""})
		case 2:
			o.Params = append(o.Params, [2]string{"client_max_window_bits", fmt.Sprint(rapid.IntRange(8, 15).Draw(t, "cbits"))})
		}
		if rapid.Bool().Draw(t, "smwb") {
			o.Params = append(o.Params, [2]string{"server_max_window_bits", fmt.Sprint(rapid.IntRange(8, 15).Draw(t, "sbits"))})
		}
		return o
	}
	for i := rapid.IntRange(0, 2).Draw(t, "nparams"); i > 0; i-- {
		k := rapid.SampledFrom([]string{"a", "b", "mode", "level"}).Draw(t, "pk")
		dup := false
		for _, p := range o.Params {
			if p[0] == k {
				dup = true
			}
		}
		if dup {
			continue
		}
		o.Params = append(o.Params, [2]string{k, rapid.SampledFrom([]string{"", "1", "fast", "x-y"}).Draw(t, "pv")})
	}
	return o
}

func drawHeaders(t *rapid.T, label string, long bool) [][2]string {
	var hs [][2]string
	count := rapid.IntRange(0, 2).Draw(t, label+".n")
	if long && rapid.IntRange(0, 15).Draw(t, label+".many") == 0 {
		count = rapid.IntRange(20, 100).Draw(t, label+".manyn") // many header lines: several buffer refills on both sides
	}
	for i := count; i > 0; i-- {
		n := rapid.IntRange(0, 60).Draw(t, label+".len")
		if long && rapid.IntRange(0, 3).Draw(t, label+".long") == 0 {
			n = rapid.SampledFrom([]int{70, 300, 4090, 4200, 9000}).Draw(t, label+".longlen")
		}
		hs = append(hs, [2]string{fmt.Sprintf("X-%s-%d", label, i), strings.Repeat("v", n)})
	}
	return hs
}

func drawConfig(t *rapid.T) config {
	var c config
	c.Protocols = rapid.SliceOfNDistinct(rapid.SampledFrom(tokenPool), 0, 4, rapid.ID[string]).Draw(t, "protocols")
	c.Accept = rapid.SliceOfNDistinct(rapid.SampledFrom(tokenPool), 0, 4, rapid.ID[string]).Draw(t, "accept")
	c.NoProtoSel = rapid.IntRange(0, 4).Draw(t, "noprotosel") == 0
	c.HTTPServer = rapid.IntRange(0, 3).Draw(t, "httpserver") == 0
	if !c.HTTPServer && rapid.IntRange(0, 7).Draw(t, "reject?") == 0 {
		c.Reject = rapid.SampledFrom([]string{"status", "nostatus", "plain", "status-noreason"}).Draw(t, "reject")
		c.RejectCode = 403
		if strings.HasPrefix(c.Reject, "status") && rapid.Bool().Draw(t, "anycode") {
			c.RejectCode = rapid.IntRange(400, 599).Draw(t, "rejectcode")
		}
	}
	if !c.HTTPServer && rapid.IntRange(0, 3).Draw(t, "protocustom") == 0 {
		c.ProtoCustom = true
		c.CustomAccept = rapid.SliceOfNDistinct(rapid.SampledFrom(tokenPool), 0, 4, rapid.ID[string]).Draw(t, "customaccept")
	}
	if rapid.IntRange(0, 3).Draw(t, "extraproto") == 0 {
		c.ExtraProto = rapid.SliceOfNDistinct(rapid.SampledFrom(tokenPool), 1, 3, rapid.ID[string]).Draw(t, "extraprotocols")
	}
	for i := rapid.IntRange(0, 3).Draw(t, "noffers"); i > 0; i-- {
		c.Offers = append(c.Offers, drawOffer(t))
	}
	c.ExtMode = rapid.SampledFrom([]string{"none", "selector", "wsflate", "wsflate", "custom", "custom-error"}).Draw(t, "extmode")
	c.ExtAccept = rapid.SliceOfNDistinct(rapid.SampledFrom([]string{"permessage-deflate", "x-a", "x-b"}), 0, 3, rapid.ID[string]).Draw(t, "extaccept")
	bits := func(l string) wsflate.WindowBits {
		if rapid.Bool().Draw(t, l+"?") {
			return wsflate.WindowBits(rapid.IntRange(8, 15).Draw(t, l))
		}
		return 0
	}
	c.Flate = wsflate.Parameters{
		ServerNoContextTakeover: rapid.Bool().Draw(t, "f.snct"),
		ClientNoContextTakeover: rapid.Bool().Draw(t, "f.cnct"),
		ServerMaxWindowBits:     bits("f.smwb"),
		ClientMaxWindowBits:     bits("f.cmwb"),
	}
	c.CliHeader = drawHeaders(t, "Cli", true)
	if rapid.IntRange(0, 11).Draw(t, "extrakey") == 0 {
		// the caller's own header writer repeats Sec-WebSocket-Key with a value of the wrong length
		// (28 or 20 characters): whatever the server makes of it, both peers must still agree
		c.CliHeader = append(c.CliHeader, [2]string{"Sec-WebSocket-Key", rapid.SampledFrom([]string{"QUJDREVGR0hJSktMTU5PUFFSU1Q=", "QUJDREVGR0hJSktMTU4="}).Draw(t, "key")})
	}
	if len(c.ExtraProto) > 0 {
		// optional whitespace around the value and the list separators, as an independent RFC 7230 peer may write it
		pad := rapid.SampledFrom([]string{"", "", " ", "\t", " \t "}).Draw(t, "ows")
		c.CliHeader = append(c.CliHeader, [2]string{"Sec-WebSocket-Protocol", pad + strings.Join(c.ExtraProto, pad+","+pad) + pad})
	}
	c.SrvHeader = drawHeaders(t, "Srv", true)
	c.CRB = rapid.SampledFrom(bufSizes).Draw(t, "crb")
	c.CWB = rapid.SampledFrom(bufSizes).Draw(t, "cwb")
	c.SRB = rapid.SampledFrom(bufSizes).Draw(t, "srb")
	c.SWB = rapid.SampledFrom(bufSizes).Draw(t, "swb")
	c.Seed = rapid.Int64().Draw(t, "seed")
	c.Path = rapid.SampledFrom([]string{"/", "/chat?room=1", "/a/b"}).Draw(t, "path")
	return c
}

type hdrWriter [][2]string

func (h hdrWriter) WriteTo(w io.Writer) (int64, error) {
	var n int64
	for _, kv := range h {
		m, err := io.WriteString(w, kv[0]+": "+kv[1]+"\r\n")
		n += int64(m)
		if err != nil {
			return n, err
		}
	}
	return n, nil
}

func (c config) dialer() ws.Dialer {
	d := ws.Dialer{ReadBufferSize: c.CRB, WriteBufferSize: c.CWB, Protocols: c.Protocols}
	for _, o := range c.Offers {
		d.Extensions = append(d.Extensions, o.option())
	}
	if len(c.CliHeader) > 0 {
		d.Header = hdrWriter(c.CliHeader)
	}
	return d
}

func contains(xs []string, s string) bool {
	for _, x := range xs {
		if x == s {
			return true
		}
	}
	return false
}

// upgrader builds a fresh upgrader (negotiators carry per-handshake state).
func (c config) upgrader() ws.Upgrader {
	u := ws.Upgrader{ReadBufferSize: c.SRB, WriteBufferSize: c.SWB}
	if !c.NoProtoSel {
		u.Protocol = func(p []byte) bool { return contains(c.Accept, string(p)) }
	}
	switch c.Reject {
	case "status":
		u.OnRequest = func([]byte) error {
			return ws.RejectConnectionError(ws.RejectionStatus(c.RejectCode), ws.RejectionReason("members only"))
		}
	case "status-noreason": // no reason given: the response has an empty body
		u.OnRequest = func([]byte) error { return ws.RejectConnectionError(ws.RejectionStatus(c.RejectCode)) }
	case "nostatus":
		u.OnRequest = func([]byte) error { return ws.RejectConnectionError(ws.RejectionReason("no")) }
	case "plain":
		u.OnRequest = func([]byte) error { return errors.New("not today") }
	}
	if c.ProtoCustom {
		u.ProtocolCustom = func(v []byte) (string, bool) {
			for _, tok := range strings.Split(string(v), ",") {
				if tok = strings.TrimSpace(tok); contains(c.CustomAccept, tok) {
					return strings.Clone(tok), true
				}
			}
			return "", true
		}
	}
	if len(c.SrvHeader) > 0 {
		u.Header = hdrWriter(c.SrvHeader)
	}
	switch c.ExtMode {
	case "selector":
		u.Extension = func(o httphead.Option) bool { return contains(c.ExtAccept, string(o.Name)) }
	case "wsflate":
		e := &wsflate.Extension{Parameters: c.Flate}
		u.Negotiate = e.Negotiate
	case "custom", "custom-error":
		seen := map[string]bool{}
		u.Negotiate = func(o httphead.Option) (httphead.Option, error) {
			name := string(o.Name)
			if c.ExtMode == "custom-error" && name == "x-b" {
				return httphead.Option{}, errors.New("x-b is not welcome")
			}
			if !contains(c.ExtAccept, name) || seen[name] {
				return httphead.Option{}, nil
			}
			seen[name] = true
			// honest negotiator: answers with a copy of the offered option
			cp := httphead.Option{Name: append([]byte(nil), o.Name...)}
			o.Parameters.ForEach(func(k, v []byte) bool {
				cp.Parameters.Set(append([]byte(nil), k...), append([]byte(nil), v...))
				return true
			})
			return cp, nil
		}
	}
	return u
}

// httpUpgrader builds the net/http flavoured upgrader for the same configuration.
func (c config) httpUpgrader() ws.HTTPUpgrader {
	var u ws.HTTPUpgrader
	if !c.NoProtoSel {
		u.Protocol = func(p string) bool { return contains(c.Accept, p) }
	}
	if len(c.SrvHeader) > 0 {
		u.Header = http.Header{}
		for _, kv := range c.SrvHeader {
			u.Header[kv[0]] = []string{kv[1]}
		}
	}
	plain := c.upgrader()
	u.Extension, u.Negotiate = plain.Extension, plain.Negotiate
	return u
}

// hijackWriter hands the in-memory connection to HTTPUpgrader.
type hijackWriter struct {
	conn net.Conn
	hdr  http.Header
}

func (h *hijackWriter) Header() http.Header         { return h.hdr }
func (h *hijackWriter) Write(p []byte) (int, error) { return len(p), nil }
func (h *hijackWriter) WriteHeader(int)             {}
func (h *hijackWriter) Hijack() (net.Conn, *bufio.ReadWriter, error) {
	return h.conn, bufio.NewReadWriter(bufio.NewReader(h.conn), bufio.NewWriter(h.conn)), nil
}

type recConn struct {
	net.Conn
	rec *tx.Rec
}

func (c recConn) Write(p []byte) (int, error)      { return c.rec.Write(p) }
func (c recConn) Read(p []byte) (int, error)       { return 0, io.EOF }
func (c recConn) SetDeadline(time.Time) error      { return nil }
func (c recConn) SetWriteDeadline(time.Time) error { return nil }
func (c recConn) SetReadDeadline(time.Time) error  { return nil }
func (c recConn) Close() error                     { return nil }

// selection is the subprotocol the documented rules make the server pick: the
// protocol lines are examined in order until one yields a protocol; within a
// line the first token the selector (ProtocolCustom if set, else Protocol) accepts.
func (c config) selection() string {
	accept := c.Accept
	switch {
	case c.ProtoCustom:
		accept = c.CustomAccept
	case c.NoProtoSel:
		return ""
	}
	for _, line := range [][]string{c.Protocols, c.ExtraProto} {
		for _, tok := range line {
			if contains(accept, tok) {
				return tok
			}
		}
	}
	return ""
}

// ---------------------------------------------------------------------------
// in-memory peers

// serverPeer is the dialer's transport: it collects the request, and on the
// first Read runs the given server over it to obtain the response bytes.
type serverPeer struct {
	req      bytes.Buffer
	serve    func(req []byte) []byte
	trailing []byte
	chunks   []int
	src      *tx.Src
	resp     []byte
	// pastEnd counts the Read calls made after everything the server sends had been delivered: on a live
	// connection that the server keeps open each of them would block.
	pastEnd int
}

func (p *serverPeer) Write(b []byte) (int, error) { return p.req.Write(b) }
func (p *serverPeer) Read(b []byte) (int, error) {
	if p.src == nil {
		p.resp = p.serve(p.req.Bytes())
		p.src = tx.NewSrc(append(append([]byte(nil), p.resp...), p.trailing...), p.chunks)
	}
	if len(b) > 0 && len(p.src.Remaining()) == 0 {
		p.pastEnd++
	}
	return p.src.Read(b)
}

type pairResult struct {
	srvWriteFailed bool
	offersChanged  string
	cliErr, srvErr error
	cliHS, srvHS   ws.Handshake
	req, resp      []byte
}

func runPair(c config, reqChunks, respChunks []int) pairResult {
	return runPairF(c, reqChunks, respChunks, -1)
}

// runPairF: srvFailAt >= 0 fails that write of the server (server-to-client direction).
func runPairF(c config, reqChunks, respChunks []int, srvFailAt int) pairResult {
	var r pairResult
	rand.Seed(c.Seed)
	peer := &serverPeer{chunks: respChunks}
	peer.serve = func(req []byte) []byte {
		rec := tx.NewRec()
		rec.FailAt = srvFailAt
		if c.HTTPServer {
			hr, err := http.ReadRequest(bufio.NewReader(tx.NewSrc(req, reqChunks)))
			if err != nil {
				r.srvErr = fmt.Errorf("harness: net/http refused the dialer's request: %v", err)
				return nil
			}
			_, _, r.srvHS, r.srvErr = c.httpUpgrader().Upgrade(hr, &hijackWriter{conn: recConn{rec: rec}, hdr: http.Header{}})
			r.srvWriteFailed = rec.Failed
			return rec.Bytes()
		}
		r.srvHS, r.srvErr = c.upgrader().Upgrade(tx.RW{Reader: tx.NewSrc(req, reqChunks), Writer: rec})
		r.srvWriteFailed = rec.Failed
		return rec.Bytes()
	}
	u, _ := url.Parse("ws://example.com" + c.Path)
	d := c.dialer()
	before := renderHS(ws.Handshake{Extensions: d.Extensions})
	br, hs, err := d.Upgrade(peer, u)
	if br != nil {
		ws.PutReader(br)
	}
	r.cliHS, r.cliErr = hs, err
	if after := renderHS(ws.Handshake{Extensions: d.Extensions}); after != before {
		r.offersChanged = fmt.Sprintf("Dialer.Upgrade modified the caller's Dialer.Extensions: %s -> %s", before, after)
	}
	r.req, r.resp = append([]byte(nil), peer.req.Bytes()...), peer.resp
	return r
}

// (a) both peers agree
func TestPeersAgree(t *testing.T) {
	hx.Check(t, 6, func(t *rapid.T) {
		c := drawConfig(t)
		reqChunks, respChunks := gen.Chunks(t, "reqchunks"), gen.Chunks(t, "respchunks")
		failAt := -1
		if rapid.IntRange(0, 5).Draw(t, "srvWriteFault") == 0 {
			failAt = rapid.IntRange(0, 2).Draw(t, "srvFailAt")
		}
		r := runPairF(c, reqChunks, respChunks, failAt)
		hx.Eval()
		if r.srvWriteFailed {
			hx.Class("pair/server-write-fault")
		}
		if r.srvErr != nil && strings.HasPrefix(r.srvErr.Error(), "harness:") {
			t.Fatalf("%v\nrequest:\n%s", r.srvErr, r.req)
		}
		hx.Class(fmt.Sprintf("pair/httpserver=%v", c.HTTPServer))
		small := c.SRB > 0 && c.SRB < 300 || c.CRB > 0 && c.CRB < 300 || gen.SmallChunk(reqChunks) || gen.SmallChunk(respChunks)
		offered := len(c.Protocols) > 0 || len(c.Offers) > 0
		hx.Class(fmt.Sprintf("pair/ok=%v/ext=%s/offered=%v", r.cliErr == nil && r.srvErr == nil, c.ExtMode, offered))
		if offered && small {
			hx.NonTrivial(hx.Hash("pair", fmt.Sprint(c.Protocols, c.Accept, c.NoProtoSel, c.Offers, c.ExtMode, c.ExtAccept, c.Flate), c.CRB, c.SRB, gen.ChunkClass(reqChunks), gen.ChunkClass(respChunks)), func() interface{} {
				return map[string]interface{}{"config": c, "client": fmt.Sprint(r.cliErr, " ", renderHS(r.cliHS)), "server": fmt.Sprint(r.srvErr, " ", renderHS(r.srvHS))}
			})
		}
		if r.offersChanged != "" {
			t.Fatalf("%s\nresponse:\n%s", r.offersChanged, r.resp)
		}
		if c.Reject != "" && !r.srvWriteFailed {
			want := 500
			if strings.HasPrefix(c.Reject, "status") {
				want = c.RejectCode
			}
			hx.Class("pair/rejected-by-hook=" + c.Reject)
			if strings.HasPrefix(c.Reject, "status") && http.StatusText(want) == "" {
				hx.Class("pair/rejected-by-hook=status/no-reason-phrase")
			}
			se, ok := r.cliErr.(ws.StatusError)
			if r.srvErr == nil || !ok || int(se) != want {
				t.Fatalf("the server's OnRequest hook rejected the handshake (%s): server err=%v; the dialer must report status %d, it reports %v\nresponse:\n%s", c.Reject, r.srvErr, want, r.cliErr, r.resp)
			}
			return
		}
		if sel := c.selection(); sel != "" && !contains(c.Protocols, sel) {
			// the caller offered (through its own header writer) a protocol its Dialer.Protocols does not list and
			// the server picked it: the dialer rightly refuses what the server rightly selected — not a disagreement
			// of the library with itself
			hx.Class("pair/unlisted-protocol-selected")
			if r.srvErr == nil && !r.srvWriteFailed && r.cliErr == nil {
				t.Fatalf("the server selected %q, which Dialer.Protocols %v does not list, and the dialer accepted it\nrequest:\n%s\nresponse:\n%s", sel, c.Protocols, r.req, r.resp)
			}
			return
		}
		if c.ProtoCustom || len(c.ExtraProto) > 0 {
			hx.Class(fmt.Sprintf("pair/protocustom=%v/extraline=%v/selected=%v", c.ProtoCustom, len(c.ExtraProto) > 0, c.selection() != ""))
		}
		if c.ExtMode == "custom-error" {
			for _, o := range c.Offers {
				if o.Name == "x-b" && (r.srvErr == nil || r.cliErr == nil) {
					// the negotiator returns an error for this offer: "the handshake fails", wherever the offer stands in its line
					t.Fatalf("the server's Negotiate returned an error for the offered extension x-b, yet the handshake went through: server err=%v client err=%v\nrequest:\n%s\nresponse:\n%s", r.srvErr, r.cliErr, r.req, r.resp)
				}
			}
		}
		if (r.cliErr == nil) != (r.srvErr == nil) {
			t.Fatalf("peers disagree on the outcome: client err=%v, server err=%v\nrequest:\n%s\nresponse:\n%s", r.cliErr, r.srvErr, r.req, r.resp)
		}
		if r.cliErr == nil && r.srvErr == nil && r.srvHS.Protocol != c.selection() {
			t.Fatalf("both peers report subprotocol %q; the first offered protocol (over the protocol lines in order) that the server's selector accepts is %q\nrequest:\n%s\nresponse:\n%s", r.srvHS.Protocol, c.selection(), r.req, r.resp)
		}
		if r.cliErr == nil && renderHS(r.cliHS) != renderHS(r.srvHS) {
			t.Fatalf("peers disagree on the result:\n client: %s\n server: %s\nrequest:\n%s\nresponse:\n%s", renderHS(r.cliHS), renderHS(r.srvHS), r.req, r.resp)
		}
	})
}

// (b) single peer: outcome, handshake and bytes written independent of chunking and buffer sizes
func mutateRequest(t *rapid.T, req []byte) []byte {
	s := string(req)
	switch rapid.IntRange(0, 13).Draw(t, "mutation") {
	case 0:
		s = strings.Replace(s, "GET ", "POST ", 1)
	case 1:
		s = strings.Replace(s, "HTTP/1.1\r\n", "HTTP/1.0\r\n", 1)
	case 2:
		s = strings.Replace(s, "Upgrade: websocket\r\n", "Upgrade: h2c\r\n", 1)
	case 3:
		s = strings.Replace(s, "Sec-WebSocket-Version: 13\r\n", "Sec-WebSocket-Version: 8\r\n", 1)
	case 4:
		s = strings.Replace(s, "Connection: Upgrade\r\n", "", 1)
	case 5:
		i := strings.Index(s, "Sec-WebSocket-Key: ")
		s = s[:i+19] + "short" + s[i+19+24:]
	case 6: // a second Host header: fine for ws.Upgrader, refused by net/http's parser
		s = strings.Replace(s, "\r\n", "\r\nHost: other.example\r\n", 1)
	case 7: // a header line without a colon: ws.Upgrader answers 400, net/http's parser gives up
		s = strings.Replace(s, "\r\n", "\r\nthis line has no colon\r\n", 1)
	case 8: // header lines net/http's parser refuses on sight, while ws.Upgrader may take them for headers it does not know
		s = strings.Replace(s, "\r\n", "\r\n: empty-name\r\n", 1)
	case 9:
		s = strings.Replace(s, "\r\n", "\r\nX\x01Ctl: v\r\n", 1)
	case 10:
		s = strings.Replace(s, "\r\n", "\r\nX Sp: v\r\n", 1)
	}
	return []byte(s)
}

// netHTTPParses reports whether net/http's request parser accepts the bytes
// (the debug wrappers pre-parse with it; what OnRequest receives for a request
// it cannot parse is left open, the outcome must still be the plain upgrader's).
func netHTTPParses(req []byte) bool {
	r, err := http.ReadRequest(bufio.NewReader(bytes.NewReader(req)))
	if err != nil {
		return false
	}
	r.Body.Close()
	return true
}

func TestServerChunkingIndependent(t *testing.T) {
	hx.Check(t, 4, func(t *rapid.T) {
		c := drawConfig(t)
		base := runPair(c, nil, nil)
		req := mutateRequest(t, base.req)
		run := func(chunks []int, rb, wb int) (string, []byte) {
			cc := c
			cc.SRB, cc.SWB = rb, wb
			rec := tx.NewRec()
			hs, err := cc.upgrader().Upgrade(tx.RW{Reader: tx.NewSrc(req, chunks), Writer: rec})
			return fmt.Sprintf("err=%v %s", err, renderHS(hs)), rec.Bytes()
		}
		wantOut, wantBytes := run(nil, 0, 0)
		longest := 0
		for _, l := range strings.Split(string(req), "\r\n") {
			if len(l) > longest {
				longest = len(l)
			}
		}
		for i := 0; i < 4; i++ {
			chunks := gen.Chunks(t, "chunks")
			rb := rapid.SampledFrom(bufSizes).Draw(t, "rb")
			wb := rapid.SampledFrom(bufSizes).Draw(t, "wb")
			out, bts := run(chunks, rb, wb)
			hx.Eval()
			eff := rb
			if eff == 0 {
				eff = 4096
			}
			hx.Class(fmt.Sprintf("server-chunking/line>buf=%v/small=%v", longest > eff, gen.SmallChunk(chunks)))
			if (len(c.Protocols) > 0 || len(c.Offers) > 0) && (longest > eff || gen.SmallChunk(chunks)) {
				hx.NonTrivial(hx.Hash("srv", string(req), rb, wb, fmt.Sprint(chunks)), func() interface{} {
					return map[string]interface{}{"peer": "server", "request": string(req[:min(len(req), 600)]), "chunks": chunks, "read_buffer": rb, "write_buffer": wb, "outcome": out}
				})
			}
			if out != wantOut {
				t.Fatalf("server outcome depends on chunking/buffers:\n unchunked/default: %s\n chunks=%v rb=%d wb=%d: %s\nrequest:\n%s", wantOut, chunks, rb, wb, out, req)
			}
			if !bytes.Equal(bts, wantBytes) {
				t.Fatalf("server response bytes depend on chunking/buffers (chunks=%v rb=%d wb=%d):\n%q\nvs\n%q", chunks, rb, wb, bts, wantBytes)
			}
		}
	})
}

func mutateResponse(t *rapid.T, resp []byte) []byte {
	s := string(resp)
	switch rapid.IntRange(0, 9).Draw(t, "mutation") {
	case 0:
		s = strings.Replace(s, " 101 ", " 200 ", 1)
	case 1:
		s = strings.Replace(s, "Upgrade: websocket\r\n", "Upgrade: h2c\r\n", 1)
	case 2:
		s = strings.Replace(s, "Connection: Upgrade\r\n", "", 1)
	case 3:
		if i := strings.Index(s, "Sec-WebSocket-Accept: "); i >= 0 {
			s = s[:i+22] + "A" + s[i+23:]
		}
	case 4:
		s = strings.Replace(s, "HTTP/1.1 ", "HTTP/1.0 ", 1)
	case 5:
		s = strings.Replace(s, "\r\n\r\n", "\r\nSec-WebSocket-Protocol: never-offered\r\n\r\n", 1)
	}
	return []byte(s)
}

func TestClientChunkingIndependent(t *testing.T) {
	hx.Check(t, 4, func(t *rapid.T) {
		c := drawConfig(t)
		mut := rapid.Custom(func(t *rapid.T) int { return rapid.IntRange(0, 9).Draw(t, "mutation") })
		_ = mut
		// the scripted server: the library's own upgrader, its response optionally damaged
		var damage func([]byte) []byte
		{
			var plan []byte
			base := runPair(c, nil, nil)
			plan = mutateResponse(t, base.resp)
			same := bytes.Equal(plan, base.resp)
			damage = func(resp []byte) []byte {
				if same {
					return resp
				}
				return plan
			}
		}
		trailing := rapid.SliceOfN(rapid.Byte(), 0, 40).Draw(t, "trailing")
		run := func(chunks []int, rb, wb int) (string, []byte, []byte) {
			cc := c
			cc.CRB, cc.CWB = rb, wb
			rand.Seed(c.Seed)
			peer := &serverPeer{chunks: chunks, trailing: trailing}
			peer.serve = func(req []byte) []byte {
				rec := tx.NewRec()
				c.upgrader().Upgrade(tx.RW{Reader: tx.NewSrc(req, nil), Writer: rec})
				return damage(rec.Bytes())
			}
			u, _ := url.Parse("ws://example.com" + c.Path)
			d := cc.dialer()
			// what the dialer hands to OnStatusError (status, reason and a reader over the response) is part
			// of the outcome too: it must not depend on how the response arrived
			seen := ""
			d.OnStatusError = func(status int, reason []byte, resp io.Reader) {
				why := string(reason) // the reason slice lives in the read buffer: take it before reading on
				body, rerr := io.ReadAll(io.LimitReader(resp, int64(len(peer.resp))))
				seen = fmt.Sprintf(" onStatusError(%d %q %q readerr=%v)", status, why, body, rerr)
			}
			br, hs, err := d.Upgrade(peer, u)
			var rest []byte
			defer func() { _ = seen }()
			if err == nil {
				if br != nil {
					rest, _ = io.ReadAll(br)
					ws.PutReader(br)
				} else {
					rest, _ = io.ReadAll(peer)
				}
			}
			return fmt.Sprintf("err=%v %s%s", err, renderHS(hs), seen), append([]byte(nil), peer.req.Bytes()...), rest
		}
		wantOut, wantReq, wantRest := run(nil, 0, 0)
		if strings.HasPrefix(wantOut, "err=<nil>") && !bytes.Equal(wantRest, trailing) {
			t.Fatalf("post-handshake bytes not preserved in the reference run: got %x want %x", wantRest, trailing)
		}
		for i := 0; i < 4; i++ {
			chunks := gen.Chunks(t, "chunks")
			rb := rapid.SampledFrom(bufSizes).Draw(t, "rb")
			wb := rapid.SampledFrom(bufSizes).Draw(t, "wb")
			out, req, rest := run(chunks, rb, wb)
			hx.Eval()
			hx.Class(fmt.Sprintf("client-chunking/ok=%v/small=%v", strings.HasPrefix(out, "err=<nil>"), gen.SmallChunk(chunks)))
			if (len(c.Protocols) > 0 || len(c.Offers) > 0) && (gen.SmallChunk(chunks) || rb > 0 && rb < 300) {
				hx.NonTrivial(hx.Hash("cli", string(wantReq), rb, wb, fmt.Sprint(chunks), len(trailing)), func() interface{} {
					return map[string]interface{}{"peer": "client", "chunks": chunks, "read_buffer": rb, "write_buffer": wb, "outcome": out, "trailing": len(trailing)}
				})
			}
			if out != wantOut {
				t.Fatalf("client outcome depends on chunking/buffers:\n unchunked/default: %s\n chunks=%v rb=%d wb=%d: %s", wantOut, chunks, rb, wb, out)
			}
			if !bytes.Equal(req, wantReq) {
				t.Fatalf("client request bytes depend on buffers (rb=%d wb=%d)", rb, wb)
			}
			if !bytes.Equal(rest, wantRest) {
				t.Fatalf("post-handshake bytes depend on chunking/buffers (chunks=%v rb=%d): got %x want %x", chunks, rb, rest, wantRest)
			}
		}
	})
}

// ---------------------------------------------------------------------------
// (c) debug wrappers

func TestDebugUpgraderFaithful(t *testing.T) {
	hx.Check(t, 3, func(t *rapid.T) {
		c := drawConfig(t)
		base := runPair(c, nil, nil)
		req := mutateRequest(t, base.req)
		if k := rapid.SampledFrom([]int{0, 0, 0, 1, 7, 300}).Draw(t, "body"); k > 0 && bytes.HasSuffix(req, []byte("\r\n\r\n")) {
			// a request that carries a body (HTTP message framing does not depend on the method): the body is
			// part of "the request bytes exchanged" however it is split from the head by the transport
			req = append(append(req[:len(req)-2:len(req)-2], fmt.Sprintf("Content-Length: %d\r\n\r\n", k)...), bytes.Repeat([]byte{'B'}, k)...)
			hx.Class("debug-upgrader/request-with-body")
		}
		if nl := rapid.IntRange(0, 5).Draw(t, "bareLF"); nl <= 1 {
			// a client that ends its lines with a bare LF, all of them or only the last two (the upgrader accepts both)
			if nl == 0 {
				req = bytes.ReplaceAll(req, []byte("\r\n"), []byte("\n"))
			} else if i := bytes.Index(req, []byte("\r\n\r\n")); i >= 0 {
				req = append(append(req[:i:i], "\n\n"...), req[i+4:]...)
			}
			hx.Class("debug-upgrader/bare-lf-request")
		}
		chunks := gen.Chunks(t, "chunks")
		plainRec := tx.NewRec()
		dbgRec := tx.NewRec()
		failAt := -1
		if rapid.IntRange(0, 3).Draw(t, "writefault") == 0 {
			// the k-th destination write fails (nothing of it is accepted): the callback must report what reached the wire
			failAt = rapid.IntRange(0, 3).Draw(t, "failAt")
			plainRec.FailAt, dbgRec.FailAt = failAt, failAt
		}
		plainHS, plainErr := c.upgrader().Upgrade(tx.RW{Reader: tx.NewSrc(req, chunks), Writer: plainRec})
		var gotReq, gotResp []byte
		cbReq, cbResp := rapid.Bool().Draw(t, "onrequest"), rapid.Bool().Draw(t, "onresponse")
		d := wsutil.DebugUpgrader{Upgrader: c.upgrader()}
		if cbReq {
			d.OnRequest = func(p []byte) { gotReq = append([]byte(nil), p...) }
		}
		if cbResp {
			d.OnResponse = func(p []byte) { gotResp = append([]byte(nil), p...) }
		}
		if rapid.IntRange(0, 2).Draw(t, "reusedDebugUpgrader") == 0 {
			// earlier upgrades through the same DebugUpgrader value (the wrapped Upgrader is replaced by a fresh
			// one afterwards, because its negotiators carry per-handshake state by design)
			for i := rapid.IntRange(1, 2).Draw(t, "earlierUpgrades"); i > 0; i-- {
				d.Upgrade(tx.RW{Reader: tx.NewSrc(req, nil), Writer: tx.NewRec()})
			}
			d.Upgrader = c.upgrader()
			gotReq, gotResp = nil, nil
			hx.Class("debug-upgrader/reused-value")
		}
		dbgHS, dbgErr := d.Upgrade(tx.RW{Reader: tx.NewSrc(req, chunks), Writer: dbgRec})
		hx.Eval()
		hx.Class(fmt.Sprintf("debug-upgrader/ok=%v/cb=%v,%v/nethttp-parses=%v/writefault=%v", plainErr == nil, cbReq, cbResp, netHTTPParses(req), failAt >= 0 && plainRec.Failed))
		if (cbReq || cbResp) && (len(c.Protocols) > 0 || len(c.Offers) > 0) {
			hx.NonTrivial(hx.Hash("dbgup", string(req), fmt.Sprint(chunks), cbReq, cbResp), func() interface{} {
				return map[string]interface{}{"wrapper": "DebugUpgrader", "chunks": chunks, "plain": fmt.Sprint(plainErr, " ", renderHS(plainHS))}
			})
		}
		if (plainErr == nil) != (dbgErr == nil) || renderHS(plainHS) != renderHS(dbgHS) {
			t.Fatalf("DebugUpgrader changes the outcome: plain err=%v %s; debug err=%v %s\nrequest:\n%s", plainErr, renderHS(plainHS), dbgErr, renderHS(dbgHS), req)
		}
		if !bytes.Equal(plainRec.Bytes(), dbgRec.Bytes()) {
			t.Fatalf("DebugUpgrader changes the bytes written:\n%q\nvs\n%q", dbgRec.Bytes(), plainRec.Bytes())
		}
		// What OnRequest is given for a request that net/http cannot parse AND the upgrader refuses is left open.
		// For one the upgrader accepts it is the whole request head at least (the wrapper cannot know where a
		// body ends that net/http did not frame for it) and nothing that was not on the wire.
		if cbReq && netHTTPParses(req) && !bytes.Equal(gotReq, req) {
			t.Fatalf("OnRequest reported\n%q\nthe request on the wire was\n%q", gotReq, req)
		}
		if cbReq && !netHTTPParses(req) && plainErr == nil {
			hx.Class("debug-upgrader/accepted-request-net/http-refuses")
			h := bytes.Index(req, []byte("\n\n"))
			if i := bytes.Index(req, []byte("\n\r\n")); i >= 0 && (h < 0 || i+1 < h) {
				h = i + 1
			}
			if h < 0 || !bytes.HasPrefix(req, gotReq) || len(gotReq) < h+2 {
				t.Fatalf("OnRequest reported\n%q\nthe request on the wire (accepted by the upgrader, refused by net/http's parser) was\n%q\nchunks %v", gotReq, req, chunks)
			}
		}
		if cbResp && !bytes.Equal(gotResp, plainRec.Bytes()) {
			t.Fatalf("OnResponse reported\n%q\nthe response on the wire was\n%q", gotResp, plainRec.Bytes())
		}
	})
}

// fakeConn adapts a serverPeer to net.Conn.
type fakeConn struct{ *serverPeer }

func (fakeConn) Close() error                     { return nil }
func (fakeConn) LocalAddr() net.Addr              { return nil }
func (fakeConn) RemoteAddr() net.Addr             { return nil }
func (fakeConn) SetDeadline(time.Time) error      { return nil }
func (fakeConn) SetReadDeadline(time.Time) error  { return nil }
func (fakeConn) SetWriteDeadline(time.Time) error { return nil }

type dialOutcome struct {
	pastEnd   int // reads Dial made after the server's last byte had been delivered
	err       error
	hs        ws.Handshake
	rest      []byte
	brNil     bool
	req, resp []byte
	// user WrapConn bookkeeping
	wrapCalls   int
	wrapRead    int
	wrapWritten int
	connIsWrap  bool
}

// userWrap is a caller-supplied Dialer.WrapConn result: a pass-through that counts the I/O going through it.
type userWrap struct {
	net.Conn
	out *dialOutcome
}

func (u userWrap) Read(p []byte) (int, error) {
	n, err := u.Conn.Read(p)
	u.out.wrapRead += n
	return n, err
}

func (u userWrap) Write(p []byte) (int, error) {
	n, err := u.Conn.Write(p)
	u.out.wrapWritten += n
	return n, err
}

// dialOnce runs Dialer.Dial (plain or through DebugDialer) against the library's own upgrader.
func dialOnce(c config, debug bool, respChunks []int, trailing []byte, pad int, onReq, onResp *[]byte) dialOutcome {
	return dialOnceW(c, debug, respChunks, trailing, pad, onReq, onResp, false)
}

func dialOnceW(c config, debug bool, respChunks []int, trailing []byte, pad int, onReq, onResp *[]byte, wrap bool) dialOutcome {
	rand.Seed(c.Seed)
	cc := c
	if pad >= 0 {
		cc.SrvHeader = append(append([][2]string(nil), c.SrvHeader...), [2]string{"X-Pad", strings.Repeat("p", pad)})
	}
	peer := &serverPeer{chunks: respChunks, trailing: trailing}
	peer.serve = func(req []byte) []byte {
		rec := tx.NewRec()
		cc.upgrader().Upgrade(tx.RW{Reader: tx.NewSrc(req, nil), Writer: rec})
		return rec.Bytes()
	}
	d := cc.dialer()
	newPeer := func() *serverPeer {
		p := &serverPeer{chunks: respChunks, trailing: trailing}
		p.serve = peer.serve
		return p
	}
	cur := peer
	d.NetDial = func(ctx context.Context, network, addr string) (net.Conn, error) { return fakeConn{cur}, nil }
	var out dialOutcome
	if wrap {
		d.WrapConn = func(c net.Conn) net.Conn {
			out.wrapCalls++
			return userWrap{c, &out}
		}
	}
	var conn net.Conn
	var br interface {
		io.Reader
	}
	if debug {
		dd := wsutil.DebugDialer{Dialer: d}
		if onReq != nil {
			dd.OnRequest = func(p []byte) { *onReq = append([]byte(nil), p...) }
		}
		if onResp != nil {
			dd.OnResponse = func(p []byte) { *onResp = append([]byte(nil), p...) }
		}
		for i := 0; i < c.Warm; i++ {
			cur = newPeer()
			if cn, b, _, err := dd.Dial(context.Background(), "ws://example.com"+c.Path); err == nil {
				if b != nil {
					io.ReadAll(b)
					ws.PutReader(b)
				} else {
					io.ReadAll(cn)
				}
			}
		}
		cur = peer
		if c.Warm > 0 {
			out.wrapCalls, out.wrapWritten, out.wrapRead = 0, 0, 0
			if onReq != nil {
				*onReq = nil
			}
			if onResp != nil {
				*onResp = nil
			}
			rand.Seed(c.Seed)
		}
		cn, b, hs, err := dd.Dial(context.Background(), "ws://example.com"+c.Path)
		conn, out.hs, out.err = cn, hs, err
		if b != nil {
			br = b
		}
	} else {
		cn, b, hs, err := d.Dial(context.Background(), "ws://example.com"+c.Path)
		conn, out.hs, out.err = cn, hs, err
		if b != nil {
			br = b
		}
	}
	out.brNil = br == nil
	out.pastEnd = peer.pastEnd
	_, out.connIsWrap = conn.(userWrap)
	if out.err == nil {
		if br != nil {
			out.rest, _ = io.ReadAll(br)
		} else {
			out.rest, _ = io.ReadAll(conn)
		}
	}
	out.req, out.resp = append([]byte(nil), peer.req.Bytes()...), peer.resp
	return out
}

func TestDebugDialerFaithful(t *testing.T) {
	hx.Check(t, 3, func(t *rapid.T) {
		c := drawConfig(t)
		c.SrvHeader = nil // the pad header below controls the head length
		chunks := gen.Chunks(t, "chunks")
		trailing := rapid.SliceOfN(rapid.Byte(), 0, 60).Draw(t, "trailing")
		cbReq, cbResp := rapid.Bool().Draw(t, "onrequest"), rapid.Bool().Draw(t, "onresponse")
		pad := rapid.IntRange(0, 40).Draw(t, "pad")
		// Look for a head length at which the plain dialer returns no buffered reader
		// although the server sent bytes after the head (they are still in the transport).
		aligned := false
		if len(trailing) > 0 && rapid.Bool().Draw(t, "align") {
			lim := c.CRB
			if lim == 0 || lim > 128 {
				lim = 128
			}
			for p := 0; p <= lim+16; p++ {
				if o := dialOnce(c, false, chunks, trailing, p, nil, nil); o.err == nil && o.brNil {
					pad, aligned = p, true
					break
				}
			}
		}
		wrap := rapid.IntRange(0, 2).Draw(t, "userWrapConn") == 0
		plain := dialOnceW(c, false, chunks, trailing, pad, nil, nil, wrap)
		var gotReq, gotResp []byte
		var pr, ps *[]byte
		if cbReq {
			pr = &gotReq
		}
		if cbResp {
			ps = &gotResp
		}
		cw := c
		if rapid.IntRange(0, 2).Draw(t, "reusedDebugDialer") == 0 {
			cw.Warm = rapid.IntRange(1, 2).Draw(t, "earlierDials")
			hx.Class("debug-dialer/reused-value")
		}
		dbg := dialOnceW(cw, true, chunks, trailing, pad, pr, ps, wrap)
		hx.Eval()
		if wrap {
			hx.Class("debug-dialer/user-wrapconn")
			// the caller's WrapConn must stay in the path: the handshake goes through it and Dial returns it
			if plain.wrapCalls != 1 || !plain.connIsWrap || plain.wrapWritten != len(plain.req) {
				t.Fatalf("harness/plain dialer: WrapConn calls=%d conn-is-wrapper=%v bytes written through it=%d (request %d)", plain.wrapCalls, plain.connIsWrap, plain.wrapWritten, len(plain.req))
			}
			if dbg.wrapCalls != 1 || !dbg.connIsWrap {
				t.Fatalf("DebugDialer with a user WrapConn: WrapConn called %d times, returned conn is the user's wrapper: %v (plain dialer: 1, true)", dbg.wrapCalls, dbg.connIsWrap)
			}
			if dbg.wrapWritten != len(dbg.req) || dbg.wrapRead == 0 {
				t.Fatalf("DebugDialer bypasses the user's WrapConn: %d of %d request bytes written through it, %d bytes read through it", dbg.wrapWritten, len(dbg.req), dbg.wrapRead)
			}
		}
		hx.Class(fmt.Sprintf("debug-dialer/ok=%v/cb=%v,%v/trailing=%v/aligned=%v", plain.err == nil, cbReq, cbResp, len(trailing) > 0, aligned))
		if cbReq || cbResp {
			hx.NonTrivial(hx.Hash("dbgdial", string(plain.req), len(plain.resp), fmt.Sprint(chunks), cbReq, cbResp, len(trailing), aligned), func() interface{} {
				return map[string]interface{}{"wrapper": "DebugDialer", "chunks": chunks, "trailing": len(trailing), "aligned_head": aligned, "plain": fmt.Sprint(plain.err, " ", renderHS(plain.hs))}
			})
		}
		if plain.err == nil && !bytes.Equal(plain.rest, trailing) {
			t.Fatalf("harness/plain dialer: post-handshake bytes %x, want %x", plain.rest, trailing)
		}
		if (plain.err == nil) != (dbg.err == nil) || renderHS(plain.hs) != renderHS(dbg.hs) {
			t.Fatalf("DebugDialer changes the outcome: plain err=%v %s; debug err=%v %s", plain.err, renderHS(plain.hs), dbg.err, renderHS(dbg.hs))
		}
		if !bytes.Equal(plain.req, dbg.req) {
			t.Fatalf("DebugDialer changes the request bytes")
		}
		if plain.pastEnd == 0 && dbg.pastEnd > 0 {
			t.Fatalf("DebugDialer.Dial asked the connection for more bytes (%d reads) after the server's last byte, the plain dialer did not: on a connection the server keeps open it would hang\nresponse: %q", dbg.pastEnd, dbg.resp)
		}
		if c.Reject != "" {
			hx.Class("debug-dialer/rejected-by-hook=" + c.Reject)
		}
		if cbReq && !bytes.Equal(gotReq, dbg.req) {
			t.Fatalf("OnRequest reported\n%q\nthe request on the wire was\n%q", gotReq, dbg.req)
		}
		if cbResp && !bytes.Equal(gotResp, dbg.resp) {
			t.Fatalf("OnResponse reported\n%q\nthe response head on the wire was\n%q", gotResp, dbg.resp)
		}
		if dbg.err == nil && !bytes.Equal(dbg.rest, trailing) {
			t.Fatalf("DebugDialer lost or altered post-handshake bytes: readable after Dial: %x, sent by the server: %x (plain dialer returned br==nil: %v; callbacks req=%v resp=%v; head length %d, client read buffer %d)",
				dbg.rest, trailing, plain.brNil, cbReq, cbResp, len(dbg.resp), c.CRB)
		}
	})
}

func min(a, b int) int {
	if a < b {
		return a
	}
	return b
}

// TestDebugDialerRejections: the server (not the library's upgrader) answers with a
// non-101 response carrying a body — with a Content-Length (complete or cut short by
// the connection ending) or close-delimited. DebugDialer must fail like the plain
// dialer and OnResponse must receive exactly the bytes the server sent.
func TestDebugDialerRejections(t *testing.T) {
	hx.Check(t, 2, func(t *rapid.T) {
		c := drawConfig(t)
		chunks := gen.Chunks(t, "chunks")
		status := rapid.SampledFrom([]string{"400 Bad Request", "403 Forbidden", "404 Not Found", "500 Internal Server Error", "503 Service Unavailable"}).Draw(t, "status")
		body := strings.Repeat("no websocket for you. ", rapid.IntRange(0, 20).Draw(t, "bodyReps"))
		mode := rapid.SampledFrom([]string{"content-length", "content-length-truncated", "close-delimited"}).Draw(t, "bodyMode")
		head := "HTTP/1.1 " + status + "\r\nContent-Type: text/plain\r\n"
		sent := body
		switch mode {
		case "content-length":
			head += fmt.Sprintf("Content-Length: %d\r\n", len(body))
		case "content-length-truncated":
			head += fmt.Sprintf("Content-Length: %d\r\n", len(body)+rapid.IntRange(1, 50).Draw(t, "missing"))
		default:
			head += "Connection: close\r\n"
		}
		wire := []byte(head + "\r\n" + sent)
		seen := map[bool]string{}
		run := func(debug bool, onResp *[]byte) (err error, panicked interface{}) {
			rand.Seed(c.Seed)
			peer := &serverPeer{chunks: chunks}
			peer.serve = func(req []byte) []byte { return wire }
			d := c.dialer()
			// the caller's own look at the refusal: status, reason and the body as far as it arrived
			d.OnStatusError = func(status int, reason []byte, resp io.Reader) {
				r := string(reason)
				body, _ := io.ReadAll(io.LimitReader(resp, 1<<16))
				seen[debug] = fmt.Sprintf("%d %q body=%q", status, r, body)
			}
			d.NetDial = func(ctx context.Context, network, addr string) (net.Conn, error) { return fakeConn{peer}, nil }
			defer func() { panicked = recover() }()
			if debug {
				dd := wsutil.DebugDialer{Dialer: d, OnResponse: func(p []byte) { *onResp = append([]byte(nil), p...) }}
				_, _, _, err = dd.Dial(context.Background(), "ws://example.com"+c.Path)
			} else {
				_, _, _, err = d.Dial(context.Background(), "ws://example.com"+c.Path)
			}
			return err, nil
		}
		plainErr, _ := run(false, nil)
		var got []byte
		dbgErr, p := run(true, &got)
		hx.Eval()
		hx.Class("debug-dialer/rejection/" + mode)
		hx.NonTrivial(hx.Hash("dbgrej", status, len(body), mode, fmt.Sprint(chunks)), func() interface{} {
			return map[string]interface{}{"wrapper": "DebugDialer", "server_response": string(wire[:min(len(wire), 200)]), "body_mode": mode, "chunks": chunks}
		})
		if plainErr == nil {
			t.Fatalf("harness: plain dialer accepted a %s response", status)
		}
		if p != nil {
			t.Fatalf("DebugDialer.Dial panicked (%v) on a rejection the plain dialer reports as %v\nresponse: %q", p, plainErr, wire)
		}
		if dbgErr == nil {
			t.Fatalf("DebugDialer changes the outcome: plain err=%v, debug err=nil", plainErr)
		}
		if !bytes.Equal(got, wire) {
			t.Fatalf("OnResponse reported\n%q\nthe server sent\n%q", got, wire)
		}
		if seen[false] == "" {
			t.Fatalf("harness: the plain dialer did not call OnStatusError for %q", wire)
		}
		if seen[true] != seen[false] {
			t.Fatalf("Dialer.OnStatusError saw a different refusal through DebugDialer:\n  %s\nplain dialer:\n  %s", seen[true], seen[false])
		}
	})
}
