package c11

import (
	"bytes"
	"context"
	"fmt"
	"io"
	"math/rand"
	"net"
	"strings"
	"testing"

	"github.com/gobwas/ws"
	"github.com/gobwas/ws/wsutil"
	"pgregory.net/rapid"

	"verif/harness/gen"
	"verif/harness/hx"
)

// foreignResponse renders a compliant 101 response the way a server other than the library's
// upgrader may write it: every line ends with CRLF or with a bare LF (nls[i] for line i, the
// last entry for the empty line), which ws.Dialer accepts alike.
func foreignResponse(req []byte, extra []string, nls []bool) []byte {
	key := ""
	for _, line := range strings.Split(string(req), "\r\n") {
		if strings.HasPrefix(line, "Sec-WebSocket-Key: ") {
			key = strings.TrimPrefix(line, "Sec-WebSocket-Key: ")
		}
	}
	lines := append([]string{"HTTP/1.1 101 Switching Protocols", "Upgrade: websocket", "Connection: Upgrade", "Sec-WebSocket-Accept: " + acceptFor(key)}, extra...)
	lines = append(lines, "")
	var b strings.Builder
	for i, l := range lines {
		b.WriteString(l)
		if nls[i%len(nls)] {
			b.WriteString("\n")
		} else {
			b.WriteString("\r\n")
		}
	}
	return []byte(b.String())
}

type foreignOutcome struct {
	err      error
	hs       ws.Handshake
	rest     []byte
	panicked interface{}
	onResp   []byte
	called   int
}

// dialForeign dials (plain or through DebugDialer with OnResponse) a server that answers with
// foreignResponse + trailing, the whole cut after cut bytes (cut < 0: not cut) by the stream ending.
func dialForeign(seed int64, debug bool, extra []string, nls []bool, trailing []byte, cut int, chunks []int, crb int) (out foreignOutcome, head []byte) {
	rand.Seed(seed)
	peer := &serverPeer{chunks: chunks}
	peer.serve = func(req []byte) []byte {
		head = foreignResponse(req, extra, nls)
		all := append(append([]byte(nil), head...), trailing...)
		if cut >= 0 && cut < len(all) {
			all = all[:cut]
		}
		return all
	}
	d := ws.Dialer{ReadBufferSize: crb}
	d.NetDial = func(ctx context.Context, network, addr string) (net.Conn, error) { return fakeConn{peer}, nil }
	defer func() { out.panicked = recover() }()
	var conn net.Conn
	var br io.Reader
	if debug {
		dd := wsutil.DebugDialer{Dialer: d, OnResponse: func(p []byte) { out.called++; out.onResp = append([]byte(nil), p...) }}
		cn, b, hs, err := dd.Dial(context.Background(), "ws://example.com/chat")
		conn, out.hs, out.err = cn, hs, err
		if b != nil {
			br = b
		}
	} else {
		cn, b, hs, err := d.Dial(context.Background(), "ws://example.com/chat")
		conn, out.hs, out.err = cn, hs, err
		if b != nil {
			br = b
		}
	}
	if out.err == nil {
		if br == nil {
			br = conn
		}
		out.rest, _ = io.ReadAll(br)
	}
	return out, head
}

// TestDebugDialerForeignServer: the response comes from a server that is not the library's
// upgrader - lines end with CRLF or a bare LF in any mixture (the dialer accepts both), and
// the stream may end anywhere: inside the head (the handshake fails), inside the bytes sent
// after it, or before the first byte. DebugDialer must end like the plain dialer (never
// panic), OnResponse must be given exactly what the server sent of its response, and the
// bytes after the head must reach the caller untouched.
func TestDebugDialerForeignServer(t *testing.T) {
	hx.Check(t, 1, func(t *rapid.T) {
		seed := rapid.Int64().Draw(t, "seed")
		var extra []string
		for i := rapid.IntRange(0, 3).Draw(t, "extra"); i > 0; i-- {
			extra = append(extra, fmt.Sprintf("X-Extra-%d: %s", i, strings.Repeat("v", rapid.IntRange(0, 40).Draw(t, "xlen"))))
		}
		if odd := rapid.IntRange(0, 5).Draw(t, "oddline"); odd < 3 {
			// a header line that net/http's response parser refuses on sight and ws.Dialer takes for a header it does not know
			line := []string{": empty-name", "X\x01Ctl: v", "X Sp: v"}[odd]
			at := rapid.IntRange(0, len(extra)).Draw(t, "oddat")
			extra = append(extra[:at:at], append([]string{line}, extra[at:]...)...)
			hx.Class("debug-dialer/foreign/line-net/http-refuses")
		}
		var nls []bool
		switch rapid.IntRange(0, 3).Draw(t, "nlkind") {
		case 0:
			nls = []bool{false}
		case 1:
			nls = []bool{true}
		default:
			nls = rapid.SliceOfN(rapid.Bool(), 2, 8).Draw(t, "nls")
		}
		trailing := rapid.SliceOfN(rapid.Byte(), 0, 40).Draw(t, "trailing")
		chunks := gen.Chunks(t, "chunks")
		crb := rapid.SampledFrom([]int{0, 1, 64, 300}).Draw(t, "crb")
		_, head := dialForeign(seed, false, extra, nls, trailing, -1, chunks, crb)
		total := len(head) + len(trailing)
		// every cut offset in small heads would be slow in the quick tier: a drawn handful plus the edges
		cuts := []int{-1, 0, 1, len(head) - 1, len(head), total - 1}
		for i := rapid.IntRange(2, 6).Draw(t, "ncuts"); i > 0; i-- {
			cuts = append(cuts, rapid.IntRange(0, total).Draw(t, "cut"))
		}
		lf := bytes.Contains(head, []byte("\n")) && !bytes.Contains(head, []byte("\r\n\r\n"))
		for _, cut := range cuts {
			if cut >= total {
				cut = -1
			}
			plain, _ := dialForeign(seed, false, extra, nls, trailing, cut, chunks, crb)
			dbg, _ := dialForeign(seed, true, extra, nls, trailing, cut, chunks, crb)
			hx.Eval()
			sent := append(append([]byte(nil), head...), trailing...)
			if cut >= 0 {
				sent = sent[:cut]
			}
			wantResp, wantRest := sent, []byte(nil)
			if len(sent) >= len(head) {
				wantResp, wantRest = head, sent[len(head):]
			}
			where := "whole"
			switch {
			case cut >= 0 && cut < len(head):
				where = "cut-in-head"
			case cut >= 0:
				where = "cut-after-head"
			}
			hx.Class(fmt.Sprintf("debug-dialer/foreign/%s/bare-lf-head-end=%v", where, lf))
			desc := func() interface{} {
				return map[string]interface{}{"wrapper": "DebugDialer", "server": "foreign", "head": string(head), "trailing": len(trailing), "cut": cut, "chunks": chunks, "crb": crb}
			}
			hx.NonTrivial(hx.Hash("dbgforeign", string(head), len(trailing), cut, fmt.Sprint(chunks), crb), desc)
			if plain.panicked != nil {
				t.Fatalf("plain Dialer.Dial panicked: %v\n%s", plain.panicked, hx.JSON(desc()))
			}
			if (plain.err == nil) != (len(sent) >= len(head)) {
				t.Fatalf("harness: plain dialer err=%v on a response of which %d of %d head bytes arrived\n%s", plain.err, len(sent), len(head), hx.JSON(desc()))
			}
			if dbg.panicked != nil {
				t.Fatalf("DebugDialer.Dial panicked (%v) where the plain dialer returns err=%v\n%s", dbg.panicked, plain.err, hx.JSON(desc()))
			}
			if (plain.err == nil) != (dbg.err == nil) || renderHS(plain.hs) != renderHS(dbg.hs) {
				t.Fatalf("DebugDialer changes the outcome: plain err=%v %s; debug err=%v %s\n%s", plain.err, renderHS(plain.hs), dbg.err, renderHS(dbg.hs), hx.JSON(desc()))
			}
			if dbg.called != 1 || !bytes.Equal(dbg.onResp, wantResp) {
				t.Fatalf("OnResponse was called %d time(s) with\n%q\nthe server sent this much of its response:\n%q\n%s", dbg.called, dbg.onResp, wantResp, hx.JSON(desc()))
			}
			if dbg.err == nil && (!bytes.Equal(plain.rest, wantRest) || !bytes.Equal(dbg.rest, wantRest)) {
				t.Fatalf("bytes after the response head: the server sent %x, readable after Dial: plain %x, DebugDialer %x\n%s", wantRest, plain.rest, dbg.rest, hx.JSON(desc()))
			}
		}
	})
}
