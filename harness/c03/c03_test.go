// C03 — header and close-payload validity checks decide exactly the RFC 6455 rules.
//
// Oracles: ref.BrokenRules (set of framing rules a header breaks in a state),
// ref.CloseCode / ref.ClosePayload (the status-code sets of the property text),
// literal tables for the opcode and status-code predicates and for the UTF-8
// validity of the enumerated reasons, and a hand-written big-endian parser for
// close bodies.
package c03

import (
	"bytes"
	"fmt"
	"strings"
	"testing"
	"unicode/utf8"

	"github.com/gobwas/ws"
	"pgregory.net/rapid"

	"verif/harness/gen"
	"verif/harness/hx"
	"verif/harness/ref"
)

func TestMain(m *testing.M) { hx.Main(m, "C03") }

// ---------------------------------------------------------------------------
// CheckHeader

// ruleErr is the exported error value that names each rule.
var ruleErr = [...]struct {
	rule ref.Rule
	err  error
}{
	{ref.RuleReservedOp, ws.ErrProtocolOpCodeReserved},
	{ref.RuleControlTooLong, ws.ErrProtocolControlPayloadOverflow},
	{ref.RuleControlNotFinal, ws.ErrProtocolControlNotFinal},
	{ref.RuleRsv, ws.ErrProtocolNonZeroRsv},
	{ref.RuleMaskRequired, ws.ErrProtocolMaskRequired},
	{ref.RuleMaskUnexpected, ws.ErrProtocolMaskUnexpected},
	{ref.RuleContinuationExpected, ws.ErrProtocolContinuationExpected},
	{ref.RuleContinuationUnexpected, ws.ErrProtocolContinuationUnexpected},
}

func wsState(st ref.EndState) (s ws.State) {
	switch st.Side {
	case ref.SideServer:
		s |= ws.StateServerSide
	case ref.SideClient:
		s |= ws.StateClientSide
	}
	if st.Extended {
		s |= ws.StateExtended
	}
	if st.Fragmented {
		s |= ws.StateFragmented
	}
	return s
}

// checkHeader is the oracle for one (header, state) pair; "" or the violation.
// broken is the reference's set of broken rules, state the ws.State handed in.
// named is the rule the returned error names (-1 when accepted).
func checkHeader(h ref.Header, broken ref.RuleSet, state ws.State) (msg string, named int) {
	wh := ws.Header{Fin: h.Fin, Rsv: h.Rsv, OpCode: ws.OpCode(h.Op), Masked: h.Masked, Mask: h.Mask, Length: h.Length}
	err := ws.CheckHeader(wh, state)
	if err == nil {
		if !broken.Empty() {
			return fmt.Sprintf("CheckHeader accepted a header that breaks %v", broken), -1
		}
		return "", -1
	}
	if broken.Empty() {
		return fmt.Sprintf("CheckHeader rejected (%v) a header that breaks no rule", err), -1
	}
	for _, re := range ruleErr {
		if err == re.err {
			if !broken.Has(re.rule) {
				return fmt.Sprintf("CheckHeader reported %q (rule %v), which is not broken; broken: %v", err, re.rule, broken), int(re.rule)
			}
			return "", int(re.rule)
		}
	}
	return fmt.Sprintf("CheckHeader returned %q (%T), which is none of the exported header-rule errors; broken: %v", err, err, broken), -1
}

type hdrCase struct {
	Header string `json:"header"`
	Side   string `json:"side"`
	Ext    bool   `json:"extended"`
	Frag   bool   `json:"fragmented"`
	Broken string `json:"broken_rules"`
}

var gridLengths = []int64{0, 1, 124, 125, 126, 127, 128, 65535, 65536, 1 << 31, 1<<31 + 125, 1 << 32, 1<<32 + 5, 1<<32 + 125, 1<<32 + 126, 1 << 40, 1 << 62, 1<<62 + 125, 1<<63 - 1}

// The whole grid: Fin x Rsv x OpCode x Masked x key field x length class x
// side x extended x fragmented.
func TestHeaderGrid(t *testing.T) {
	n := 0
	keys := [][4]byte{{}, {0xde, 0xad, 0xbe, 0xef}}
	for _, fin := range []bool{false, true} {
		for rsv := byte(0); rsv < 8; rsv++ {
			for op := byte(0); op < 16; op++ {
				if !hx.Mine(int(rsv)*16 + int(op)) {
					continue
				}
				for _, masked := range []bool{false, true} {
					for _, key := range keys {
						for _, l := range gridLengths {
							for sideIdx, sideName := range []string{"none", "server", "client", "server+client"} {
								for _, ext := range []bool{false, true} {
									for _, frag := range []bool{false, true} {
										h := ref.Header{Fin: fin, Rsv: rsv, Op: op, Masked: masked, Mask: key, Length: l}
										var broken ref.RuleSet
										var state ws.State
										if sideIdx < 3 {
											st := ref.EndState{Side: ref.Side(sideIdx), Extended: ext, Fragmented: frag}
											broken, state = ref.BrokenRules(h, st), wsState(st)
										} else {
											// Both side flags set: the endpoint "is a server" and "is a
											// client", so the server's and the client's mask rule both apply.
											sv := ref.EndState{Side: ref.SideServer, Extended: ext, Fragmented: frag}
											cl := ref.EndState{Side: ref.SideClient, Extended: ext, Fragmented: frag}
											broken = ref.BrokenRules(h, sv) | ref.BrokenRules(h, cl)
											state = wsState(sv) | wsState(cl)
										}
										c := hdrCase{h.String(), sideName, ext, frag, broken.String()}
										named := -1
										// State bits that name no endpoint property cannot change the verdict.
										for _, undefinedBits := range []ws.State{0, 0x10, 0xF0} {
											n++
											var msg string
											msg, named = checkHeader(h, broken, state|undefinedBits)
											if msg != "" {
												if undefinedBits != 0 {
													msg += fmt.Sprintf(" (state carries the undefined bits %#x)", uint8(undefinedBits))
												}
												hx.Failf(t, c, "%s", msg)
												return
											}
										}
										cnt := broken.Count()
										if cnt == 1 || (cnt == 0 && (sideIdx != 0 || ext || frag)) {
											hx.NonTrivial(hx.Hash("hdr", fin, rsv, op, masked, l, sideIdx, ext, frag), func() interface{} { return c })
										}
										if key == keys[0] {
											hx.Class("hdr/side=" + sideName)
											hx.Class(fmt.Sprintf("hdr/rules-broken=%d", min(cnt, 3)))
											if named >= 0 {
												hx.Class("hdr/error-names=" + ref.Rule(named).String())
											}
											if cnt == 1 {
												hx.Class("hdr/only-broken=" + broken.String())
											}
										}
									}
								}
							}
						}
					}
				}
			}
		}
	}
	hx.EvalN(n)
	hx.Part("CheckHeader: fin x rsv(8) x opcode(16) x masked x key field(2) x length{0,1,124..128,65535,65536,2^31,2^31+125,2^32,2^32+5,2^32+125,2^32+126,2^40,2^62,2^62+125,2^63-1} x side{none,server,client,server+client} x extended x fragmented x undefined state bits{0,0x10,0xF0}", int64(n), true)
}

// ---------------------------------------------------------------------------
// opcode and status-code predicates against literal tables

func TestOpCodePredicates(t *testing.T) {
	// RFC 6455 §5.2: 0 continuation, 1 text, 2 binary, 3-7 reserved non-control,
	// 8 close, 9 ping, A pong, B-F reserved control.
	control := [16]bool{8: true, 9: true, 10: true, 11: true, 12: true, 13: true, 14: true, 15: true}
	reserved := [16]bool{3: true, 4: true, 5: true, 6: true, 7: true, 11: true, 12: true, 13: true, 14: true, 15: true}
	for op := 0; op < 16; op++ {
		c := ws.OpCode(op)
		if c.IsControl() != control[op] || c.IsData() != !control[op] || c.IsReserved() != reserved[op] {
			hx.Failf(t, map[string]int{"opcode": op}, "opcode %#x: IsControl=%v IsData=%v IsReserved=%v, RFC table says control=%v data=%v reserved=%v",
				op, c.IsControl(), c.IsData(), c.IsReserved(), control[op], !control[op], reserved[op])
			return
		}
	}
	// Values that do not fit the 4-bit field have no RFC meaning: only called.
	for op := 16; op < 256; op++ {
		c := ws.OpCode(op)
		_, _, _ = c.IsControl(), c.IsData(), c.IsReserved()
	}
	hx.EvalN(256)
	hx.Class("open/opcode>15")
	hx.Part("OpCode.IsControl/IsData/IsReserved: all 16 opcodes (240 out-of-field byte values only called)", 16, true)
	if ws.OpContinuation != 0 || ws.OpText != 1 || ws.OpBinary != 2 || ws.OpClose != 8 || ws.OpPing != 9 || ws.OpPong != 10 {
		hx.Failf(t, "opcode constants", "opcode constants differ from RFC 6455 §5.2")
	}
}

func between(c, lo, hi int) bool { return lo <= c && c <= hi }

func TestStatusCodePredicates(t *testing.T) {
	n := 0
	for c := 0; c < 65536; c++ {
		if !hx.Mine(c) {
			continue
		}
		n++
		s := ws.StatusCode(c)
		type pr struct {
			name      string
			got, want bool
		}
		checks := []pr{
			{"Empty", s.Empty(), c == 0},
			{"IsNotUsed", s.IsNotUsed(), between(c, 0, 999)},
			{"IsProtocolSpec", s.IsProtocolSpec(), between(c, 1000, 2999)},
			{"IsApplicationSpec", s.IsApplicationSpec(), between(c, 3000, 3999)},
			{"IsPrivateSpec", s.IsPrivateSpec(), between(c, 4000, 4999)},
			{"In{0,999}", s.In(ws.StatusCodeRange{Min: 0, Max: 999}), between(c, 0, 999)},
			{"In{1000,2999}", s.In(ws.StatusCodeRange{Min: 1000, Max: 2999}), between(c, 1000, 2999)},
			{"In{3000,3999}", s.In(ws.StatusCodeRange{Min: 3000, Max: 3999}), between(c, 3000, 3999)},
			{"In{4000,4999}", s.In(ws.StatusCodeRange{Min: 4000, Max: 4999}), between(c, 4000, 4999)},
			{"In{c,c}", s.In(ws.StatusCodeRange{Min: s, Max: s}), true},
			// §7.4.1: 1005, 1006, 1015 MUST NOT be set as a status code in a Close frame
			{"IsProtocolReserved", s.IsProtocolReserved(), c == 1005 || c == 1006 || c == 1015},
		}
		// §7.4.1 defines 1000-1003, 1005-1011 and 1015; 1004 ("reserved") and
		// 1012-1014 (registered later) are left open.
		if c == 1004 || between(c, 1012, 1014) {
			hx.Class("open/IsProtocolDefined-1004-or-1012..1014")
		} else {
			checks = append(checks, pr{"IsProtocolDefined", s.IsProtocolDefined(), between(c, 1000, 1003) || between(c, 1005, 1011) || c == 1015})
		}
		for _, k := range checks {
			if k.got != k.want {
				hx.Failf(t, map[string]int{"code": c}, "StatusCode(%d).%s = %v, RFC 6455 §7.4 says %v", c, k.name, k.got, k.want)
				return
			}
		}
	}
	hx.EvalN(n)
	hx.Part("StatusCode predicates: all 65536 codes", int64(n), true)
	lit := []struct {
		got  ws.StatusCode
		want int
	}{
		{ws.StatusNormalClosure, 1000}, {ws.StatusGoingAway, 1001}, {ws.StatusProtocolError, 1002}, {ws.StatusUnsupportedData, 1003},
		{ws.StatusNoMeaningYet, 1004}, {ws.StatusNoStatusRcvd, 1005}, {ws.StatusAbnormalClosure, 1006}, {ws.StatusInvalidFramePayloadData, 1007},
		{ws.StatusPolicyViolation, 1008}, {ws.StatusMessageTooBig, 1009}, {ws.StatusMandatoryExt, 1010}, {ws.StatusInternalServerError, 1011},
		{ws.StatusTLSHandshake, 1015},
	}
	for _, l := range lit {
		if int(l.got) != l.want {
			hx.Failf(t, l.want, "status constant is %d, RFC 6455 §7.4.1 says %d", l.got, l.want)
		}
	}
	if ws.MaxControlFramePayloadSize != 125 {
		hx.Failf(t, "MaxControlFramePayloadSize", "MaxControlFramePayloadSize = %d", ws.MaxControlFramePayloadSize)
	}
}

// ---------------------------------------------------------------------------
// close payload: parse + check

type reason struct {
	s     string
	valid bool // hand-labelled (RFC 3629), cross-checked against unicode/utf8 below
	what  string
}

var reasons = []reason{
	{"", true, "empty"},
	{"bye", true, "ascii"},
	{"going away: maintenance window", true, "ascii sentence"},
	{"\x00", true, "NUL"},
	{"\x7f", true, "DEL"},
	{"h\xc3\xa9llo", true, "2-byte é"},
	{"\xe2\x82\xac", true, "3-byte €"},
	{"\xf0\x9f\x98\x80", true, "4-byte U+1F600"},
	{"\xed\x9f\xbf", true, "U+D7FF (last before surrogates)"},
	{"\xee\x80\x80", true, "U+E000 (first after surrogates)"},
	{"\xef\xbf\xbf", true, "U+FFFF"},
	{"\xf4\x8f\xbf\xbf", true, "U+10FFFF"},
	{"\xef\xbf\xbd", true, "U+FFFD (the replacement character, correctly encoded)"},
	{"bad \xef\xbf\xbd char", true, "U+FFFD inside ascii"},
	{"\xef\xbf\xbe", true, "U+FFFE (noncharacter, valid UTF-8)"},
	{"\xc2\x80", true, "U+0080 (first 2-byte)"},
	{"\xdf\xbf\xe0\xa0\x80", true, "U+07FF U+0800 (2/3-byte edge)"},
	{"\xf0\x90\x80\x80", true, "U+10000 (first 4-byte)"},
	{strings.Repeat("r", 123), true, "123 ascii bytes"},
	{strings.Repeat("\xe2\x82\xac", 41), true, "41 x €  (123 bytes)"},
	{"\xff", false, "0xFF"},
	{"\x80", false, "lone continuation byte"},
	{"\xc3", false, "truncated 2-byte"},
	{"\xe2\x82", false, "truncated 3-byte"},
	{"\xf0\x9f\x98", false, "truncated 4-byte"},
	{"abc\xc3", false, "ascii then truncated 2-byte"},
	{"ok\xffok", false, "0xFF between ascii"},
	{"\xc3\x28", false, "bad continuation"},
	{"\xc0\xaf", false, "overlong 2-byte '/'"},
	{"\xc1\xbf", false, "overlong 2-byte"},
	{"\xe0\x80\xaf", false, "overlong 3-byte"},
	{"\xf0\x80\x80\xaf", false, "overlong 4-byte"},
	{"\xed\xa0\x80", false, "surrogate U+D800"},
	{"\xed\xbf\xbf", false, "surrogate U+DFFF"},
	{"\xf4\x90\x80\x80", false, "above U+10FFFF"},
	{"\xf8\x88\x80\x80\x80", false, "5-byte form"},
	{strings.Repeat("x", 122) + "\xc3", false, "122 ascii + truncated 2-byte at the end"},
}

// edgeCodes: both sides of every boundary of the accept/reject/open sets.
var edgeCodes = map[int]bool{0: true, 999: true, 1000: true, 1003: true, 1004: true, 1005: true, 1006: true, 1007: true, 1011: true, 1012: true,
	1014: true, 1015: true, 1016: true, 2999: true, 3000: true, 3999: true, 4000: true, 4999: true, 5000: true, 65535: true}

type closeCase struct {
	Code    int    `json:"code"`
	Reason  string `json:"reason_hex"`
	What    string `json:"reason"`
	Verdict string `json:"expected"`
}

var verdictNames = [...]string{"accept", "reject", "open"}

// beParse is the independent close-body parser: nothing below two bytes,
// else a big-endian code and the rest.
func beParse(p []byte) (int, string) {
	if len(p) < 2 {
		return 0, ""
	}
	return int(p[0])<<8 | int(p[1]), string(p[2:])
}

// checkClose runs one close payload through both parsers and the check.
// verdict is the expected outcome for (code, reason).
func checkClose(code int, rs string, verdict ref.CloseVerdict) string {
	p := append([]byte{byte(code >> 8), byte(code)}, rs...)
	c1, r1 := ws.ParseCloseFrameData(p)
	c2, r2 := ws.ParseCloseFrameDataUnsafe(p)
	if int(c1) != code || r1 != rs {
		return fmt.Sprintf("ParseCloseFrameData(%x) = (%d, %q), payload holds code %d and reason %q", p, c1, r1, code, rs)
	}
	if int(c2) != code || r2 != rs {
		return fmt.Sprintf("ParseCloseFrameDataUnsafe(%x) = (%d, %q), payload holds code %d and reason %q", p, c2, r2, code, rs)
	}
	err := ws.CheckCloseFrameData(c1, r1)
	switch verdict {
	case ref.CloseAccept:
		if err != nil {
			return fmt.Sprintf("CheckCloseFrameData(%d, %q) = %v, must be accepted", code, rs, err)
		}
	case ref.CloseReject:
		if err == nil {
			return fmt.Sprintf("CheckCloseFrameData(%d, %q) accepted, must be refused", code, rs)
		}
	}
	return ""
}

// All 65536 codes x the reason table.
func TestCloseCodesAllReasons(t *testing.T) {
	for _, r := range reasons {
		if utf8.ValidString(r.s) != r.valid {
			t.Fatalf("harness table: reason %q (%s) is labelled valid=%v but unicode/utf8 disagrees", r.s, r.what, r.valid)
		}
	}
	n := 0
	for code := 0; code < 65536; code++ {
		if !hx.Mine(code) {
			continue
		}
		cv := ref.CloseCode(uint16(code))
		for ri, r := range reasons {
			n++
			v := cv
			if !r.valid {
				v = ref.CloseReject
			}
			// the shared model must agree with the literal labelling
			if pv := ref.ClosePayload(append([]byte{byte(code >> 8), byte(code)}, r.s...)); pv != v {
				t.Fatalf("harness: ref.ClosePayload=%v, table says %v for code %d reason %q", pv, v, code, r.s)
			}
			cc := closeCase{code, fmt.Sprintf("%x", r.s), r.what, verdictNames[v]}
			if msg := checkClose(code, r.s, v); msg != "" {
				hx.Failf(t, cc, "%s", msg)
				return
			}
			if edgeCodes[code] {
				hx.NonTrivial(hx.Hash("close", code, ri), func() interface{} { return cc })
			}
		}
		hx.Class("close/code-" + verdictNames[cv])
	}
	hx.EvalN(n)
	hx.Part(fmt.Sprintf("close check: all 65536 status codes x %d literal reasons (valid and invalid UTF-8)", len(reasons)), int64(n), true)
}

// Payloads shorter than two bytes carry no code.
func TestParseShort(t *testing.T) {
	cases := [][]byte{nil, {}}
	for b := 0; b < 256; b++ {
		cases = append(cases, []byte{byte(b)})
	}
	for _, p := range cases {
		c1, r1 := ws.ParseCloseFrameData(p)
		c2, r2 := ws.ParseCloseFrameDataUnsafe(p)
		if c1 != 0 || r1 != "" || c2 != 0 || r2 != "" || !c1.Empty() {
			hx.Failf(t, fmt.Sprintf("%x", p), "payload %x (shorter than 2 bytes) parsed as (%d,%q)/(%d,%q), want no code", p, c1, r1, c2, r2)
			return
		}
	}
	hx.EvalN(len(cases))
	hx.Part("ParseCloseFrameData(+Unsafe): every payload shorter than 2 bytes", int64(len(cases)), true)
}

// Random payloads: arbitrary bytes / valid text as reason, any code.
func TestCloseRandom(t *testing.T) {
	hx.Check(t, 10, func(t *rapid.T) {
		var code int
		switch rapid.IntRange(0, 2).Draw(t, "codeKind") {
		case 0:
			code = rapid.IntRange(0, 65535).Draw(t, "code")
		case 1:
			code = rapid.IntRange(990, 1020).Draw(t, "code")
		default:
			code = rapid.SampledFrom([]int{0, 999, 1000, 1003, 1004, 1005, 1006, 1007, 1011, 1012, 1014, 1015, 1016, 2999, 3000, 3999, 4000, 4999, 5000, 65535}).Draw(t, "code")
		}
		var rs []byte
		kind := rapid.IntRange(0, 3).Draw(t, "reasonKind")
		switch kind {
		case 0:
			rs = gen.ValidText(t, "text", 123)
		case 1:
			rs = gen.ValidText(t, "longtext", 400)
		case 2:
			rs = gen.Bytes(t, "bytes", 123)
		case 3: // valid text with one byte damaged or cut
			rs = gen.ValidText(t, "text", 60)
			if len(rs) > 0 {
				i := rapid.IntRange(0, len(rs)-1).Draw(t, "at")
				if rapid.Bool().Draw(t, "cut") {
					rs = rs[:i]
				} else {
					rs = append([]byte(nil), rs...)
					rs[i] = rapid.Byte().Draw(t, "damage")
				}
			}
		}
		p := append([]byte{byte(code >> 8), byte(code)}, rs...)
		v := ref.ClosePayload(p)
		hx.Eval()
		hx.Part("close check: random codes x random reasons (valid text, arbitrary bytes, damaged text; up to 400 bytes)", 1, false)
		hx.Class(fmt.Sprintf("close-random/reasonKind=%d/utf8=%v/%s", kind, utf8.Valid(rs), verdictNames[v]))
		if edgeCodes[code] && len(rs) > 0 {
			hx.NonTrivial(hx.Hash("close-random", code, rs), func() interface{} {
				return closeCase{code, fmt.Sprintf("%x", rs), "random", verdictNames[v]}
			})
		}
		if msg := checkClose(code, string(rs), v); msg != "" {
			t.Fatalf("%s", msg)
		}
	})
}

// ---------------------------------------------------------------------------
// close bodies built by the library

// wantCropped returns the reasons a body built from rs may parse back to:
// the first 123 bytes; when that cut falls inside a multi-byte character of a
// valid UTF-8 reason, cropping at the character boundary before it is left open.
func wantCropped(rs string) (exact string, alt string, hasAlt bool) {
	if len(rs) <= 123 {
		return rs, "", false
	}
	exact = rs[:123]
	if utf8.ValidString(rs) && !utf8.RuneStart(rs[123]) {
		i := 123
		for i > 0 && !utf8.RuneStart(rs[i]) {
			i--
		}
		return exact, rs[:i], true
	}
	return exact, "", false
}

func checkBody(code int, rs string) string {
	body := ws.NewCloseFrameBody(ws.StatusCode(code), rs)
	if len(body) > 125 {
		return fmt.Sprintf("NewCloseFrameBody(%d, %d-byte reason) is %d bytes long", code, len(rs), len(body))
	}
	exact, alt, hasAlt := wantCropped(rs)
	gc, gr := beParse(body)
	if len(body) < 2 {
		return fmt.Sprintf("NewCloseFrameBody(%d, %d-byte reason) is %d bytes long: no room for the code", code, len(rs), len(body))
	}
	ok := gc == code && (gr == exact || (hasAlt && gr == alt))
	if !ok {
		return fmt.Sprintf("NewCloseFrameBody(%d, %q) = %x: holds code %d and reason %q, want code %d and reason %q", code, rs, body, gc, gr, code, exact)
	}
	if hasAlt {
		hx.Class("open/crop-inside-multibyte-character")
	}
	c1, r1 := ws.ParseCloseFrameData(body)
	c2, r2 := ws.ParseCloseFrameDataUnsafe(body)
	if int(c1) != gc || r1 != gr || int(c2) != gc || r2 != gr {
		return fmt.Sprintf("body %x parses back as (%d,%q) / unsafe (%d,%q), it holds (%d,%q)", body, c1, r1, c2, r2, gc, gr)
	}
	return ""
}

// reasonOf builds an n-byte reason of the given kind; kinds 1..3 are valid
// UTF-8 made of 2-, 3- and 4-byte characters after `shift` ASCII bytes, so that
// the 123-byte cut falls on every position inside a character.
func reasonOf(n, kind, shift int) string {
	var unit string
	switch kind {
	case 0:
		b := make([]byte, n)
		for i := range b {
			b[i] = byte('a' + i%26)
		}
		return string(b)
	case 1:
		unit = "\xc3\xa9"
	case 2:
		unit = "\xe2\x82\xac"
	default:
		unit = "\xf0\x9f\x98\x80"
	}
	s := strings.Repeat("s", min(shift, n))
	for len(s)+len(unit) <= n {
		s += unit
	}
	for len(s) < n {
		s += "~"
	}
	return s
}

func TestNewCloseFrameBody(t *testing.T) {
	n := 0
	// every code x lengths around the 123-byte limit
	for code := 0; code < 65536; code++ {
		if !hx.Mine(code) {
			continue
		}
		for _, l := range []int{0, 1, 2, 122, 123, 124, 125, 126, 300} {
			n++
			rs := reasonOf(l, 0, 0)
			if msg := checkBody(code, rs); msg != "" {
				hx.Failf(t, map[string]interface{}{"code": code, "reason_len": l}, "%s", msg)
				return
			}
			if edgeCodes[code] && l >= 122 {
				hx.NonTrivial(hx.Hash("body", code, l, 0), func() interface{} {
					return map[string]interface{}{"api": "NewCloseFrameBody", "code": code, "reason_len": l, "reason_kind": "ascii"}
				})
			}
		}
	}
	hx.Part("NewCloseFrameBody: all 65536 codes x reason lengths {0,1,2,122..126,300}", int64(n), true)
	// every length 0..300 x reason kinds x a few codes
	m := 0
	for l := 0; l <= 300; l++ {
		if !hx.Mine(l) {
			continue
		}
		for kind := 0; kind < 4; kind++ {
			for shift := 0; shift < 4; shift++ {
				for _, code := range []int{0, 1000, 1005, 4999, 65535} {
					m++
					rs := reasonOf(l, kind, shift)
					if len(rs) != l {
						t.Fatalf("harness: reasonOf(%d,%d,%d) has %d bytes", l, kind, shift, len(rs))
					}
					if msg := checkBody(code, rs); msg != "" {
						hx.Failf(t, map[string]interface{}{"code": code, "reason_hex": fmt.Sprintf("%x", rs)}, "%s", msg)
						return
					}
					if l >= 122 && l <= 127 {
						hx.NonTrivial(hx.Hash("body", code, l, kind, shift), func() interface{} {
							return map[string]interface{}{"api": "NewCloseFrameBody", "code": code, "reason_len": l, "reason_kind": kind, "ascii_prefix": shift}
						})
					}
				}
			}
		}
	}
	hx.Part("NewCloseFrameBody: reason lengths 0..300 x {ascii, 2-, 3-, 4-byte characters} x 4 phase shifts x 5 codes", int64(m), true)
	hx.EvalN(n + m)
}

// The close frames the library compiles at start-up.
func TestCompiledCloseFrames(t *testing.T) {
	tab := []struct {
		name string
		b    []byte
		code int // -1: empty body
	}{
		{"CompiledClose", ws.CompiledClose, -1},
		{"CompiledCloseNormalClosure", ws.CompiledCloseNormalClosure, 1000},
		{"CompiledCloseGoingAway", ws.CompiledCloseGoingAway, 1001},
		{"CompiledCloseProtocolError", ws.CompiledCloseProtocolError, 1002},
		{"CompiledCloseUnsupportedData", ws.CompiledCloseUnsupportedData, 1003},
		{"CompiledCloseNoMeaningYet", ws.CompiledCloseNoMeaningYet, 1004},
		{"CompiledCloseInvalidFramePayloadData", ws.CompiledCloseInvalidFramePayloadData, 1007},
		{"CompiledClosePolicyViolation", ws.CompiledClosePolicyViolation, 1008},
		{"CompiledCloseMessageTooBig", ws.CompiledCloseMessageTooBig, 1009},
		{"CompiledCloseMandatoryExt", ws.CompiledCloseMandatoryExt, 1010},
		{"CompiledCloseInternalServerError", ws.CompiledCloseInternalServerError, 1011},
		{"CompiledCloseTLSHandshake", ws.CompiledCloseTLSHandshake, 1015},
	}
	for _, e := range tab {
		want := []byte{0x88, 0x00}
		if e.code >= 0 {
			want = []byte{0x88, 0x02, byte(e.code >> 8), byte(e.code)}
		}
		if !bytes.Equal(e.b, want) {
			hx.Failf(t, e.name, "ws.%s = %x, an unmasked final close frame with code %d is %x", e.name, e.b, e.code, want)
			return
		}
	}
	hx.EvalN(len(tab))
	hx.Part("compiled close frames", int64(len(tab)), true)
}

// Random code/reason pairs for NewCloseFrameBody and PutCloseFrameBody.
func TestCloseBodyRandom(t *testing.T) {
	hx.Check(t, 10, func(t *rapid.T) {
		code := rapid.IntRange(0, 65535).Draw(t, "code")
		var rs []byte
		kind := rapid.IntRange(0, 2).Draw(t, "reasonKind")
		switch kind {
		case 0:
			rs = gen.ValidText(t, "text", 300)
		case 1:
			rs = gen.Bytes(t, "bytes", 300)
		case 2: // right around the limit
			rs = gen.ValidText(t, "text", 130)
			if len(rs) < 118 {
				rs = append(bytes.Repeat([]byte("p"), 118-len(rs)+rapid.IntRange(0, 6).Draw(t, "pad")), rs...)
			}
		}
		hx.Eval()
		hx.Part("NewCloseFrameBody / PutCloseFrameBody: random codes x random reasons of 0..300 bytes", 1, false)
		lc := "<=123"
		if len(rs) > 123 {
			lc = ">123"
		}
		hx.Class(fmt.Sprintf("body-random/reasonKind=%d/len%s", kind, lc))
		if len(rs) >= 120 && len(rs) <= 130 {
			hx.NonTrivial(hx.Hash("body-random", code, rs), func() interface{} {
				return map[string]interface{}{"api": "NewCloseFrameBody", "code": code, "reason_hex": fmt.Sprintf("%x", rs)}
			})
		}
		if msg := checkBody(code, string(rs)); msg != "" {
			t.Fatalf("%s", msg)
		}
		// PutCloseFrameBody into a buffer that is large enough (it does not crop)
		extra := rapid.IntRange(0, 5).Draw(t, "extra")
		buf := bytes.Repeat([]byte{0xEE}, 2+len(rs)+extra)
		ws.PutCloseFrameBody(buf, ws.StatusCode(code), string(rs))
		gc, gr := beParse(buf[:2+len(rs)])
		if gc != code || gr != string(rs) {
			t.Fatalf("PutCloseFrameBody(%d, %q) wrote %x: holds (%d, %q)", code, rs, buf[:2+len(rs)], gc, gr)
		}
	})
}
