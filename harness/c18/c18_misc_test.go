package c18

import (
	"bytes"
	"errors"
	"fmt"
	"io"
	"strings"
	"testing"
	"unicode/utf8"

	"github.com/gobwas/httphead"
	"github.com/gobwas/ws"
	"github.com/gobwas/ws/wsflate"
	"github.com/gobwas/ws/wsutil"
	"pgregory.net/rapid"

	"verif/harness/gen"
	"verif/harness/hx"
	"verif/harness/ref"
	"verif/harness/tx"
)

// ---------------------------------------------------------------------------
// CipherReader / CipherWriter

// TestCipherReset: after Reset(src, mask) at any stream offset the mask reader
// and writer produce what new ones produce (and what RFC 6455 §5.3 says).
func TestCipherReset(t *testing.T) {
	hx.Check(t, 3, func(t *rapid.T) {
		data1 := gen.Bytes(t, "data1", 40)
		data2 := gen.Bytes(t, "data2", 120)
		k1, k2 := gen.Key(t, "key1"), gen.Key(t, "key2")
		used := rapid.IntRange(0, len(data1)).Draw(t, "used")
		chunks := gen.Chunks(t, "chunks")
		bufs := rapid.SliceOfN(rapid.IntRange(1, 17), 1, 5).Draw(t, "bufs")
		hx.Eval()
		want := ref.Mask(data2, k2, 0)

		// reader
		cr := wsutil.NewCipherReader(tx.NewSrc(data1, nil), k1)
		io.ReadFull(cr, make([]byte, used))
		cr.Reset(tx.NewSrc(data2, chunks), k2)
		fresh := wsutil.NewCipherReader(tx.NewSrc(data2, chunks), k2)
		readAll := func(r io.Reader) ([]byte, []string) {
			var all []byte
			var log []string
			for i := 0; i < 10000; i++ {
				p := make([]byte, bufs[i%len(bufs)])
				n, err := r.Read(p)
				all = append(all, p[:n]...)
				log = append(log, fmt.Sprintf("%d/%v", n, err))
				if err != nil {
					break
				}
			}
			return all, log
		}
		ga, la := readAll(cr)
		gb, lb := readAll(fresh)
		if !bytes.Equal(ga, gb) || strings.Join(la, " ") != strings.Join(lb, " ") {
			t.Fatalf("CipherReader after Reset at offset %d read %x (%v), a new one %x (%v)", used, ga, la, gb, lb)
		}
		if !bytes.Equal(gb, want) {
			t.Fatalf("new CipherReader output %x differs from the §5.3 XOR %x", gb, want)
		}

		// writer
		rec0 := tx.NewRec()
		cw := wsutil.NewCipherWriter(rec0, k1)
		cw.Write(data1[:used])
		recA, recB := tx.NewRec(), tx.NewRec()
		cw.Reset(recA, k2)
		freshW := wsutil.NewCipherWriter(recB, k2)
		pieces := gen.Split(t, "pieces", data2, 5)
		for i, p := range pieces {
			na, ea := cw.Write(p)
			nb, eb := freshW.Write(p)
			if na != nb || (ea != nil) != (eb != nil) {
				t.Fatalf("CipherWriter after Reset: write %d returned %d/%v, a new one %d/%v", i, na, ea, nb, eb)
			}
		}
		if !bytes.Equal(recA.Bytes(), recB.Bytes()) {
			t.Fatalf("CipherWriter after Reset at offset %d wrote %x, a new one %x", used, recA.Bytes(), recB.Bytes())
		}
		if !bytes.Equal(recB.Bytes(), want) {
			t.Fatalf("new CipherWriter output %x differs from the §5.3 XOR %x", recB.Bytes(), want)
		}

		hx.Class(fmt.Sprintf("cipher/offset-mod-4=%d", used%4))
		if used%4 != 0 && len(data2) > 0 {
			hx.NonTrivial(hx.Hash("cipher", used%4, len(data2) > 4, k1 == k2, gen.ChunkClass(chunks)), func() interface{} {
				return map[string]interface{}{"object": "wsutil.CipherReader/CipherWriter", "offset_before_reset": used, "key_before": fmt.Sprintf("%x", k1), "key_after": fmt.Sprintf("%x", k2), "data_after": fmt.Sprintf("%x", data2)}
			})
		}
	})
}

// ---------------------------------------------------------------------------
// UTF8Reader

var utf8Pieces = []string{"a", "z", "é", "€", "漢", "😀", "\U0010ffff", "\xc3", "\xe2\x82", "\xf0\x9f", "\xf0\x9f\x98", "\xff", "\xc0\xaf", "\xed\xa0\x80", "\x80"}

func drawUTF8ish(t *rapid.T, label string, max int) []byte {
	var b []byte
	n := rapid.IntRange(0, max).Draw(t, label+".n")
	for i := 0; i < n; i++ {
		b = append(b, rapid.SampledFrom(utf8Pieces).Draw(t, label+".p")...)
	}
	return b
}

const sigUTF8Accepted = "C18/utf8reader-reset-keeps-accepted"
const sigExtFinalFragment = "C18/reader-extension-error-on-final-fragment-stays-fragmented"

type u8res struct {
	N        int
	Err      string
	Valid    bool
	Accepted int // -1: not compared
}

// runUTF8 reads src to the end with the buffer plan. Accepted() is recorded
// only after reads that did not reject: a rejecting Read returns the accepted
// count itself and leaves the field of earlier reads in place.
func runUTF8(u *wsutil.UTF8Reader, bufs []int) []u8res {
	var out []u8res
	for i := 0; i < 10000; i++ {
		p := make([]byte, bufs[i%len(bufs)])
		n, err := u.Read(p)
		r := u8res{N: n, Valid: u.Valid(), Accepted: -1}
		switch err {
		case nil:
		case io.EOF:
			r.Err = "EOF"
		case wsutil.ErrInvalidUTF8:
			r.Err = "invalid"
		default:
			r.Err = err.Error()
		}
		if err != wsutil.ErrInvalidUTF8 || !hx.Known(sigUTF8Accepted) {
			// after every read that follows the reset, a rejecting one included
			r.Accepted = u.Accepted()
		} else {
			hx.Exclude(sigUTF8Accepted)
		}
		out = append(out, r)
		if err != nil {
			break // a rejected stream is not used further
		}
	}
	return out
}

// TestUTF8ReaderReset: a UTF8Reader reset in the middle of a multi-byte
// sequence or after a rejection validates the next stream as a new one does.
func TestUTF8ReaderReset(t *testing.T) {
	hx.Check(t, 3, func(t *rapid.T) {
		data1 := drawUTF8ish(t, "data1", 6)
		data2 := drawUTF8ish(t, "data2", 10)
		bufs1 := rapid.SliceOfN(rapid.IntRange(1, 6), 1, 3).Draw(t, "bufs1")
		bufs2 := rapid.SliceOfN(rapid.IntRange(1, 9), 1, 4).Draw(t, "bufs2")
		chunks := gen.Chunks(t, "chunks")
		hx.Eval()

		u := wsutil.NewUTF8Reader(tx.NewSrc(data1, nil))
		r1 := runUTF8(u, bufs1)
		validBefore := u.Valid()
		rejected := len(r1) > 0 && r1[len(r1)-1].Err == "invalid"
		u.Reset(tx.NewSrc(data2, chunks))
		fresh := wsutil.NewUTF8Reader(tx.NewSrc(data2, chunks))
		if u.Valid() != fresh.Valid() {
			t.Fatalf("Valid() right after Reset = %v, new reader %v (stream before: %q)", u.Valid(), fresh.Valid(), data1)
		}
		ra, rb := runUTF8(u, bufs2), runUTF8(fresh, bufs2)
		if fmt.Sprint(ra) != fmt.Sprint(rb) {
			t.Fatalf("UTF8Reader after Reset (stream before %q, valid=%v) on %q: %+v; new reader: %+v", data1, validBefore, data2, ra, rb)
		}
		// independent anchor: the fresh reader agrees with unicode/utf8
		last := rb[len(rb)-1]
		if ok := utf8.Valid(data2); (last.Err == "EOF" && last.Valid) != ok {
			t.Fatalf("new UTF8Reader verdict on %q: %+v, unicode/utf8 says valid=%v", data2, last, ok)
		}
		state := "accepting"
		switch {
		case rejected:
			state = "rejected"
		case !validBefore:
			state = "mid-sequence"
		}
		hx.Class("utf8/state-before-reset/" + state)
		if state != "accepting" && len(data2) > 0 {
			hx.NonTrivial(hx.Hash("utf8", state, string(data1), utf8.Valid(data2), len(data2) > 3), func() interface{} {
				return map[string]interface{}{"object": "wsutil.UTF8Reader", "stream_before": fmt.Sprintf("%q", data1), "state_before_reset": state, "stream_after": fmt.Sprintf("%q", data2), "reads_after": fmt.Sprint(ra)}
			})
		}
	})
}

// ---------------------------------------------------------------------------
// wsflate.Extension

var offers = []string{
	"permessage-deflate",
	"permessage-deflate; client_max_window_bits",
	"permessage-deflate; client_max_window_bits=10",
	"permessage-deflate; client_max_window_bits=15; server_max_window_bits=12",
	"permessage-deflate; server_max_window_bits=9",
	"permessage-deflate; server_max_window_bits=15",
	"permessage-deflate; server_no_context_takeover",
	"permessage-deflate; client_no_context_takeover",
	"permessage-deflate; server_no_context_takeover; client_no_context_takeover; client_max_window_bits=8",
	"permessage-deflate; server_max_window_bits=7",
	"permessage-deflate; server_max_window_bits",
	"permessage-deflate; client_no_context_takeover=1",
	"permessage-deflate; unknown_parameter",
	"permessage-deflate; client_max_window_bits; client_max_window_bits",
	"x-webkit-deflate-frame",
	"permessage-bzip",
}

func parseOffer(s string) httphead.Option {
	opts, ok := httphead.ParseOptions([]byte(s), nil)
	if !ok || len(opts) != 1 {
		panic("harness: cannot parse offer " + s)
	}
	return opts[0]
}

func optString(o httphead.Option) string {
	if o.Size() == 0 {
		return ""
	}
	var b bytes.Buffer
	httphead.WriteOptions(&b, []httphead.Option{o})
	return b.String()
}

func runExt(e *wsflate.Extension, hs []string) []string {
	var out []string
	for _, h := range hs {
		acc, err := e.Negotiate(parseOffer(h))
		p, ok := e.Accepted()
		out = append(out, fmt.Sprintf("answer=%q err=%v accepted=%v params=%+v", optString(acc), err != nil, ok, p))
	}
	p, ok := e.Accepted()
	return append(out, fmt.Sprintf("final accepted=%v params=%+v", ok, p))
}

// TestExtensionReset: a negotiator that has accepted, declined or failed on an
// offer answers the next handshake, after Reset, exactly as a new one.
func TestExtensionReset(t *testing.T) {
	bits := []wsflate.WindowBits{0, 0, 8, 9, 10, 12, 15}
	hx.Check(t, 3, func(t *rapid.T) {
		params := wsflate.Parameters{
			ServerNoContextTakeover: rapid.Bool().Draw(t, "snct"),
			ClientNoContextTakeover: rapid.Bool().Draw(t, "cnct"),
			ServerMaxWindowBits:     rapid.SampledFrom(bits).Draw(t, "smwb"),
			ClientMaxWindowBits:     rapid.SampledFrom(bits).Draw(t, "cmwb"),
		}
		h1 := rapid.SliceOfN(rapid.SampledFrom(offers), 0, 3).Draw(t, "h1")
		h2 := rapid.SliceOfN(rapid.SampledFrom(offers), 0, 3).Draw(t, "h2")
		// The exported Parameters are the negotiator's configuration; the
		// application may change them between upgrades (after Reset).
		params1 := params
		if rapid.Bool().Draw(t, "change-parameters") {
			params1 = wsflate.Parameters{
				ServerNoContextTakeover: rapid.Bool().Draw(t, "snct1"),
				ClientNoContextTakeover: rapid.Bool().Draw(t, "cnct1"),
				ServerMaxWindowBits:     rapid.SampledFrom(bits).Draw(t, "smwb1"),
				ClientMaxWindowBits:     rapid.SampledFrom(bits).Draw(t, "cmwb1"),
			}
		}
		hx.Eval()
		e := &wsflate.Extension{Parameters: params1}
		r1 := runExt(e, h1)
		_, acceptedBefore := e.Accepted()
		e.Reset()
		e.Parameters = params
		if params1 != params {
			hx.Class("extension/parameters-changed-after-reset")
		}
		fresh := &wsflate.Extension{Parameters: params}
		ra, rb := runExt(e, h2), runExt(fresh, h2)
		if strings.Join(ra, "\n") != strings.Join(rb, "\n") {
			t.Fatalf("Extension{%+v} (before the Reset: offers %q with Parameters %+v) answered %q:\n%s\nnew negotiator:\n%s", params, h1, params1, h2, strings.Join(ra, "\n"), strings.Join(rb, "\n"))
		}
		hx.Class(fmt.Sprintf("extension/accepted-before-reset=%v", acceptedBefore))
		if len(h1) > 0 && len(h2) > 0 {
			hx.NonTrivial(hx.Hash("ext", fmt.Sprint(params), strings.Join(h1, "|"), strings.Join(h2, "|")), func() interface{} {
				return map[string]interface{}{"object": "wsflate.Extension", "parameters": fmt.Sprintf("%+v", params), "offers_before": h1, "results_before": r1, "offers_after": h2, "results_after": ra}
			})
		}
	})
}

// ---------------------------------------------------------------------------
// wsutil.Reader across consecutive messages

type rdMode struct {
	Kind    string `json:"kind"` // full | partial-discard | discard
	Buf     int    `json:"buf"`
	Reads   int    `json:"reads,omitempty"`
	PreRead bool   `json:"pre_read,omitempty"` // call Read once before NextFrame (documented: ErrNoFrameAdvance)
}

type rdCfg struct {
	Client    bool `json:"client"`
	CheckUTF8 bool `json:"check_utf8"`
	Ext       bool `json:"recv_extension"`
	OnInterm  bool `json:"on_intermediate"`
	SkipCheck bool `json:"skip_header_check"`
	// OnContinuation callback: records every continuation frame; fails (after
	// reading CbRead payload bytes, -1 = all) on the continuation frame whose
	// payload starts at absolute stream offset FailPos (-1: never fails).
	OnCont  bool `json:"on_continuation"`
	FailPos int  `json:"on_continuation_fails_at_offset"`
	CbRead  int  `json:"on_continuation_reads"`
	// RejectPos: a RecvExtensionFunc returns an error for the frame whose
	// payload starts at this absolute stream offset (-1: never).
	RejectPos int `json:"recv_extension_rejects_frame_at_offset"`
}

var errExt = errors.New("harness: receive extension rejects this frame")

var errCont = errors.New("harness: OnContinuation rejects this fragment")

// rdUnit is everything observable while one top-level unit (a message or a
// control frame outside a message) is consumed.
type rdUnit struct {
	Pre        string
	Hdr        string
	HdrErr     string
	Compressed bool
	Reads      []string
	Data       []byte
	End        string
	Interm     []string
	Stop       bool
	// CbErr: OnContinuation failed during a Read and the application then
	// called Discard(); the next unit starts at the true end of this message.
	CbErr bool
}

func (u rdUnit) String() string {
	return fmt.Sprintf("pre=%q hdr=%s hdrErr=%q compressed=%v reads=%v data=%x end=%q intermediate=%v", u.Pre, u.Hdr, u.HdrErr, u.Compressed, u.Reads, u.Data, u.End, u.Interm)
}

// rdPos is the reader's current source object and the absolute stream offset
// of that object's first byte; the callbacks look positions up through it, so
// that the source can be replaced between two messages.
type rdPos struct {
	src  *tx.Src
	base int
}

func (p *rdPos) abs() int { return p.base + p.src.Pos }

type rdInst struct {
	r   *wsutil.Reader
	ps  *rdPos
	ms  *wsflate.MessageState
	log *[]string
}

// swapSource gives the reader another source object holding the rest of the
// stream from absolute offset at (the exported Source field is the
// application's to set between messages).
func (in rdInst) swapSource(wire []byte, at int) {
	in.ps.src, in.ps.base = tx.NewSrc(wire[at:], nil), at
	in.r.Source = in.ps.src
}

func newRd(cfg rdCfg, data []byte, base int) rdInst {
	src := tx.NewSrc(data, nil)
	ps := &rdPos{src, base}
	st := ws.StateServerSide
	if cfg.Client {
		st = ws.StateClientSide
	}
	in := rdInst{ps: ps, log: new([]string)}
	r := &wsutil.Reader{Source: src, State: st, CheckUTF8: cfg.CheckUTF8, SkipHeaderCheck: cfg.SkipCheck}
	if cfg.Ext {
		in.ms = new(wsflate.MessageState)
		r.State = r.State.Set(ws.StateExtended)
		r.Extensions = []wsutil.RecvExtension{in.ms}
	}
	if cfg.OnInterm {
		log := in.log
		r.OnIntermediate = func(h ws.Header, rd io.Reader) error {
			p, err := io.ReadAll(rd)
			*log = append(*log, fmt.Sprintf("op=%#x len=%d payload=%x err=%v", byte(h.OpCode), h.Length, p, err))
			return nil
		}
	}
	if cfg.RejectPos >= 0 {
		r.Extensions = append(r.Extensions, wsutil.RecvExtensionFunc(func(h ws.Header) (ws.Header, error) {
			if ps.abs() == cfg.RejectPos {
				return h, errExt
			}
			return h, nil
		}))
	}
	if cfg.OnCont {
		log := in.log
		r.OnContinuation = func(h ws.Header, rd io.Reader) error {
			at := ps.abs()
			*log = append(*log, fmt.Sprintf("cont fin=%v len=%d at=%d", h.Fin, h.Length, at))
			if at != cfg.FailPos {
				return nil
			}
			switch {
			case cfg.CbRead < 0:
				io.Copy(io.Discard, rd)
			case cfg.CbRead > 0:
				io.ReadFull(rd, make([]byte, cfg.CbRead))
			}
			return errCont
		}
	}
	in.r = r
	return in
}

func errName(err error) string {
	switch err {
	case nil:
		return ""
	case io.EOF:
		return "EOF"
	case io.ErrUnexpectedEOF:
		return "unexpected EOF"
	case wsutil.ErrNoFrameAdvance:
		return "no frame advance"
	case wsutil.ErrInvalidUTF8:
		return "invalid utf8"
	}
	return "error: " + err.Error()
}

// consume reads one top-level unit; end is the absolute offset at which the
// unit ends on the wire.
func (in rdInst) consume(m rdMode, end int) rdUnit {
	var u rdUnit
	*in.log = nil
	if m.PreRead {
		n, err := in.r.Read(make([]byte, 4))
		u.Pre = fmt.Sprintf("%d/%s", n, errName(err))
	}
	h, err := in.r.NextFrame()
	if err == errExt {
		// A receive extension rejected the first frame of the unit. The
		// application drops the message with Discard(); the next unit starts
		// where this one ends on the wire.
		if derr := in.r.Discard(); derr != nil {
			u.HdrErr, u.Stop = "extension error, Discard() failed", true
			hx.Class("open/discard-reported-failure-after-extension-or-callback-error")
			return u
		}
		u.HdrErr, u.CbErr = "extension error, Discard()", true
		return u
	}
	if err != nil {
		u.HdrErr, u.Stop = errName(err), true
		return u
	}
	u.Hdr = fmt.Sprintf("%+v", h)
	if in.ms != nil && (h.OpCode == ws.OpText || h.OpCode == ws.OpBinary) {
		// The extension object (not the Reader) keeps the flag, and by its
		// documentation updates it on the first frame of data messages only.
		u.Compressed = in.ms.IsCompressed()
	}
	read := func(limit int) bool {
		for i := 0; i < limit; i++ {
			p := make([]byte, m.Buf)
			n, err := in.r.Read(p)
			u.Data = append(u.Data, p[:n]...)
			if err == errCont || err == errExt {
				// The application gives the message up. What Discard returns for
				// it is not compared; what matters is the next message.
				u.Reads = append(u.Reads, fmt.Sprintf("%d/callback error", n))
				if derr := in.r.Discard(); derr != nil {
					// the reader itself says the message was not discarded
					u.End, u.Stop = "callback error, Discard() failed", true
					hx.Class("open/discard-reported-failure-after-extension-or-callback-error")
					return true
				}
				u.End, u.CbErr = "callback error, Discard()", true
				return true
			}
			u.Reads = append(u.Reads, fmt.Sprintf("%d/%s", n, errName(err)))
			if err != nil {
				u.End = errName(err)
				return true
			}
		}
		return false
	}
	switch m.Kind {
	case "full":
		if !read(1 << 20) {
			u.End, u.Stop = "runaway", true
		}
		if u.End != "EOF" && !u.CbErr {
			u.Stop = true
		}
	case "partial-discard":
		if !read(m.Reads) {
			err := in.r.Discard()
			u.End = "discard:" + errName(err)
			u.Stop = err != nil
		} else if u.End != "EOF" && !u.CbErr {
			u.Stop = true
		}
	case "discard":
		err := in.r.Discard()
		u.End = "discard:" + errName(err)
		u.Stop = err != nil
	}
	if u.Stop && u.End == "invalid utf8" && in.ps.abs() == end {
		// A text message found invalid at its very end: everything of it has
		// been consumed and the source stands at the next frame. The application
		// goes on with NextFrame (a new message starts with a new decoder).
		u.Stop = false
		hx.Class("reader/invalid-utf8-at-message-end-then-next-frame")
	}
	if u.Stop && strings.Contains(u.End, errExt.Error()) {
		// same for a receive extension failing inside Discard()
		hx.Class("open/extension-error-inside-discard")
	}
	if u.Stop && strings.Contains(u.End, errCont.Error()) {
		// The callback failed inside Discard() itself: Discard gives up in the
		// middle of the message and the stream position is lost. Left open.
		hx.Class("open/oncontinuation-error-inside-discard")
	}
	u.Interm = append([]string(nil), *in.log...)
	return u
}

// TestReaderConsecutiveMessages: a Reader that has delivered or discarded a
// complete message reads what follows exactly as a new Reader positioned at
// the same byte.
func TestReaderConsecutiveMessages(t *testing.T) {
	hx.Check(t, 4, func(t *rapid.T) {
		cfg := rdCfg{
			Client:    rapid.Bool().Draw(t, "client"),
			CheckUTF8: rapid.Bool().Draw(t, "checkutf8"),
			Ext:       rapid.Bool().Draw(t, "ext"),
			OnInterm:  rapid.Bool().Draw(t, "onintermediate"),
			SkipCheck: rapid.IntRange(0, 4).Draw(t, "skipcheck") == 0,
		}
		cfg.FailPos, cfg.RejectPos = -1, -1
		cfg.OnCont = rapid.Bool().Draw(t, "oncontinuation")
		frames := gen.Conversation(t, "conv", gen.ConvOpts{Masked: !cfg.Client, MaxMsgs: 4, MaxPayload: 60})
		if cfg.CheckUTF8 && rapid.Bool().Draw(t, "invalid-text") {
			// One text message is invalid at its very end (a multi-byte sequence
			// left open), often followed directly by a control frame with or
			// without payload.
			var texts []int
			for _, e := range ref.Events(frames) {
				if e.Kind == "msg" && e.Op == ref.OpText {
					texts = append(texts, e.At)
				}
			}
			if len(texts) > 0 {
				at := rapid.SampledFrom(texts).Draw(t, "invalid-text.at")
				open := rapid.SampledFrom([]string{"\xc3", "\xe2\x82", "\xf0\x9f\x98", "\xf0"}).Draw(t, "invalid-text.open")
				frames[at].Payload = append(append([]byte(nil), frames[at].Payload...), open...)
				if k := rapid.IntRange(0, 3).Draw(t, "invalid-text.ctl"); k > 0 {
					var ctl ref.Frame
					if k == 1 {
						ctl = gen.CtlFrame(t, "invalid-text.ctlframe", !cfg.Client)
					} else {
						ctl = ref.Frame{H: ref.Header{Fin: true, Op: byte(ref.OpPing + k - 2), Masked: !cfg.Client, Mask: gen.Key(t, "invalid-text.key")}}
					}
					frames = append(frames[:at+1], append([]ref.Frame{ctl}, frames[at+1:]...)...)
				}
				hx.Class("reader/stream-with-text-invalid-at-its-end")
			}
		}
		if cfg.Ext {
			// mark some messages "compressed": RSV1 on their first frame
			for i := range frames {
				if (frames[i].H.Op == ref.OpText || frames[i].H.Op == ref.OpBinary) && rapid.Bool().Draw(t, "rsv1") {
					frames[i].H.Rsv = 4
				}
			}
		}
		wire := ref.EncodeAll(frames)
		events := ref.Events(frames)
		// stream offsets: end of every frame, start of the payload of every continuation frame
		var frameEnd, contPayloadAt, rejectable []int
		off := 0
		frag := false
		for _, f := range frames {
			e := f.Encode()
			// Frames a receive extension may reject (non-empty payload): any first
			// frame, continuation or control frame. After Discard() returned nil the
			// next unit must be read as by a new Reader at the true end of this one.
			ctl := ref.IsControl(f.H.Op)
			finalCont := frag && !ctl && f.H.Fin
			if finalCont && hx.Known(sigExtFinalFragment) {
				finalCont = false
			}
			// a refused non-final first frame leaves the reader fragmented (it records
			// the state before returning the extension's error), so Discard() runs
			// through the continuations as well
			firstNonFinal := !frag && !ctl && !f.H.Fin
			if len(f.Payload) > 0 && ((!frag && f.H.Fin) || (frag && (ctl || !f.H.Fin)) || finalCont || firstNonFinal) {
				rejectable = append(rejectable, off+len(e)-len(f.Payload))
			}
			if !ctl {
				frag = !f.H.Fin
			}
			if f.H.Op == ref.OpCont {
				contPayloadAt = append(contPayloadAt, off+len(e)-len(f.Payload))
			}
			off += len(e)
			frameEnd = append(frameEnd, off)
		}
		if cfg.OnCont && len(contPayloadAt) > 0 && rapid.IntRange(0, 3).Draw(t, "oncont.fail?") > 0 {
			cfg.FailPos = rapid.SampledFrom(contPayloadAt).Draw(t, "oncont.failat")
			cfg.CbRead = rapid.SampledFrom([]int{0, 0, 1, -1}).Draw(t, "oncont.reads")
		}
		if cfg.FailPos < 0 && len(rejectable) > 0 && rapid.IntRange(0, 2).Draw(t, "ext.reject?") > 0 {
			cfg.RejectPos = rapid.SampledFrom(rejectable).Draw(t, "ext.rejectat")
		}
		var unitEnd []int // true end offset of every top-level unit
		for _, e := range events {
			if e.Kind == "msg" || !e.Intermediate {
				unitEnd = append(unitEnd, frameEnd[e.At])
			}
		}
		// top-level units: complete messages and control frames outside messages
		nunits := 0
		for _, e := range events {
			if e.Kind == "msg" || !e.Intermediate {
				nunits++
			}
		}
		modes := make([]rdMode, nunits)
		for i := range modes {
			m := rdMode{Kind: rapid.SampledFrom([]string{"full", "full", "partial-discard", "partial-discard", "discard"}).Draw(t, "mode"),
				Buf: rapid.SampledFrom([]int{1, 1, 2, 3, 5, 16, 512}).Draw(t, "buf"), PreRead: rapid.IntRange(0, 3).Draw(t, "preread") == 0}
			if m.Kind == "partial-discard" {
				m.Reads = rapid.IntRange(1, 3).Draw(t, "reads")
			}
			modes[i] = m
		}
		swaps := make([]bool, nunits)
		for i := range swaps {
			swaps[i] = rapid.IntRange(0, 3).Draw(t, "swap-source") == 0
		}
		hx.Eval()

		a := newRd(cfg, wire, 0)
		var units []rdUnit
		pos := []int{0}
		for i := 0; i < nunits; i++ {
			u := a.consume(modes[i], unitEnd[i])
			units = append(units, u)
			if u.Stop {
				break
			}
			if u.End == "invalid utf8" && i+1 < nunits {
				// after the error the application goes on with NextFrame; a Read
				// before it would just repeat the error of the finished message
				modes[i+1].PreRead = false
			}
			if u.CbErr {
				// the next message starts where this one ends on the wire
				pos = append(pos, unitEnd[i])
				if cfg.RejectPos >= 0 {
					hx.Class("reader/extension-error-then-discard")
				} else {
					hx.Class("reader/oncontinuation-error-then-discard")
				}
			} else {
				pos = append(pos, a.ps.abs())
				if swaps[i] && i+1 < nunits {
					// the application hands the reader a different source object
					// for the rest of the stream
					a.swapSource(wire, a.ps.abs())
					hx.Class("reader/source-replaced-between-messages")
				}
			}
		}
		desc := func() map[string]interface{} {
			var us []string
			for _, u := range units {
				us = append(us, u.String())
			}
			return map[string]interface{}{"object": "wsutil.Reader", "cfg": cfg, "frames": ref.Describe(frames), "modes": modes, "units_long_lived_reader": us}
		}
		// The stream is valid, so the long-lived reader itself must not stop early
		// when it reads whole messages; anything else is compared, not predicted.
		boundaries := 0
		for k := 1; k < len(pos) && k < nunits; k++ {
			b := newRd(cfg, wire[pos[k]:], pos[k])
			boundaries++
			for j := k; j < len(units); j++ {
				ub := b.consume(modes[j], unitEnd[j])
				if ub.String() != units[j].String() {
					t.Fatalf("unit %d read by the reader that already consumed %d unit(s):\n  %s\nby a new reader positioned at byte %d:\n  %s\ncase: %s", j, k, units[j], pos[k], ub, hx.JSON(desc()))
				}
				if ub.Stop {
					break
				}
			}
		}
		kinds := map[string]bool{}
		for i := range units {
			kinds[modes[i].Kind] = true
		}
		for k := range kinds {
			hx.Class("reader/consumed-by/" + k)
		}
		if len(units) < nunits {
			hx.Class("reader/stopped-early")
		}
		if boundaries > 0 {
			hx.Class("reader/has-boundary")
			hx.NonTrivial(hx.Hash("reader", cfg, ref.Shape(frames), fmt.Sprint(modes)), desc2(desc))
		}
	})
}

func desc2(f func() map[string]interface{}) func() interface{} {
	return func() interface{} { return f() }
}

// UTF8Reader.Reset leaves the count of the last Read before the reset in place.
func probeUTF8Accepted(t *testing.T) {
	u := wsutil.NewUTF8Reader(bytes.NewReader([]byte("ab")))
	u.Read(make([]byte, 2))
	before := u.Accepted()
	u.Reset(bytes.NewReader([]byte{0xff}))
	n, err := u.Read(make([]byte, 1))
	got := u.Accepted()
	fresh := wsutil.NewUTF8Reader(bytes.NewReader([]byte{0xff}))
	fresh.Read(make([]byte, 1))
	hx.Eval()
	hx.Probe(t, sigUTF8Accepted, "wsutil.UTF8Reader: after Reset, a first Read that rejects its input leaves Accepted() at the value of the last Read before the reset (2), a new reader reports 0", got != fresh.Accepted(),
		map[string]interface{}{"accepted_before_reset": before, "read_after_reset": fmt.Sprintf("%d/%v", n, err), "accepted_after": got, "fresh_reader_accepted": fresh.Accepted()})
}

// A receive extension rejects the FINAL fragment of a message; the reader stays
// "fragmented", so Discard() goes on into the next message.
func probeExtFinalFragment(t *testing.T) {
	frames := []ref.Frame{
		{H: ref.Header{Op: ref.OpText}, Payload: []byte("a")},
		{H: ref.Header{Op: ref.OpCont, Fin: true}, Payload: []byte("b")},
		{H: ref.Header{Op: ref.OpBinary, Fin: true}, Payload: []byte("next")},
	}
	wire := ref.EncodeAll(frames)
	rejectAt := len(frames[0].Encode()) + 2 // payload offset of the final fragment
	src := tx.NewSrc(wire, nil)
	r := &wsutil.Reader{Source: src, State: ws.StateClientSide, SkipHeaderCheck: true}
	r.Extensions = []wsutil.RecvExtension{wsutil.RecvExtensionFunc(func(h ws.Header) (ws.Header, error) {
		if src.Pos == rejectAt {
			return h, errExt
		}
		return h, nil
	})}
	_, err0 := r.NextFrame()
	buf := make([]byte, 8)
	n1, err1 := r.Read(buf) // "a", end of the first fragment
	_, err2 := r.Read(buf)  // next fragment: rejected
	derr := r.Discard()
	h, err3 := r.NextFrame()
	var got []byte
	if err3 == nil {
		got, _ = io.ReadAll(r)
	}
	hx.Eval()
	if err0 != nil || n1 != 1 || err1 != nil || err2 != errExt {
		hx.Failf(t, nil, "probe set-up: %v %d %v %v", err0, n1, err1, err2)
		return
	}
	present := derr == nil && (err3 != nil || h.OpCode != ws.OpBinary || string(got) != "next")
	hx.Probe(t, sigExtFinalFragment, "wsutil.Reader (SkipHeaderCheck): a receive extension rejects the final fragment of a message, the reader stays fragmented; Discard() returns nil but has also swallowed the following message, so the next message is not read as a new Reader at that byte reads it", present,
		map[string]interface{}{"frames": ref.Describe(frames), "discard_err": fmt.Sprint(derr), "next_frame": fmt.Sprintf("%+v / %v", h, err3), "next_payload": string(got), "want": "binary message \"next\""})
}
