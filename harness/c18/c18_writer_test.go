// C18 — reset or pooled reuse makes writers, readers and negotiators behave
// as new. This file: wsutil.Writer (Reset, ResetOp, PutWriter+GetWriter).
package c18

import (
	"bytes"
	"fmt"
	"math/rand"
	"reflect"
	"strings"
	"testing"

	"github.com/gobwas/ws"
	"github.com/gobwas/ws/wsutil"
	"pgregory.net/rapid"

	"verif/harness/c06/wh"
	"verif/harness/hx"
	"verif/harness/ref"
	"verif/harness/tx"
)

func TestMain(m *testing.M) { hx.Main(m, "C18") }

const sigResetKeepsError = "C18/writer-reset-keeps-error"


func stateOf(client bool) ws.State {
	if client {
		return ws.StateClientSide
	}
	return ws.StateServerSide
}

// sameStep compares what one call returned and sent on the reset writer (a)
// and on the fresh twin (b). Masked payloads are compared after unmasking with
// each frame's own key (the two writers draw different keys).
func sameStep(a, b wh.Result, masked bool) string {
	if a.N != b.N || a.Err != b.Err || a.SrcLeft != b.SrcLeft {
		return fmt.Sprintf("returned n=%d err=%q srcleft=%d, fresh writer n=%d err=%q srcleft=%d", a.N, a.Err, a.SrcLeft, b.N, b.Err, b.SrcLeft)
	}
	if a.Before != b.Before || a.After != b.After {
		return fmt.Sprintf("buffer view %+v -> %+v, fresh writer %+v -> %+v", a.Before, a.After, b.Before, b.After)
	}
	if a.Calls != b.Calls || len(a.Out) != len(b.Out) {
		return fmt.Sprintf("sent %d bytes in %d destination writes, fresh writer %d bytes in %d", len(a.Out), a.Calls, len(b.Out), b.Calls)
	}
	if !masked {
		if !bytes.Equal(a.Out, b.Out) {
			return fmt.Sprintf("sent bytes differ from the fresh writer's: %x vs %x", head(a.Out), head(b.Out))
		}
		return ""
	}
	fa, ra, _ := ref.ParseFrames(a.Out)
	fb, rb, _ := ref.ParseFrames(b.Out)
	if len(fa) != len(fb) || len(ra) != len(rb) {
		return fmt.Sprintf("sent %d whole frames + %d bytes, fresh writer %d + %d", len(fa), len(ra), len(fb), len(rb))
	}
	for i := range fa {
		ha, hb := fa[i].H, fb[i].H
		ha.Mask, hb.Mask = [4]byte{}, [4]byte{}
		if ha != hb {
			return fmt.Sprintf("frame %d header %v, fresh writer %v", i, ha, hb)
		}
		if !bytes.Equal(fa[i].Payload, fb[i].Payload) {
			return fmt.Sprintf("frame %d payload differs from the fresh writer's", i)
		}
	}
	return ""
}

// sameExt reports whether two extension values are the same object (the
// function-typed test extension is not comparable with ==).
func sameExt(a, b wsutil.SendExtension) bool {
	if a == nil || b == nil {
		return a == nil && b == nil
	}
	va, vb := reflect.ValueOf(a), reflect.ValueOf(b)
	return va.Type() == vb.Type() && va.Pointer() == vb.Pointer()
}

func ceilPow2(n int) int {
	p := 1
	for p < n {
		p <<= 1
	}
	return p
}

func head(b []byte) []byte {
	if len(b) > 24 {
		return b[:24]
	}
	return b
}

func recordedError(steps []wh.Step) bool {
	for _, s := range steps {
		switch s.R.Err {
		case "", "notempty", "source", "noprogress":
		default:
			return true
		}
	}
	return false
}

func drawFailPlan(t *rapid.T, label string, rec *tx.Rec, pct int) bool {
	if rapid.IntRange(0, 99).Draw(t, label+".fail?") >= pct {
		return false
	}
	rec.FailAt = len(rec.Calls) + rapid.IntRange(0, 4).Draw(t, label+".failat")
	rec.Short = rapid.SampledFrom([]int{0, 0, 1, 2, 5, 1 << 20}).Draw(t, label+".short")
	return true
}

type writerCase struct {
	Mode   string    `json:"mode"`
	Cfg1   wh.Config `json:"cfg_before"`
	Seed   int64     `json:"seed"`
	H1     []string  `json:"history_before"`
	Side2  bool      `json:"client_after"`
	Op2    byte      `json:"op_after"`
	GetN   int       `json:"get_n,omitempty"`
	Twin   wh.Config `json:"twin"`
	H2     []string  `json:"history_after"`
	H2Twin []string  `json:"history_after_fresh"`
}

var pow2Sizes = []int{128, 256, 512, 1024, 4096}

// TestWriterReset: history H1 on a writer (any constructor, failing
// destinations, growth, partial messages, extensions, disabled flush, either
// side), then Reset / PutWriter+GetWriter / ResetOp, then history H2 — against
// a freshly constructed writer of the same Size() running H2 only.
func TestWriterReset(t *testing.T) {
	hx.Check(t, 10, func(t *rapid.T) {
		mode := rapid.SampledFrom([]string{"reset", "reset", "reset", "resetop", "resetop", "putget", "putget"}).Draw(t, "mode")
		cfg1 := wh.DrawConfig(t, "cfg1", true)
		poolable := false
		if mode == "putget" && rapid.Bool().Draw(t, "poolable") {
			// NewWriterSize(n) with n a power of two gives Size() == n, the one
			// case in which PutWriter files the writer under a pool class.
			cfg1.Ctor, cfg1.N = "size", rapid.SampledFrom(pow2Sizes).Draw(t, "pow2")
			poolable = true
		}
		nearClass := false
		if mode == "putget" && !poolable && rapid.IntRange(0, 2).Draw(t, "nearclass") > 0 {
			// previous lives of other sizes (just below a pool class, exactly a
			// class, odd sizes) from the constructors that do not go through the
			// pool: PutWriter must not file them where a later GetWriter gets a
			// smaller buffer than a new writer would have
			cfg1.Ctor = rapid.SampledFrom([]string{"size", "bufsize", "buffer"}).Draw(t, "near.ctor")
			cfg1.N = rapid.SampledFrom([]int{120, 124, 127, 129, 200, 250, 256, 1000, 1004, 1020, 1023, 1024, 1028, 1500, 2048, 4086, 4090, 4092, 4096, 4100, 5000}).Draw(t, "near.n")
			cfg1.Reuse, cfg1.Default = "", 0
			nearClass = true
		}
		seed := rapid.Int64Range(1, 1<<40).Draw(t, "seed")
		rand.Seed(seed)
		hx.Eval()

		rec1 := tx.NewRec()
		planned := drawFailPlan(t, "h1", rec1, 55)
		// The application's own extension list: a long-lived slice handed over
		// with the spread operator, as SetExtensions(list...) invites.
		list := wh.Extensions(cfg1.Ext)
		snapshot := append([]wsutil.SendExtension(nil), list...)
		bare := cfg1
		bare.Ext = 0
		w := wh.New(bare, rec1)
		if len(list) > 0 {
			w.SetExtensions(list...)
		}
		ex := wh.NewExec(w, rec1)
		size0 := w.Size()
		o := wh.Opts{SrcErr: true}
		n1 := rapid.IntRange(0, 10).Draw(t, "n1")
		openMsg := false
		for i := 0; i < n1; i++ {
			a := wh.DrawAction(t, ex.View(), ex.Pos, o)
			r := ex.Do(a)
			if a.Kind == wh.KFlush && r.Err == "" {
				openMsg = false
			} else if len(r.Out) > 0 {
				openMsg = true
			}
		}
		h1 := ex.Log
		errRec := recordedError(h1)
		v1 := ex.View()
		grown := v1.Size != size0
		c := writerCase{Mode: mode, Cfg1: cfg1, Seed: seed, H1: wh.Describe(h1)}

		side2 := rapid.Bool().Draw(t, "side2")
		op2 := rapid.SampledFrom([]byte{1, 2, 2, 1, 9}).Draw(t, "op2")
		ext2, noFlush2 := 0, false
		var rec2 *tx.Rec
		recycled := false
		switch mode {
		case "reset":
			if side2 && wh.RawLen(cfg1) < wh.MinRaw(true) {
				side2 = false // Reset to the client side needs room for a masked header (panics by contract otherwise)
			}
			rec2 = tx.NewRec()
			if rapid.IntRange(0, 2).Draw(t, "same-dest") == 0 {
				// the per-message loop: Reset onto the very same destination,
				// which — if it had failed — has recovered
				rec2 = rec1
				rec1.FailAt, rec1.Failed = -1, false
				hx.Class(fmt.Sprintf("reset/onto-same-destination/after-recorded-error=%v", errRec))
			}
			w.Reset(rec2, stateOf(side2), ws.OpCode(op2))
			ex.Retarget(w, rec2)
		case "putget":
			wsutil.PutWriter(w)
			var n int
			if poolable {
				n = cfg1.N
			} else if nearClass {
				// the classes the put writer could be confused with
				n = rapid.SampledFrom([]int{ceilPow2(v1.Size), ceilPow2(v1.Size), ceilPow2(cfg1.N), 2 * ceilPow2(v1.Size), ceilPow2(v1.Size) / 2}).Draw(t, "near.getn")
				hx.Class("putget/previous-life-near-a-pool-class")
			} else {
				n = rapid.SampledFrom([]int{0, 1, 7, 16, 100, 128, 129, 200, 1000, 4096}).Draw(t, "getn")
			}
			c.GetN = n
			rec2 = tx.NewRec()
			w2 := wsutil.GetWriter(rec2, stateOf(side2), ws.OpCode(op2), n)
			recycled = w2 == w
			w = w2
			ex.Retarget(w, rec2)
			// GetWriter(n) gives a buffer of n ceiled to the pool's power-of-two
			// class (or of n / the default outside the classes): whatever went
			// through the pool before, the writer must offer at least the room
			// of a newly allocated one.
			m := n
			if p := ceilPow2(n); n > 0 && p >= 128 && p <= 65536 {
				m = p
			}
			if fresh := wsutil.NewWriterBufferSize(tx.NewRec(), stateOf(side2), ws.OpCode(op2), m); w.Size() < fresh.Size() {
				t.Fatalf("GetWriter(n=%d) after PutWriter returned a writer with Size()=%d (recycled=%v); a newly allocated writer of that class (%d bytes) has Size()=%d\ncase: %s", n, w.Size(), recycled, m, fresh.Size(), hx.JSON(c))
			}
		case "resetop":
			// The destination recovers; ResetOp keeps it.
			side2, ext2, noFlush2 = cfg1.Client, cfg1.Ext, cfg1.NoFlush
			rec1.FailAt, rec1.Failed = -1, false
			rec2 = rec1
			w.ResetOp(ws.OpCode(op2))
			ex.Retarget(w, rec2)
		}
		c.Side2, c.Op2 = side2, op2
		// Whatever the reset did to the writer, the caller's list is the caller's.
		for i := range list {
			if !sameExt(list[i], snapshot[i]) {
				t.Fatalf("after %s the caller's extension slice passed as SetExtensions(list...) was modified: element %d is now %v\ncase: %s", mode, i, list[i], hx.JSON(c))
			}
		}
		// Re-attach the same list for H2 (Reset dropped it): a fresh writer given
		// the list sets the bits it dictates, the reset writer must as well.
		reattach := mode != "resetop" && len(list) > 0 && rapid.Bool().Draw(t, "reattach")
		if reattach {
			w.SetExtensions(list...)
			ext2 = cfg1.Ext
			hx.Class("h2/extensions-reattached")
		}

		hx.Class("mode/" + mode)
		if planned {
			hx.Class("h1/fail-plan")
		}
		if errRec {
			hx.Class("h1/recorded-error/" + mode)
		}
		if recycled {
			hx.Class("putget/recycled")
		}
		if mode == "resetop" && errRec {
			// Left open: ResetOp keeps the destination (it is the per-message
			// reset of a send loop on one connection), and property C16 requires
			// that after a failed write the writer "reports the error on every
			// later write and flush and sends no further bytes" — clearing the
			// error here would let the next message follow a half-written frame.
			// C18's sentence on the quick reset lists what it drops and keeps "as
			// documented"; the error is not among them. Only Reset clears it.
			hx.Class("open/resetop-after-recorded-error")
			return
		}

		if rapid.IntRange(0, 99).Draw(t, "h2.fail?") >= 85 {
			k := rapid.IntRange(0, 4).Draw(t, "h2.failat")
			rec2.FailAt, rec2.Short = len(rec2.Calls)+k, rapid.SampledFrom([]int{0, 1, 3, 1 << 20}).Draw(t, "h2.short")
			hx.Class("h2/fail-plan")
		}
		failAt, short := -1, 0
		if rec2.FailAt >= 0 {
			failAt, short = rec2.FailAt-len(rec2.Calls), rec2.Short
		}

		// H2 on the reset writer (actions are drawn against its live state).
		n2 := rapid.IntRange(1, 8).Draw(t, "n2")
		sizeAfter := w.Size()
		base := len(ex.Log)
		var shape []string
		out := 0
		for i := 0; i <= n2; i++ {
			var a wh.Action
			switch {
			case i == n2:
				a = wh.Action{Kind: wh.KFlush}
			case i == 0 && rapid.Bool().Draw(t, "h2.first-small"):
				// the typical first use after a reset: a write that fits
				a = wh.Action{Kind: wh.KWrite, Start: ex.Pos, Len: rapid.IntRange(1, 3).Draw(t, "h2.small")}
				if a.Len > ex.View().Available {
					a.Len = ex.View().Available
				}
			default:
				a = wh.DrawAction(t, ex.View(), ex.Pos, o)
			}
			shape = append(shape, a.Shape(ex.View()))
			out += len(ex.Do(a).Out)
		}
		h2 := ex.Log[base:]
		c.H2 = wh.Describe(h2)

		// The same H2 on a fresh writer with the same Size().
		prefer := 0
		if mode != "putget" && !grown && cfg1.Ctor != "get" && cfg1.Reuse == "" {
			// (a previous life may have grown the buffer under DisableFlush:
			// its length is then not the constructor's)
			prefer = wh.RawLen(cfg1)
		}
		cands := wh.Twins(sizeAfter, side2, op2, ext2, noFlush2, prefer)
		if len(cands) > 1 && prefer > 0 && cands[0].N == prefer {
			// the backing buffer is known (never grown, not from the pool): the
			// same configuration is the writer over a buffer of that length
			cands = cands[:1]
			hx.Class("twin/size-ambiguous-but-buffer-known")
		}
		if len(cands) > 1 {
			// Size() 124/125/65530..65535 with a grown or pooled buffer: its length is
			// not observable, either fresh writer is "the same configuration"
			hx.Class("twin/ambiguous-size")
		}
		compared, firstMsg := 0, ""
		matched := false
		for _, twinCfg := range cands {
			recT := tx.NewRec()
			recT.FailAt, recT.Short = failAt, short
			if reattach {
				twinCfg.Ext = 0
			}
			if mode == "resetop" {
				twinCfg.Extended = cfg1.Extended // ResetOp keeps the state
			}
			twin := wh.New(twinCfg, recT)
			if reattach {
				twin.SetExtensions(list...)
				twinCfg.Ext = cfg1.Ext
			}
			if twin.Size() != sizeAfter {
				continue
			}
			compared++
			exT := wh.NewExec(twin, recT)
			msg := ""
			for i, s := range h2 {
				if msg = sameStep(s.R, exT.Do(s.A), side2); msg != "" {
					msg = fmt.Sprintf("call %d (%s): %s", i, s.A.Kind, msg)
					break
				}
			}
			if msg == "" {
				matched = true
				break
			}
			if firstMsg == "" {
				firstMsg = msg
				c.Twin, c.H2Twin = twinCfg, wh.Describe(exT.Log)
			}
		}
		if compared == 0 {
			hx.Class("skip/no-twin-with-equal-size")
			return
		}
		if !matched {
			if mode != "resetop" && errRec && strings.Contains(firstMsg, `err="injected"`) && failAt < 0 && hx.Known(sigResetKeepsError) {
				hx.Exclude(sigResetKeepsError)
				return
			}
			t.Fatalf("after %s, %s\ncase: %s", mode, firstMsg, hx.JSON(c))
		}

		var flags []string
		add := func(on bool, s string) {
			if on {
				flags = append(flags, s)
				hx.Class("h1/left/" + s)
			}
		}
		add(v1.Buffered > 0, "buffered")
		add(openMsg, "open-fragments")
		add(grown, "grown")
		add(cfg1.Ext != 0, "extensions")
		add(cfg1.NoFlush, "noflush")
		add(errRec, "recorded-error")
		add(cfg1.Client != side2, "side-changed")
		if len(flags) > 0 && out > 0 {
			hx.NonTrivial(hx.Hash("writer", mode, cfg1.Ctor, cfg1.Client, strings.Join(flags, ","), side2, strings.Join(shape, " ")), func() interface{} {
				return map[string]interface{}{"object": "wsutil.Writer", "case": c, "state_left_by_history": flags}
			})
		}
	})
}

// TestKnownFindings holds the dedicated probes of the listed findings.
func TestKnownFindings(t *testing.T) {
	what := "wsutil.Writer.Reset (and PutWriter/GetWriter) after a failed destination write: every later Write/Flush still returned the old error"
	probe := func(viaPool, sameDest bool) (present bool, desc map[string]interface{}) {
		bad := tx.NewRec()
		bad.FailAt = 0
		var w *wsutil.Writer
		if viaPool {
			w = wsutil.NewWriterSize(bad, ws.StateServerSide, ws.OpText, 128) // Size()==128: a pool class
		} else {
			w = wsutil.NewWriterBufferSize(bad, ws.StateServerSide, ws.OpText, 16)
		}
		_, werr := w.Write(make([]byte, 300)) // larger than the buffer: goes straight to the destination and fails
		ferr := w.Flush()
		if werr == nil || ferr == nil {
			t.Fatalf("probe set-up: the failing destination did not make the writer fail (write err=%v, flush err=%v)", werr, ferr)
		}
		good := tx.NewRec()
		if sameDest {
			// the destination recovers and the writer is reset onto the same value
			good = bad
			bad.FailAt, bad.Failed, bad.Calls = -1, false, nil
		}
		if viaPool {
			wsutil.PutWriter(w)
			w = wsutil.GetWriter(good, ws.StateServerSide, ws.OpText, 128)
		} else {
			w.Reset(good, ws.StateServerSide, ws.OpText)
		}
		n, err := w.Write([]byte("hi"))
		err2 := w.Flush()
		want := []byte{0x81, 0x02, 'h', 'i'}
		present = err != nil || err2 != nil || n != 2 || !bytes.Equal(good.Bytes(), want)
		return present, map[string]interface{}{"via_pool": viaPool, "same_destination": sameDest, "write_n": n, "write_err": fmt.Sprint(err), "flush_err": fmt.Sprint(err2), "sent": fmt.Sprintf("%x", good.Bytes()), "want": fmt.Sprintf("%x", want)}
	}
	p1, d1 := probe(false, false)
	p2, d2 := probe(true, false)
	p3, d3 := probe(false, true)
	hx.EvalN(3)
	hx.Probe(t, sigResetKeepsError, what, p1 || p2 || p3, []interface{}{d1, d2, d3})
	probeUTF8Accepted(t)
	probeExtFinalFragment(t)
}
