package c18

import (
	"bytes"
	"compress/flate"
	"fmt"
	"io"
	"strings"
	"testing"

	"github.com/gobwas/ws/wsflate"
	"pgregory.net/rapid"

	"verif/harness/hx"
	"verif/harness/tx"
)

// ---------------------------------------------------------------------------
// wsflate.Writer.Reset

// presetDict is the preset dictionary of the "dict" codec kinds
// (flate.NewWriterDict / flate.NewReaderDict); dictPayload builds payloads that
// back-reference it.
var presetDict = []byte("{\"type\":\"subscribe\",\"channel\":\"ticker\",\"product_ids\":[\"BTC-USD\",\"ETH-USD\"],\"sequence\":0000000000}")

func dictPayload(n int, fill byte) []byte {
	p := make([]byte, 0, n+len(presetDict))
	for i := int(fill) % len(presetDict); len(p) < n; i = 0 {
		p = append(p, presetDict[i:]...)
	}
	return p[:n]
}

// compCtl is the harness' handle on the compressors a wsflate.Writer builds.
type compCtl struct {
	// kind = base "/" capabilities: base flate (compress/flate) or raw
	// (pass-through); capabilities "close+reset", "close", "reset", "none" say
	// which optional methods (io.Closer, wsflate.WriteResetter) the compressor
	// handed to wsflate.Writer exposes besides Write/Flush.
	kind string
	// extra is appended by Flush after the compressor's own output ("bad
	// compressor": the stream no longer ends in 00 00 ff ff).
	extra []byte
	// tail is what the raw compressor's Flush writes.
	tail  []byte
	built int
}

// flateComp wraps compress/flate; it implements wsflate.WriteResetter.
type flateComp struct {
	ctl *compCtl
	fw  *flate.Writer
	dst io.Writer
}

func (c *flateComp) Write(p []byte) (int, error) { return c.fw.Write(p) }
func (c *flateComp) Flush() error {
	if err := c.fw.Flush(); err != nil {
		return err
	}
	if len(c.ctl.extra) > 0 {
		_, err := c.dst.Write(c.ctl.extra)
		return err
	}
	return nil
}
func (c *flateComp) Close() error       { return c.fw.Close() }
func (c *flateComp) Reset(w io.Writer) { c.dst = w; c.fw.Reset(w) }

// rawComp passes bytes through and lets the harness choose what Flush emits.
type rawComp struct {
	ctl *compCtl
	dst io.Writer
}

func (c *rawComp) Write(p []byte) (int, error) { return c.dst.Write(p) }
func (c *rawComp) Flush() error {
	out := append(append([]byte(nil), c.ctl.tail...), c.ctl.extra...)
	if len(out) == 0 {
		return nil
	}
	_, err := c.dst.Write(out)
	return err
}
func (c *rawComp) Reset(w io.Writer) { c.dst = w }

// Close ends the stream the way a deflate compressor does: a final empty block.
func (c *rawComp) Close() error {
	_, err := c.dst.Write([]byte{0x01, 0x00, 0x00, 0xff, 0xff})
	return err
}

type fullComp interface {
	wsflate.Compressor
	io.Closer
	wsflate.WriteResetter
}

// closeOnly exposes Write/Flush/Close, resetOnly Write/Flush/Reset.
type closeOnly struct{ c fullComp }

func (n closeOnly) Write(p []byte) (int, error) { return n.c.Write(p) }
func (n closeOnly) Flush() error                { return n.c.Flush() }
func (n closeOnly) Close() error                { return n.c.Close() }

type resetOnly struct{ c fullComp }

func (n resetOnly) Write(p []byte) (int, error) { return n.c.Write(p) }
func (n resetOnly) Flush() error                { return n.c.Flush() }
func (n resetOnly) Reset(w io.Writer)           { n.c.Reset(w) }

var compKinds = []string{"flate/close+reset", "flate/close", "flate/reset", "flate/none", "raw/close+reset", "raw/close", "raw/reset", "raw/none",
	"flatedict/close+reset", "flatedict/close", "flatedict/reset", "flatedict/none"}

// noReset hides every method but the Compressor interface, so that
// wsflate.Writer.Reset has to re-construct the compressor.
type noReset struct{ c wsflate.Compressor }

func (n noReset) Write(p []byte) (int, error) { return n.c.Write(p) }
func (n noReset) Flush() error                { return n.c.Flush() }

func (ctl *compCtl) ctor(w io.Writer) wsflate.Compressor {
	ctl.built++
	var c fullComp
	if strings.HasPrefix(ctl.kind, "flatedict") {
		fw, _ := flate.NewWriterDict(w, 6, presetDict)
		c = &flateComp{ctl: ctl, fw: fw, dst: w}
	} else if strings.HasPrefix(ctl.kind, "flate") {
		fw, _ := flate.NewWriter(w, 6)
		c = &flateComp{ctl: ctl, fw: fw, dst: w}
	} else {
		c = &rawComp{ctl: ctl, dst: w}
	}
	switch ctl.kind[strings.Index(ctl.kind, "/")+1:] {
	case "close":
		return closeOnly{c}
	case "reset":
		return resetOnly{c}
	case "none":
		return noReset{c}
	}
	return c
}

type fwOp struct {
	Kind  string `json:"k"` // write | flush | close
	Len   int    `json:"len,omitempty"`
	Fill  byte   `json:"fill,omitempty"`
	Tail  string `json:"tail,omitempty"`  // raw compressor: what Flush writes from here on
	Extra string `json:"extra,omitempty"` // appended after the compressor's flush output from here on
}

type fwRes struct {
	N     int  `json:"n"`
	Err   bool `json:"err"`
	Stick bool `json:"sticky"` // Err() != nil after the call
}

var tails = []string{"\x00\x00\xff\xff", "", "\xff\xff", "\x00\xff\xff", "\x01\x00\x00\xff\xff", "\x00\x00\xff\xfe"}

func drawFwOps(t *rapid.T, label string, min, max int, raw bool, mayBreak bool) []fwOp {
	n := rapid.IntRange(min, max).Draw(t, label+".n")
	ops := make([]fwOp, 0, n+1)
	for i := 0; i < n; i++ {
		var o fwOp
		switch rapid.IntRange(0, 5).Draw(t, label+".k") {
		case 0, 1, 2:
			o = fwOp{Kind: "write", Len: rapid.SampledFrom([]int{0, 1, 2, 3, 4, 5, 9, 40, 300, 5000}).Draw(t, label+".len"), Fill: rapid.Byte().Draw(t, label+".fill")}
		case 3, 4:
			o = fwOp{Kind: "flush"}
		default:
			o = fwOp{Kind: "close"}
		}
		if o.Kind == "flush" && raw {
			o.Tail = rapid.SampledFrom(tails).Draw(t, label+".tail")
			if !mayBreak && rapid.Bool().Draw(t, label+".goodtail") {
				o.Tail = tails[0]
			}
		}
		if o.Kind == "flush" && mayBreak && rapid.IntRange(0, 3).Draw(t, label+".bad?") == 0 {
			o.Extra = rapid.SampledFrom([]string{"\x00", "\xff\xff\xff\xff", "\x00\x00\xff"}).Draw(t, label+".extra")
		}
		ops = append(ops, o)
	}
	return ops
}

func payloadBytes(n int, fill byte) []byte {
	p := make([]byte, n)
	for i := range p {
		p[i] = fill + byte(i%7)*byte(i%3)
	}
	return p
}

func runFw(w *wsflate.Writer, ctl *compCtl, ops []fwOp) []fwRes {
	res := make([]fwRes, len(ops))
	for i, o := range ops {
		var n int
		var err error
		switch o.Kind {
		case "write":
			if strings.HasPrefix(ctl.kind, "flatedict") {
				n, err = w.Write(dictPayload(o.Len, o.Fill))
			} else {
				n, err = w.Write(payloadBytes(o.Len, o.Fill))
			}
		case "flush":
			ctl.tail, ctl.extra = []byte(o.Tail), []byte(o.Extra)
			err = w.Flush()
		case "close":
			err = w.Close()
		}
		res[i] = fwRes{n, err != nil, w.Err() != nil}
	}
	return res
}

// TestFlateWriterReset: wsflate.Writer after Reset (mid-stream, after a
// destination error, after a bad-compressor error, after Close) against a new
// wsflate.Writer, for compressors with and without their own Reset.
func TestFlateWriterReset(t *testing.T) {
	hx.Check(t, 4, func(t *rapid.T) {
		kind := rapid.SampledFrom(compKinds).Draw(t, "kind")
		raw := strings.HasPrefix(kind, "raw")
		h1 := drawFwOps(t, "h1", 0, 5, raw, true)
		h2 := drawFwOps(t, "h2", 0, 4, raw, false)
		if rapid.IntRange(0, 3).Draw(t, "h2.endflush") > 0 {
			o := fwOp{Kind: "flush"}
			if raw {
				o.Tail = rapid.SampledFrom(tails).Draw(t, "h2.endtail")
			}
			h2 = append(h2, o)
		}
		hx.Eval()

		ctl := &compCtl{kind: kind}
		rec1 := tx.NewRec()
		planned := drawFailPlan(t, "h1", rec1, 40)
		w := wsflate.NewWriter(rec1, ctl.ctor)
		r1 := runFw(w, ctl, h1)
		errBefore := w.Err() != nil
		destFailed := rec1.Failed
		ctl.tail, ctl.extra = nil, nil

		// Reset onto a new destination, or onto the very same one (which, if it
		// had failed, has recovered): the per-message Reset(conn) loop.
		rec2 := tx.NewRec()
		sameDest := rapid.IntRange(0, 2).Draw(t, "same-dest") == 0
		if sameDest {
			rec2 = rec1
			rec1.FailAt, rec1.Failed = -1, false
			hx.Class(fmt.Sprintf("flatewriter/reset-onto-same-destination/after-dest-error=%v", destFailed))
		}
		mark, markCalls := rec2.Len(), len(rec2.Calls)
		w.Reset(rec2)
		if rec2.Len() != mark || len(rec2.Calls) != markCalls {
			t.Fatalf("Reset(dest) itself wrote %x to the destination (a new Writer writes nothing before its first Write)\ncompressor %s, history before: %s", rec2.Bytes()[mark:], kind, hx.JSON(h1))
		}

		ctlT := &compCtl{kind: kind}
		recT := tx.NewRec()
		twin := wsflate.NewWriter(recT, ctlT.ctor)

		if rapid.IntRange(0, 99).Draw(t, "h2.fail?") >= 85 {
			k := rapid.IntRange(0, 3).Draw(t, "h2.failat")
			rec2.FailAt, recT.FailAt = markCalls+k, k
			rec2.Short, recT.Short = 0, 0
		}
		if w.Err() != nil || twin.Err() != nil {
			if (w.Err() != nil) != (twin.Err() != nil) {
				t.Fatalf("Err() right after Reset: %v, fresh writer: %v", w.Err(), twin.Err())
			}
		}
		ra := runFw(w, ctl, h2)
		rb := runFw(twin, ctlT, h2)
		desc := map[string]interface{}{"object": "wsflate.Writer", "compressor": kind, "history_before": h1, "results_before": r1, "dest_fail_plan_before": planned,
			"history_after": h2, "results_after": ra, "results_fresh": rb}
		for i := range h2 {
			if ra[i] != rb[i] {
				t.Fatalf("call %d (%s) after Reset returned %+v, fresh writer %+v\ncase: %s", i, h2[i].Kind, ra[i], rb[i], hx.JSON(desc))
			}
		}
		if !bytes.Equal(rec2.Bytes()[mark:], recT.Bytes()) {
			t.Fatalf("destination after Reset got %x, fresh writer's got %x\ncase: %s", head(rec2.Bytes()[mark:]), head(recT.Bytes()), hx.JSON(desc))
		}

		hx.Class("flatewriter/" + kind)
		state := "clean"
		switch {
		case destFailed:
			state = "dest-error"
		case errBefore:
			state = "compressor-error"
		case len(h1) > 0 && h1[len(h1)-1].Kind == "write" && h1[len(h1)-1].Len > 0:
			state = "mid-stream"
		case len(h1) > 0:
			state = "used"
		}
		hx.Class("flatewriter/state/" + state)
		if state != "clean" && len(rec2.Bytes()) > mark {
			var sh []string
			for _, o := range append(append([]fwOp{}, h1...), h2...) {
				sh = append(sh, fmt.Sprintf("%s%d%q", o.Kind[:1], lenClass(o.Len), o.Tail))
			}
			hx.NonTrivial(hx.Hash("flatewriter", kind, state, strings.Join(sh, " ")), func() interface{} { return desc })
		}
	})
}

func lenClass(n int) int {
	switch {
	case n == 0:
		return 0
	case n <= 4:
		return 1
	case n < 100:
		return 2
	}
	return 3
}

// ---------------------------------------------------------------------------
// wsflate.Reader.Reset

// deflate produces a permessage-deflate payload with compress/flate directly:
// a sync-flushed stream without its trailing 00 00 ff ff.
func deflate(data []byte, level int, dict []byte) []byte {
	var b bytes.Buffer
	fw, _ := flate.NewWriterDict(&b, level, dict)
	fw.Write(data)
	fw.Flush()
	out := b.Bytes()
	return out[:len(out)-4]
}

// resetDecomp implements wsflate.ReadResetter on top of compress/flate.
type resetDecomp struct {
	rc     io.ReadCloser
	resets *int
	dict   []byte
}

func (d *resetDecomp) Read(p []byte) (int, error) { return d.rc.Read(p) }
func (d *resetDecomp) Close() error               { return d.rc.Close() }
func (d *resetDecomp) Reset(r io.Reader) {
	*d.resets++
	d.rc.(flate.Resetter).Reset(r, d.dict)
}

// plainDecomp offers Read only: no Close, no Reset.
type plainDecomp struct{ r io.Reader }

func (d plainDecomp) Read(p []byte) (int, error) { return d.r.Read(p) }

type frSource struct {
	Kind       string `json:"kind"` // valid | corrupt | truncated | garbage
	Len        int    `json:"plain_len"`
	Fill       byte   `json:"fill"`
	ByteReader bool   `json:"byte_reader"`
	Chunks     []int  `json:"chunks,omitempty"`
	FlipAt     int    `json:"flip_at,omitempty"`
	CutAt      int    `json:"cut_at,omitempty"`
	wire       []byte
	plain      []byte
}

func drawFrSource(t *rapid.T, label string, validPct int, dict []byte) frSource {
	s := frSource{Kind: "valid"}
	s.Len = rapid.SampledFrom([]int{0, 1, 5, 60, 700, 9000}).Draw(t, label+".len")
	s.Fill = rapid.Byte().Draw(t, label+".fill")
	s.plain = payloadBytes(s.Len, s.Fill)
	if dict != nil {
		// payloads that back-reference the preset dictionary
		s.Len = rapid.SampledFrom([]int{20, 60, 108, 109, 300, 5000}).Draw(t, label+".dictlen")
		s.plain = dictPayload(s.Len, s.Fill)
	} else if rapid.Bool().Draw(t, label+".random") {
		s.plain = rapid.SliceOfN(rapid.Byte(), 0, 300).Draw(t, label+".bytes")
		s.Len = len(s.plain)
	}
	s.wire = deflate(s.plain, rapid.SampledFrom([]int{0, 1, 6, 9}).Draw(t, label+".level"), dict)
	if rapid.IntRange(0, 99).Draw(t, label+".valid?") >= validPct {
		switch rapid.IntRange(0, 2).Draw(t, label+".bad") {
		case 0:
			s.Kind = "corrupt"
			s.FlipAt = rapid.IntRange(0, len(s.wire)-1).Draw(t, label+".flip")
			s.wire = append([]byte(nil), s.wire...)
			s.wire[s.FlipAt] ^= byte(1 << uint(rapid.IntRange(0, 7).Draw(t, label+".bit")))
		case 1:
			s.Kind = "truncated"
			s.CutAt = rapid.IntRange(0, len(s.wire)-1).Draw(t, label+".cut")
			s.wire = s.wire[:s.CutAt]
		default:
			s.Kind = "garbage"
			s.wire = rapid.SliceOfN(rapid.Byte(), 1, 40).Draw(t, label+".garbage")
		}
	}
	s.ByteReader = rapid.Bool().Draw(t, label+".bytereader")
	if !s.ByteReader {
		s.Chunks = rapid.SampledFrom([][]int{nil, {1}, {2}, {7}, {3, 1, 64}}).Draw(t, label+".chunks")
	}
	return s
}

// reSrc is a source object whose content can be replaced: the same io.Reader
// value serves the next message (a connection). withByte adds io.ByteReader.
type reSrc struct {
	data  []byte
	pos   int
	chunk int
}

func (s *reSrc) load(data []byte, chunk int) { s.data, s.pos, s.chunk = data, 0, chunk }

func (s *reSrc) Read(p []byte) (int, error) {
	if s.pos == len(s.data) {
		return 0, io.EOF
	}
	n := len(p)
	if s.chunk > 0 && s.chunk < n {
		n = s.chunk
	}
	n = copy(p[:n], s.data[s.pos:])
	s.pos += n
	return n, nil
}

type reSrcByte struct{ *reSrc }

func (s reSrcByte) ReadByte() (byte, error) {
	if s.pos == len(s.data) {
		return 0, io.EOF
	}
	s.pos++
	return s.data[s.pos-1], nil
}

func (s frSource) chunk() int {
	if len(s.Chunks) > 0 {
		return s.Chunks[0]
	}
	return 0
}

func (s frSource) open() io.Reader {
	if s.ByteReader {
		return bytes.NewReader(s.wire)
	}
	return tx.NewSrc(s.wire, s.Chunks)
}

type frOp struct {
	Kind string `json:"k"` // read | close
	Len  int    `json:"len,omitempty"`
}

type frRes struct {
	Data  string `json:"data_hex,omitempty"`
	N     int    `json:"n"`
	Err   string `json:"err,omitempty"` // "", "EOF", "error"
	Stick bool   `json:"sticky"`
}

func errKind(err error) string {
	switch err {
	case nil:
		return ""
	case io.EOF:
		return "EOF"
	}
	return "error"
}

// runFr applies ops; a "drain" op reads to the end with the given buffer size.
func runFr(r *wsflate.Reader, ops []frOp) []frRes {
	var res []frRes
	for _, o := range ops {
		switch o.Kind {
		case "read":
			p := make([]byte, o.Len)
			n, err := r.Read(p)
			res = append(res, frRes{Data: fmt.Sprintf("%x", p[:n]), N: n, Err: errKind(err), Stick: r.Err() != nil})
		case "drain":
			p := make([]byte, o.Len)
			var all []byte
			var err error
			for i := 0; i < 1<<20; i++ {
				var n int
				n, err = r.Read(p)
				all = append(all, p[:n]...)
				if err != nil {
					break
				}
			}
			h := hx.Hash(all)
			res = append(res, frRes{Data: fmt.Sprintf("fnv:%x", h), N: len(all), Err: errKind(err), Stick: r.Err() != nil})
		case "close":
			err := r.Close()
			res = append(res, frRes{Err: errKind(err), Stick: r.Err() != nil})
		}
	}
	return res
}

func drawFrOps(t *rapid.T, label string, drain bool) []frOp {
	var ops []frOp
	n := rapid.IntRange(0, 4).Draw(t, label+".n")
	for i := 0; i < n; i++ {
		if rapid.IntRange(0, 4).Draw(t, label+".k") == 0 {
			ops = append(ops, frOp{Kind: "close"})
		} else {
			ops = append(ops, frOp{Kind: "read", Len: rapid.SampledFrom([]int{1, 2, 5, 64, 4096, 20000}).Draw(t, label+".len")})
		}
	}
	if drain {
		ops = append(ops, frOp{Kind: "drain", Len: rapid.SampledFrom([]int{1, 3, 64, 4096}).Draw(t, label+".drain")})
		if rapid.Bool().Draw(t, label+".close") {
			ops = append(ops, frOp{Kind: "close"})
		}
	}
	return ops
}

// TestFlateReaderReset: wsflate.Reader after Reset (after a partial read, after
// reading to the end, after corrupt input, after Close) against a new Reader.
func TestFlateReaderReset(t *testing.T) {
	hx.Check(t, 4, func(t *rapid.T) {
		kind := rapid.SampledFrom([]string{"flate", "flate-resetter", "plain", "flate-dict", "flate-dict", "flate-dict-resetter", "plain-dict"}).Draw(t, "decompressor")
		var dict []byte
		if strings.Contains(kind, "dict") {
			dict = presetDict
		}
		src1 := drawFrSource(t, "src1", 50, dict)
		src2 := drawFrSource(t, "src2", 80, dict)
		h1 := drawFrOps(t, "h1", rapid.Bool().Draw(t, "h1.drain"))
		h2 := drawFrOps(t, "h2", true)
		hx.Eval()

		mk := func() (func(io.Reader) wsflate.Decompressor, *int) {
			resets := new(int)
			return func(r io.Reader) wsflate.Decompressor {
				// the ctor is part of the configuration: here it carries the preset dictionary
				switch kind {
				case "flate-resetter", "flate-dict-resetter":
					return &resetDecomp{rc: flate.NewReaderDict(r, dict), resets: resets, dict: dict}
				case "plain", "plain-dict":
					return plainDecomp{flate.NewReaderDict(r, dict)}
				}
				return flate.NewReaderDict(r, dict)
			}, resets
		}
		ctorA, resetsA := mk()
		ctorB, _ := mk()
		// Reset onto a new source value, or onto the very same one now holding
		// the next message.
		sameSrc := rapid.IntRange(0, 2).Draw(t, "same-source") == 0
		var obj io.Reader
		var core *reSrc
		if sameSrc {
			core = &reSrc{}
			core.load(src1.wire, src1.chunk())
			obj = core
			if src1.ByteReader {
				obj = reSrcByte{core}
			}
			src2.ByteReader, src2.Chunks = src1.ByteReader, src1.Chunks
		}
		openA := func(s frSource) io.Reader {
			if sameSrc {
				core.load(s.wire, s.chunk())
				return obj
			}
			return s.open()
		}
		openB := func(s frSource) io.Reader {
			if sameSrc {
				c := &reSrc{}
				c.load(s.wire, s.chunk())
				if s.ByteReader {
					return reSrcByte{c}
				}
				return c
			}
			return s.open()
		}
		a := wsflate.NewReader(openA(src1), ctorA)
		r1 := runFr(a, h1)
		errBefore := a.Err() != nil
		a.Reset(openA(src2))
		b := wsflate.NewReader(openB(src2), ctorB)
		if (a.Err() != nil) != (b.Err() != nil) {
			t.Fatalf("Err() right after Reset: %v, fresh reader: %v", a.Err(), b.Err())
		}
		ra := runFr(a, h2)
		rb := runFr(b, h2)
		desc := map[string]interface{}{"object": "wsflate.Reader", "decompressor": kind, "source_before": src1, "history_before": h1, "results_before": r1,
			"source_after": src2, "history_after": h2, "results_after": ra, "results_fresh": rb}
		for i := range ra {
			if ra[i] != rb[i] {
				t.Fatalf("call %d (%s) after Reset returned %+v, fresh reader %+v\ncase: %s", i, h2[i].Kind, ra[i], rb[i], hx.JSON(desc))
			}
		}
		// Independent anchor for the differential: a valid second stream is
		// delivered completely by the fresh reader.
		if src2.Kind == "valid" && len(h2) > 0 && h2[0].Kind == "drain" {
			if rb[0].N != len(src2.plain) || rb[0].Err != "EOF" || rb[0].Data != fmt.Sprintf("fnv:%x", hx.Hash(src2.plain)) {
				t.Fatalf("fresh reader did not deliver the valid stream: %+v (plain %d bytes)\ncase: %s", rb[0], len(src2.plain), hx.JSON(desc))
			}
		}

		hx.Class("flatereader/" + kind)
		if sameSrc {
			hx.Class(fmt.Sprintf("flatereader/reset-onto-same-source/sticky-error-before=%v", errBefore))
		}
		state := "unused"
		partial := false
		for i, o := range h1 {
			if o.Kind == "read" && r1[i].Err == "" {
				partial = true
			}
		}
		switch {
		case errBefore:
			state = "sticky-error"
		case src1.Kind != "valid" && len(h1) > 0:
			state = "bad-input"
		case len(h1) > 0 && h1[len(h1)-1].Kind != "read" && len(r1) > 0:
			state = "drained-or-closed"
		case partial:
			state = "partial-read"
		case len(h1) > 0:
			state = "used"
		}
		hx.Class("flatereader/state/" + state)
		if *resetsA > 0 {
			hx.Class("flatereader/decompressor-reset-used")
		}
		if state != "unused" && len(ra) > 0 {
			var sh []string
			for _, o := range h1 {
				sh = append(sh, fmt.Sprintf("%s%d", o.Kind[:1], lenClass(o.Len)))
			}
			hx.NonTrivial(hx.Hash("flatereader", kind, state, src1.Kind, src1.ByteReader, src2.Kind, src2.ByteReader, strings.Join(sh, "")), func() interface{} { return desc })
		}
	})
}
