// C02 — payload masking equals the RFC 6455 §5.3 XOR for any offset and chunking.
//
// Oracle: ref.Mask, a byte loop out[i] = in[i] ^ key[(off+i)&3]. Every entry
// point named by the property (ws.Cipher, the six frame mask/unmask helpers,
// wsutil.CipherReader, wsutil.CipherWriter) is compared with it; on top of
// that the involution and the chunking-independence the statement derives.
package c02

import (
	"bufio"
	"bytes"
	"errors"
	"fmt"
	"io"
	"math"
	"math/rand"
	"testing"

	"github.com/gobwas/ws"
	"github.com/gobwas/ws/wsutil"
	"pgregory.net/rapid"

	"verif/harness/gen"
	"verif/harness/hx"
	"verif/harness/ref"
	"verif/harness/tx"
)

func TestMain(m *testing.M) { hx.Main(m, "C02") }

// ---------------------------------------------------------------------------
// helpers

const guard = 16

// pattern expands a drawn seed into n recognisable bytes (a pure function of
// the drawn value; drawing thousands of bytes one by one would only be slower).
func pattern(n int, seed uint32) []byte {
	p := make([]byte, n)
	x := seed | 1
	for i := range p {
		x ^= x << 13
		x ^= x >> 17
		x ^= x << 5
		p[i] = byte(x >> 11)
	}
	return p
}

func guardByte(i int) byte { return byte(0xC5 + 3*i) }

// win is a payload placed at offset a of a larger buffer, with guard bytes on
// both sides: buf[a:a+n] is what the code under test gets.
type win struct {
	buf  []byte
	a, n int
}

func newWin(content []byte, a int) win {
	w := win{buf: make([]byte, a+len(content)+guard), a: a, n: len(content)}
	for i := range w.buf {
		w.buf[i] = guardByte(i)
	}
	copy(w.buf[a:], content)
	return w
}

func (w win) p() []byte { return w.buf[w.a : w.a+w.n] }

func (w win) guardsIntact() bool {
	for i := 0; i < w.a; i++ {
		if w.buf[i] != guardByte(i) {
			return false
		}
	}
	for i := w.a + w.n; i < len(w.buf); i++ {
		if w.buf[i] != guardByte(i) {
			return false
		}
	}
	return true
}

// firstDiff returns the first index where a and b differ (or the shorter length).
func firstDiff(a, b []byte) int {
	n := len(a)
	if len(b) < n {
		n = len(b)
	}
	for i := 0; i < n; i++ {
		if a[i] != b[i] {
			return i
		}
	}
	return n
}

func diffMsg(what string, got, want []byte) string {
	i := firstDiff(got, want)
	lo, hiG, hiW := i-4, i+8, i+8
	if lo < 0 {
		lo = 0
	}
	if hiG > len(got) {
		hiG = len(got)
	}
	if hiW > len(want) {
		hiW = len(want)
	}
	return fmt.Sprintf("%s: %d bytes, want %d; first difference at byte %d: got …%x, want …%x", what, len(got), len(want), i, got[lo:hiG], want[lo:hiW])
}

// checkCipher is the one-shot oracle for ws.Cipher. Returns "" or the violation.
func checkCipher(content []byte, a int, key [4]byte, off int) string {
	w := newWin(content, a)
	want := ref.Mask(content, key, int64(off))
	ws.Cipher(w.p(), key, off)
	if !bytes.Equal(w.p(), want) {
		return diffMsg("Cipher result differs from payload[i]^key[(offset+i)%4]", w.p(), want)
	}
	if !w.guardsIntact() {
		return "Cipher wrote outside the payload slice"
	}
	ws.Cipher(w.p(), key, off)
	if !bytes.Equal(w.p(), content) {
		return diffMsg("Cipher applied twice does not restore the input", w.p(), content)
	}
	if !w.guardsIntact() {
		return "Cipher wrote outside the payload slice (second application)"
	}
	return ""
}

func offClass(off int) string {
	switch {
	case off < 4:
		return "<4"
	case off < 1<<20:
		return "<2^20"
	case off < 1<<32:
		return "<2^32"
	case off < 1<<41:
		return "<2^41"
	}
	return "near-MaxInt"
}

func lenClass(n int) string {
	switch {
	case n < 8:
		return "0-7"
	case n < 24:
		return "8-23"
	case n <= 80:
		return "24-80"
	case n <= 4200:
		return "81-4200"
	}
	return "~70k"
}

var edgeLens = []int{7, 8, 9, 15, 16, 17, 18, 19, 23, 24, 25, 31, 32, 33, 63, 64, 65, 127, 128, 129, 255, 256, 257, 1023, 1024, 1025, 4095, 4096, 4097}

func drawLen(t *rapid.T, label string) int {
	switch k := rapid.IntRange(0, 49).Draw(t, label+".kind"); {
	case k < 26:
		return rapid.IntRange(0, 80).Draw(t, label)
	case k < 40:
		return rapid.IntRange(81, 4096).Draw(t, label)
	case k < 49:
		return rapid.SampledFrom(edgeLens).Draw(t, label)
	}
	return rapid.IntRange(65500, 70100).Draw(t, label)
}

var edgeOffsets = []int{1<<31 - 1, 1 << 31, 1<<31 + 1, 1<<32 - 1, 1 << 32, 1<<32 + 1, 1<<32 + 2, 1<<32 + 3, 1<<40 - 3, 1<<40 - 2, 1<<40 - 1, 1 << 40}

func drawOffset(t *rapid.T, label string) int {
	switch rapid.IntRange(0, 3).Draw(t, label+".kind") {
	case 0:
		return rapid.IntRange(0, 11).Draw(t, label)
	case 1:
		return rapid.IntRange(12, 1<<20).Draw(t, label)
	case 2:
		return int(rapid.Int64Range(1<<20, 1<<40).Draw(t, label))
	}
	return rapid.SampledFrom(edgeOffsets).Draw(t, label)
}

func drawSeed(t *rapid.T) uint32 { return rapid.Uint32().Draw(t, "content") }

// ---------------------------------------------------------------------------
// ws.Cipher

// Every length 0..L (all residues of the head / 16-byte loop / tail split),
// every small offset and a set of huge ones, every slice alignment, two keys
// with four distinct bytes.
func TestCipherExhaustive(t *testing.T) {
	maxLen := hx.Pick(100, 200)
	maxAlign := hx.Pick(7, 15)
	offsets := []int{}
	for o := 0; o < 12; o++ {
		offsets = append(offsets, o)
	}
	offsets = append(offsets, edgeOffsets...)
	keys := [][4]byte{{0x01, 0x02, 0x04, 0x08}, {0xff, 0x80, 0x00, 0x7f}}
	cnt := 0
	for n := 0; n <= maxLen; n++ {
		if !hx.Mine(n) {
			continue
		}
		content := pattern(n, uint32(n)*2654435761+12345)
		// the largest offsets a stream position can take: offset+len <= MaxInt
		offs := append(append([]int(nil), offsets...), 1<<62, math.MaxInt-n-3, math.MaxInt-n-2, math.MaxInt-n-1, math.MaxInt-n)
		for _, off := range offs {
			for a := 0; a <= maxAlign; a++ {
				for ki, key := range keys {
					cnt++
					if n >= 8 && off%4 != 0 {
						hx.NonTrivial(hx.Hash("cipher", n, off, a, ki, 1), func() interface{} {
							return map[string]interface{}{"api": "Cipher", "len": n, "offset": off, "align": a, "key": fmt.Sprintf("%x", key)}
						})
					}
					if msg := checkCipher(content, a, key, off); msg != "" {
						hx.Failf(t, map[string]interface{}{"len": n, "offset": off, "align": a, "key": fmt.Sprintf("%x", key), "payload": fmt.Sprintf("%x", content)}, "%s", msg)
						return
					}
				}
			}
		}
	}
	hx.EvalN(cnt)
	hx.Part(fmt.Sprintf("Cipher: len 0..%d x offsets {0..11, 2^31-1..2^31+1, 2^32-1..2^32+3, 2^40-3..2^40, 2^62, MaxInt-len-3..MaxInt-len} x align 0..%d x 2 keys", maxLen, maxAlign), int64(cnt), true)
}

// Random payload / key / offset / alignment, applied in one call and as
// consecutive chunks with a running offset.
func TestCipherRandom(t *testing.T) {
	hx.Check(t, 16, func(t *rapid.T) {
		n := drawLen(t, "len")
		a := rapid.IntRange(0, 15).Draw(t, "align")
		key := gen.Key(t, "key")
		off := drawOffset(t, "offset")
		if rapid.IntRange(0, 9).Draw(t, "offsetNearMaxInt") == 0 {
			off = math.MaxInt - n - rapid.IntRange(0, 7).Draw(t, "below")
		}
		content := pattern(n, drawSeed(t))
		pieces := gen.Split(t, "split", content, 6)
		hx.Eval()

		nonEmpty := 0
		for _, p := range pieces {
			if len(p) > 0 {
				nonEmpty++
			}
		}
		hx.Class(fmt.Sprintf("cipher/len=%s/offMod4=%d/chunks=%d", lenClass(n), off%4, min(nonEmpty, 3)))
		hx.Class("cipher/offset" + offClass(off))
		if n >= 8 && (off%4 != 0 || nonEmpty >= 2) {
			cuts := []int{}
			for _, p := range pieces {
				cuts = append(cuts, len(p))
			}
			hx.NonTrivial(hx.Hash("cipher", n, off, a, fmt.Sprint(cuts)), func() interface{} {
				return map[string]interface{}{"api": "Cipher", "len": n, "offset": off, "align": a, "key": fmt.Sprintf("%x", key), "chunks": cuts}
			})
		}

		if msg := checkCipher(content, a, key, off); msg != "" {
			t.Fatalf("%s\nlen=%d offset=%d align=%d key=%x", msg, n, off, a, key)
		}
		// chunked with running offset == one call == reference
		w := newWin(content, a)
		pos := 0
		for _, p := range pieces {
			ws.Cipher(w.p()[pos:pos+len(p)], key, off+pos)
			pos += len(p)
		}
		want := ref.Mask(content, key, int64(off))
		if !bytes.Equal(w.p(), want) {
			t.Fatalf("%s\nlen=%d offset=%d align=%d key=%x", diffMsg("chunked Cipher differs from the one-shot reference", w.p(), want), n, off, a, key)
		}
		if !w.guardsIntact() {
			t.Fatalf("chunked Cipher wrote outside the payload slice")
		}
	})
}

// ---------------------------------------------------------------------------
// MaskFrame / MaskFrameWith / MaskFrameInPlace / MaskFrameInPlaceWith /
// UnmaskFrame / UnmaskFrameInPlace

var apiNames = []string{"MaskFrame", "MaskFrameWith", "MaskFrameInPlace", "MaskFrameInPlaceWith", "UnmaskFrame", "UnmaskFrameInPlace"}

func TestFrameHelpers(t *testing.T) {
	hx.Check(t, 10, func(t *rapid.T) {
		api := rapid.IntRange(0, 5).Draw(t, "api")
		n := drawLen(t, "len")
		a := rapid.IntRange(0, 15).Draw(t, "align")
		key := gen.Key(t, "key")
		content := pattern(n, drawSeed(t))
		hdr := ws.Header{
			Fin:    rapid.Bool().Draw(t, "fin"),
			Rsv:    byte(rapid.IntRange(0, 7).Draw(t, "rsv")),
			OpCode: ws.OpCode(rapid.IntRange(0, 15).Draw(t, "op")),
			Length: int64(n),
		}
		// The helpers work on f.Payload; Header.Length is carried through as it
		// is, also when the frame value was built with a Length that does not
		// match (a literal with Length left 0, a stale or announced length).
		lenMode := "consistent"
		switch k := rapid.IntRange(0, 9).Draw(t, "lengthMode"); {
		case k == 6:
			lenMode = "zero"
			hdr.Length = 0
		case k == 7 && n > 0:
			lenMode = "smaller"
			hdr.Length = int64(rapid.IntRange(0, n-1).Draw(t, "announced"))
		case k >= 8:
			lenMode = "larger"
			hdr.Length = int64(n + rapid.IntRange(1, 16).Draw(t, "announcedExtra"))
		}
		unmask := api >= 4
		copying := api == 0 || api == 1 || api == 4
		seed := rapid.Int64().Draw(t, "randSeed")
		// None of the helpers consults the incoming Masked flag: they XOR
		// f.Payload with the key (Mask* helpers) resp. with Header.Mask
		// (Unmask* helpers) whatever the header said before.
		variant := "plain"
		if unmask {
			switch k := rapid.IntRange(0, 9).Draw(t, "unmaskInput"); {
			case k == 0:
				// unmasked frame, zero key: the XOR is the identity
				variant = "unmasked-input"
				key = [4]byte{}
			case k == 1:
				// header carries a key but says Masked=false
				variant = "masked-flag-clear"
				hdr.Mask = key
			default:
				hdr.Masked = true
				hdr.Mask = key
			}
		} else {
			switch k := rapid.IntRange(0, 9).Draw(t, "maskInput"); {
			case k < 2:
				// Unmasked frame whose Mask field still holds an old key.
				variant = "stale-mask-field"
				hdr.Mask = gen.Key(t, "stale")
			case k < 5:
				// Frame that is already masked with the very key that is used
				// now: masking again XORs again (and restores the plain bytes).
				variant = "already-masked-same-key"
				hdr.Masked = true
				hdr.Mask = key
				if api == 0 || api == 2 {
					rand.Seed(seed)
					hdr.Mask = ws.NewMask() // the key the helper will draw after the same Seed
				}
			case k == 5:
				variant = "already-masked-other-key"
				hdr.Masked = true
				hdr.Mask = gen.Key(t, "other")
			}
		}
		hx.Eval()
		hx.Class(fmt.Sprintf("frame/%s/%s", apiNames[api], variant))
		hx.Class(fmt.Sprintf("frame/%s/headerLength=%s", apiNames[api], lenMode))
		hx.Class("frame/len=" + lenClass(n))

		w := newWin(content, a)
		in := ws.Frame{Header: hdr, Payload: w.p()}
		if n == 0 && rapid.Bool().Draw(t, "nilPayload") {
			in.Payload = nil
			hx.Class("frame/nil-payload")
		}
		var out ws.Frame
		rand.Seed(seed)
		switch api {
		case 0:
			out = ws.MaskFrame(in)
		case 1:
			out = ws.MaskFrameWith(in, key)
		case 2:
			out = ws.MaskFrameInPlace(in)
		case 3:
			out = ws.MaskFrameInPlaceWith(in, key)
		case 4:
			out = ws.UnmaskFrame(in)
		case 5:
			out = ws.UnmaskFrameInPlace(in)
		}
		name := apiNames[api]

		// header
		wantHdr := hdr
		used := key
		if unmask {
			wantHdr.Masked = false
			wantHdr.Mask = [4]byte{}
		} else {
			if api == 0 || api == 2 {
				used = out.Header.Mask // random key: visible only here
				if variant == "already-masked-same-key" {
					hx.Class(fmt.Sprintf("frame/%s/already-masked-same-key/key-predicted=%v", apiNames[api], used == hdr.Mask))
				}
			}
			wantHdr.Masked = true
			wantHdr.Mask = used
		}
		if out.Header != wantHdr {
			t.Fatalf("%s: header %+v, want %+v (input header %+v)", name, out.Header, wantHdr, hdr)
		}

		if n >= 8 {
			hx.NonTrivial(hx.Hash("frame", api, n, a, variant, lenMode), func() interface{} {
				return map[string]interface{}{"api": name, "len": n, "align": a, "key": fmt.Sprintf("%x", used), "variant": variant, "header_length": hdr.Length}
			})
		}

		// payload
		want := ref.Mask(content, used, 0)
		if len(out.Payload) != n {
			t.Fatalf("%s: result payload has %d bytes, the frame's Payload has %d (Header.Length=%d)", name, len(out.Payload), n, hdr.Length)
		}
		if !bytes.Equal(out.Payload, want) {
			t.Fatalf("%s\nkey=%x len=%d align=%d", diffMsg(name+": result payload differs from the XOR with the header key", out.Payload, want), used, n, a)
		}
		if !w.guardsIntact() {
			t.Fatalf("%s wrote outside the payload slice", name)
		}
		if copying {
			if !bytes.Equal(w.p(), content) {
				t.Fatalf("%s\nkey=%x len=%d", diffMsg(name+" (documented as copying) modified the caller's payload", w.p(), content), used, n)
			}
			// no aliasing in either direction
			for i := range out.Payload {
				out.Payload[i] ^= 0xFF
			}
			if !bytes.Equal(w.p(), content) {
				t.Fatalf("%s: writing to the result payload changed the caller's payload (aliased)", name)
			}
			for i := range out.Payload {
				out.Payload[i] ^= 0xFF
			}
			p := w.p()
			for i := range p {
				p[i] ^= 0xFF
			}
			if !bytes.Equal(out.Payload, want) {
				t.Fatalf("%s: writing to the caller's payload changed the result payload (aliased)", name)
			}
		} else if !bytes.Equal(w.p(), want) {
			// documented: "modifies f.Payload inplace"
			t.Fatalf("%s\nkey=%x len=%d", diffMsg(name+" (documented as in-place) left other bytes in the caller's slice than it returned", w.p(), want), used, n)
		}

		// mask ∘ unmask with the same key restores the input (copying variants on a private copy)
		back := ws.UnmaskFrame(ws.Frame{Header: ws.Header{Masked: true, Mask: used, Length: int64(n)}, Payload: want})
		if !bytes.Equal(back.Payload, content) {
			t.Fatalf("UnmaskFrame does not restore what %s produced (key %x, len %d)", name, used, n)
		}
	})
}

// ---------------------------------------------------------------------------
// wsutil.CipherReader

// drain reads cr to the end with the caller-buffer plan sizes (cycled) and
// returns everything delivered, the terminating error and the number of calls
// that delivered data.
func drain(t *rapid.T, cr *wsutil.CipherReader, sizes []int, maxCalls int) (got []byte, err error, calls int) {
	big := 0
	for _, s := range sizes {
		big = max(big, s)
	}
	space := make([]byte, big)
	for i := 0; ; i++ {
		if i > maxCalls {
			t.Fatalf("CipherReader did not finish within %d Read calls", maxCalls)
		}
		bs := sizes[i%len(sizes)]
		buf := space[:bs:bs]
		n, e := cr.Read(buf)
		if n < 0 || n > bs {
			t.Fatalf("CipherReader.Read returned n=%d for a %d-byte buffer", n, bs)
		}
		if n > 0 {
			calls++
		}
		got = append(got, buf[:n]...)
		if e != nil {
			return got, e, calls
		}
	}
}

func drawBufSizes(t *rapid.T, label string) []int {
	switch rapid.IntRange(0, 5).Draw(t, label+".kind") {
	case 0:
		return []int{1}
	case 1:
		return []int{rapid.IntRange(2, 9).Draw(t, label+".const")}
	case 2:
		return []int{rapid.IntRange(4000, 80000).Draw(t, label+".big")}
	}
	return rapid.SliceOfN(rapid.IntRange(1, 70), 1, 8).Draw(t, label+".sizes")
}

func TestCipherReader(t *testing.T) {
	hx.Check(t, 8, func(t *rapid.T) {
		n := drawLen(t, "len")
		key := gen.Key(t, "key")
		data := pattern(n, drawSeed(t))
		chunks := gen.Chunks(t, "chunks")
		bufs := drawBufSizes(t, "bufs")
		eofWithData := rapid.Bool().Draw(t, "eofWithData")
		var end error
		if rapid.IntRange(0, 3).Draw(t, "endKind") == 0 {
			end = tx.ErrInjected
		}
		viaReset := rapid.Bool().Draw(t, "viaReset")
		// second life of the same reader: Reset after `before` Read calls
		reuse := rapid.Bool().Draw(t, "reuse")
		hx.Eval()

		src := tx.NewSrc(data, chunks)
		src.EOFWithData, src.End = eofWithData, end
		var cr *wsutil.CipherReader
		if viaReset {
			cr = wsutil.NewCipherReader(nil, [4]byte{0xde, 0xad, 0xbe, 0xef})
			cr.Reset(src, key)
		} else {
			cr = wsutil.NewCipherReader(src, key)
		}
		wantEnd := end
		if wantEnd == nil {
			wantEnd = io.EOF
		}
		maxCalls := 2*n + 16

		want := ref.Mask(data, key, 0)
		if reuse {
			// read only a prefix, then Reset
			before := rapid.IntRange(0, 6).Draw(t, "before")
			var got []byte
			for i := 0; i < before; i++ {
				buf := make([]byte, bufs[i%len(bufs)])
				k, e := cr.Read(buf)
				got = append(got, buf[:k]...)
				if e != nil {
					break
				}
			}
			if !bytes.Equal(got, want[:min(len(got), len(want))]) || len(got) > len(want) {
				t.Fatalf("%s\nkey=%x chunks=%v bufs=%v", diffMsg("CipherReader prefix differs from the reference", got, want), key, chunks, bufs)
			}
			if len(got) != src.Pos {
				t.Fatalf("CipherReader delivered %d bytes but consumed %d from the source", len(got), src.Pos)
			}
			key2 := gen.Key(t, "key2")
			if rapid.IntRange(0, 3).Draw(t, "sameKeyAfterReset") == 0 {
				key2 = key // Reset with the identical key must still restart at offset 0
			}
			n2 := drawLen(t, "len2")
			data2 := pattern(n2, drawSeed(t)^0x9e3779b9)
			src2 := tx.NewSrc(data2, gen.Chunks(t, "chunks2"))
			src2.EOFWithData = rapid.Bool().Draw(t, "eofWithData2")
			cr.Reset(src2, key2)
			got2, err2, calls2 := drain(t, cr, bufs, 2*n2+16)
			if err2 != io.EOF {
				t.Fatalf("CipherReader after Reset ended with %v, source ended with io.EOF", err2)
			}
			want2 := ref.Mask(data2, key2, 0)
			if !bytes.Equal(got2, want2) {
				t.Fatalf("%s\nfirst life: %d bytes with key %x; after Reset key=%x", diffMsg("CipherReader after Reset does not restart at offset 0 with the new key", got2, want2), len(got), key, key2)
			}
			hx.Class(fmt.Sprintf("reader/reset/readBefore%%4=%d", len(got)%4))
			if n2 >= 8 && calls2 >= 2 {
				hx.NonTrivial(hx.Hash("reader-reset", n2, len(got), gen.ChunkClass(chunks), fmt.Sprint(bufs)), func() interface{} {
					return map[string]interface{}{"api": "CipherReader.Reset", "read_before_reset": len(got), "len_after": n2, "key2": fmt.Sprintf("%x", key2), "reads_after": calls2}
				})
			}
			return
		}

		got, err, calls := drain(t, cr, bufs, maxCalls)
		if err != wantEnd {
			t.Fatalf("CipherReader ended with %v, source ended with %v", err, wantEnd)
		}
		if !bytes.Equal(got, want) {
			t.Fatalf("%s\nkey=%x chunks=%v bufs=%v eofWithData=%v", diffMsg("CipherReader output differs from the reference", got, want), key, chunks, bufs, eofWithData)
		}
		if src.Pos != n {
			t.Fatalf("CipherReader consumed %d of %d source bytes", src.Pos, n)
		}
		hx.Class(fmt.Sprintf("reader/len=%s/reads=%d", lenClass(n), min(calls, 3)))
		hx.Class(fmt.Sprintf("reader/src=%s/eofWithData=%v/end=%v", gen.ChunkClass(chunks), eofWithData, wantEnd))
		if n >= 8 && calls >= 2 {
			hx.NonTrivial(hx.Hash("reader", n, fmt.Sprint(chunks), fmt.Sprint(bufs), eofWithData), func() interface{} {
				return map[string]interface{}{"api": "CipherReader", "len": n, "key": fmt.Sprintf("%x", key), "src_chunks": chunks, "caller_bufs": bufs, "reads": calls}
			})
		}
	})
}

// readN reads exactly k bytes (or to the end) from r.
func readN(t *rapid.T, r io.Reader, k int) []byte {
	out := make([]byte, 0, k)
	for tries := 0; len(out) < k; tries++ {
		if tries > 4*k+8 {
			t.Fatalf("reader makes no progress")
		}
		buf := make([]byte, k-len(out))
		n, err := r.Read(buf)
		out = append(out, buf[:n]...)
		if err != nil {
			break
		}
	}
	return out
}

// The source of a CipherReader is any io.Reader: bytes.Reader, bufio.Reader,
// and another CipherReader that has already delivered k bytes (double masking,
// unmask-then-remask). The outer reader's output is the XOR of what its source
// yields from the moment it was attached, starting at offset 0.
func TestCipherReaderSourceKinds(t *testing.T) {
	hx.Check(t, 8, func(t *rapid.T) {
		n := drawLen(t, "len")
		if n > 5000 {
			n = n % 5000
		}
		key := gen.Key(t, "key")
		data := pattern(n, drawSeed(t))
		chunks := gen.Chunks(t, "chunks")
		bufs := drawBufSizes(t, "bufs")
		kind := rapid.SampledFrom([]string{"bytes.Reader", "bufio.Reader", "CipherReader", "CipherReader", "CipherReader"}).Draw(t, "source")
		viaReset := rapid.Bool().Draw(t, "viaReset")
		hx.Eval()

		var src io.Reader
		want := ref.Mask(data, key, 0)
		pre := 0
		var innerKey [4]byte
		switch kind {
		case "bytes.Reader":
			src = bytes.NewReader(append([]byte(nil), data...))
		case "bufio.Reader":
			s := tx.NewSrc(data, chunks)
			s.EOFWithData = rapid.Bool().Draw(t, "eofWithData")
			src = bufio.NewReaderSize(s, rapid.IntRange(16, 64).Draw(t, "bufioSize"))
		case "CipherReader":
			innerKey = gen.Key(t, "innerKey")
			if rapid.IntRange(0, 3).Draw(t, "sameKey") == 0 {
				innerKey = key
			}
			s := tx.NewSrc(data, chunks)
			s.EOFWithData = rapid.Bool().Draw(t, "eofWithData")
			inner := wsutil.NewCipherReader(s, innerKey)
			pre = min(rapid.IntRange(0, 9).Draw(t, "readThroughInnerFirst"), n)
			once := ref.Mask(data, innerKey, 0)
			if got := readN(t, inner, pre); !bytes.Equal(got, once[:pre]) {
				t.Fatalf("%s", diffMsg("inner CipherReader prefix differs from the reference", got, once[:pre]))
			}
			src = inner
			want = ref.Mask(once[pre:], key, 0)
		}
		var cr *wsutil.CipherReader
		if viaReset {
			cr = wsutil.NewCipherReader(nil, [4]byte{0xde, 0xad, 0xbe, 0xef})
			cr.Reset(src, key)
		} else {
			cr = wsutil.NewCipherReader(src, key)
		}
		got, err, calls := drain(t, cr, bufs, 2*n+16)
		if err != io.EOF {
			t.Fatalf("CipherReader over %s ended with %v", kind, err)
		}
		if !bytes.Equal(got, want) {
			t.Fatalf("%s\nsource=%s key=%x innerKey=%x bytes read through the inner reader first=%d viaReset=%v", diffMsg("CipherReader output differs from the XOR of what its source yields", got, want), kind, key, innerKey, pre, viaReset)
		}
		hx.Class(fmt.Sprintf("reader-source/%s/viaReset=%v", kind, viaReset))
		if kind == "CipherReader" {
			hx.Class(fmt.Sprintf("reader-source/stacked/innerDelivered%%4=%d", pre%4))
		}
		if len(want) >= 8 && (calls >= 2 || pre%4 != 0) {
			hx.NonTrivial(hx.Hash("reader-source", kind, n, pre, viaReset, fmt.Sprint(chunks), fmt.Sprint(bufs)), func() interface{} {
				return map[string]interface{}{"api": "CipherReader over " + kind, "len": n, "key": fmt.Sprintf("%x", key), "inner_key": fmt.Sprintf("%x", innerKey), "inner_delivered_before": pre, "via_reset": viaReset}
			})
		}
	})
}

// Every way of taking bytes out of the same reader, mixed freely: Read,
// io.ReadFull, io.ReadAtLeast, ReadByte when the reader offers it, io.Copy
// (WriteTo when the reader offers it) through a limited and an unlimited
// view. Everything taken out, in order, is the reference at a running offset.
func TestCipherReaderFeedingModes(t *testing.T) {
	hx.Check(t, 8, func(t *rapid.T) {
		n := rapid.IntRange(0, 300).Draw(t, "len")
		if rapid.IntRange(0, 5).Draw(t, "long") == 0 {
			n = drawLen(t, "lenLong") % 9000
		}
		key := gen.Key(t, "key")
		data := pattern(n, drawSeed(t))
		chunks := gen.Chunks(t, "chunks")
		src := tx.NewSrc(data, chunks)
		src.EOFWithData = rapid.Bool().Draw(t, "eofWithData")
		nops := rapid.IntRange(1, 8).Draw(t, "ops")
		hx.Eval()

		cr := wsutil.NewCipherReader(src, key)
		_, hasWriteTo := interface{}(cr).(io.WriterTo)
		_, hasReadByte := interface{}(cr).(io.ByteReader)
		want := ref.Mask(data, key, 0)
		var got []byte
		var used []string
		odd, done := false, false
		for i := 0; i < nops && !done; i++ {
			op := rapid.SampledFrom([]string{"Read", "Read(empty)", "ReadFull", "ReadAtLeast", "ReadByte", "CopyN", "Copy"}).Draw(t, "op")
			if i == nops-1 {
				op = "Copy" // drain the rest
			}
			if len(got)%4 != 0 {
				odd = true
			}
			used = append(used, op)
			var err error
			switch op {
			case "Read":
				buf := make([]byte, rapid.IntRange(1, 40).Draw(t, "size"))
				var k int
				k, err = cr.Read(buf)
				got = append(got, buf[:k]...)
			case "Read(empty)":
				// takes nothing out and leaves the stream where it was
				k, e := cr.Read(nil)
				if k != 0 {
					t.Fatalf("Read(nil) returned n=%d", k)
				}
				if e != nil && e != io.EOF {
					t.Fatalf("Read(nil): %v", e)
				}
			case "ReadFull":
				buf := make([]byte, rapid.IntRange(1, 40).Draw(t, "size"))
				var k int
				k, err = io.ReadFull(cr, buf)
				got = append(got, buf[:k]...)
			case "ReadAtLeast":
				buf := make([]byte, rapid.IntRange(1, 40).Draw(t, "size"))
				var k int
				k, err = io.ReadAtLeast(cr, buf, rapid.IntRange(1, len(buf)).Draw(t, "atLeast"))
				got = append(got, buf[:k]...)
			case "ReadByte":
				cnt := rapid.IntRange(1, 7).Draw(t, "count")
				if br, ok := interface{}(cr).(io.ByteReader); ok {
					for j := 0; j < cnt && err == nil; j++ {
						var c byte
						if c, err = br.ReadByte(); err == nil {
							got = append(got, c)
						}
					}
				} else {
					buf := make([]byte, cnt)
					var k int
					k, err = io.ReadFull(cr, buf)
					got = append(got, buf[:k]...)
				}
			case "CopyN":
				rec := tx.NewRec()
				_, err = io.CopyN(rec, cr, int64(rapid.IntRange(1, 40).Draw(t, "size")))
				got = append(got, rec.Bytes()...)
			case "Copy":
				rec := tx.NewRec()
				if wt, ok := interface{}(cr).(io.WriterTo); ok && rapid.Bool().Draw(t, "directWriteTo") {
					_, err = wt.WriteTo(rec)
				} else {
					_, err = io.Copy(rec, cr)
				}
				got = append(got, rec.Bytes()...)
				if err == nil {
					done = true
				}
			}
			if !bytes.Equal(got, want[:min(len(got), len(want))]) || len(got) > len(want) {
				t.Fatalf("%s\nkey=%x chunks=%v ops=%v", diffMsg("bytes taken out so far differ from the reference", got, want), key, chunks, used)
			}
			switch err {
			case nil:
			case io.EOF, io.ErrUnexpectedEOF:
				done = true
			default:
				t.Fatalf("%s: %v", op, err)
			}
		}
		if !bytes.Equal(got, want) {
			t.Fatalf("%s\nkey=%x chunks=%v ops=%v", diffMsg("bytes taken out differ from the reference", got, want), key, chunks, used)
		}
		hx.Class(fmt.Sprintf("reader-modes/implements WriterTo=%v ByteReader=%v/opAfterOddByteCount=%v", hasWriteTo, hasReadByte, odd))
		for _, o := range used {
			hx.Class("reader-modes/op=" + o)
		}
		if n >= 8 && odd {
			hx.NonTrivial(hx.Hash("reader-modes", n, fmt.Sprint(chunks), fmt.Sprint(used), len(got)), func() interface{} {
				return map[string]interface{}{"api": "CipherReader, mixed ways of reading", "len": n, "key": fmt.Sprintf("%x", key), "src_chunks": chunks, "ops": used}
			})
		}
	})
}

// bulkSrc claims to have filled the caller's buffer without touching it
// (the content of the bulk phase is irrelevant, only the byte count matters),
// until `tail` is all that is left; the tail is delivered for real.
type bulkSrc struct {
	bulk int64
	tail []byte
}

func (s *bulkSrc) Read(p []byte) (int, error) {
	if s.bulk > 0 {
		n := int64(len(p))
		if n > s.bulk {
			n = s.bulk
		}
		s.bulk -= n
		return int(n), nil
	}
	if len(s.tail) == 0 {
		return 0, io.EOF
	}
	n := copy(p, s.tail)
	s.tail = s.tail[n:]
	return n, nil
}

// lastN keeps only the last bytes written to it and the total count.
type lastN struct {
	total int64
	last  []byte
}

func (l *lastN) Write(p []byte) (int, error) {
	l.total += int64(len(p))
	if len(p) >= 64 {
		l.last = append(l.last[:0], p[len(p)-64:]...)
	} else {
		l.last = append(l.last, p...)
		if len(l.last) > 64 {
			l.last = l.last[len(l.last)-64:]
		}
	}
	return len(p), nil
}

// More than 2^31 (thorough: and more than 2^32) bytes through ONE reader and
// ONE writer without Reset, in 1 MiB pieces from a reusable buffer; the next
// 64 bytes must be masked at the true 64-bit stream offset.
func TestStreamBeyond2GiB(t *testing.T) {
	if hx.Shard != 0 {
		return
	}
	key := [4]byte{0x01, 0x02, 0x04, 0x08}
	tail := pattern(64, 0xC0FFEE)
	marks := []int64{1<<31 + 1}
	if hx.Thorough() {
		marks = append(marks, 1<<32+3)
	}
	const piece = 1 << 20
	space := make([]byte, piece)

	// reader: one object, one source object that the harness refills
	src := &bulkSrc{}
	cr := wsutil.NewCipherReader(src, key)
	var total int64
	for _, mark := range marks {
		src.bulk, src.tail = mark-total, append([]byte(nil), tail...)
		for total < mark {
			n, err := cr.Read(space[:min(int64(piece), mark-total)])
			total += int64(n)
			if err != nil {
				hx.Failf(t, map[string]int64{"streamed": total}, "CipherReader.Read after %d bytes: %v", total, err)
				return
			}
		}
		got := make([]byte, 64)
		if _, err := io.ReadFull(cr, got); err != nil {
			hx.Failf(t, map[string]int64{"streamed": mark}, "CipherReader.Read at stream offset %d: %v", mark, err)
			return
		}
		total += 64
		if want := ref.Mask(tail, key, mark); !bytes.Equal(got, want) {
			hx.Failf(t, map[string]interface{}{"streamed_before": mark, "key": fmt.Sprintf("%x", key)}, "%s", diffMsg(fmt.Sprintf("CipherReader: the 64 bytes after %d streamed bytes are not masked at stream offset %d", mark, mark), got, want))
			return
		}
		hx.NonTrivial(hx.Hash("reader-beyond", mark), func() interface{} {
			return map[string]interface{}{"api": "CipherReader", "streamed_before": mark, "checked": 64}
		})
	}

	// writer
	dst := &lastN{}
	cw := wsutil.NewCipherWriter(dst, key)
	var fed int64
	for _, mark := range marks {
		for fed < mark {
			n, err := cw.Write(space[:min(int64(1<<16), mark-fed)]) // 64 KiB: the largest size the writer takes from its pool
			fed += int64(n)
			if err != nil {
				hx.Failf(t, map[string]int64{"streamed": fed}, "CipherWriter.Write after %d bytes: %v", fed, err)
				return
			}
		}
		if n, err := cw.Write(tail); n != 64 || err != nil {
			hx.Failf(t, map[string]int64{"streamed": mark}, "CipherWriter.Write at stream offset %d = (%d, %v)", mark, n, err)
			return
		}
		fed += 64
		if want := ref.Mask(tail, key, mark); !bytes.Equal(dst.last, want) || dst.total != fed {
			hx.Failf(t, map[string]interface{}{"streamed_before": mark, "key": fmt.Sprintf("%x", key)}, "%s", diffMsg(fmt.Sprintf("CipherWriter: the 64 bytes after %d streamed bytes are not masked at stream offset %d", mark, mark), dst.last, want))
			return
		}
		hx.NonTrivial(hx.Hash("writer-beyond", mark), func() interface{} {
			return map[string]interface{}{"api": "CipherWriter", "streamed_before": mark, "checked": 64}
		})
	}
	hx.EvalN(2 * len(marks))
	hx.Part("CipherReader/CipherWriter: 64 bytes checked at stream offset 2^31+1 (thorough: and 2^32+3) of one object without Reset", int64(2*len(marks)), true)
}

// errTransient is a non-fatal source error (a deadline that fired, a
// temporary condition): the stream goes on afterwards.
var errTransient = errors.New("c02: transient source error")

// hiccupSrc serves data in chunks; Read call number i (0-based) for which
// Hiccup[i] is set returns its bytes together with errTransient (io.Reader
// allows n > 0 with any error), or no bytes and errTransient when Hiccup[i]
// is false-valued; later calls deliver plain data again. io.EOF only at the end.
type hiccupSrc struct {
	data   []byte
	sizes  []int
	Hiccup map[int]bool // call index -> deliver data with the error?
	calls  int
	pos    int
}

func (s *hiccupSrc) Read(p []byte) (int, error) {
	i := s.calls
	s.calls++
	withData, hic := s.Hiccup[i]
	if hic && !withData {
		return 0, errTransient
	}
	if len(p) == 0 {
		return 0, nil
	}
	rem := len(s.data) - s.pos
	if rem == 0 {
		return 0, io.EOF
	}
	n := min(len(p), rem)
	if len(s.sizes) > 0 {
		if c := s.sizes[i%len(s.sizes)]; c > 0 && c < n {
			n = c
		}
	}
	copy(p, s.data[s.pos:s.pos+n])
	s.pos += n
	if hic {
		return n, errTransient
	}
	return n, nil
}

// A source may deliver bytes together with a non-fatal error and carry on:
// the caller keeps reading, and everything delivered is still the reference
// at the running offset (bytes that came with an error count).
func TestCipherReaderTransientErrors(t *testing.T) {
	hx.Check(t, 8, func(t *rapid.T) {
		n := rapid.IntRange(1, 200).Draw(t, "len")
		if rapid.IntRange(0, 5).Draw(t, "long") == 0 {
			n = drawLen(t, "lenLong")%6000 + 1
		}
		key := gen.Key(t, "key")
		data := pattern(n, drawSeed(t))
		chunks := gen.Chunks(t, "chunks")
		bufs := drawBufSizes(t, "bufs")
		src := &hiccupSrc{data: data, sizes: chunks, Hiccup: map[int]bool{}}
		nh := rapid.IntRange(1, 4).Draw(t, "hiccups")
		for i := 0; i < nh; i++ {
			src.Hiccup[rapid.IntRange(0, 12).Draw(t, "hiccupAtCall")] = rapid.IntRange(0, 3).Draw(t, "withData") != 0
		}
		viaReset := rapid.Bool().Draw(t, "viaReset")
		hx.Eval()

		var cr *wsutil.CipherReader
		if viaReset {
			cr = wsutil.NewCipherReader(nil, [4]byte{0xde, 0xad, 0xbe, 0xef})
			cr.Reset(src, key)
		} else {
			cr = wsutil.NewCipherReader(src, key)
		}
		want := ref.Mask(data, key, 0)
		var got []byte
		withData, oddWithData := 0, false
		space := make([]byte, 80000)
		for i := 0; ; i++ {
			if i > 2*n+64 {
				t.Fatalf("CipherReader did not reach the end within %d Read calls", i)
			}
			bs := bufs[i%len(bufs)]
			buf := space[:bs:bs]
			k, err := cr.Read(buf)
			if k < 0 || k > bs {
				t.Fatalf("Read returned n=%d for a %d-byte buffer", k, bs)
			}
			got = append(got, buf[:k]...)
			if !bytes.Equal(got, want[:min(len(got), len(want))]) || len(got) > len(want) {
				t.Fatalf("%s\nkey=%x chunks=%v bufs=%v source calls answered with the transient error (true: with data)=%v; after Read call %d", diffMsg("bytes delivered so far differ from the reference", got, want), key, chunks, bufs, src.Hiccup, i)
			}
			if err == errTransient {
				if k > 0 {
					withData++
					if k%4 != 0 && len(got) < n {
						oddWithData = true
					}
				}
				continue // non-fatal: the caller reads on
			}
			if err == io.EOF {
				break
			}
			if err != nil {
				t.Fatalf("Read returned %v; the source only reports the transient error and io.EOF", err)
			}
		}
		if !bytes.Equal(got, want) {
			t.Fatalf("%s", diffMsg("CipherReader output differs from the reference", got, want))
		}
		hx.Class(fmt.Sprintf("reader-transient/errorsWithData=%d/oddCountThenMoreData=%v", min(withData, 2), oddWithData))
		if n >= 8 && oddWithData {
			hx.NonTrivial(hx.Hash("reader-transient", n, fmt.Sprint(chunks), fmt.Sprint(bufs), fmt.Sprint(src.Hiccup)), func() interface{} {
				return map[string]interface{}{"api": "CipherReader over a source with non-fatal errors", "len": n, "key": fmt.Sprintf("%x", key), "src_chunks": chunks, "caller_bufs": bufs, "error_at_source_call(with data)": fmt.Sprint(src.Hiccup)}
			})
		}
	})
}

// ---------------------------------------------------------------------------
// wsutil.CipherWriter

func pieceLens(ps [][]byte) []int {
	out := make([]int, len(ps))
	for i, p := range ps {
		out[i] = len(p)
	}
	return out
}

func TestCipherWriter(t *testing.T) {
	hx.Check(t, 8, func(t *rapid.T) {
		n := drawLen(t, "len")
		a := rapid.IntRange(0, 15).Draw(t, "align")
		key := gen.Key(t, "key")
		content := pattern(n, drawSeed(t))
		w := newWin(content, a)
		pieces := gen.Split(t, "split", w.p(), 8)
		viaReset := rapid.Bool().Draw(t, "viaReset")
		resetAt := -1
		key2 := key
		if rapid.Bool().Draw(t, "reuse") {
			resetAt = rapid.IntRange(0, len(pieces)).Draw(t, "resetAt")
			key2 = gen.Key(t, "key2")
		}
		hx.Eval()

		rec := tx.NewRec()
		var cw *wsutil.CipherWriter
		if viaReset {
			cw = wsutil.NewCipherWriter(nil, [4]byte{0xde, 0xad, 0xbe, 0xef})
			cw.Reset(rec, key)
		} else {
			cw = wsutil.NewCipherWriter(rec, key)
		}
		rec2 := tx.NewRec()
		written, cut := 0, n
		for i, p := range pieces {
			if i == resetAt {
				cut = written
				cw.Reset(rec2, key2)
			}
			k, err := cw.Write(p)
			if err != nil || k != len(p) {
				t.Fatalf("CipherWriter.Write(%d bytes) = (%d, %v) over a destination that accepts everything", len(p), k, err)
			}
			written += k
			if !bytes.Equal(w.p(), content) || !w.guardsIntact() {
				t.Fatalf("CipherWriter.Write modified the caller's bytes (piece %d, len %d)", i, len(p))
			}
		}
		if resetAt == len(pieces) {
			cut = written
		}
		want1 := ref.Mask(content[:cut], key, 0)
		if got := rec.Bytes(); !bytes.Equal(got, want1) {
			t.Fatalf("%s\nkey=%x pieces=%v", diffMsg("CipherWriter output differs from the reference", got, want1), key, pieceLens(pieces))
		}
		want2 := ref.Mask(content[cut:], key2, 0)
		if got := rec2.Bytes(); !bytes.Equal(got, want2) {
			t.Fatalf("%s\nbytes written before Reset=%d key=%x key2=%x pieces=%v", diffMsg("CipherWriter after Reset does not restart at offset 0 with the new key", got, want2), cut, key, key2, pieceLens(pieces))
		}
		nonEmpty := 0
		for _, p := range pieces {
			if len(p) > 0 {
				nonEmpty++
			}
		}
		hx.Class(fmt.Sprintf("writer/len=%s/pieces=%d", lenClass(n), min(nonEmpty, 3)))
		if resetAt >= 0 {
			hx.Class(fmt.Sprintf("writer/reset/writtenBefore%%4=%d", cut%4))
		}
		if n >= 8 && nonEmpty >= 2 {
			hx.NonTrivial(hx.Hash("writer", n, a, fmt.Sprint(pieceLens(pieces)), resetAt), func() interface{} {
				return map[string]interface{}{"api": "CipherWriter", "len": n, "key": fmt.Sprintf("%x", key), "pieces": pieceLens(pieces), "reset_before_piece": resetAt}
			})
		}

		// stream-level involution: reading the masked stream back through a
		// CipherReader with the same key gives the caller's bytes
		if resetAt < 0 {
			cr := wsutil.NewCipherReader(tx.NewSrc(rec.Bytes(), gen.Chunks(t, "backChunks")), key)
			back, err, _ := drain(t, cr, drawBufSizes(t, "backBufs"), 2*n+16)
			if err != io.EOF || !bytes.Equal(back, content) {
				t.Fatalf("CipherReader over CipherWriter output with the same key does not give the input back (err=%v, %d of %d bytes, first diff %d)", err, len(back), n, firstDiff(back, content))
			}
		}
	})
}

// The destination of a CipherWriter is any io.Writer: bytes.Buffer,
// bufio.Writer, and another CipherWriter that has already passed k bytes on.
func TestCipherWriterDestinationKinds(t *testing.T) {
	hx.Check(t, 6, func(t *rapid.T) {
		n := drawLen(t, "len")
		if n > 5000 {
			n = n % 5000
		}
		key := gen.Key(t, "key")
		content := pattern(n, drawSeed(t))
		caller := append([]byte(nil), content...)
		pieces := gen.Split(t, "split", caller, 6)
		kind := rapid.SampledFrom([]string{"bytes.Buffer", "bufio.Writer", "CipherWriter", "CipherWriter", "CipherWriter"}).Draw(t, "destination")
		viaReset := rapid.Bool().Draw(t, "viaReset")
		hx.Eval()

		var sink bytes.Buffer
		rec := tx.NewRec()
		var dst io.Writer
		var flush func() error
		result := func() []byte { return sink.Bytes() }
		want := ref.Mask(content, key, 0)
		pre := 0
		var innerKey [4]byte
		switch kind {
		case "bytes.Buffer":
			dst = &sink
		case "bufio.Writer":
			bw := bufio.NewWriterSize(&sink, rapid.IntRange(16, 64).Draw(t, "bufioSize"))
			dst, flush = bw, bw.Flush
		case "CipherWriter":
			innerKey = gen.Key(t, "innerKey")
			if rapid.IntRange(0, 3).Draw(t, "sameKey") == 0 {
				innerKey = key
			}
			inner := wsutil.NewCipherWriter(rec, innerKey)
			pre = rapid.IntRange(0, 9).Draw(t, "writtenThroughInnerFirst")
			head := pattern(pre, 0x5eed)
			if k, err := inner.Write(head); k != pre || err != nil {
				t.Fatalf("inner Write = (%d, %v)", k, err)
			}
			dst = inner
			result = rec.Bytes
			want = append(ref.Mask(head, innerKey, 0), ref.Mask(ref.Mask(content, key, 0), innerKey, int64(pre))...)
		}
		var cw *wsutil.CipherWriter
		if viaReset {
			cw = wsutil.NewCipherWriter(nil, [4]byte{0xde, 0xad, 0xbe, 0xef})
			cw.Reset(dst, key)
		} else {
			cw = wsutil.NewCipherWriter(dst, key)
		}
		for _, p := range pieces {
			if k, err := cw.Write(p); k != len(p) || err != nil {
				t.Fatalf("CipherWriter.Write(%d bytes) to %s = (%d, %v)", len(p), kind, k, err)
			}
		}
		if flush != nil {
			if err := flush(); err != nil {
				t.Fatalf("flush: %v", err)
			}
		}
		if got := result(); !bytes.Equal(got, want) {
			t.Fatalf("%s\ndestination=%s key=%x innerKey=%x bytes written through the inner writer first=%d viaReset=%v pieces=%v", diffMsg("bytes that reached the final destination differ from the reference", got, want), kind, key, innerKey, pre, viaReset, pieceLens(pieces))
		}
		if !bytes.Equal(caller, content) {
			t.Fatalf("CipherWriter.Write modified the caller's bytes")
		}
		hx.Class(fmt.Sprintf("writer-destination/%s/viaReset=%v", kind, viaReset))
		if kind == "CipherWriter" {
			hx.Class(fmt.Sprintf("writer-destination/stacked/innerPassedOn%%4=%d", pre%4))
		}
		if n >= 8 && (len(pieces) >= 2 || pre%4 != 0) {
			hx.NonTrivial(hx.Hash("writer-destination", kind, n, pre, viaReset, fmt.Sprint(pieceLens(pieces))), func() interface{} {
				return map[string]interface{}{"api": "CipherWriter over " + kind, "len": n, "key": fmt.Sprintf("%x", key), "inner_key": fmt.Sprintf("%x", innerKey), "inner_passed_on_before": pre, "pieces": pieceLens(pieces)}
			})
		}
	})
}

// segSrc serves its segments one after the other and reports io.EOF once at
// the end of each (a stream that pauses: more data follows a reported EOF).
// It has no WriteTo, so io.Copy cannot bypass the reader wrapped around it.
type segSrc struct {
	segs  [][]byte
	sizes []int
	i     int
}

func (s *segSrc) Read(p []byte) (int, error) {
	for len(s.segs) > 0 && len(s.segs[0]) == 0 {
		s.segs = s.segs[1:]
		return 0, io.EOF
	}
	if len(s.segs) == 0 {
		return 0, io.EOF
	}
	if len(p) == 0 {
		return 0, nil
	}
	n := min(len(p), len(s.segs[0]))
	if len(s.sizes) > 0 {
		if c := s.sizes[s.i%len(s.sizes)]; c > 0 && c < n {
			n = c
		}
		s.i++
	}
	copy(p, s.segs[0][:n])
	s.segs[0] = s.segs[0][n:]
	return n, nil
}

// Write calls interleaved with io.Copy(cw, src) for sources with and without
// WriteTo, and with ReadFrom called directly when the writer offers it: the
// destination stream is the reference of everything fed, at a running offset.
func TestCipherWriterCopyInterleaved(t *testing.T) {
	hx.Check(t, 6, func(t *rapid.T) {
		n := drawLen(t, "len")
		if n > 12000 {
			n = n % 12000
		}
		key := gen.Key(t, "key")
		content := pattern(n, drawSeed(t))
		caller := append([]byte(nil), content...)
		pieces := gen.Split(t, "split", caller, 6)
		ops := make([]string, len(pieces))
		for i := range ops {
			ops[i] = rapid.SampledFrom([]string{"Write", "Copy(tx.Src)", "Copy(tx.Src)", "Copy(LimitedReader)", "Copy(bytes.Reader)", "ReadFrom", "WriteString", "WriteString", "WriteByte"}).Draw(t, "op")
		}
		chunks := gen.Chunks(t, "chunks")
		hx.Eval()

		rec := tx.NewRec()
		cw := wsutil.NewCipherWriter(rec, key)
		_, hasReadFrom := interface{}(cw).(io.ReaderFrom)
		_, hasWriteString := interface{}(cw).(io.StringWriter)
		_, hasWriteByte := interface{}(cw).(io.ByteWriter)
		fed, oddBefore := 0, false
		for i, p := range pieces {
			if fed%4 != 0 && len(p) > 0 {
				oddBefore = true
			}
			var k int64
			var err error
			switch ops[i] {
			case "Write":
				var kk int
				kk, err = cw.Write(p)
				k = int64(kk)
			case "Copy(tx.Src)":
				k, err = io.Copy(cw, tx.NewSrc(p, chunks))
			case "Copy(LimitedReader)":
				k, err = io.Copy(cw, io.LimitReader(bytes.NewReader(append(append([]byte(nil), p...), 0xAA, 0xBB)), int64(len(p))))
			case "Copy(bytes.Reader)":
				k, err = io.Copy(cw, bytes.NewReader(append([]byte(nil), p...)))
			case "WriteString":
				// io.WriteString uses the writer's WriteString when it has one
				var kk int
				kk, err = io.WriteString(cw, string(p))
				k = int64(kk)
			case "WriteByte":
				if bwr, ok := interface{}(cw).(io.ByteWriter); ok {
					for _, c := range p {
						if err = bwr.WriteByte(c); err != nil {
							break
						}
						k++
					}
				} else {
					var kk int
					kk, err = cw.Write(p)
					k = int64(kk)
				}
			case "ReadFrom":
				if rf, ok := interface{}(cw).(io.ReaderFrom); ok {
					k, err = rf.ReadFrom(tx.NewSrc(p, chunks))
				} else {
					k, err = io.Copy(cw, tx.NewSrc(p, chunks))
				}
			}
			if err != nil || k != int64(len(p)) {
				t.Fatalf("%s of %d bytes = (%d, %v)", ops[i], len(p), k, err)
			}
			fed += len(p)
			if want := ref.Mask(content[:fed], key, 0); !bytes.Equal(rec.Bytes(), want) {
				t.Fatalf("%s\nkey=%x pieces=%v ops=%v (after op %d)", diffMsg("destination stream differs from the reference of everything fed so far", rec.Bytes(), want), key, pieceLens(pieces), ops, i)
			}
		}
		if !bytes.Equal(caller, content) {
			t.Fatalf("CipherWriter modified the caller's bytes")
		}
		hx.Class(fmt.Sprintf("writer-copy/implements ReaderFrom=%v StringWriter=%v ByteWriter=%v/opAfterOddByteCount=%v", hasReadFrom, hasWriteString, hasWriteByte, oddBefore))
		for _, o := range ops {
			hx.Class("writer-copy/op=" + o)
		}
		if n >= 8 && oddBefore {
			hx.NonTrivial(hx.Hash("writer-copy", n, fmt.Sprint(pieceLens(pieces)), fmt.Sprint(ops)), func() interface{} {
				return map[string]interface{}{"api": "CipherWriter Write/io.Copy interleaved", "len": n, "key": fmt.Sprintf("%x", key), "pieces": pieceLens(pieces), "ops": ops}
			})
		}
	})
}

// Read calls interleaved with io.Copy(dst, cr) (and WriteTo called directly
// when the reader offers it) over a source that pauses with io.EOF between
// segments: everything delivered, in order, is the reference of the source
// bytes at a running offset.
func TestCipherReaderCopyInterleaved(t *testing.T) {
	hx.Check(t, 6, func(t *rapid.T) {
		n := drawLen(t, "len")
		if n > 12000 {
			n = n % 12000
		}
		key := gen.Key(t, "key")
		data := pattern(n, drawSeed(t))
		segs := gen.Split(t, "segments", append([]byte(nil), data...), 5)
		chunks := gen.Chunks(t, "chunks")
		hx.Eval()

		src := &segSrc{segs: append([][]byte(nil), segs...), sizes: chunks}
		cr := wsutil.NewCipherReader(src, key)
		_, hasWriteTo := interface{}(cr).(io.WriterTo)
		var got []byte
		copies, oddBefore := 0, false
		// per segment: a few Read calls, then a copy to the segment's end
		for si := range segs {
			reads := rapid.IntRange(0, 3).Draw(t, "readsBeforeCopy")
			eof := false
			for r := 0; r < reads && !eof; r++ {
				buf := make([]byte, rapid.IntRange(1, 9).Draw(t, "bufSize"))
				k, err := cr.Read(buf)
				got = append(got, buf[:k]...)
				if err == io.EOF {
					eof = true
				} else if err != nil {
					t.Fatalf("Read: %v", err)
				}
			}
			if eof {
				continue // the segment ended during the Read calls
			}
			if len(got)%4 != 0 {
				oddBefore = true
			}
			rec := tx.NewRec()
			var err error
			if wt, ok := interface{}(cr).(io.WriterTo); ok && rapid.Bool().Draw(t, "directWriteTo") {
				_, err = wt.WriteTo(rec)
			} else {
				_, err = io.Copy(rec, cr)
			}
			if err != nil {
				t.Fatalf("io.Copy(dst, CipherReader) in segment %d: %v", si, err)
			}
			copies++
			got = append(got, rec.Bytes()...)
			consumed := 0
			for _, s := range segs[:si+1] {
				consumed += len(s)
			}
			if want := ref.Mask(data[:consumed], key, 0); !bytes.Equal(got, want) {
				t.Fatalf("%s\nkey=%x segments=%v chunks=%v (after the copy in segment %d)", diffMsg("bytes delivered by Read and io.Copy differ from the reference", got, want), key, pieceLens(segs), chunks, si)
			}
		}
		if want := ref.Mask(data, key, 0); !bytes.Equal(got, want) {
			t.Fatalf("%s\nkey=%x segments=%v chunks=%v", diffMsg("bytes delivered by Read and io.Copy differ from the reference", got, want), key, pieceLens(segs), chunks)
		}
		hx.Class(fmt.Sprintf("reader-copy/implementsWriterTo=%v/copies=%d/copyAfterOddByteCount=%v", hasWriteTo, min(copies, 3), oddBefore))
		if n >= 8 && oddBefore {
			hx.NonTrivial(hx.Hash("reader-copy", n, fmt.Sprint(pieceLens(segs)), fmt.Sprint(chunks), copies), func() interface{} {
				return map[string]interface{}{"api": "CipherReader Read/io.Copy interleaved", "len": n, "key": fmt.Sprintf("%x", key), "segments": pieceLens(segs), "copies": copies}
			})
		}
	})
}

// fancyDst is a destination that offers the optional interfaces type-switch
// fast paths look for; whatever method is used, the bytes land in one stream.
type fancyDst struct {
	data []byte
	via  map[string]int
}

func (f *fancyDst) Write(p []byte) (int, error) {
	f.via["Write"]++
	f.data = append(f.data, p...)
	return len(p), nil
}

func (f *fancyDst) WriteString(s string) (int, error) {
	f.via["WriteString"]++
	f.data = append(f.data, s...)
	return len(s), nil
}

func (f *fancyDst) WriteByte(b byte) error {
	f.via["WriteByte"]++
	f.data = append(f.data, b)
	return nil
}

func (f *fancyDst) ReadFrom(r io.Reader) (int64, error) {
	f.via["ReadFrom"]++
	var n int64
	buf := make([]byte, 512)
	for {
		k, err := r.Read(buf)
		f.data = append(f.data, buf[:k]...)
		n += int64(k)
		if err == io.EOF {
			return n, nil
		}
		if err != nil {
			return n, err
		}
	}
}

// The state of the destination is none of the writer's business: bytes that
// were in it before (a frame header), bytes the owner takes out between two
// writes, bytes the owner puts in between two writes. What the CipherWriter
// adds is payload XOR key at the writer's own running offset.
func TestCipherWriterDestinationState(t *testing.T) {
	hx.Check(t, 8, func(t *rapid.T) {
		n := drawLen(t, "len")
		if n > 6000 {
			n = n % 6000
		}
		key := gen.Key(t, "key")
		content := pattern(n, drawSeed(t))
		caller := append([]byte(nil), content...)
		pieces := gen.Split(t, "split", caller, 6)
		kind := rapid.SampledFrom([]string{"recorder", "bytes.Buffer", "bytes.Buffer", "bytes.Buffer", "bufio.Writer", "fancy"}).Draw(t, "destination")
		prefill := rapid.SampledFrom([]int{0, 0, 1, 2, 3, 4, 5, 6, 7, 14}).Draw(t, "prefill")
		viaReset := rapid.Bool().Draw(t, "viaReset")
		hx.Eval()

		var (
			rec       = tx.NewRec()
			buf       bytes.Buffer
			bw        *bufio.Writer
			fancy     = &fancyDst{via: map[string]int{}}
			dst       io.Writer
			collected []byte // taken out of the bytes.Buffer by its owner
		)
		switch kind {
		case "recorder":
			dst = rec
		case "bytes.Buffer":
			dst = &buf
		case "bufio.Writer":
			bw = bufio.NewWriterSize(rec, rapid.IntRange(16, 100).Draw(t, "bufioSize"))
			dst = bw
		case "fancy":
			dst = fancy
		}
		// sink is the stream as its final consumer sees it
		sink := func() []byte {
			switch kind {
			case "bytes.Buffer":
				return append(append([]byte(nil), collected...), buf.Bytes()...)
			case "fancy":
				return fancy.data
			}
			return rec.Bytes()
		}
		var want []byte
		raw := func(k int, tag byte) {
			b := bytes.Repeat([]byte{tag}, k)
			if m, err := dst.Write(b); m != k || err != nil {
				t.Fatalf("harness write to the destination = (%d, %v)", m, err)
			}
			want = append(want, b...)
		}
		raw(prefill, 0xFE)

		var cw *wsutil.CipherWriter
		if viaReset {
			cw = wsutil.NewCipherWriter(nil, [4]byte{0xde, 0xad, 0xbe, 0xef})
			cw.Reset(dst, key)
		} else {
			cw = wsutil.NewCipherWriter(dst, key)
		}
		fed, drains, raws, oddState := 0, 0, 0, prefill%4 != 0
		for i, p := range pieces {
			if i > 0 {
				// the owner of the destination acts between two writes
				switch act := rapid.IntRange(0, 5).Draw(t, "between"); {
				case act <= 1 && kind == "bytes.Buffer" && buf.Len() > 0:
					d := rapid.IntRange(1, buf.Len()).Draw(t, "drain")
					switch rapid.IntRange(0, 2).Draw(t, "drainHow") {
					case 0:
						collected = append(collected, buf.Next(d)...)
					case 1:
						tmp := make([]byte, d)
						k, _ := buf.Read(tmp)
						collected = append(collected, tmp[:k]...)
					default:
						d = buf.Len()
						collected = append(collected, buf.Bytes()...)
						buf.Reset()
					}
					drains++
					if d%4 != 0 {
						oddState = true
					}
				case act == 2:
					k := rapid.IntRange(1, 7).Draw(t, "rawBetween")
					raw(k, 0xFD)
					raws++
					if k%4 != 0 {
						oddState = true
					}
				case act == 3 && kind == "bufio.Writer":
					if err := bw.Flush(); err != nil {
						t.Fatalf("flush: %v", err)
					}
				}
			}
			var k int64
			var err error
			op := rapid.SampledFrom([]string{"Write", "Write", "Write", "Copy(tx.Src)", "WriteString"}).Draw(t, "op")
			if op == "Write" {
				var kk int
				kk, err = cw.Write(p)
				k = int64(kk)
			} else if op == "WriteString" {
				var kk int
				kk, err = io.WriteString(cw, string(p))
				k = int64(kk)
			} else {
				k, err = io.Copy(cw, tx.NewSrc(p, nil))
			}
			if err != nil || k != int64(len(p)) {
				t.Fatalf("%s of %d bytes to %s = (%d, %v)", op, len(p), kind, k, err)
			}
			want = append(want, ref.Mask(p, key, int64(fed))...)
			fed += len(p)
			if kind != "bufio.Writer" {
				if got := sink(); !bytes.Equal(got, want) {
					t.Fatalf("%s\ndestination=%s prefill=%d key=%x pieces=%v (after piece %d; %d bytes taken out so far, %d raw insertions)", diffMsg("stream at the destination differs: what the CipherWriter adds must be payload XOR key at the writer's running offset", got, want), kind, prefill, key, pieceLens(pieces), i, len(collected), raws)
				}
			}
		}
		if bw != nil {
			if err := bw.Flush(); err != nil {
				t.Fatalf("flush: %v", err)
			}
		}
		if got := sink(); !bytes.Equal(got, want) {
			t.Fatalf("%s\ndestination=%s prefill=%d key=%x pieces=%v", diffMsg("stream at the destination differs from the reference", got, want), kind, prefill, key, pieceLens(pieces))
		}
		if !bytes.Equal(caller, content) {
			t.Fatalf("CipherWriter modified the caller's bytes (destination %s)", kind)
		}
		hx.Class(fmt.Sprintf("writer-dst-state/%s/prefill%%4=%d", kind, prefill%4))
		hx.Class(fmt.Sprintf("writer-dst-state/%s/drains=%d/rawInsertions=%d", kind, min(drains, 2), min(raws, 2)))
		if kind == "fancy" {
			for _, m := range []string{"Write", "WriteString", "WriteByte", "ReadFrom"} {
				if fancy.via[m] > 0 {
					hx.Class("writer-dst-state/fancy/method-used=" + m)
				}
			}
		}
		if n >= 8 && oddState {
			hx.NonTrivial(hx.Hash("writer-dst-state", kind, n, prefill, drains, raws, fmt.Sprint(pieceLens(pieces))), func() interface{} {
				return map[string]interface{}{"api": "CipherWriter to " + kind, "len": n, "key": fmt.Sprintf("%x", key), "prefilled": prefill, "drains_between_writes": drains, "raw_insertions": raws, "pieces": pieceLens(pieces)}
			})
		}
	})
}

// flaky is a destination that accepts only Accept[i] mod (len(p)+1) bytes of
// call i and reports an error for that call — once; every other call is
// accepted whole.
type flaky struct {
	Accept map[int]int
	calls  int
	data   []byte
	lastN  int
}

func (f *flaky) Write(p []byte) (int, error) {
	i := f.calls
	f.calls++
	if k, ok := f.Accept[i]; ok {
		k %= len(p) + 1
		f.data = append(f.data, p[:k]...)
		f.lastN = k
		return k, tx.ErrInjected
	}
	f.data = append(f.data, p...)
	f.lastN = len(p)
	return len(p), nil
}

// A destination that takes only part of a write: the writer's position moves
// by what was transferred, so writing the remainder continues the stream.
func TestCipherWriterShortWrite(t *testing.T) {
	hx.Check(t, 8, func(t *rapid.T) {
		n := rapid.IntRange(1, 300).Draw(t, "len")
		if rapid.IntRange(0, 7).Draw(t, "long") == 0 {
			n = drawLen(t, "lenLong") + 1
		}
		key := gen.Key(t, "key")
		content := pattern(n, drawSeed(t))
		caller := append([]byte(nil), content...)
		pieces := gen.Split(t, "split", caller, 5)
		mode := rapid.SampledFrom([]string{"retry", "retry", "rec-then-reset"}).Draw(t, "mode")
		hx.Eval()

		if mode == "rec-then-reset" {
			// tx.Rec: k-th call accepts Short bytes and fails for good.
			rec := tx.NewRec()
			rec.FailAt = rapid.IntRange(0, len(pieces)-1).Draw(t, "failAt")
			rec.Short = rapid.IntRange(0, len(pieces[rec.FailAt])).Draw(t, "short")
			cw := wsutil.NewCipherWriter(rec, key)
			written := 0
			for i, p := range pieces {
				k, err := cw.Write(p)
				if i < rec.FailAt {
					if err != nil || k != len(p) {
						t.Fatalf("Write(%d bytes) = (%d, %v) before the injected failure", len(p), k, err)
					}
					written += k
					continue
				}
				if err != tx.ErrInjected || k != rec.Short {
					t.Fatalf("Write(%d bytes) = (%d, %v); the destination took %d bytes and failed with %v", len(p), k, err, rec.Short, tx.ErrInjected)
				}
				written += k
				break
			}
			want := ref.Mask(content[:written], key, 0)
			if got := rec.Bytes(); !bytes.Equal(got, want) {
				t.Fatalf("%s", diffMsg("bytes that reached the failing destination differ from the reference prefix", got, want))
			}
			if !bytes.Equal(caller, content) {
				t.Fatalf("CipherWriter.Write modified the caller's bytes on a failing destination")
			}
			// new destination, new key: the rest of the data from offset 0
			key2 := gen.Key(t, "key2")
			if rapid.IntRange(0, 3).Draw(t, "sameKeyAfterReset") == 0 {
				key2 = key // Reset with the identical key must still restart at offset 0
			}
			rec2 := tx.NewRec()
			cw.Reset(rec2, key2)
			if k, err := cw.Write(caller[written:]); err != nil || k != n-written {
				t.Fatalf("Write after Reset = (%d, %v)", k, err)
			}
			want2 := ref.Mask(content[written:], key2, 0)
			if got := rec2.Bytes(); !bytes.Equal(got, want2) {
				t.Fatalf("%s\nbytes transferred before Reset: %d", diffMsg("CipherWriter after a failed write + Reset does not restart at offset 0", got, want2), written)
			}
			hx.Class(fmt.Sprintf("shortwrite/rec-then-reset/transferred%%4=%d", written%4))
			if n >= 8 {
				hx.NonTrivial(hx.Hash("short-rec", n, fmt.Sprint(pieceLens(pieces)), rec.FailAt, rec.Short), func() interface{} {
					return map[string]interface{}{"api": "CipherWriter short write + Reset", "len": n, "pieces": pieceLens(pieces), "fail_at_call": rec.FailAt, "accepted": rec.Short}
				})
			}
			return
		}

		// "retry": the destination fails 1..3 calls after taking a part; the
		// caller writes the remainder of the piece again.
		dst := &flaky{Accept: map[int]int{}}
		nf := rapid.IntRange(1, 3).Draw(t, "failures")
		for i := 0; i < nf; i++ {
			dst.Accept[rapid.IntRange(0, len(pieces)+nf-1).Draw(t, "failCall")] = rapid.IntRange(0, 1<<16).Draw(t, "accept")
		}
		cw := wsutil.NewCipherWriter(dst, key)
		partial, partialMod4 := 0, 0
		for _, p := range pieces {
			for tries := 0; ; tries++ {
				if tries > nf+1 {
					t.Fatalf("destination failed more often than planned")
				}
				k, err := cw.Write(p)
				if k != dst.lastN {
					t.Fatalf("Write(%d bytes) returned n=%d, the destination took %d", len(p), k, dst.lastN)
				}
				if err == nil {
					if k != len(p) {
						t.Fatalf("Write(%d bytes) = (%d, nil)", len(p), k)
					}
					break
				}
				if err != tx.ErrInjected {
					t.Fatalf("Write returned %v, destination returned %v", err, tx.ErrInjected)
				}
				if k < len(p) {
					partial++
					if k%4 != 0 {
						partialMod4++
					}
				}
				p = p[k:]
			}
		}
		want := ref.Mask(content, key, 0)
		if !bytes.Equal(dst.data, want) {
			t.Fatalf("%s\nkey=%x pieces=%v failing calls (index:accepted)=%v", diffMsg("stream after partial writes and retries of the remainder differs from the reference", dst.data, want), key, pieceLens(pieces), dst.Accept)
		}
		if !bytes.Equal(caller, content) {
			t.Fatalf("CipherWriter.Write modified the caller's bytes")
		}
		hx.Class(fmt.Sprintf("shortwrite/retry/partial=%d/partialNotMultipleOf4=%v", min(partial, 2), partialMod4 > 0))
		if n >= 8 && partial > 0 {
			hx.NonTrivial(hx.Hash("short-retry", n, fmt.Sprint(pieceLens(pieces)), fmt.Sprint(dst.Accept)), func() interface{} {
				return map[string]interface{}{"api": "CipherWriter short write + retry", "len": n, "pieces": pieceLens(pieces), "failing_calls": fmt.Sprint(dst.Accept)}
			})
		}
	})
}
