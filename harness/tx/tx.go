// Package tx holds the in-memory transports used by the harness: a chunking /
// cutting source, a recording / failing destination, and a ReadWriter pair.
package tx

import (
	"errors"
	"io"
)

// ErrInjected is the transport error injected by fault plans.
var ErrInjected = errors.New("tx: injected transport error")

// ErrTransient is returned once by a source at each of its StallAt offsets.
var ErrTransient = errors.New("tx: transient transport error (nothing consumed)")

// ErrRunaway is returned when a source is read implausibly often: the code
// under test is looping without consuming input.
var ErrRunaway = errors.New("tx: runaway reader (too many Read calls)")

// Src serves Data in chunks. Sizes is the chunk plan (cycled; empty means
// "as much as the caller asks for"). When the data is exhausted End is returned
// (io.EOF if nil); with EOFWithData the last chunk is returned together with
// End, which io.Reader allows.
type Src struct {
	Data        []byte
	Sizes       []int
	EOFWithData bool
	End         error

	// StallAt: stream offsets at which one Read returns (0, ErrTransient) before any
	// byte at that offset is served (a read deadline firing between two frames); the
	// next Read continues normally. Chunks never run across a pending stall offset.
	StallAt map[int]bool
	Stalls  int

	// IdleAt: stream offsets at which one Read returns (0, nil) before any byte at that
	// offset is served (legal for an io.Reader, if discouraged); chunks never run across one.
	IdleAt map[int]bool
	Idles  int

	Pos      int
	Reads    int
	ZeroRead int // number of Read calls with len(p)==0
	i        int
	Runaway  bool
}

// NewSrc makes a source over a private copy of data.
func NewSrc(data []byte, sizes []int) *Src {
	return &Src{Data: append([]byte(nil), data...), Sizes: sizes}
}

func (s *Src) end() error {
	if s.End != nil {
		return s.End
	}
	return io.EOF
}

func (s *Src) Read(p []byte) (int, error) {
	s.Reads++
	if s.Reads > 64+8*len(s.Data)+1000000 {
		s.Runaway = true
		return 0, ErrRunaway
	}
	if len(p) == 0 {
		s.ZeroRead++
		return 0, nil
	}
	rem := len(s.Data) - s.Pos
	if rem == 0 {
		return 0, s.end()
	}
	if s.StallAt[s.Pos] {
		delete(s.StallAt, s.Pos)
		s.Stalls++
		return 0, ErrTransient
	}
	if s.IdleAt[s.Pos] {
		delete(s.IdleAt, s.Pos)
		s.Idles++
		return 0, nil
	}
	n := len(p)
	for off := range s.StallAt {
		if off > s.Pos && off-s.Pos < n {
			n = off - s.Pos
		}
	}
	for off := range s.IdleAt {
		if off > s.Pos && off-s.Pos < n {
			n = off - s.Pos
		}
	}
	if len(s.Sizes) > 0 {
		c := s.Sizes[s.i%len(s.Sizes)]
		s.i++
		if c > 0 && c < n {
			n = c
		}
	}
	if n > rem {
		n = rem
	}
	copy(p, s.Data[s.Pos:s.Pos+n])
	s.Pos += n
	if s.Pos == len(s.Data) && s.EOFWithData {
		return n, s.end()
	}
	return n, nil
}

// Remaining returns the bytes not yet consumed.
func (s *Src) Remaining() []byte { return s.Data[s.Pos:] }

// ByteSrc is a Src that also implements io.ByteReader.
type ByteSrc struct{ *Src }

func (b ByteSrc) ReadByte() (byte, error) {
	var p [1]byte
	for {
		n, err := b.Src.Read(p[:])
		if n == 1 {
			return p[0], nil
		}
		if err != nil {
			return 0, err
		}
	}
}

// Rec records every Write call separately (copying the bytes at call time)
// and can fail the FailAt-th call (0-based; <0 never), optionally after
// accepting Short bytes of it. After the failure every call fails.
type Rec struct {
	Calls  [][]byte
	FailAt int
	Short  int
	Err    error

	// Transient: only the FailAt-th call fails; later calls are accepted again (a destination that
	// recovers). Failed still records that the failure happened.
	Transient bool

	Failed     bool
	AfterFail  int // bytes offered after the failure
	CallsAfter int
}

func NewRec() *Rec { return &Rec{FailAt: -1} }

func (r *Rec) err() error {
	if r.Err != nil {
		return r.Err
	}
	return ErrInjected
}

func (r *Rec) Write(p []byte) (int, error) {
	if r.Failed && !r.Transient {
		r.CallsAfter++
		r.AfterFail += len(p)
		return 0, r.err()
	}
	if r.FailAt >= 0 && len(r.Calls) == r.FailAt && !r.Failed {
		r.Failed = true
		n := r.Short
		if n > len(p) {
			n = len(p)
		}
		r.Calls = append(r.Calls, append([]byte(nil), p[:n]...))
		return n, r.err()
	}
	r.Calls = append(r.Calls, append([]byte(nil), p...))
	return len(p), nil
}

// Bytes is the concatenation of everything accepted.
func (r *Rec) Bytes() []byte {
	var b []byte
	for _, c := range r.Calls {
		b = append(b, c...)
	}
	return b
}

// Len is the number of bytes accepted.
func (r *Rec) Len() int {
	n := 0
	for _, c := range r.Calls {
		n += len(c)
	}
	return n
}

// RW glues a reader and a writer into an io.ReadWriter.
type RW struct {
	io.Reader
	io.Writer
}
