package tx

import (
	"bufio"
	"bytes"
	"io"
	"net"
	"net/http"
	"time"
)

// MemAddr is the address of a MemConn.
type MemAddr string

func (a MemAddr) Network() string { return "mem" }
func (a MemAddr) String() string  { return string(a) }

// MemConn is a net.Conn over an in-memory reader and writer. Deadlines are
// recorded, not enforced (nothing in memory ever blocks).
type MemConn struct {
	R io.Reader
	W io.Writer

	Closed        bool
	DeadlineCalls int
	LastRead      time.Time
	LastWrite     time.Time
}

func (c *MemConn) Read(p []byte) (int, error) {
	if c.R == nil {
		return 0, io.EOF
	}
	return c.R.Read(p)
}

func (c *MemConn) Write(p []byte) (int, error) {
	if c.W == nil {
		return len(p), nil
	}
	return c.W.Write(p)
}

func (c *MemConn) Close() error         { c.Closed = true; return nil }
func (c *MemConn) LocalAddr() net.Addr  { return MemAddr("local") }
func (c *MemConn) RemoteAddr() net.Addr { return MemAddr("remote") }

func (c *MemConn) SetDeadline(t time.Time) error {
	c.DeadlineCalls++
	c.LastRead, c.LastWrite = t, t
	return nil
}

func (c *MemConn) SetReadDeadline(t time.Time) error {
	c.DeadlineCalls++
	c.LastRead = t
	return nil
}

func (c *MemConn) SetWriteDeadline(t time.Time) error {
	c.DeadlineCalls++
	c.LastWrite = t
	return nil
}

// Hijackable is an http.ResponseWriter that implements http.Hijacker the way
// net/http's server does: Hijack hands out the connection and a
// bufio.ReadWriter over it. What the handler writes through the
// ResponseWriter interface itself (not hijacked) is kept in Status/Body.
type Hijackable struct {
	Conn *MemConn
	RW   *bufio.ReadWriter
	Err  error // returned by Hijack if non-nil

	Hijacked bool
	Hdr      http.Header
	Status   int
	Body     bytes.Buffer
}

// NewHijackable returns a writer whose hijacked connection reads from r and
// writes to w; the bufio.Writer has the given size (0 = bufio's default).
func NewHijackable(r io.Reader, w io.Writer, wsize int) *Hijackable {
	c := &MemConn{R: r, W: w}
	var bw *bufio.Writer
	if wsize > 0 {
		bw = bufio.NewWriterSize(c, wsize)
	} else {
		bw = bufio.NewWriter(c)
	}
	return &Hijackable{Conn: c, RW: bufio.NewReadWriter(bufio.NewReader(c), bw), Hdr: http.Header{}}
}

func (h *Hijackable) Header() http.Header { return h.Hdr }

func (h *Hijackable) WriteHeader(code int) {
	if h.Status == 0 {
		h.Status = code
	}
}

func (h *Hijackable) Write(p []byte) (int, error) {
	if h.Status == 0 {
		h.Status = http.StatusOK
	}
	return h.Body.Write(p)
}

func (h *Hijackable) Hijack() (net.Conn, *bufio.ReadWriter, error) {
	if h.Err != nil {
		return nil, nil, h.Err
	}
	h.Hijacked = true
	return h.Conn, h.RW, nil
}

// PlainWriter is an http.ResponseWriter that does NOT implement
// http.Hijacker (like httptest.ResponseRecorder, an HTTP/2 writer or a
// middleware wrapper): what the handler answers is kept in Status/Hdr/Body.
type PlainWriter struct {
	Hdr                 http.Header
	Status              int
	Body                bytes.Buffer
	HeaderAtWriteHeader http.Header // snapshot of the header map when the status was written
}

// NewPlainWriter returns an empty PlainWriter.
func NewPlainWriter() *PlainWriter { return &PlainWriter{Hdr: http.Header{}} }

func (p *PlainWriter) Header() http.Header { return p.Hdr }

func (p *PlainWriter) WriteHeader(code int) {
	if p.Status == 0 {
		p.Status = code
		p.HeaderAtWriteHeader = p.Hdr.Clone()
	}
}

func (p *PlainWriter) Write(b []byte) (int, error) {
	if p.Status == 0 {
		p.WriteHeader(http.StatusOK)
	}
	return p.Body.Write(b)
}
