// C13 — a send extension that refuses a header: the writer must report it,
// never "success and nothing sent".
package c13

import (
	"errors"
	"fmt"
	"testing"

	"github.com/gobwas/ws"
	"github.com/gobwas/ws/wsflate"
	"github.com/gobwas/ws/wsutil"
	"pgregory.net/rapid"

	"verif/harness/gen"
	"verif/harness/hx"
	"verif/harness/tx"
)

var errRefused = errors.New("c13: extension refuses this header")

func TestWriterExtensionError(t *testing.T) {
	hx.Check(t, 4, func(t *rapid.T) {
		setup := genWriterSetup(t)
		setup.Rsv2Ext = 0
		rec := tx.NewRec()
		var ms wsflate.MessageState
		ms.SetCompressed(rapid.Bool().Draw(t, "compressed"))
		w := setup.build(rec, ws.OpBinary, &ms)
		failAt := rapid.IntRange(0, 3).Draw(t, "fail-at-frame") // 0: first frame, then continuations / the final frame
		calls, refused := 0, false
		failing := wsutil.SendExtensionFunc(func(h ws.Header) (ws.Header, error) {
			calls++
			if calls-1 == failAt {
				refused = true
				return h, errRefused
			}
			return h, nil
		})
		if rapid.Bool().Draw(t, "failing-first") {
			w.SetExtensions(failing, &ms)
		} else {
			w.SetExtensions(&ms, failing)
		}
		wt := &wireTracker{rec: rec, client: setup.Client}
		hx.Eval()
		var history []string
		for a := 0; a < 12; a++ {
			var what string
			var err error
			k := rapid.IntRange(0, 5).Draw(t, "action")
			if a == 11 {
				k = 5
			}
			switch k {
			case 0, 1:
				n := genLen(t, "write", w)
				if !setup.NoFlush {
					// A write that reaches Write's internal WriteThrough (empty buffer, more than fits) is
					// not driven: Write ignores that call's result and retries for ever when an extension
					// refuses the header (reported separately; outside the statement).
					max := w.Available()
					if w.Buffered() > 0 {
						max += w.Size()
					}
					if n > max {
						n = max
					}
				}
				what = fmt.Sprintf("Write(%d)", n)
				_, err = w.Write(gen.Filled(n, byte(a)))
			case 2:
				what = "FlushFragment"
				err = w.FlushFragment()
			case 3:
				n := genLen(t, "through", w)
				what = fmt.Sprintf("WriteThrough(%d)", n)
				_, err = w.WriteThrough(gen.Filled(n, byte(a)))
				if err == wsutil.ErrNotEmpty {
					err = nil
				}
			case 4:
				continue
			default:
				what = "Flush"
				err = w.Flush()
			}
			history = append(history, what)
			before := wt.off
			fs, perr := wt.take()
			if perr != nil {
				t.Fatalf("after %v: %v", history, perr)
			}
			if refused {
				hx.Class("exterr/refused-during=" + what[:len(what)-len(what[indexParen(what):])])
				if err == nil {
					t.Fatalf("%+v, history %v: the send extension refused frame %d during %s, which returned nil (%d frames / %d bytes reached the wire in this call)", setup, history, failAt, what, len(fs), wt.off-before)
				}
				hx.NonTrivial(hx.Hash("exterr", setup, failAt, fmt.Sprint(history)), func() interface{} {
					return map[string]interface{}{"test": "writer-extension-error", "setup": fmt.Sprintf("%+v", setup), "refused_frame": failAt, "history": history}
				})
				return
			}
			if err != nil {
				t.Fatalf("%+v, history %v: %s failed (%v) although no extension refused anything", setup, history, what, err)
			}
			if k == 5 {
				calls = 0 // next message: the frame counter restarts
			}
		}
		hx.Class("exterr/never-refused")
	})
}

func indexParen(s string) int {
	for i := range s {
		if s[i] == '(' {
			return i
		}
	}
	return len(s)
}
